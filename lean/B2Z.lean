import B2Z.Props.C11
