import B2Z.Props.C04
import B2Z.Props.C08
import B2Z.Props.C09
import B2Z.Props.C11
import B2Z.Props.C12
import B2Z.Props.C14
import B2Z.Props.C16
import B2Z.Props.C17
