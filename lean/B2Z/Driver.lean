import Lean.Data.Json
import B2Z.Model.Arith
/-! JSON line-protocol driver: one request object per line in, one JSON value per line out.
    Only `Model.*` (core Lean) is imported, so this also builds as a native executable. -/
open Lean

namespace B2Z.Driver

def optNat (j : Json) (k : String) : Option Nat :=
  match j.getObjVal? k with
  | .ok v => (v.getNat?).toOption
  | .error _ => none

def reqNat (j : Json) (k : String) : Except String Nat := do
  let v ← j.getObjVal? k
  v.getNat?

def pairsJson (ps : List (Nat × Nat)) : Json :=
  Json.arr (ps.map fun (a, b) => Json.arr #[Json.num a, Json.num b]).toArray

def handle (j : Json) : Except String Json := do
  let op ← (← j.getObjVal? "op").getStr?
  match op with
  | "part.encode" =>
    let n ← reqNat j "n"; let c ← reqNat j "c"; let p ← reqNat j "p"
    match B2Z.genPartitionsE n c p (optNat j "m") with
    | none => pure (Json.str "error")
    | some ps => pure (pairsJson ps)
  | "part.slices" =>
    let n ← reqNat j "n"; let c ← reqNat j "c"; let p ← reqNat j "p"
    if c = 0 ∨ min p (B2Z.numChunks n c (optNat j "m")) = 0 then pure (Json.str "error")
    else pure (pairsJson (B2Z.chunkAlignedSlices n c p (optNat j "m")))
  | _ => throw s!"unknown op {op}"

def handleLine (line : String) : String :=
  match Json.parse line with
  | .error e => (Json.mkObj [("driver_error", Json.str e)]).compress
  | .ok j =>
    match handle j with
    | .ok r => r.compress
    | .error e => (Json.mkObj [("driver_error", Json.str e)]).compress

end B2Z.Driver
