import Lean.Data.Json
import B2Z.Model.Arith
import B2Z.Model.RegionIndex
import B2Z.Model.Plink
import B2Z.Model.LocalAlleles
import B2Z.Model.Sched
import B2Z.Model.Regions
import B2Z.Model.IndexBytes
import B2Z.Model.Icf
import B2Z.Model.Pipeline
import B2Z.Model.Schema
import B2Z.Model.ExplodeProto
import B2Z.Model.IcfDamage
import B2Z.Model.EncodeProto
import B2Z.Model.Checks
import B2Z.Model.Cli
import B2Z.Model.SchemaJson
import B2Z.Model.Rows
import B2Z.Model.ChunkFile
import B2Z.Model.Split
import B2Z.Model.FixedFields
/-! JSON line-protocol driver: one request object per line in, one JSON value per line out.
    Only `Model.*` (core Lean) is imported, so this also builds as a native executable. -/
open Lean

namespace B2Z.Driver

def optNat (j : Json) (k : String) : Option Nat :=
  match j.getObjVal? k with
  | .ok v => (v.getNat?).toOption
  | .error _ => none

def reqNat (j : Json) (k : String) : Except String Nat := do
  let v ← j.getObjVal? k
  v.getNat?

def pairsJson (ps : List (Nat × Nat)) : Json :=
  Json.arr (ps.map fun (a, b) => Json.arr #[Json.num a, Json.num b]).toArray

def reqInt (j : Json) (k : String) : Except String Int := do
  let v ← j.getObjVal? k
  v.getInt?

def reqArr (j : Json) (k : String) : Except String (Array Json) := do
  let v ← j.getObjVal? k
  v.getArr?

def intList (v : Json) : Except String (List Int) := do
  let a ← v.getArr?
  a.toList.mapM (·.getInt?)

def natList (v : Json) : Except String (List Nat) := do
  let a ← v.getArr?
  a.toList.mapM (·.getNat?)

def intsJson (xs : List Int) : Json := Json.arr (xs.map fun x => Json.num (JsonNumber.fromInt x)).toArray
def natsJson (xs : List Nat) : Json := Json.arr (xs.map fun x => Json.num (JsonNumber.fromNat x)).toArray
def optJson (f : α → Json) : Option α → Json
  | none => Json.str "error"
  | some x => f x

def parseOutcome (v : Json) : Except String Sched.Outcome := do
  match v with
  | .str "ok" => pure .ok
  | .str "die" => pure .die
  | _ => let e ← v.getNat?; pure (.raise e)

def parseRes (v : Json) : Except String Sched.Res := do
  match v with
  | .str "ok" => pure .ok
  | .str "broken" => pure .broken
  | .str "cancelled" => pure .cancelled
  | _ => let e ← v.getNat?; pure (.exc e)

def verdictJson : Sched.Verdict → Json
  | .ok => Json.str "ok"
  | .runtimeError => Json.str "RuntimeError"
  | .cancelledError => Json.str "CancelledError"
  | .taskError e => Json.num e

def resJson : Sched.Res → Json
  | .ok => Json.str "ok"
  | .broken => Json.str "broken"
  | .cancelled => Json.str "cancelled"
  | .exc e => Json.num e

def hexVal (c : Char) : Nat :=
  if c.isDigit then c.toNat - 48 else if 'a' ≤ c ∧ c ≤ 'f' then c.toNat - 87 else c.toNat - 55

def bytesOfHex (s : String) : List Nat :=
  let rec go : List Char → List Nat
    | a :: b :: rest => (hexVal a * 16 + hexVal b) :: go rest
    | _ => []
  go s.toList

def hexDigit (n : Nat) : Char := if n < 10 then Char.ofNat (48 + n) else Char.ofNat (87 + n)
def hexOfBytes (bs : List Nat) : String :=
  String.mk (bs.flatMap fun b => [hexDigit (b / 16 % 16), hexDigit (b % 16)])

def countJson : Idx.Count → Json
  | .unknown => Json.str "unknown"
  | .known n => Json.num (JsonNumber.fromNat n)

def chunkJson (c : Chunk) : Json := natsJson [c.beg, c.fin]

def regJson : Regions.Reg → Json
  | .bounded c s e => Json.arr #[Json.num (JsonNumber.fromNat c), Json.num (JsonNumber.fromNat s), Json.num (JsonNumber.fromNat e)]
  | .openEnd c s => Json.arr #[Json.num (JsonNumber.fromNat c), Json.num (JsonNumber.fromNat s), Json.null]
  | .whole c => Json.arr #[Json.num (JsonNumber.fromNat c), Json.null, Json.null]

def offsJson (os : List Regions.Off) : Json :=
  Json.arr (os.map fun o => natsJson [o.off, o.contig, o.pos]).toArray

def parseChunks (v : Json) : Except String (List Chunk) := do
  let a ← v.getArr?
  a.toList.mapM fun c => do
    let l ← natList c
    pure (⟨l.getD 0 0, l.getD 1 0⟩ : Chunk)

def vJson : Fs.V → Json
  | .absent => Json.str "absent" | .torn => Json.str "torn" | .ok => Json.str "ok"

def xpObjName : XP.Obj → String
  | .root => "root" | .wipDir => "wipDir" | .header => "header" | .plan => "plan" | .final => "final"
  | .shared k => s!"shared:{k}" | .summary j => s!"summary:{j}" | .data j k => s!"data:{j}:{k}"

def xpCfg (j : Json) : Except String XP.Cfg := do
  let nParts ← reqNat j "n_parts"; let nShared ← reqNat j "n_shared"
  let seqs ← (← reqArr j "data_seq").toList.mapM fun p => do
    (← p.getArr?).toList.mapM fun e => do
      let a ← e.getArr?
      let k ← (a.getD 0 Json.null).getNat?
      let d ← (a.getD 1 Json.null).getBool?
      pure (k, d)
  let rm ← (← reqArr j "rm_order").toList.mapM fun v => match v with
    | .null => pure (none : Option Nat)
    | x => x.getNat?.map some
  pure { nParts := nParts, nShared := nShared, dataSeq := fun i => seqs.getD i [], rmOrder := rm }

def xpCmd (v : Json) : Except String (XP.Cmd × Option Nat) := do
  let c ← (← v.getObjVal? "cmd").getStr?
  let kill := optNat v "kill"
  match c with
  | "init" => pure (.init, kill)
  | "finalise" => pure (.finalise, kill)
  | "partition" => pure (.partition (← reqNat v "j"), kill)
  | _ => throw "bad cmd"

def xpAllObjs (c : XP.Cfg) : List XP.Obj :=
  [.root, .wipDir, .header, .plan, .final] ++ (List.range c.nShared).map .shared ++
  (List.range (c.nParts + 2)).map .summary ++
  (List.range (c.nParts + 1)).flatMap fun j => ((c.dataSeq j).map (·.1)).eraseDups.map fun k => .data j k

def stepJson (name : α → String) : Fs.Step α (Fs.St α) → Json
  | .set o v => Json.arr #[Json.str "set", Json.str (name o), vJson v]
  | .move ps => Json.arr #[Json.str "move", Json.arr (ps.map fun (a, b) => Json.arr #[Json.str (name a), Json.str (name b)]).toArray]
  | .check _ => Json.arr #[Json.str "check"]

def epObjName : EP.Obj → String
  | .root => "root" | .plan => "plan" | .zmeta => "zmeta"
  | .keep k => s!"keep:{k}" | .wips k => s!"wips:{k}" | .tmpl a => s!"tmpl:{a}"
  | .wdir j => s!"wdir:{j}" | .wmeta j a => s!"wmeta:{j}:{a}" | .went j a e => s!"went:{j}:{a}:{e}"
  | .pdir j => s!"pdir:{j}" | .pmeta j a => s!"pmeta:{j}:{a}" | .pent j a e => s!"pent:{j}:{a}:{e}"
  | .sdir j => s!"sdir:{j}" | .smeta j a => s!"smeta:{j}:{a}" | .sent j a e => s!"sent:{j}:{a}:{e}"
  | .aent a e => s!"aent:{a}:{e}" | .farr a => s!"farr:{a}" | .fent a e => s!"fent:{a}:{e}"
  | .ridx k => s!"ridx:{k}"

def epParseObj (s : String) : Except String EP.Obj := do
  let parts := s.splitOn ":"
  let n : Nat → Nat := fun i => ((parts.getD i "0").toNat?).getD 0
  match parts.headD "" with
  | "root" => pure .root | "plan" => pure .plan | "zmeta" => pure .zmeta
  | "keep" => pure (.keep (n 1)) | "wips" => pure (.wips (n 1)) | "tmpl" => pure (.tmpl (n 1))
  | "wdir" => pure (.wdir (n 1)) | "wmeta" => pure (.wmeta (n 1) (n 2)) | "went" => pure (.went (n 1) (n 2) (n 3))
  | "pdir" => pure (.pdir (n 1)) | "pmeta" => pure (.pmeta (n 1) (n 2)) | "pent" => pure (.pent (n 1) (n 2) (n 3))
  | "sdir" => pure (.sdir (n 1)) | "smeta" => pure (.smeta (n 1) (n 2)) | "sent" => pure (.sent (n 1) (n 2) (n 3))
  | "aent" => pure (.aent (n 1) (n 2)) | "farr" => pure (.farr (n 1)) | "fent" => pure (.fent (n 1) (n 2))
  | "ridx" => pure (.ridx (n 1))
  | x => throw s!"bad object {x}"

def parseV (v : Json) : Except String Fs.V := do
  match ← v.getStr? with
  | "ok" => pure .ok | "torn" => pure .torn | "absent" => pure .absent
  | x => throw s!"bad value {x}"

/-- ["hdr", a, v] | ["ent", a, e, v] -/
def parsePRefV (v : Json) : Except String (EP.PRef × Fs.V) := do
  let a ← v.getArr?
  match a.getD 0 Json.null with
  | .str "hdr" => pure (.hdr (← (a.getD 1 Json.null).getNat?), ← parseV (a.getD 2 Json.null))
  | .str "ent" => pure (.ent (← (a.getD 1 Json.null).getNat?) (← (a.getD 2 Json.null).getNat?), ← parseV (a.getD 3 Json.null))
  | _ => throw "bad pref"

def epCfg (j : Json) : Except String EP.Cfg := do
  let perJ : String → Except String (List (List (EP.PRef × Fs.V))) := fun key => do
    match j.getObjVal? key with
    | .ok v => (← v.getArr?).toList.mapM fun x => do (← x.getArr?).toList.mapM parsePRefV
    | .error _ => pure []
  let ents ← (← reqArr j "ents").toList.mapM fun pj => do (← pj.getArr?).toList.mapM natList
  let mv ← match j.getObjVal? "mv_order" with
    | .ok v => (← v.getArr?).toList.mapM fun pj => do (← pj.getArr?).toList.mapM natList
    | .error _ => pure []
  let initSeq ← match j.getObjVal? "init_seq" with
    | .ok v => (← v.getArr?).toList.mapM fun x => do
        let a ← x.getArr?
        let k ← (a.getD 1 Json.null).getNat?
        let vv ← parseV (a.getD 2 Json.null)
        match a.getD 0 Json.null with
        | .str "keep" => pure (EP.IRef.keep k, vv) | .str "wips" => pure (EP.IRef.wips k, vv) | .str "tmpl" => pure (EP.IRef.tmpl k, vv)
        | _ => throw "bad iref"
    | .error _ => pure []
  let rmWip ← match j.getObjVal? "rm_wip" with
    | .ok v => (← v.getArr?).toList.mapM fun x => do
        let a ← x.getArr?
        pure (← epParseObj (← (a.getD 0 Json.null).getStr?), ← parseV (a.getD 1 Json.null))
    | .error _ => pure []
  let ridx ← match j.getObjVal? "ridx_seq" with
    | .ok v => (← v.getArr?).toList.mapM fun x => do
        let a ← x.getArr?
        pure (← (a.getD 0 Json.null).getNat?, ← parseV (a.getD 1 Json.null))
    | .error _ => pure []
  let wseq ← perJ "wseq"; let rmWork ← perJ "rm_work"; let rmStale ← perJ "rm_stale"
  pure { nParts := ← reqNat j "n_parts", nArrays := ← reqNat j "n_arrays",
         ents := fun p a => (ents.getD p []).getD a [], initSeq := initSeq,
         wseq := fun p => wseq.getD p [], rmWork := fun p => rmWork.getD p [], rmStale := fun p => rmStale.getD p [],
         mvOrder := fun p a => (mv.getD p []).getD a [], rmWip := rmWip, ridxSeq := ridx }

instance : Inhabited SchemaJson.J := ⟨.null⟩

partial def toJ : Json → SchemaJson.J
  | .null => .null
  | .bool b => .bool b
  | .num n => .num n.mantissa      -- the schema holds integers only (exponent 0)
  | .str s => .str s
  | .arr a => .arr (a.toList.map toJ)
  | .obj kv =>
    -- Lean's Json objects are key-sorted; the codec config lists its `id` first
    let l := kv.toList.map fun (k, v) => (k, toJ v)
    .obj ((l.filter fun p => p.1 == "id") ++ (l.filter fun p => p.1 != "id"))

partial def ofJ : SchemaJson.J → Json
  | .null => .null
  | .bool b => .bool b
  | .num n => .num (JsonNumber.fromInt n)
  | .str s => .str s
  | .arr l => .arr (l.map ofJ).toArray
  | .obj kv => Json.mkObj (kv.map fun (k, v) => (k, ofJ v))

def handle (j : Json) : Except String Json := do
  let op ← (← j.getObjVal? "op").getStr?
  match op with
  | "part.encode" =>
    let n ← reqNat j "n"; let c ← reqNat j "c"; let p ← reqNat j "p"
    match B2Z.genPartitionsE n c p (optNat j "m") with
    | none => pure (Json.str "error")
    | some ps => pure (pairsJson ps)
  | "part.slices" =>
    let n ← reqNat j "n"; let c ← reqNat j "c"; let p ← reqNat j "p"
    if c = 0 ∨ min p (B2Z.numChunks n c (optNat j "m")) = 0 then pure (Json.str "error")
    else pure (pairsJson (B2Z.chunkAlignedSlices n c p (optNat j "m")))
  | "ridx.index" =>
    let bits ← reqNat j "bits"; let cs ← reqNat j "cs"
    let recs ← (← reqArr j "recs").toList.mapM fun r => do
      let l ← intList r
      pure ({ contig := l.getD 0 0, pos := l.getD 1 0, len := l.getD 2 0 } : RIdx.Rec)
    let rows := RIdx.regionIndexI32 bits cs recs
    pure (Json.arr (rows.map fun r => intsJson [r.chunk, r.contig, r.first, r.last, r.maxEnd, r.count]).toArray)
  | "bed.encode" =>
    let pad ← reqNat j "pad"
    let rows ← (← reqArr j "rows").toList.mapM natList
    pure (Json.arr (rows.map fun r => natsJson (Plink.encodeRow pad (r.map Plink.G.ofCode))).toArray)
  | "bed.decode" =>
    let n ← reqNat j "n"
    let rows ← (← reqArr j "rows").toList.mapM natList
    pure (Json.arr (rows.map fun r => natsJson ((Plink.decodeRow n r).map Plink.G.code)).toArray)
  | "plink.convert" =>
    -- rows: per variant the list of 2-bit codes; order: list of [start, stop] slices as executed
    let cs ← reqNat j "cs"
    let rows ← (← reqArr j "rows").toList.mapM natList
    let order ← (← reqArr j "order").toList.mapM fun v => do
      let l ← natList v; pure (l.getD 0 0, l.getD 1 0)
    let arr := Plink.convert cs (rows.map fun r => r.map Plink.G.ofCode) order
    let out := (List.range rows.length).map fun i =>
      match arr i with
      | none => Json.null
      | some r => Json.mkObj [
          ("gt", Json.arr (r.gt.map fun (a, b) => intsJson [a, b]).toArray),
          ("mask", Json.arr (r.mask.map fun (a, b) => Json.arr #[Json.bool a, Json.bool b]).toArray),
          ("phased", Json.arr (r.phased.map Json.bool).toArray)]
    pure (Json.arr out.toArray)
  | "la.laa" =>
    let alt ← reqNat j "alt"
    let gts ← (← reqArr j "gts").toList.mapM intList
    pure (Json.arr ((LA.laaField alt gts).map intsJson).toArray)
  | "la.lpl" =>
    -- per sample: laa row and pl row (VCF-missing already -1); "pl": null means PL absent on the record
    let ploidy ← reqNat j "ploidy"
    let laa ← (← reqArr j "laa").toList.mapM intList
    match j.getObjVal? "pl" with
    | .ok (.arr pls) =>
      let pls ← pls.toList.mapM intList
      let rows := (laa.zip pls).map fun (l, p) => LA.lplRow ploidy l p
      if ploidy ≠ 1 ∧ ploidy ≠ 2 then pure (Json.str "error")
      else if rows.any Option.isNone then pure (Json.str "error")
      else pure (Json.arr (rows.map fun r => intsJson (r.getD [])).toArray)
    | _ =>
      match LA.lplWidth ploidy ((laa.headD []).length) with
      | none => pure (Json.str "error")
      | some w => pure (Json.arr (laa.map fun _ => intsJson (List.replicate w LA.MISSING)).toArray)
  | "sched.wait" =>
    let evs ← (← reqArr j "events").toList.mapM parseRes
    let body := optNat j "body"
    let r := Sched.waitOnFutures evs
    pure (Json.mkObj [("verdict", verdictJson (Sched.managerExit body evs)), ("consumed", Json.num r.2)])
  | "sched.exit_steps" =>
    let b := (optNat j "body_raised").getD 0 != 0
    let w := (optNat j "wait_raises").getD 0 != 0
    let steps := Sched.exitSteps true b w
    pure (Json.mkObj [("joins_progress", Json.bool (steps.contains .joinProgress)),
                      ("reads_progress", Json.bool (steps.contains .readProgress)),
                      ("closes_bar", Json.bool (steps.contains .closeBar)),
                      ("sets_completed", Json.bool (steps.contains .setCompleted))])
  | "sched.command" =>
    let outs ← (← reqArr j "outcomes").toList.mapM parseOutcome
    let w ← reqNat j "w"
    let sched ← natList (← j.getObjVal? "sched")
    let out : Nat → Sched.Outcome := fun t => outs.getD t .ok
    let evs := Sched.poolRun out outs.length w sched
    pure (Json.mkObj [("verdict", verdictJson (Sched.command out outs.length w sched)),
      ("events", Json.arr (evs.map fun (t, r) => Json.arr #[Json.num t, resJson r]).toArray)])
  | "csi.parse" =>
    let hex ← (← j.getObjVal? "hex").getStr?
    match Idx.parseCsi (bytesOfHex hex) with
    | .error e => pure (Json.mkObj [("error", Json.str e)])
    | .ok x => pure (Json.mkObj [
        ("min_shift", Json.num (JsonNumber.fromInt x.minShift)), ("depth", Json.num (JsonNumber.fromInt x.depth)),
        ("aux", Json.str (hexOfBytes x.aux)),
        ("bins", Json.arr (x.bins.map fun bs => Json.arr (bs.map fun b =>
            Json.arr #[Json.num (JsonNumber.fromNat b.bin), Json.num (JsonNumber.fromNat b.loffset), Json.arr (b.chunks.map chunkJson).toArray]).toArray).toArray),
        ("record_counts", Json.arr (x.counts.map countJson).toArray),
        ("n_no_coor", Json.num (JsonNumber.fromNat x.nNoCoor)),
        ("seq_names", Json.arr ((Idx.csiSeqNames x.aux).map fun n => Json.str (hexOfBytes n)).toArray)])
  | "tbi.parse" =>
    let hex ← (← j.getObjVal? "hex").getStr?
    match Idx.parseTbx (bytesOfHex hex) with
    | .error e => pure (Json.mkObj [("error", Json.str e)])
    | .ok x => pure (Json.mkObj [
        ("header", intsJson x.header), ("names", Json.arr ((Idx.splitNames x.names).map fun n => Json.str (hexOfBytes n)).toArray),
        ("bins", Json.arr (x.bins.map fun bs => Json.arr (bs.map fun b =>
            Json.arr #[Json.num (JsonNumber.fromNat b.bin), Json.arr (b.chunks.map chunkJson).toArray]).toArray).toArray),
        ("linear", Json.arr (x.linear.map natsJson).toArray),
        ("record_counts", Json.arr (x.counts.map countJson).toArray),
        ("n_no_coor", Json.num (JsonNumber.fromNat x.nNoCoor))])
  | "csi.encode" =>
    let ms ← reqInt j "min_shift"; let depth ← reqInt j "depth"
    let aux ← (← j.getObjVal? "aux").getStr?
    let bins ← (← reqArr j "bins").toList.mapM fun ref => do
      (← ref.getArr?).toList.mapM fun b => do
        let a ← b.getArr?
        let bin ← (a.getD 0 Json.null).getNat?
        let lo ← (a.getD 1 Json.null).getNat?
        let cs ← parseChunks (a.getD 2 Json.null)
        pure (⟨bin, lo, cs⟩ : Idx.CsiBin)
    pure (Json.str (hexOfBytes (Idx.encodeCsi ms depth (bytesOfHex aux) bins (optNat j "tail"))))
  | "tbi.encode" =>
    let hdr6 ← intList (← j.getObjVal? "hdr6")
    let names ← (← j.getObjVal? "names").getStr?
    let refs ← (← reqArr j "refs").toList.mapM fun ref => do
      let a ← ref.getArr?
      let bins ← (← (a.getD 0 Json.null).getArr?).toList.mapM fun b => do
        let ba ← b.getArr?
        let bin ← (ba.getD 0 Json.null).getNat?
        let cs ← parseChunks (ba.getD 1 Json.null)
        pure (⟨bin, cs⟩ : Idx.TbxBin)
      let lin ← natList (a.getD 1 Json.null)
      pure (bins, lin)
    pure (Json.str (hexOfBytes (Idx.encodeTbx hdr6 (bytesOfHex names) refs (optNat j "tail"))))
  | "bin.arith" =>
    let ms ← reqNat j "min_shift"; let depth ← reqNat j "depth"; let bin ← reqNat j "bin"
    pure (natsJson [Regions.firstBinInLevel (depth + 1), Regions.levelForBin depth bin, Regions.firstLocus ms depth bin])
  | "regions.offsets_tbi" =>
    let lin ← (← reqArr j "linear").toList.mapM natList
    pure (offsJson (Regions.offsetsTbi 16384 lin))
  | "regions.offsets_csi" =>
    let ms ← reqNat j "min_shift"; let depth ← reqNat j "depth"
    let tie := (j.getObjVal? "tie").toOption.bind (·.getBool?.toOption) |>.getD true
    let bins ← (← reqArr j "bins").toList.mapM fun ref => do
      (← ref.getArr?).toList.mapM fun b => do
        let l ← natList b
        pure (⟨l.getD 0 0, l.getD 1 0⟩ : Regions.Bin)
    pure (offsJson (Regions.offsetsCsi tie ms depth bins))
  | "regions.partition" =>
    let recs ← (← reqArr j "recs").toList.mapM fun r => do
      let l ← natList r; pure (⟨l.getD 0 0, l.getD 1 0⟩ : Regions.Rec)
    let offs ← (← reqArr j "offs").toList.mapM fun r => do
      let l ← natList r; pure (⟨l.getD 0 0, l.getD 1 0, l.getD 2 0⟩ : Regions.Off)
    let fileLen ← reqNat j "file_len"; let nContigs ← reqNat j "n_contigs"
    let has ← (← reqArr j "has_recs").toList.mapM (·.getBool?)
    let raw := (j.getObjVal? "raw").toOption.bind (·.getBool?.toOption) |>.getD false
    let hasRecs : Nat → Bool := fun c => has.getD c false
    let r := if raw then Regions.partitionRaw offs fileLen (optNat j "num_parts") (optNat j "target_size") nContigs hasRecs
             else Regions.partition recs offs fileLen (optNat j "num_parts") (optNat j "target_size") nContigs hasRecs
    pure (optJson (fun gs => Json.arr (gs.map regJson).toArray) r)
  | "icf.write" =>
    -- parts: per partition the list of getsizeof values; the appended values are 0,1,2,… globally
    let maxBytes ← reqNat j "max_bytes"
    let parts ← (← reqArr j "parts").toList.mapM natList
    let store := B2Z.writeStore maxBytes (parts.map fun p => p.zipIdx.map fun (sz, i) => (i, sz))
    pure (Json.arr (store.map fun p => natsJson p.chunkIndex).toArray)
  | "icf.iter" =>
    -- parts: per partition the list of chunk lengths; values are 0,1,2,… globally
    let parts ← (← reqArr j "parts").toList.mapM natList
    let a ← reqNat j "a"; let b ← reqNat j "b"
    let (store, _) := parts.foldl (fun (acc : List (B2Z.Part Nat) × Nat) (lens : List Nat) =>
      let (chunks, n) := lens.foldl (fun (c : List (List Nat) × Nat) (l : Nat) => (c.1 ++ [List.range' c.2 l], c.2 + l)) ([], acc.2)
      (acc.1 ++ [({ chunks := chunks } : B2Z.Part Nat)], n)) ([], 0)
    pure (natsJson (B2Z.iterValues store a b))
  | "icf.summary" =>
    let minInt ← reqInt j "min_int"
    let parts ← (← reqArr j "parts").toList.mapM fun p => do
      (← p.getArr?).toList.mapM fun v => do
        match v with
        | .null => pure (none : B2Z.IVal)
        | _ =>
          let a ← v.getArr?
          let xs ← intList (a.getD 0 Json.null)
          let n ← (a.getD 1 Json.null).getNat?
          pure (some (xs, n))
    let s := B2Z.storeSummary minInt parts
    let o : Option Int → Json := fun x => match x with | none => Json.null | some v => Json.num (JsonNumber.fromInt v)
    pure (Json.mkObj [("max_number", Json.num (JsonNumber.fromNat s.maxNumber)), ("min_value", o s.minV), ("max_value", o s.maxV)])
  | "pipe.run" =>
    let vals ← intList (← j.getObjVal? "vals")
    let eparts ← natList (← j.getObjVal? "explode_parts")
    let sizes ← natList (← j.getObjVal? "sizes")
    let maxBytes ← reqNat j "max_bytes"; let chunk ← reqNat j "chunk"; let encp ← reqNat j "encode_parts"
    let cfg : Pipe.Cfg := { explodeParts := eparts, sizes := fun i => sizes.getD i 0, maxBytes := maxBytes,
                            chunk := chunk, encodeParts := encp, maxChunks := optNat j "max_chunks" }
    match B2Z.genPartitionsE vals.length chunk encp (optNat j "max_chunks") with
    | none => pure (Json.str "error")
    | some ps =>
      let arr := Pipe.pipeline cfg (fun x => x) vals ps.reverse
      pure (Json.arr ((List.range vals.length).map fun i =>
        match arr i with | none => Json.null | some v => Json.num (JsonNumber.fromInt v)).toArray)
  | "schema.generate" =>
    let optInt : Json → Option Int := fun v => match v with | .null => none | x => x.getInt?.toOption
    let fields ← (← reqArr j "fields").toList.mapM fun f => do
      pure ({ category := ← (← f.getObjVal? "category").getStr?, name := ← (← f.getObjVal? "name").getStr?,
              number := ← (← f.getObjVal? "number").getStr?, type := ← (← f.getObjVal? "type").getStr?,
              maxNumber := ← (← f.getObjVal? "max_number").getNat?,
              minV := optInt ((f.getObjVal? "min").toOption.getD Json.null),
              maxV := optInt ((f.getObjVal? "max").toOption.getD Json.null) } : Schema.Field)
    let m ← reqNat j "num_records"; let n ← reqNat j "num_samples"
    let nc ← reqNat j "num_contigs"; let nf ← reqNat j "num_filters"
    let vcs ← reqNat j "variants_chunk_size"; let scs ← reqNat j "samples_chunk_size"
    let repair := (j.getObjVal? "repair").toOption.bind (·.getBool?.toOption) |>.getD true
    match Schema.generate repair fields m n nc nf vcs scs with
    | none => pure (Json.str "error")
    | some specs => pure (Json.arr (specs.map fun s => Json.mkObj [
        ("name", Json.str s.name), ("dtype", Json.str s.dtype), ("shape", natsJson s.shape), ("chunks", natsJson s.chunks),
        ("dimensions", Json.arr (s.dims.map fun d => Json.str d.render).toArray)]).toArray)
  | "schema.introw" =>
    let dt ← (← j.getObjVal? "dtype").getStr?
    let w ← reqNat j "w"
    let v : Option (List Int) ← match j.getObjVal? "value" with
      | .ok .null => pure none
      | .ok x => (intList x).map some
      | .error _ => pure none
    pure (optJson intsJson (Schema.intRow dt w v))
  | "chunk.read" =>
    -- framing check of read_chunk; the decompressor is replaced by one that accepts everything
    let buff ← natList (← j.getObjVal? "buff")
    let r := ChunkFile.readChunk (fun _ _ => some ()) [] buff
    pure (Json.mkObj [("accept", Json.bool r.isSome), ("declared", Json.num (ChunkFile.declared buff))])
  | "split.store" =>
    -- pieces: list of lists of [contig, pos, tag]; the store's record order (tags)
    let pieces ← (← reqArr j "pieces").toList.mapM fun pj => do
      (← pj.getArr?).toList.mapM fun r => do
        let l ← natList r
        pure (⟨l.getD 0 0, l.getD 1 0, l.getD 2 0⟩ : Split.Rec)
    pure (Json.mkObj [("tags", natsJson ((Split.storeRecords pieces).map (·.tag)))])
  | "dmg.read" =>
    let parts ← (← reqArr j "parts").toList.mapM natList
    let a ← reqNat j "a"; let b ← reqNat j "b"
    let (store, _) := parts.foldl (fun (acc : List (B2Z.Part Nat) × Nat) (lens : List Nat) =>
      let (chunks, n) := lens.foldl (fun (c : List (List Nat) × Nat) (l : Nat) => (c.1 ++ [List.range' c.2 l], c.2 + l)) ([], acc.2)
      (acc.1 ++ [({ chunks := chunks } : B2Z.Part Nat)], n)) ([], 0)
    pure (Json.mkObj [("chunks", Json.arr ((Dmg.chunksRead store a b).map fun (p, k) => natsJson [p, k]).toArray),
                      ("indexes", natsJson (Dmg.indexesRead store a b))])
  | "ep.step" =>
    let c ← epCfg j
    let stObj ← j.getObjVal? "state"
    let pairs ← match stObj with
      | .obj kv => kv.toList.mapM fun (k, v) => do pure (← epParseObj k, ← parseV v)
      | _ => throw "state must be an object"
    let s0 : EP.S := fun o => ((pairs.find? fun p => p.1 = o).map (·.2)).getD .absent
    let cmd ← (← j.getObjVal? "cmd").getStr?
    let kill := optNat j "kill"
    let cm : EP.Cmd ← match cmd with
      | "init" => pure .init | "finalise" => pure .finalise
      | "partition" => pure (.partition (← reqNat j "j"))
      | _ => throw "bad cmd"
    let prog := EP.prog c s0 cm
    let o := EP.step c s0 cm kill
    let full := EP.step c s0 cm none
    -- objects that can be non-absent: those of the old state plus every object the program mentions
    let mentioned : List EP.Obj := prog.flatMap fun st => match st with
      | .set ob _ => [ob] | .move ps => ps.flatMap fun (a, b) => [a, b] | .check _ => []
    let objs := ((pairs.map (·.1)) ++ mentioned).eraseDups
    let state := objs.filterMap fun ob => if o.st ob = .absent then none else some (epObjName ob, vJson (o.st ob))
    pure (Json.mkObj [("error", Json.bool o.error), ("muts", Json.num (JsonNumber.fromNat o.muts)),
      ("total_muts", Json.num (JsonNumber.fromNat full.muts)), ("full_error", Json.bool full.error),
      ("state", Json.mkObj state), ("finished", Json.bool (EP.finished o.st)),
      ("prog", Json.arr ((prog.filter fun st => match st with | .check _ => false | _ => true).map (stepJson epObjName)).toArray)])
  | "checks.accepts" =>
    let ps ← (← reqArr j "parts").toList.mapM fun v => do
      let l ← natList v
      pure (⟨l.getD 0 0, l.getD 1 0, l.getD 2 0⟩ : Checks.Part)
    pure (Json.mkObj [("accepts", Json.bool (Checks.accepts ps)),
      ("sorted", Json.arr ((Checks.sortParts ps).map fun p => natsJson [p.contig, p.start, p.stop]).toArray)])
  | "checks.names" =>
    let strs : String → Except String (List String) := fun k => do
      (← reqArr j k).toList.mapM (·.getStr?)
    pure (Json.bool (Checks.namesOk (← strs "clobber_info") (← strs "clobber_format") (← strs "fixed") (← strs "info") (← strs "format")))
  | "cli.documented" =>
    pure (Json.arr (Cli.documented.map fun c => Json.mkObj [
      ("command", Json.str c.command), ("func", Json.str c.func), ("args", Json.arr (c.args.map Json.str).toArray),
      ("kwargs", Json.arr (c.kwargs.map fun (k, v, x) => Json.arr #[Json.str k, Json.str v,
          Json.str (match x with | .id => "id" | .compressor => "compressor")]).toArray)]).toArray)
  | "cli.partition" =>
    let k ← reqInt j "k"; let n ← reqNat j "n"
    let ob ← (← j.getObjVal? "one_based").getBool?
    let idx := Cli.partitionIndex k ob
    pure (Json.mkObj [("index", Json.num (JsonNumber.fromInt idx)), ("accepted", Json.bool (Cli.accepted n idx))])
  | "cli.guard" =>
    let e ← (← j.getObjVal? "exists").getBool?; let f ← (← j.getObjVal? "force").getBool?; let c ← (← j.getObjVal? "confirm").getBool?
    pure (Json.str (match Cli.overwriteGuard e f c with | .proceed => "proceed" | .abort => "abort" | .replace => "replace"))
  | "schema.json_roundtrip" =>
    -- the real schema document, key order preserved by the caller as a list of [key, value] pairs is not needed:
    -- the model looks keys up by name
    let doc ← j.getObjVal? "doc"
    let expected ← (← j.getObjVal? "expected_version").getStr?
    match SchemaJson.Schema.ofJ expected (toJ doc) with
    | .error e => pure (Json.mkObj [("error", Json.str e)])
    | .ok sch => pure (Json.mkObj [("doc", ofJ sch.toJ), ("n_fields", Json.num (JsonNumber.fromNat sch.fields.length))])
  | "rows.float1d" =>
    let w ← reqNat j "w"
    let v : Option (List Nat) ← match j.getObjVal? "value" with
      | .ok .null => pure none
      | .ok x => (natList x).map some
      | .error _ => pure none
    pure (optJson natsJson (Rows.floatRow1d w v))
  | "rows.float2d" =>
    let w ← reqNat j "w"; let n ← reqNat j "samples"
    let v : Option (List (List Nat)) ← match j.getObjVal? "value" with
      | .ok .null => pure none
      | .ok x => do let a ← x.getArr?; (a.toList.mapM natList).map some
      | .error _ => pure none
    pure (optJson (fun rows => Json.arr (rows.map natsJson).toArray) (Rows.floatRow2d w v n))
  | "rows.str1d" =>
    let w ← reqNat j "w"
    let v : Option (List String) ← match j.getObjVal? "value" with
      | .ok .null => pure none
      | .ok x => do let a ← x.getArr?; (a.toList.mapM (fun (e : Json) => e.getStr?)).map some
      | .error _ => pure none
    pure (optJson (fun r => Json.arr (r.map Json.str).toArray) (Rows.strRow1d w v))
  | "fixed.alleles" =>
    let w ← reqNat j "w"
    let ref ← (← j.getObjVal? "ref").getStr?
    let alt ← (← reqArr j "alt").toList.mapM (fun (e : Json) => e.getStr?)
    pure (optJson (fun r => Json.arr (r.map Json.str).toArray) (Fixed.allelesRow w ref alt))
  | "fixed.id" =>
    let v : Option String ← match j.getObjVal? "id" with
      | .ok .null => pure none
      | .ok x => x.getStr?.map some
      | .error _ => pure none
    let r := Fixed.idCell v
    pure (Json.arr #[Json.str r.1, Json.bool r.2])
  | "fixed.filters" =>
    let d ← (← reqArr j "declared").toList.mapM (fun (e : Json) => e.getStr?)
    let pr ← (← reqArr j "present").toList.mapM (fun (e : Json) => e.getStr?)
    pure (optJson (fun r => Json.arr (r.map Json.bool).toArray) (Fixed.filterRow d pr))
  | "fixed.contig" =>
    let d ← (← reqArr j "declared").toList.mapM (fun (e : Json) => e.getStr?)
    let c ← (← j.getObjVal? "chrom").getStr?
    pure (optJson (fun n => Json.num (JsonNumber.fromNat n)) (Fixed.contigCell d c))
  | "fixed.gt" =>
    let w ← reqNat j "w"; let n ← reqNat j "samples"
    let v : Option (List (List Int)) ← match j.getObjVal? "value" with
      | .ok .null => pure none
      | .ok x => do let a ← x.getArr?; (a.toList.mapM intList).map some
      | .error _ => pure none
    match Fixed.gtRow w n v with
    | none => pure (Json.str "error")
    | some gt => pure (Json.mkObj [("gt", Json.arr (gt.map intsJson).toArray),
        ("phased", Json.arr ((Fixed.phasedRow n v).map Json.bool).toArray),
        ("mask", Json.arr ((Fixed.maskRow gt).map fun r => Json.arr (r.map Json.bool).toArray).toArray)])
  | "xp.hist" =>
    let c ← xpCfg j
    let hist ← (← reqArr j "history").toList.mapM xpCmd
    let (st, outs) := hist.foldl (fun (acc : XP.S × List Json) (h : XP.Cmd × Option Nat) =>
      let prog := XP.prog c acc.1 h.1
      let o := XP.step c acc.1 h.1 h.2
      let full := XP.step c acc.1 h.1 none
      (o.st, acc.2 ++ [Json.mkObj [("error", Json.bool o.error), ("muts", Json.num (JsonNumber.fromNat o.muts)),
        ("total_muts", Json.num (JsonNumber.fromNat full.muts)),
        ("prog", Json.arr ((prog.filter fun s => match s with | .check _ => false | _ => true).map (stepJson xpObjName)).toArray)]]))
      (Fs.empty, [])
    let state := (xpAllObjs c).filterMap fun o => if st o = .absent then none else some (xpObjName o, vJson (st o))
    pure (Json.mkObj [("steps", Json.arr outs.toArray), ("state", Json.mkObj state), ("loads", Json.bool (XP.loads st))])
  | _ => throw s!"unknown op {op}"

def handleLine (line : String) : String :=
  match Json.parse line with
  | .error e => (Json.mkObj [("driver_error", Json.str e)]).compress
  | .ok j =>
    match handle j with
    | .ok r => r.compress
    | .error e => (Json.mkObj [("driver_error", Json.str e)]).compress

end B2Z.Driver
