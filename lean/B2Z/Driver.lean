import Lean.Data.Json
import B2Z.Model.Arith
import B2Z.Model.RegionIndex
import B2Z.Model.Plink
import B2Z.Model.LocalAlleles
import B2Z.Model.Sched
/-! JSON line-protocol driver: one request object per line in, one JSON value per line out.
    Only `Model.*` (core Lean) is imported, so this also builds as a native executable. -/
open Lean

namespace B2Z.Driver

def optNat (j : Json) (k : String) : Option Nat :=
  match j.getObjVal? k with
  | .ok v => (v.getNat?).toOption
  | .error _ => none

def reqNat (j : Json) (k : String) : Except String Nat := do
  let v ← j.getObjVal? k
  v.getNat?

def pairsJson (ps : List (Nat × Nat)) : Json :=
  Json.arr (ps.map fun (a, b) => Json.arr #[Json.num a, Json.num b]).toArray

def reqInt (j : Json) (k : String) : Except String Int := do
  let v ← j.getObjVal? k
  v.getInt?

def reqArr (j : Json) (k : String) : Except String (Array Json) := do
  let v ← j.getObjVal? k
  v.getArr?

def intList (v : Json) : Except String (List Int) := do
  let a ← v.getArr?
  a.toList.mapM (·.getInt?)

def natList (v : Json) : Except String (List Nat) := do
  let a ← v.getArr?
  a.toList.mapM (·.getNat?)

def intsJson (xs : List Int) : Json := Json.arr (xs.map fun x => Json.num (JsonNumber.fromInt x)).toArray
def natsJson (xs : List Nat) : Json := Json.arr (xs.map fun x => Json.num (JsonNumber.fromNat x)).toArray
def optJson (f : α → Json) : Option α → Json
  | none => Json.str "error"
  | some x => f x

def parseOutcome (v : Json) : Except String Sched.Outcome := do
  match v with
  | .str "ok" => pure .ok
  | .str "die" => pure .die
  | _ => let e ← v.getNat?; pure (.raise e)

def parseRes (v : Json) : Except String Sched.Res := do
  match v with
  | .str "ok" => pure .ok
  | .str "broken" => pure .broken
  | .str "cancelled" => pure .cancelled
  | _ => let e ← v.getNat?; pure (.exc e)

def verdictJson : Sched.Verdict → Json
  | .ok => Json.str "ok"
  | .runtimeError => Json.str "RuntimeError"
  | .cancelledError => Json.str "CancelledError"
  | .taskError e => Json.num e

def resJson : Sched.Res → Json
  | .ok => Json.str "ok"
  | .broken => Json.str "broken"
  | .cancelled => Json.str "cancelled"
  | .exc e => Json.num e

def handle (j : Json) : Except String Json := do
  let op ← (← j.getObjVal? "op").getStr?
  match op with
  | "part.encode" =>
    let n ← reqNat j "n"; let c ← reqNat j "c"; let p ← reqNat j "p"
    match B2Z.genPartitionsE n c p (optNat j "m") with
    | none => pure (Json.str "error")
    | some ps => pure (pairsJson ps)
  | "part.slices" =>
    let n ← reqNat j "n"; let c ← reqNat j "c"; let p ← reqNat j "p"
    if c = 0 ∨ min p (B2Z.numChunks n c (optNat j "m")) = 0 then pure (Json.str "error")
    else pure (pairsJson (B2Z.chunkAlignedSlices n c p (optNat j "m")))
  | "ridx.index" =>
    let bits ← reqNat j "bits"; let cs ← reqNat j "cs"
    let recs ← (← reqArr j "recs").toList.mapM fun r => do
      let l ← intList r
      pure ({ contig := l.getD 0 0, pos := l.getD 1 0, len := l.getD 2 0 } : RIdx.Rec)
    let rows := RIdx.regionIndexI32 bits cs recs
    pure (Json.arr (rows.map fun r => intsJson [r.chunk, r.contig, r.first, r.last, r.maxEnd, r.count]).toArray)
  | "bed.encode" =>
    let pad ← reqNat j "pad"
    let rows ← (← reqArr j "rows").toList.mapM natList
    pure (Json.arr (rows.map fun r => natsJson (Plink.encodeRow pad (r.map Plink.G.ofCode))).toArray)
  | "bed.decode" =>
    let n ← reqNat j "n"
    let rows ← (← reqArr j "rows").toList.mapM natList
    pure (Json.arr (rows.map fun r => natsJson ((Plink.decodeRow n r).map Plink.G.code)).toArray)
  | "plink.convert" =>
    -- rows: per variant the list of 2-bit codes; order: list of [start, stop] slices as executed
    let cs ← reqNat j "cs"
    let rows ← (← reqArr j "rows").toList.mapM natList
    let order ← (← reqArr j "order").toList.mapM fun v => do
      let l ← natList v; pure (l.getD 0 0, l.getD 1 0)
    let arr := Plink.convert cs (rows.map fun r => r.map Plink.G.ofCode) order
    let out := (List.range rows.length).map fun i =>
      match arr i with
      | none => Json.null
      | some r => Json.mkObj [
          ("gt", Json.arr (r.gt.map fun (a, b) => intsJson [a, b]).toArray),
          ("mask", Json.arr (r.mask.map fun (a, b) => Json.arr #[Json.bool a, Json.bool b]).toArray),
          ("phased", Json.arr (r.phased.map Json.bool).toArray)]
    pure (Json.arr out.toArray)
  | "la.laa" =>
    let alt ← reqNat j "alt"
    let gts ← (← reqArr j "gts").toList.mapM intList
    pure (Json.arr ((LA.laaField alt gts).map intsJson).toArray)
  | "la.lpl" =>
    -- per sample: laa row and pl row (VCF-missing already -1); "pl": null means PL absent on the record
    let ploidy ← reqNat j "ploidy"
    let laa ← (← reqArr j "laa").toList.mapM intList
    match j.getObjVal? "pl" with
    | .ok (.arr pls) =>
      let pls ← pls.toList.mapM intList
      let rows := (laa.zip pls).map fun (l, p) => LA.lplRow ploidy l p
      if ploidy ≠ 1 ∧ ploidy ≠ 2 then pure (Json.str "error")
      else if rows.any Option.isNone then pure (Json.str "error")
      else pure (Json.arr (rows.map fun r => intsJson (r.getD [])).toArray)
    | _ =>
      match LA.lplWidth ploidy ((laa.headD []).length) with
      | none => pure (Json.str "error")
      | some w => pure (Json.arr (laa.map fun _ => intsJson (List.replicate w LA.MISSING)).toArray)
  | "sched.wait" =>
    let evs ← (← reqArr j "events").toList.mapM parseRes
    let body := optNat j "body"
    let r := Sched.waitOnFutures evs
    pure (Json.mkObj [("verdict", verdictJson (Sched.managerExit body evs)), ("consumed", Json.num r.2)])
  | "sched.command" =>
    let outs ← (← reqArr j "outcomes").toList.mapM parseOutcome
    let w ← reqNat j "w"
    let sched ← natList (← j.getObjVal? "sched")
    let out : Nat → Sched.Outcome := fun t => outs.getD t .ok
    let evs := Sched.poolRun out outs.length w sched
    pure (Json.mkObj [("verdict", verdictJson (Sched.command out outs.length w sched)),
      ("events", Json.arr (evs.map fun (t, r) => Json.arr #[Json.num t, resJson r]).toArray)])
  | _ => throw s!"unknown op {op}"

def handleLine (line : String) : String :=
  match Json.parse line with
  | .error e => (Json.mkObj [("driver_error", Json.str e)]).compress
  | .ok j =>
    match handle j with
    | .ok r => r.compress
    | .error e => (Json.mkObj [("driver_error", Json.str e)]).compress

end B2Z.Driver
