namespace B2Z.Proto

inductive FS | absent | torn | ok
  deriving DecidableEq, Repr

inductive Obj
  | root | wipMeta | header | finalMeta
  | summary (j : Nat)
  | data (j k : Nat)
  deriving DecidableEq, Repr

abbrev St := Obj → FS

def upd (s : St) (o : Obj) (v : FS) : St := fun o' => if o' = o then v else s o'

abbrev Op := Obj × FS

def step (s : St) (op : Op) : St := upd s op.1 op.2
def run (s : St) (ops : List Op) : St := ops.foldl step s

structure Cfg where
  nParts : Nat
  dataObjs : Nat → List Nat      -- object ids of partition j (chunks, chunk indexes, dirs)

inductive Cmd
  | init
  | partition (j : Nat)
  | finalise (rmOrder : List Nat)   -- order in which rmtree removes the summaries

def writeOps (o : Obj) : List Op := [(o, .torn), (o, .ok)]

def partitionOps (c : Cfg) (j : Nat) : List Op :=
  [(Obj.summary j, FS.absent)] ++
  (c.dataObjs j).flatMap (fun k => writeOps (Obj.data j k)) ++
  writeOps (Obj.summary j)

def finaliseOps (rmOrder : List Nat) : List Op :=
  writeOps Obj.finalMeta ++ rmOrder.map (fun j => (Obj.summary j, FS.absent)) ++ [(Obj.wipMeta, FS.absent)]

def initOps : List Op :=
  [(Obj.root, .ok)] ++ writeOps Obj.header ++ writeOps Obj.wipMeta

/-- guard of each command, evaluated on the state at command start -/
def guard (c : Cfg) (s : St) : Cmd → Prop
  | .init => s .root = .absent
  | .partition j => s .wipMeta = .ok ∧ j < c.nParts ∧ s .finalMeta = .absent   -- last conjunct = fix F7
  | .finalise _ => s .wipMeta = .ok ∧ ∀ j, j < c.nParts → s (.summary j) = .ok

def ops (c : Cfg) : Cmd → List Op
  | .init => initOps
  | .partition j => partitionOps c j
  | .finalise r => finaliseOps r

/-- execute a command killed after `k` mutations (k ≥ length = ran to completion);
    a failing guard is an error that changes nothing -/
noncomputable def exec (c : Cfg) (s : St) (cmd : Cmd) (k : Nat) : St :=
  open Classical in
  if guard c s cmd then run s ((ops c cmd).take k) else s

def Inv (c : Cfg) (s : St) : Prop :=
  (∀ j, s (.summary j) = .ok → ∀ k ∈ c.dataObjs j, s (.data j k) = .ok) ∧
  (s .finalMeta ≠ .absent → ∀ j, j < c.nParts → ∀ k ∈ c.dataObjs j, s (.data j k) = .ok)

end B2Z.Proto
