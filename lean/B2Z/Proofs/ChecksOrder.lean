import B2Z.Proofs.Checks
/-! # uniqueness of the sorted order (helper lemmas for `C03_file_order_invariant`) -/
namespace B2Z.Checks

/-- `a ≤ b ≤ a` in the key order forces equal keys -/
theorem Part.le_antisymm_key {a b : Part} (h₁ : a.le b = true) (h₂ : b.le a = true) :
    a.contig = b.contig ∧ a.start = b.start := by
  rw [Part.le_iff] at *; omega

/-- two sorted lists that are permutations of each other are equal when the order is antisymmetric on
    their members -/
theorem sorted_perm_eq {α : Type _} {R : α → α → Prop} :
    ∀ {l₁ l₂ : List α}, l₁.Pairwise R → l₂.Pairwise R → l₁.Perm l₂ →
      (∀ a ∈ l₁, ∀ b ∈ l₁, R a b → R b a → a = b) → l₁ = l₂ := by
  intro l₁
  induction l₁ with
  | nil => intro l₂ _ _ p _; exact p.nil_eq
  | cons a l₁ ih =>
    intro l₂ h1 h2 p anti
    cases l₂ with
    | nil => exact absurd p.eq_nil (by simp)
    | cons b l₂ =>
      have h1' := List.pairwise_cons.1 h1
      have h2' := List.pairwise_cons.1 h2
      have hab : a = b := by
        have ha : a ∈ b :: l₂ := p.mem_iff.1 (List.mem_cons_self ..)
        have hb : b ∈ a :: l₁ := p.mem_iff.2 (List.mem_cons_self ..)
        rcases List.mem_cons.1 ha with e | ha'
        · exact e
        · rcases List.mem_cons.1 hb with e | hb'
          · exact e.symm
          · exact anti a (List.mem_cons_self ..) b hb (h1'.1 b hb') (h2'.1 a ha')
      subst hab
      have p' : l₁.Perm l₂ := (List.perm_cons a).1 p
      rw [ih h1'.2 h2'.2 p' (fun x hx y hy => anti x (List.mem_cons_of_mem _ hx) y (List.mem_cons_of_mem _ hy))]

end B2Z.Checks
