namespace B2Z

inductive Interleave {α : Type} : List α → List α → List α → Prop
  | nil : Interleave [] [] []
  | left {x xs ys zs} : Interleave xs ys zs → Interleave (x :: xs) ys (x :: zs)
  | right {y xs ys zs} : Interleave xs ys zs → Interleave xs (y :: ys) (y :: zs)

variable {σ α : Type} (step : σ → α → σ)

def run (s : σ) (ops : List α) : σ := ops.foldl step s

/-- moving one op `y` in front of a block `xs` it commutes with -/
theorem run_swap (xs : List α) (y : α)
    (hc : ∀ x ∈ xs, ∀ s, step (step s x) y = step (step s y) x) (s : σ) :
    run step (run step s xs) [y] = run step (step s y) xs := by
  induction xs generalizing s with
  | nil => simp [run]
  | cons x xs ih =>
    have hx := hc x (by simp)
    have ih' := ih (fun x' hx' => hc x' (List.mem_cons_of_mem _ hx')) (step s x)
    simp only [run, List.foldl_cons, List.foldl_nil] at ih' ⊢
    rw [ih', hx]

/-- every interleaving of two op lists whose ops pairwise commute ends in the same state
    as running them one after the other -/
theorem interleave_eq_seq (xs ys zs : List α) (h : Interleave xs ys zs)
    (hc : ∀ x ∈ xs, ∀ y ∈ ys, ∀ s, step (step s x) y = step (step s y) x) (s : σ) :
    run step s zs = run step s (xs ++ ys) := by
  induction h generalizing s with
  | nil => rfl
  | left h ih =>
    rename_i x xs ys zs
    simp only [run, List.foldl_cons, List.cons_append]
    exact ih (fun a ha b hb => hc a (List.mem_cons_of_mem _ ha) b hb) (step s x)
  | right h ih =>
    rename_i y xs ys zs
    have ih' := ih (fun a ha b hb => hc a ha b (List.mem_cons_of_mem _ hb)) (step s y)
    simp only [run, List.foldl_cons] at ih' ⊢
    rw [ih']
    have hsw := run_swap step xs y (fun x hx s => hc x hx y (by simp) s) s
    simp only [run, List.foldl_append, List.foldl_cons, List.foldl_nil] at hsw ⊢
    rw [← hsw]

end B2Z
