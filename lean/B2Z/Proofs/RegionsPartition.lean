import B2Z.Proofs.RegionsSelect
import B2Z.Proofs.RegionsOrder
/-! # unfolding `partitionRaw` / `partition` -/
namespace B2Z.Regions

theorem selectEntries_zero (offs : List Off) (t : Nat) : selectEntries offs 0 t = [] := by
  simp [selectEntries, selectIdx, uniqueSorted]

/-- what an accepted request looks like -/
theorem partitionRaw_some (offs : List Off) (fileLen : Nat) (numParts targetSize : Option Nat)
    (nContigs : Nat) (hasRecs : Nat → Bool) (raw : List Reg)
    (h : partitionRaw offs fileLen numParts targetSize nContigs hasRecs = some raw) :
    ∃ n t, 1 ≤ n ∧ ∃ hne : selectEntries offs n t ≠ [],
      raw = regions (selectEntries offs n t) ((selectEntries offs n t).getLast hne).contig nContigs hasRecs := by
  unfold partitionRaw at h
  cases hp : partsOf fileLen numParts targetSize with
  | none => rw [hp] at h; simp at h
  | some nt =>
    obtain ⟨n, t⟩ := nt
    rw [hp] at h
    simp only at h
    cases hl : (selectEntries offs n t).getLast? with
    | none => rw [hl] at h; simp at h
    | some l =>
      rw [hl] at h
      simp only at h
      have hne : selectEntries offs n t ≠ [] := by
        intro hnil; rw [hnil] at hl; simp at hl
      have hn : 1 ≤ n := by
        cases n with
        | zero => exact absurd (selectEntries_zero offs t) hne
        | succ n => omega
      rw [List.getLast?_eq_some_getLast hne] at hl
      injection hl with hl
      subst hl
      split at h
      · injection h with h
        exact ⟨n, t, hn, hne, h.symm⟩
      · simp at h

/-- a valid request is turned into at least one part -/
theorem partsOf_valid (fileLen : Nat) (numParts targetSize : Option Nat)
    (hreq : (∃ n, numParts = some n ∧ targetSize = none ∧ 1 ≤ n) ∨
            (∃ t, numParts = none ∧ targetSize = some t ∧ 1 ≤ t ∧ 1 ≤ fileLen)) :
    ∃ n t, partsOf fileLen numParts targetSize = some (n, t) ∧ 1 ≤ n := by
  rcases hreq with ⟨n, rfl, rfl, hn⟩ | ⟨t, rfl, rfl, ht, hf⟩
  · refine ⟨n, fileLen / n, ?_, hn⟩
    simp only [partsOf]
    rw [if_neg (by omega)]
  · refine ⟨(fileLen + t - 1) / t, t, ?_, ?_⟩
    · simp only [partsOf]
      rw [if_neg (by omega)]
    · exact Nat.div_pos (by omega) (by omega)

/-- with at least one part, a non-empty index whose selected entries are strictly increasing and
    1-based never trips an assertion -/
theorem partitionRaw_ne_none (offs : List Off) (fileLen : Nat) (numParts targetSize : Option Nat)
    (nContigs : Nat) (hasRecs : Nat → Bool) (n t : Nat)
    (hp : partsOf fileLen numParts targetSize = some (n, t))
    (hne : selectEntries offs n t ≠ [])
    (hpos : ∀ e ∈ selectEntries offs n t, 1 ≤ e.pos)
    (hinc : (selectEntries offs n t).Pairwise Entry.lt) :
    partitionRaw offs fileLen numParts targetSize nContigs hasRecs ≠ none := by
  unfold partitionRaw
  rw [hp]
  simp only
  rw [List.getLast?_eq_some_getLast hne]
  simp only
  rw [if_pos (regions_valid _ hpos hinc _ _ _)]
  simp

end B2Z.Regions
