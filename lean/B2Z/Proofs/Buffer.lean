import B2Z.Model.Buffer
/-! # Generic lemmas about `B2Z.Buf` (the `core.BufferedArray` model)

The two facts used by the properties: reading back the writes of one run (`run_spec`) and the
chunk alignment of every write of a run (`run_aligned`).  Both are proved for an arbitrary
intermediate `BA` state (`flush_foldl_push_spec`, `flush_foldl_push_aligned`).
-/
namespace B2Z.Buf

theorem applyWrites_nil (a : Arr α) : applyWrites a [] = a := rfl

theorem applyWrites_cons (a : Arr α) (w : Nat × List α) (ws : List (Nat × List α)) :
    applyWrites a (w :: ws) = applyWrites (writeBlock a w.1 w.2) ws := rfl

theorem applyWrites_append (a : Arr α) (ws₁ ws₂ : List (Nat × List α)) :
    applyWrites a (ws₁ ++ ws₂) = applyWrites (applyWrites a ws₁) ws₂ := by
  simp [applyWrites, List.foldl_append]

theorem applyWrites_snoc (a : Arr α) (ws : List (Nat × List α)) (w : Nat × List α) :
    applyWrites a (ws ++ [w]) = writeBlock (applyWrites a ws) w.1 w.2 := by
  rw [applyWrites_append]; rfl

/-- the state after pushing into a full buffer -/
theorem push_full (b : BA α) (x : α) (h : b.buf.length = b.cs) (hcs : 0 < b.cs) :
    push b x = BA.mk b.cs (b.offset + b.cs) [x] (b.writes ++ [(b.offset, b.buf)]) := by
  have hne : b.buf.isEmpty = false := by
    cases hb : b.buf with
    | nil => rw [hb] at h; simp at h; omega
    | cons _ _ => rfl
  simp [push, flush, h, hne]

theorem push_notfull (b : BA α) (x : α) (h : b.buf.length ≠ b.cs) :
    push b x = BA.mk b.cs b.offset (b.buf ++ [x]) b.writes := by
  simp [push, h]

/-- read-back of everything a `BA` in an arbitrary state writes when fed `xs` and then flushed:
    the pending buffer followed by `xs` lands at `[offset, offset + buf.length + xs.length)`. -/
theorem flush_foldl_push_spec (xs : List α) (a : Arr α) (i : Nat) :
    ∀ b : BA α, 0 < b.cs → b.buf.length ≤ b.cs →
      applyWrites a (flush (xs.foldl push b)).writes i =
        if b.offset ≤ i ∧ i < b.offset + (b.buf.length + xs.length) then (b.buf ++ xs)[i - b.offset]?
        else applyWrites a b.writes i := by
  induction xs with
  | nil =>
    intro b _ _
    simp only [List.foldl_nil, List.length_nil, Nat.add_zero, List.append_nil]
    unfold flush
    cases hb : b.buf with
    | nil => simp; omega
    | cons y ys =>
      simp only [List.isEmpty_cons, Bool.false_eq_true, if_false]
      rw [applyWrites_snoc]
      simp [writeBlock]
  | cons x xs ih =>
    intro b hcs hlen
    rw [List.foldl_cons]
    by_cases hfull : b.buf.length = b.cs
    · rw [push_full b x hfull hcs,
        ih (BA.mk b.cs (b.offset + b.cs) [x] (b.writes ++ [(b.offset, b.buf)])) hcs (by simp; omega)]
      simp only [applyWrites_snoc, writeBlock, List.length_cons, List.length_nil,
        List.cons_append, List.nil_append]
      by_cases h1 : b.offset + b.cs ≤ i ∧ i < b.offset + b.cs + (0 + 1 + xs.length)
      · have c : b.offset ≤ i ∧ i < b.offset + (b.buf.length + (xs.length + 1)) := by omega
        rw [if_pos h1, if_pos c, List.getElem?_append_right (by omega)]
        congr 1; omega
      · rw [if_neg h1]
        by_cases h2 : b.offset ≤ i ∧ i < b.offset + b.buf.length
        · have c : b.offset ≤ i ∧ i < b.offset + (b.buf.length + (xs.length + 1)) := by omega
          rw [if_pos h2, if_pos c, List.getElem?_append_left (by omega)]
        · have c : ¬ (b.offset ≤ i ∧ i < b.offset + (b.buf.length + (xs.length + 1))) := by omega
          rw [if_neg h2, if_neg c]
    · rw [push_notfull b x hfull, ih (BA.mk b.cs b.offset (b.buf ++ [x]) b.writes) hcs (by simp; omega)]
      simp only [List.length_append, List.length_cons, List.length_nil, List.append_assoc,
        List.cons_append, List.nil_append, Nat.zero_add]
      by_cases h1 : b.offset ≤ i ∧ i < b.offset + (b.buf.length + (xs.length + 1))
      · have c : b.offset ≤ i ∧ i < b.offset + (b.buf.length + 1 + xs.length) := by omega
        rw [if_pos h1, if_pos c]
      · have c : ¬ (b.offset ≤ i ∧ i < b.offset + (b.buf.length + 1 + xs.length)) := by omega
        rw [if_neg h1, if_neg c]

/-- shape of every write of a `BA` in an arbitrary (aligned) state fed `xs` and then flushed -/
theorem flush_foldl_push_aligned (cs : Nat) (hcs : 0 < cs) (xs : List α) :
    ∀ b : BA α, b.cs = cs → cs ∣ b.offset → b.buf.length ≤ cs →
      ∀ w ∈ (flush (xs.foldl push b)).writes, w ∈ b.writes ∨
        (cs ∣ w.1 ∧ 0 < w.2.length ∧ w.2.length ≤ cs ∧
          b.offset ≤ w.1 ∧ w.1 + w.2.length ≤ b.offset + (b.buf.length + xs.length)) := by
  induction xs with
  | nil =>
    intro b hbcs hal hlen w hw
    simp only [List.foldl_nil] at hw
    unfold flush at hw
    cases hb : b.buf with
    | nil => rw [hb] at hw; simp at hw; exact Or.inl hw
    | cons y ys =>
      rw [hb] at hw
      simp only [List.isEmpty_cons, Bool.false_eq_true, if_false, List.mem_append,
        List.mem_singleton] at hw
      rcases hw with hw | hw
      · exact Or.inl hw
      · subst hw
        rw [hb] at hlen
        refine Or.inr ⟨hal, ?_, hlen, Nat.le_refl _, ?_⟩ <;> simp
  | cons x xs ih =>
    intro b hbcs hal hlen w hw
    rw [List.foldl_cons] at hw
    by_cases hfull : b.buf.length = b.cs
    · rw [push_full b x hfull (by omega)] at hw
      have := ih (BA.mk b.cs (b.offset + b.cs) [x] (b.writes ++ [(b.offset, b.buf)])) hbcs
        (by simp only [hbcs]; exact (Nat.dvd_add_right hal).2 (Nat.dvd_refl cs))
        (by simp; omega) w hw
      simp only [List.mem_append, List.mem_singleton, List.length_cons, List.length_nil] at this
      rcases this with (h | h) | h
      · exact Or.inl h
      · subst h
        refine Or.inr ⟨hal, ?_, ?_, Nat.le_refl _, ?_⟩ <;> (try simp only [List.length_cons]) <;> omega
      · refine Or.inr ⟨h.1, h.2.1, h.2.2.1, ?_, ?_⟩ <;> (try simp only [List.length_cons]) <;> omega
    · rw [push_notfull b x hfull] at hw
      have := ih (BA.mk b.cs b.offset (b.buf ++ [x]) b.writes) hbcs hal (by simp; omega) w hw
      simp only [List.length_append, List.length_cons, List.length_nil] at this
      rcases this with h | h
      · exact Or.inl h
      · refine Or.inr ⟨h.1, h.2.1, h.2.2.1, h.2.2.2.1, ?_⟩
        simp only [List.length_cons]; omega

/-- the buffered writes of one run: reading the array back at `off + k` gives row `k` -/
theorem run_spec (cs off : Nat) (hcs : 0 < cs) (xs : List α) (a : Arr α) (i : Nat) :
    applyWrites a (run cs off xs) i =
      if off ≤ i ∧ i < off + xs.length then xs[i - off]? else a i := by
  unfold run
  rw [flush_foldl_push_spec xs a i (init cs off) hcs (by simp [init])]
  simp [init, applyWrites_nil]

/-- every write of a run starting at a chunk-aligned offset starts on a chunk boundary and is
    at most one chunk long -/
theorem run_aligned (cs off : Nat) (hcs : 0 < cs) (hal : cs ∣ off) (xs : List α) :
    ∀ w ∈ run cs off xs, cs ∣ w.1 ∧ 0 < w.2.length ∧ w.2.length ≤ cs ∧
      off ≤ w.1 ∧ w.1 + w.2.length ≤ off + xs.length := by
  intro w hw
  unfold run at hw
  rcases flush_foldl_push_aligned cs hcs xs (init cs off) rfl hal (by simp [init]) w hw with h | h
  · simp [init] at h
  · simpa [init] using h

end B2Z.Buf
