import B2Z.Model.Plink
import B2Z.Proofs.Buffer
import B2Z.Props.C11
/-! # Helper lemmas about the PLINK model (`Model/Plink.lean`) used by C16 -/
namespace B2Z.Plink

/-! ## `.bed` layout -/

theorem G.code_lt (g : G) : g.code < 4 := by cases g <;> decide

/-- a number whose low two bits are `g.code` decodes to `g` -/
theorem G.ofCode_of_mod (g : G) (n : Nat) (h : n % 4 = g.code) : G.ofCode n = g := by
  unfold G.ofCode
  rw [h]
  cases g <;> rfl

theorem range4 : List.range 4 = [0, 1, 2, 3] := by decide
theorem range3 : List.range 3 = [0, 1, 2] := by decide
theorem range2 : List.range 2 = [0, 1] := by decide
theorem range1 : List.range 1 = [0] := by decide

theorem decodeRow_nil (n : Nat) : decodeRow n [] = [] := by
  unfold decodeRow; rfl

theorem decodeRow_zero (bs : List Nat) : decodeRow 0 bs = [] := by
  cases bs <;> simp [decodeRow]

theorem decodeRow_cons (n byte : Nat) (bytes : List Nat) (hn : n ≠ 0) :
    decodeRow n (byte :: bytes) =
      ((List.range (min n 4)).map fun k => G.ofCode (byte / 4 ^ k)) ++ decodeRow (n - min n 4) bytes := by
  rw [decodeRow]; simp [hn]

theorem bed_roundtrip (pad : Nat) : ∀ gs : List G, decodeRow gs.length (encodeRow pad gs) = gs
  | [] => by simp [encodeRow, decodeRow_nil]
  | [a] => by
    have ha := a.code_lt
    rw [encodeRow, decodeRow_cons _ _ _ (by simp)]
    · simp only [List.length_cons, List.length_nil, encodeByte]
      simp only [show min (0 + 1) 4 = 1 from rfl, range1, List.map_cons, List.map_nil, decodeRow_nil,
        List.append_nil, Nat.pow_zero, Nat.div_one]
      rw [G.ofCode_of_mod a _ (by omega)]
    all_goals simp
  | [a, b] => by
    have ha := a.code_lt
    have hb := b.code_lt
    rw [encodeRow, decodeRow_cons _ _ _ (by simp)]
    · simp only [List.length_cons, List.length_nil, encodeByte]
      simp only [show min (0 + 1 + 1) 4 = 2 from rfl, range2, List.map_cons, List.map_nil,
        decodeRow_nil, List.append_nil, Nat.pow_zero, Nat.div_one, Nat.pow_one]
      rw [G.ofCode_of_mod a _ (by omega), G.ofCode_of_mod b _ (by omega)]
    all_goals simp
  | [a, b, c] => by
    have ha := a.code_lt
    have hb := b.code_lt
    have hc := c.code_lt
    rw [encodeRow, decodeRow_cons _ _ _ (by simp)]
    · simp only [List.length_cons, List.length_nil, encodeByte]
      simp only [show min (0 + 1 + 1 + 1) 4 = 3 from rfl, range3, List.map_cons, List.map_nil,
        decodeRow_nil, List.append_nil, Nat.pow_zero, Nat.div_one, Nat.pow_one,
        show (4 : Nat) ^ 2 = 16 from rfl]
      rw [G.ofCode_of_mod a _ (by omega), G.ofCode_of_mod b _ (by omega),
        G.ofCode_of_mod c _ (by omega)]
    all_goals simp
  | a :: b :: c :: d :: rest => by
    have ha := a.code_lt
    have hb := b.code_lt
    have hc := c.code_lt
    have hd := d.code_lt
    have ih := bed_roundtrip pad rest
    rw [encodeRow, decodeRow_cons _ _ _ (by simp)]
    simp only [List.length_cons, encodeByte]
    have hmin : min (rest.length + 1 + 1 + 1 + 1) 4 = 4 := by omega
    rw [hmin, show rest.length + 1 + 1 + 1 + 1 - 4 = rest.length by omega, ih]
    simp only [range4, List.map_cons, List.map_nil, Nat.pow_zero, Nat.div_one, Nat.pow_one,
      show (4 : Nat) ^ 2 = 16 from rfl, show (4 : Nat) ^ 3 = 64 from rfl]
    rw [G.ofCode_of_mod a _ (by omega), G.ofCode_of_mod b _ (by omega),
      G.ofCode_of_mod c _ (by omega), G.ofCode_of_mod d _ (by omega)]
    rfl

/-! ## `rowOf` -/

theorem G.mask_eq (g : G) :
    (g.call.1 == -1, g.call.2 == -1) = (decide (g = .missing), decide (g = .missing)) := by
  cases g <;> decide

theorem rowOf_spec (gs : List G) :
    (rowOf gs).mask = gs.map (fun g => (decide (g = .missing), decide (g = .missing))) ∧
    (rowOf gs).phased = gs.map (fun _ => false) ∧
    (rowOf gs).gt = gs.map G.call := by
  refine ⟨?_, rfl, rfl⟩
  simp only [rowOf]
  apply List.map_congr_left
  intro g _
  exact g.mask_eq

/-! ## the conversion -/

/-- one slice's writes overwrite exactly `[a, b) ∩ [0, rows.length)` with the encoded rows -/
theorem applyWrites_sliceWrites (cs : Nat) (hcs : 0 < cs) (rows : List (List G)) (ab : Nat × Nat)
    (a : Buf.Arr CallRow) (i : Nat) :
    Buf.applyWrites a (sliceWrites cs rows ab) i =
      if ab.1 ≤ i ∧ i < ab.2 ∧ i < rows.length then (rows[i]?).map rowOf else a i := by
  unfold sliceWrites
  rw [Buf.run_spec cs ab.1 hcs]
  simp only [List.length_map, List.length_take, List.length_drop]
  by_cases h : ab.1 ≤ i ∧ i < ab.2 ∧ i < rows.length
  · have c : ab.1 ≤ i ∧ i < ab.1 + min (ab.2 - ab.1) (rows.length - ab.1) := by omega
    rw [if_pos h, if_pos c, List.getElem?_map, List.getElem?_take, if_pos (by omega),
      List.getElem?_drop]
    congr 2; omega
  · have c : ¬ (ab.1 ≤ i ∧ i < ab.1 + min (ab.2 - ab.1) (rows.length - ab.1)) := by omega
    rw [if_neg h, if_neg c]

/-- any sequence of slices (in any order, overlapping or not): a row is overwritten with its
    encoding iff some slice contains it -/
theorem applyWrites_flatMap_sliceWrites (cs : Nat) (hcs : 0 < cs) (rows : List (List G)) (i : Nat) :
    ∀ (order : List (Nat × Nat)) (a : Buf.Arr CallRow),
      Buf.applyWrites a (order.flatMap (sliceWrites cs rows)) i =
        if ∃ ab ∈ order, ab.1 ≤ i ∧ i < ab.2 ∧ i < rows.length then (rows[i]?).map rowOf else a i := by
  intro order
  induction order with
  | nil => intro a; simp [Buf.applyWrites_nil]
  | cons ab rest ih =>
    intro a
    rw [List.flatMap_cons, Buf.applyWrites_append, ih]
    by_cases h1 : ∃ ab ∈ rest, ab.1 ≤ i ∧ i < ab.2 ∧ i < rows.length
    · have c : ∃ x ∈ ab :: rest, x.1 ≤ i ∧ i < x.2 ∧ i < rows.length := by
        obtain ⟨x, hx, hp⟩ := h1
        exact ⟨x, List.mem_cons_of_mem _ hx, hp⟩
      rw [if_pos h1, if_pos c]
    · rw [if_neg h1, applyWrites_sliceWrites cs hcs]
      by_cases h2 : ab.1 ≤ i ∧ i < ab.2 ∧ i < rows.length
      · have c : ∃ x ∈ ab :: rest, x.1 ≤ i ∧ i < x.2 ∧ i < rows.length :=
          ⟨ab, List.mem_cons_self, h2⟩
        rw [if_pos h2, if_pos c]
      · have c : ¬ ∃ x ∈ ab :: rest, x.1 ≤ i ∧ i < x.2 ∧ i < rows.length := by
          rintro ⟨x, hx, hp⟩
          rcases List.mem_cons.1 hx with rfl | hx
          · exact h2 hp
          · exact h1 ⟨x, hx, hp⟩
        rw [if_neg h2, if_neg c]

theorem totalWritten_none (n c : Nat) (hc : 0 < c) : totalWritten n c none = n := by
  unfold totalWritten numChunks
  have := ceilDiv_mul_ge n c hc
  simp only
  omega

theorem convert_spec (cs nslices : Nat) (hcs : 0 < cs) (hn : 0 < nslices)
    (rows : List (List G)) (hrows : rows ≠ [])
    (order : List (Nat × Nat)) (hperm : order.Perm (B2Z.chunkAlignedSlices rows.length cs nslices none))
    (i : Nat) :
    convert cs rows order i = (rows[i]?).map rowOf := by
  unfold convert
  rw [applyWrites_flatMap_sliceWrites cs hcs]
  split
  · rfl
  · rename_i hno
    by_cases hi : i < rows.length
    · exfalso
      have hpos : 0 < rows.length := List.length_pos_iff.2 hrows
      have hcov := C11_plink_slices rows.length cs nslices none hpos hcs hn (by intro x hx; cases hx)
      rw [totalWritten_none _ _ hcs] at hcov
      obtain ⟨j, hj, h1, h2⟩ := (C11_cover hcov i).1 hi
      exact hno ⟨_, hperm.mem_iff.2 (List.getElem_mem hj), h1, h2, hi⟩
    · rw [List.getElem?_eq_none (by omega)]; rfl

end B2Z.Plink
