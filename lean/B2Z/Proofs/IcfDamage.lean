import B2Z.Model.IcfDamage
import B2Z.Proofs.IcfMain
import B2Z.Props.C11
/-! # helper lemmas for C18 (`Model/IcfDamage.lean`) -/
namespace B2Z.Dmg
open B2Z.Fs

/-! ## sums of prefixes -/

theorem sum_take_mono (l : List Nat) {i j : Nat} (h : i ≤ j) : (l.take i).sum ≤ (l.take j).sum := by
  induction l generalizing i j with
  | nil => simp
  | cons x xs ih =>
    cases i with
    | zero => simp
    | succ i =>
      cases j with
      | zero => omega
      | succ j =>
        have := ih (i := i) (j := j) (by omega)
        simp only [List.take_succ_cons, List.sum_cons]; omega

theorem sum_take_le (l : List Nat) (i : Nat) : (l.take i).sum ≤ l.sum := by
  induction l generalizing i with
  | nil => simp
  | cons x xs ih =>
    cases i with
    | zero => simp
    | succ i => have := ih i; simp only [List.take_succ_cons, List.sum_cons]; omega

theorem sum_take_succ (l : List Nat) (i : Nat) (h : i < l.length) :
    (l.take (i + 1)).sum = (l.take i).sum + l[i] := by
  rw [List.take_add_one, List.sum_append]
  simp [List.getElem?_eq_getElem h]

theorem sum_take_length_le (l : List Nat) (i : Nat) (h : l.length ≤ i) : (l.take i).sum = l.sum := by
  rw [List.take_of_length_le h]

/-! ## `firstId` -/

theorem all_length_eq (s : Store α) : s.all.length = (s.map fun q => q.recs.length).sum := by
  simp [Store.all, List.map_map, Function.comp_def]

theorem recs_length_eq (p : Part α) : p.recs.length = (p.chunks.map List.length).sum := by
  simp [Part.recs]

/-- `firstId` at a valid partition, in terms of prefix sums of the two length lists -/
theorem firstId_eq (s : Store α) (p k : Nat) (hp : p < s.length) :
    firstId s p k = ((s.map fun q => q.recs.length).take p).sum +
      ((s[p].chunks.map List.length).take k).sum := by
  unfold firstId
  simp [List.getElem?_eq_getElem hp, List.map_take]

theorem firstId_zero (s : Store α) (p : Nat) :
    firstId s p 0 = ((s.map fun q => q.recs.length).take p).sum := by
  unfold firstId
  simp [List.map_take]

theorem firstId_mono_k (s : Store α) (p : Nat) {k k' : Nat} (h : k ≤ k') :
    firstId s p k ≤ firstId s p k' := by
  unfold firstId
  have := sum_take_mono (((s[p]?.map (·.chunks)).getD []).map List.length) h
  simp only [List.map_take] at *
  omega

theorem firstId_zero_mono (s : Store α) {p p' : Nat} (h : p ≤ p') :
    firstId s p 0 ≤ firstId s p' 0 := by
  rw [firstId_zero, firstId_zero]; exact sum_take_mono _ h

theorem firstId_zero_le_total (s : Store α) (p : Nat) : firstId s p 0 ≤ s.all.length := by
  rw [firstId_zero, all_length_eq]; exact sum_take_le _ _

theorem firstId_le_next (s : Store α) (p k : Nat) (hp : p < s.length) :
    firstId s p k ≤ firstId s (p + 1) 0 := by
  rw [firstId_zero, firstId_eq s p k hp, sum_take_succ _ _ (by simpa using hp)]
  have := sum_take_le (s[p].chunks.map List.length) k
  have := recs_length_eq s[p]
  simp only [List.getElem_map]
  omega

theorem firstId_le_total (s : Store α) (p k : Nat) (hp : p < s.length) :
    firstId s p k ≤ s.all.length :=
  Nat.le_trans (firstId_le_next s p k hp) (firstId_zero_le_total s (p + 1))

/-- monotonicity of `firstId` in the lexicographic order on `(p, k)` -/
theorem firstId_lex (s : Store α) (p k p' k' : Nat) (hp : p < s.length)
    (h : p < p' ∨ (p = p' ∧ k ≤ k')) : firstId s p k ≤ firstId s p' k' := by
  rcases h with h | ⟨rfl, h⟩
  · exact Nat.le_trans (firstId_le_next s p k hp)
      (Nat.le_trans (firstId_zero_mono s (by omega : p + 1 ≤ p')) (firstId_mono_k s p' (Nat.zero_le _)))
  · exact firstId_mono_k s p h

theorem nChunks_eq (s : Store α) (p : Nat) (hp : p < s.length) :
    ((s[p]?.map (·.chunks.length)).getD 0) = s[p].chunks.length := by
  simp [List.getElem?_eq_getElem hp]

theorem firstId_lt_succ (s : Store α) (wf : s.WF) (p k : Nat) (hp : p < s.length)
    (hk : k < ((s[p]?.map (·.chunks.length)).getD 0)) : firstId s p k < firstId s p (k + 1) := by
  rw [nChunks_eq s p hp] at hk
  rw [firstId_eq s p k hp, firstId_eq s p (k + 1) hp, sum_take_succ _ _ (by simpa using hk)]
  have := wf.chunks_nonempty s[p] (List.getElem_mem _) s[p].chunks[k] (List.getElem_mem _)
  simp only [List.getElem_map]
  omega

/-- a partition of a well-formed store has at least one chunk -/
theorem nChunks_pos (s : Store α) (wf : s.WF) (p : Nat) (hp : p < s.length) :
    0 < ((s[p]?.map (·.chunks.length)).getD 0) := by
  rw [nChunks_eq s p hp]
  have h := wf.parts_nonempty s[p] (List.getElem_mem _)
  rw [recs_length_eq] at h
  cases hc : s[p].chunks with
  | nil => simp [hc] at h
  | cons _ _ => simp

/-! ## `startOf` finds the chunk holding record `start` -/

theorem startOf_spec (s : Store α) (wf : s.WF) (start : Nat) (h : start < s.all.length) :
    ∃ sp sc, startOf s start = (sp, sc) ∧ sp < s.length ∧
      sc < ((s[sp]?.map (·.chunks.length)).getD 0) ∧
      firstId s sp sc ≤ start ∧ start < firstId s sp (sc + 1) := by
  have hpos : ∀ x ∈ s.map (fun p => p.recs.length), 0 < x := by
    intro x hx
    simp at hx
    obtain ⟨p, hp, rfl⟩ := hx
    exact wf.parts_nonempty p hp
  have hsum := all_length_eq s
  obtain ⟨sp, hsp, hsr, hget, hle, hlt⟩ :=
    searchRight_cumsumFrom 0 start (s.map fun p => p.recs.length) hpos (by omega) (by omega)
  simp only [Nat.zero_add, List.length_map] at hsp hget hle hlt
  have hsp? : s[sp]? = some s[sp] := List.getElem?_eq_getElem hsp
  rw [sum_take_succ _ _ (by simpa using hsp)] at hlt
  simp only [List.getElem_map] at hlt
  generalize hoff : ((s.map fun p => p.recs.length).take sp).sum = offset at hget hle hlt
  have hcpos : ∀ x ∈ s[sp].chunks.map List.length, 0 < x := by
    intro x hx
    simp at hx
    obtain ⟨c, hc, rfl⟩ := hx
    exact wf.chunks_nonempty s[sp] (List.getElem_mem _) c hc
  have hplen := recs_length_eq s[sp]
  obtain ⟨sc, hsc, hsrc, hgetc, hlec, hltc⟩ :=
    searchRight_cumsumFrom 0 (start - offset) (s[sp].chunks.map List.length) hcpos (by omega) (by omega)
  simp only [Nat.zero_add, List.length_map] at hsc hgetc hlec hltc
  refine ⟨sp, sc, ?_, hsp, ?_, ?_, ?_⟩
  · unfold startOf
    simp only [Store.partIndex, cumsum, hsr, Nat.add_sub_cancel, hget, hsp?, Part.chunkIndex, hsrc]
  · rw [nChunks_eq s sp hsp]; exact hsc
  · rw [firstId_eq s sp sc hsp, hoff]; omega
  · rw [firstId_eq s sp (sc + 1) hsp, hoff]; omega

/-! ## membership in `chunksRead` / `indexesRead` -/

theorem mem_chunksRead (s : Store α) (a b p k : Nat) :
    (p, k) ∈ chunksRead s a b ↔ p < s.length ∧ k < ((s[p]?.map (·.chunks.length)).getD 0) ∧
      ((startOf s a).1 < p ∨ (p = (startOf s a).1 ∧ (startOf s a).2 ≤ k)) ∧ firstId s p k ≤ b := by
  unfold chunksRead
  simp only [List.mem_flatMap, List.mem_map, List.mem_filter, List.mem_range, Prod.mk.injEq,
    Bool.and_eq_true, Bool.or_eq_true, decide_eq_true_eq]
  constructor
  · rintro ⟨p', hp', k', ⟨hk', hc, hf⟩, rfl, rfl⟩
    exact ⟨hp', hk', hc, hf⟩
  · rintro ⟨hp, hk, hc, hf⟩
    exact ⟨p, hp, k, ⟨hk, hc, hf⟩, rfl, rfl⟩

theorem mem_indexesRead_of_mem_chunksRead (s : Store α) (a b p k : Nat)
    (h : (p, k) ∈ chunksRead s a b) : p ∈ indexesRead s a b := by
  unfold indexesRead
  rw [List.mem_eraseDups]
  exact List.mem_map.2 ⟨(p, k), h, rfl⟩

theorem mem_indexesRead (s : Store α) (a b p : Nat) (h : p ∈ indexesRead s a b) :
    ∃ k, (p, k) ∈ chunksRead s a b := by
  unfold indexesRead at h
  rw [List.mem_eraseDups] at h
  obtain ⟨⟨p', k⟩, hm, rfl⟩ := List.mem_map.1 h
  exact ⟨k, hm⟩

/-- the chunk `(p, k)` overlapping `[a, b)` is opened by `iter_values(a, b)` -/
theorem overlap_mem_chunksRead (s : Store α) (wf : s.WF) (a b : Nat) (hab : a < b) (hb : b ≤ s.all.length)
    (p k : Nat) (hp : p < s.length) (hk : k < ((s[p]?.map (·.chunks.length)).getD 0))
    (hov : firstId s p k < b ∧ a < firstId s p (k + 1)) : (p, k) ∈ chunksRead s a b := by
  obtain ⟨sp, sc, hst, hsp, hsc, hle, hlt⟩ := startOf_spec s wf a (by omega)
  rw [mem_chunksRead, hst]
  refine ⟨hp, hk, ?_, by omega⟩
  simp only
  -- otherwise (p, k) is lexicographically before (sp, sc)
  by_cases hc : sp < p ∨ (p = sp ∧ sc ≤ k)
  · exact hc
  · exfalso
    have hlex : p < sp ∨ (p = sp ∧ k + 1 ≤ sc) := by omega
    have := firstId_lex s p (k + 1) sp sc hp hlex
    omega

/-! ## `iterValuesF` -/

theorem iterValuesF_none_of_chunk (s : Store α) (f : Files) (a b p k : Nat)
    (hm : (p, k) ∈ chunksRead s a b) (hd : f.chunk p k ≠ .ok ∨ f.index p ≠ .ok) :
    iterValuesF s f a b = none := by
  unfold iterValuesF
  rw [if_neg]
  rintro ⟨_, hi, hc⟩
  rw [List.all_eq_true] at hi hc
  rcases hd with hd | hd
  · exact hd (by simpa using hc (p, k) hm)
  · exact hd (by simpa using hi p (mem_indexesRead_of_mem_chunksRead s a b p k hm))

theorem iterValuesF_none_of_mdata (s : Store α) (f : Files) (a b : Nat) (hd : f.mdata ≠ .ok) :
    iterValuesF s f a b = none := by
  unfold iterValuesF
  rw [if_neg]
  rintro ⟨h, _⟩
  exact hd h

theorem iterValuesF_allOk (s : Store α) (f : Files) (h : f.allOk s) (a b : Nat) :
    iterValuesF s f a b = some (iterValues s a b) := by
  unfold iterValuesF
  rw [if_pos]
  refine ⟨h.1, ?_, ?_⟩
  · rw [List.all_eq_true]
    intro p hp
    obtain ⟨k, hm⟩ := mem_indexesRead s a b p hp
    rw [mem_chunksRead] at hm
    simpa using (h.2 p hm.1).1
  · rw [List.all_eq_true]
    rintro ⟨p, k⟩ hm
    rw [mem_chunksRead] at hm
    simpa using (h.2 p hm.1).2 k hm.2.1

/-! ## `mapM` in `Option` -/

theorem mapM_option_none {f : β → Option γ} {l : List β} (h : ∃ x ∈ l, f x = none) :
    l.mapM f = none := by
  induction l with
  | nil => simp at h
  | cons y ys ih =>
    rw [List.mapM_cons]
    obtain ⟨x, hx, hfx⟩ := h
    rcases List.mem_cons.1 hx with rfl | hx
    · simp [hfx]
    · rw [ih ⟨x, hx, hfx⟩]
      cases f y <;> simp

theorem mapM_option_some {f : β → Option γ} {g : β → γ} {l : List β} (h : ∀ x ∈ l, f x = some (g x)) :
    l.mapM f = some (l.map g) := by
  induction l with
  | nil => simp
  | cons y ys ih =>
    rw [List.mapM_cons, h y (List.mem_cons_self ..), ih (fun x hx => h x (List.mem_cons_of_mem _ hx))]
    simp

/-! ## the encode partitions -/

theorem totalWritten_none' (n c : Nat) (hc : 0 < c) : totalWritten n c none = n := by
  unfold totalWritten numChunks
  have := ceilDiv_mul_ge n c hc
  simp only
  omega

theorem encode_cover (n c nparts : Nat) (hn0 : 0 < n) (hc : 0 < c) (hn : 0 < nparts) :
    ExactCover (genPartitions n c nparts none) c nparts n := by
  have := C11_encode_partitions n c nparts none hn0 hc hn (by intro x hx; cases hx)
  rwa [totalWritten_none' n c hc] at this

/-- every range of an exact cover is non-empty and within the total -/
theorem ExactCover_range (h : ExactCover ps c p total) (ab : Nat × Nat) (hm : ab ∈ ps) :
    ab.1 < ab.2 ∧ ab.2 ≤ total := by
  have h1 := h.nonempty ab hm
  refine ⟨h1, ?_⟩
  obtain ⟨i, hi, rfl⟩ := List.getElem_of_mem hm
  have := (C11_cover h (ps[i].2 - 1)).2 ⟨i, hi, by omega, by omega⟩
  omega

end B2Z.Dmg
