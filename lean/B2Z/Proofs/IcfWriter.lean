import B2Z.Proofs.IcfMain
/-! helper lemmas for C08: the buffered writer and the per-field summaries -/
namespace B2Z

/-! ## writer -/

theorem FW.fold_inv (m : Nat) (vals : List (α × Nat)) (w : FW α) :
    (vals.foldl (FW.append m) w).chunks.flatten ++ (vals.foldl (FW.append m) w).buff
      = w.chunks.flatten ++ w.buff ++ vals.map (·.1) ∧
    ((∀ c ∈ w.chunks, 0 < c.length) → ∀ c ∈ (vals.foldl (FW.append m) w).chunks, 0 < c.length) := by
  induction vals generalizing w with
  | nil => simp
  | cons x xs ih =>
    simp only [List.foldl_cons, List.map_cons]
    obtain ⟨h1, h2⟩ := ih (FW.append m w x)
    refine ⟨?_, ?_⟩
    · rw [h1]
      unfold FW.append
      by_cases h : w.bytes + x.2 ≥ m <;> simp [h, List.append_assoc]
    · intro hw
      apply h2
      unfold FW.append
      by_cases h : w.bytes + x.2 ≥ m
      · simp only [h, if_true]
        intro c hc
        rcases List.mem_append.mp hc with hc | hc
        · exact hw c hc
        · simp at hc; subst hc; simp
      · simpa [h] using hw

theorem FW.flush_recs (w : FW α) : w.flush.recs = w.chunks.flatten ++ w.buff := by
  unfold FW.flush Part.recs
  cases hb : w.buff with
  | nil => simp
  | cons a l => simp

theorem FW.flush_chunks_pos (w : FW α) (hw : ∀ c ∈ w.chunks, 0 < c.length) :
    ∀ c ∈ w.flush.chunks, 0 < c.length := by
  unfold FW.flush
  cases hb : w.buff with
  | nil => simpa using hw
  | cons a l =>
    intro c hc
    simp at hc
    rcases hc with hc | hc
    · exact hw c hc
    · subst hc; simp

theorem writePart_recs (m : Nat) (vals : List (α × Nat)) :
    (writePart m vals).recs = vals.map (·.1) := by
  unfold writePart
  rw [FW.flush_recs, (FW.fold_inv m vals _).1]
  simp

theorem writePart_chunks_pos (m : Nat) (vals : List (α × Nat)) :
    ∀ c ∈ (writePart m vals).chunks, 0 < c.length := by
  unfold writePart
  apply FW.flush_chunks_pos
  apply (FW.fold_inv m vals _).2
  simp

theorem writeStore_all (m : Nat) (parts : List (List (α × Nat))) :
    (writeStore m parts).all = (parts.map fun p => p.map (·.1)).flatten := by
  unfold writeStore Store.all
  rw [List.map_map]
  congr 1
  apply List.map_congr_left
  intro p _
  exact writePart_recs m p

theorem Store.values_eq_all (s : Store α) : s.values = s.all := rfl

theorem writeStore_wf (m : Nat) (parts : List (List (α × Nat))) (hne : ∀ p ∈ parts, p ≠ []) :
    (writeStore m parts).WF := by
  constructor
  · intro p hp
    unfold writeStore at hp
    obtain ⟨q, hq, rfl⟩ := List.mem_map.mp hp
    rw [writePart_recs, List.length_map]
    exact List.length_pos_iff.mpr (hne q hq)
  · intro p hp
    unfold writeStore at hp
    obtain ⟨q, _, rfl⟩ := List.mem_map.mp hp
    exact writePart_chunks_pos m q

theorem length_flatten_map_map (f : β → γ) (parts : List (List β)) :
    ((parts.map fun p => p.map f).flatten).length = (parts.map List.length).sum := by
  rw [length_flatten_eq_sum, List.map_map]
  congr 1
  apply List.map_congr_left
  intro p _
  simp

/-! ## optMin / optMax -/

theorem optMin_none_left (a : Option Int) : optMin none a = a := by cases a <;> rfl
theorem optMin_none_right (a : Option Int) : optMin a none = a := by cases a <;> rfl
theorem optMax_none_left (a : Option Int) : optMax none a = a := by cases a <;> rfl
theorem optMax_none_right (a : Option Int) : optMax a none = a := by cases a <;> rfl

theorem optMin_assoc (a b c : Option Int) : optMin (optMin a b) c = optMin a (optMin b c) := by
  cases a <;> cases b <;> cases c <;> simp [optMin] <;> omega

theorem optMax_assoc (a b c : Option Int) : optMax (optMax a b) c = optMax a (optMax b c) := by
  cases a <;> cases b <;> cases c <;> simp [optMax] <;> omega

theorem optMin_eq_some {a b : Option Int} {lo : Int} (h : optMin a b = some lo) :
    a = some lo ∨ b = some lo := by
  cases a <;> cases b <;> simp [optMin] at h ⊢ <;> omega

theorem optMax_eq_some {a b : Option Int} {hi : Int} (h : optMax a b = some hi) :
    a = some hi ∨ b = some hi := by
  cases a <;> cases b <;> simp [optMax] at h ⊢ <;> omega

theorem optMin_le_left {a : Option Int} (b : Option Int) {x : Int}
    (h : ∃ lo, a = some lo ∧ lo ≤ x) : ∃ lo, optMin a b = some lo ∧ lo ≤ x := by
  obtain ⟨lo, rfl, hlo⟩ := h
  cases b <;> simp [optMin] <;> omega

theorem optMin_le_right (a : Option Int) {b : Option Int} {x : Int}
    (h : ∃ lo, b = some lo ∧ lo ≤ x) : ∃ lo, optMin a b = some lo ∧ lo ≤ x := by
  obtain ⟨lo, rfl, hlo⟩ := h
  cases a <;> simp [optMin] <;> omega

theorem le_optMax_left {a : Option Int} (b : Option Int) {x : Int}
    (h : ∃ hi, a = some hi ∧ x ≤ hi) : ∃ hi, optMax a b = some hi ∧ x ≤ hi := by
  obtain ⟨hi, rfl, hhi⟩ := h
  cases b <;> simp [optMax] <;> omega

theorem le_optMax_right (a : Option Int) {b : Option Int} {x : Int}
    (h : ∃ hi, b = some hi ∧ x ≤ hi) : ∃ hi, optMax a b = some hi ∧ x ≤ hi := by
  obtain ⟨hi, rfl, hhi⟩ := h
  cases a <;> simp [optMax] <;> omega

/-! ## listMin / listMax -/

theorem foldl_optMin (acc : Option Int) (l : List Int) :
    l.foldl (fun acc x => optMin acc (some x)) acc = optMin acc (listMin l) := by
  unfold listMin
  induction l generalizing acc with
  | nil => simp [optMin_none_right]
  | cons x xs ih =>
    simp only [List.foldl_cons]
    rw [ih, ih (optMin none (some x)), optMin_none_left, optMin_assoc]

theorem foldl_optMax (acc : Option Int) (l : List Int) :
    l.foldl (fun acc x => optMax acc (some x)) acc = optMax acc (listMax l) := by
  unfold listMax
  induction l generalizing acc with
  | nil => simp [optMax_none_right]
  | cons x xs ih =>
    simp only [List.foldl_cons]
    rw [ih, ih (optMax none (some x)), optMax_none_left, optMax_assoc]

theorem listMin_nil : listMin [] = none := rfl
theorem listMax_nil : listMax [] = none := rfl

theorem listMin_cons (x : Int) (l : List Int) : listMin (x :: l) = optMin (some x) (listMin l) := by
  show List.foldl _ (optMin none (some x)) l = _
  rw [foldl_optMin, optMin_none_left]

theorem listMax_cons (x : Int) (l : List Int) : listMax (x :: l) = optMax (some x) (listMax l) := by
  show List.foldl _ (optMax none (some x)) l = _
  rw [foldl_optMax, optMax_none_left]

theorem listMin_le {l : List Int} {x : Int} (hx : x ∈ l) : ∃ lo, listMin l = some lo ∧ lo ≤ x := by
  induction l with
  | nil => cases hx
  | cons y ys ih =>
    rw [listMin_cons]
    rcases List.mem_cons.mp hx with rfl | h
    · exact optMin_le_left _ ⟨x, rfl, Int.le_refl _⟩
    · exact optMin_le_right _ (ih h)

theorem le_listMax {l : List Int} {x : Int} (hx : x ∈ l) : ∃ hi, listMax l = some hi ∧ x ≤ hi := by
  induction l with
  | nil => cases hx
  | cons y ys ih =>
    rw [listMax_cons]
    rcases List.mem_cons.mp hx with rfl | h
    · exact le_optMax_left _ ⟨x, rfl, Int.le_refl _⟩
    · exact le_optMax_right _ (ih h)

theorem listMin_mem {l : List Int} {lo : Int} (h : listMin l = some lo) : lo ∈ l := by
  induction l with
  | nil => simp [listMin_nil] at h
  | cons y ys ih =>
    rw [listMin_cons] at h
    rcases optMin_eq_some h with h | h
    · simp at h; simp [h]
    · exact List.mem_cons_of_mem _ (ih h)

theorem listMax_mem {l : List Int} {hi : Int} (h : listMax l = some hi) : hi ∈ l := by
  induction l with
  | nil => simp [listMax_nil] at h
  | cons y ys ih =>
    rw [listMax_cons] at h
    rcases optMax_eq_some h with h | h
    · simp at h; simp [h]
    · exact List.mem_cons_of_mem _ (ih h)

theorem listMin_eq_none_iff (l : List Int) : listMin l = none ↔ l = [] := by
  cases l with
  | nil => simp [listMin_nil]
  | cons x xs =>
    rw [listMin_cons]
    cases listMin xs <;> simp [optMin]

theorem listMax_eq_none_iff (l : List Int) : listMax l = none ↔ l = [] := by
  cases l with
  | nil => simp [listMax_nil]
  | cons x xs =>
    rw [listMax_cons]
    cases listMax xs <;> simp [optMax]

/-! ## summaries -/

theorem Summary.merge_empty_left (s : Summary) : Summary.merge Summary.empty s = s := by
  cases s
  simp [Summary.merge, Summary.empty, optMin_none_left, optMax_none_left]

theorem Summary.merge_empty_right (s : Summary) : Summary.merge s Summary.empty = s := by
  cases s
  simp [Summary.merge, Summary.empty, optMin_none_right, optMax_none_right]

theorem Summary.merge_assoc (a b c : Summary) :
    Summary.merge (Summary.merge a b) c = Summary.merge a (Summary.merge b c) := by
  simp [Summary.merge, optMin_assoc, optMax_assoc, Nat.max_assoc]

theorem Summary.observe_eq_merge (m : Int) (s : Summary) (v : IVal) :
    Summary.observe m s v = Summary.merge s (Summary.observe m Summary.empty v) := by
  cases v with
  | none => simp [Summary.observe, Summary.merge_empty_right]
  | some p =>
    obtain ⟨xs, n⟩ := p
    simp [Summary.observe, Summary.merge, Summary.empty, optMin_none_left, optMax_none_left]

theorem foldl_observe (m : Int) (s : Summary) (vals : List IVal) :
    vals.foldl (Summary.observe m) s = Summary.merge s (summarise m vals) := by
  unfold summarise
  induction vals generalizing s with
  | nil => simp [Summary.merge_empty_right]
  | cons v vs ih =>
    simp only [List.foldl_cons]
    rw [ih, ih (Summary.observe m Summary.empty v), ← Summary.merge_assoc,
      ← Summary.observe_eq_merge]

theorem summarise_nil (m : Int) : summarise m [] = Summary.empty := rfl

theorem summarise_cons (m : Int) (v : IVal) (vs : List IVal) :
    summarise m (v :: vs) = Summary.merge (Summary.observe m Summary.empty v) (summarise m vs) := by
  show List.foldl _ (Summary.observe m Summary.empty v) vs = _
  rw [foldl_observe]

theorem summarise_append (m : Int) (xs ys : List IVal) :
    summarise m (xs ++ ys) = Summary.merge (summarise m xs) (summarise m ys) := by
  unfold summarise
  rw [List.foldl_append, foldl_observe]
  rfl

theorem foldl_merge (m : Int) (s : Summary) (parts : List (List IVal)) :
    (parts.map (summarise m)).foldl Summary.merge s = Summary.merge s (summarise m parts.flatten) := by
  induction parts generalizing s with
  | nil => simp [summarise_nil, Summary.merge_empty_right]
  | cons p ps ih =>
    simp only [List.map_cons, List.foldl_cons, List.flatten_cons]
    rw [ih, summarise_append, Summary.merge_assoc]

theorem storeSummary_eq (m : Int) (parts : List (List IVal)) :
    storeSummary m parts = summarise m parts.flatten := by
  unfold storeSummary
  rw [foldl_merge, Summary.merge_empty_left]

theorem summarise_bounds (minInt : Int) (vals : List IVal) :
    ∀ v ∈ vals, ∀ xs number, v = some (xs, number) →
      number ≤ (summarise minInt vals).maxNumber ∧
      ∀ x ∈ xs, minInt ≤ x →
        (∃ lo, (summarise minInt vals).minV = some lo ∧ lo ≤ x) ∧
        (∃ hi, (summarise minInt vals).maxV = some hi ∧ x ≤ hi) := by
  induction vals with
  | nil => intro v hv; cases hv
  | cons w ws ih =>
    intro v hv xs number hvx
    rw [summarise_cons]
    rcases List.mem_cons.mp hv with rfl | hv
    · subst hvx
      refine ⟨?_, ?_⟩
      · simp only [Summary.merge, Summary.observe, Summary.empty]; omega
      · intro x hx hmx
        have hmem : x ∈ xs.filter (fun x => decide (minInt ≤ x)) := by
          simp [List.mem_filter, hx, hmx]
        simp only [Summary.merge, Summary.observe, Summary.empty, optMin_none_left,
          optMax_none_left]
        exact ⟨optMin_le_left _ (listMin_le hmem), le_optMax_left _ (le_listMax hmem)⟩
    · obtain ⟨h1, h2⟩ := ih v hv xs number hvx
      refine ⟨?_, ?_⟩
      · simp only [Summary.merge]; omega
      · intro x hx hmx
        obtain ⟨h3, h4⟩ := h2 x hx hmx
        simp only [Summary.merge]
        exact ⟨optMin_le_right _ h3, le_optMax_right _ h4⟩

theorem summarise_minV_attained (minInt : Int) (vals : List IVal) :
    ∀ lo, (summarise minInt vals).minV = some lo →
      ∃ v ∈ vals, ∃ xs number, v = some (xs, number) ∧ lo ∈ xs ∧ minInt ≤ lo := by
  induction vals with
  | nil => intro lo h; simp [summarise_nil, Summary.empty] at h
  | cons w ws ih =>
    intro lo h
    rw [summarise_cons] at h
    simp only [Summary.merge] at h
    rcases optMin_eq_some h with h | h
    · cases w with
      | none => simp [Summary.observe, Summary.empty] at h
      | some p =>
        obtain ⟨xs, n⟩ := p
        simp only [Summary.observe, Summary.empty, optMin_none_left] at h
        have := listMin_mem h
        simp only [List.mem_filter, decide_eq_true_eq] at this
        exact ⟨_, List.mem_cons_self, xs, n, rfl, this.1, this.2⟩
    · obtain ⟨v, hv, rest⟩ := ih lo h
      exact ⟨v, List.mem_cons_of_mem _ hv, rest⟩

theorem summarise_maxV_attained (minInt : Int) (vals : List IVal) :
    ∀ hi, (summarise minInt vals).maxV = some hi →
      ∃ v ∈ vals, ∃ xs number, v = some (xs, number) ∧ hi ∈ xs ∧ minInt ≤ hi := by
  induction vals with
  | nil => intro hi h; simp [summarise_nil, Summary.empty] at h
  | cons w ws ih =>
    intro hi h
    rw [summarise_cons] at h
    simp only [Summary.merge] at h
    rcases optMax_eq_some h with h | h
    · cases w with
      | none => simp [Summary.observe, Summary.empty] at h
      | some p =>
        obtain ⟨xs, n⟩ := p
        simp only [Summary.observe, Summary.empty, optMax_none_left] at h
        have := listMax_mem h
        simp only [List.mem_filter, decide_eq_true_eq] at this
        exact ⟨_, List.mem_cons_self, xs, n, rfl, this.1, this.2⟩
    · obtain ⟨v, hv, rest⟩ := ih hi h
      exact ⟨v, List.mem_cons_of_mem _ hv, rest⟩

theorem summarise_maxNumber_attained (minInt : Int) (vals : List IVal) :
    (summarise minInt vals).maxNumber = 0 ∨
      ∃ v ∈ vals, ∃ xs, v = some (xs, (summarise minInt vals).maxNumber) := by
  induction vals with
  | nil => left; rfl
  | cons w ws ih =>
    rw [summarise_cons]
    cases w with
    | none =>
      have : Summary.observe minInt Summary.empty none = Summary.empty := rfl
      rw [this, Summary.merge_empty_left]
      rcases ih with h | ⟨v, hv, rest⟩
      · exact Or.inl h
      · exact Or.inr ⟨v, List.mem_cons_of_mem _ hv, rest⟩
    | some p =>
      obtain ⟨xs, n⟩ := p
      simp only [Summary.merge, Summary.observe, Summary.empty]
      by_cases hle : (summarise minInt ws).maxNumber ≤ n
      · right
        refine ⟨_, List.mem_cons_self, xs, ?_⟩
        have : max (max 0 n) (summarise minInt ws).maxNumber = n := by omega
        rw [this]
      · have : max (max 0 n) (summarise minInt ws).maxNumber = (summarise minInt ws).maxNumber := by
          omega
        rw [this]
        rcases ih with h | ⟨v, hv, rest⟩
        · exact Or.inl h
        · exact Or.inr ⟨v, List.mem_cons_of_mem _ hv, rest⟩

end B2Z
