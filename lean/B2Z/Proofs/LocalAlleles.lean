import B2Z.Model.LocalAlleles
/-! Helper lemmas for `Props/C17.lean` (local-allele fields). -/
namespace B2Z.LA

/-! ## `localAlleles` -/

theorem filterMap_ite_some {α β : Type} (p : α → Prop) [DecidablePred p] (g : α → β) (l : List α) :
    l.filterMap (fun a => if p a then some (g a) else none) = (l.filter (fun a => decide (p a))).map g := by
  induction l with
  | nil => rfl
  | cons x xs ih =>
    by_cases h : p x <;> simp [h, ih]

theorem filterMap_congr' {α β : Type} (f g : α → Option β) (l : List α)
    (h : ∀ a ∈ l, f a = g a) : l.filterMap f = l.filterMap g := by
  induction l with
  | nil => rfl
  | cons x xs ih =>
    have hx := h x (by simp)
    have ih' := ih (fun a ha => h a (by simp [ha]))
    simp [List.filterMap_cons, hx, ih']

theorem count_clip_ne_zero (gt : List Int) (a : Nat) (ha : 1 ≤ a) :
    (gt.map fun g => if g < 0 then 0 else g).count (Int.ofNat a) ≠ 0 ↔ Int.ofNat a ∈ gt := by
  rw [← Nat.pos_iff_ne_zero, List.count_pos_iff, List.mem_map]
  constructor
  · rintro ⟨g, hg, h⟩
    by_cases hlt : g < 0
    · simp [hlt] at h; omega
    · simp [hlt] at h; subst h; exact hg
  · intro h
    refine ⟨Int.ofNat a, h, ?_⟩
    simp only [Int.ofNat_eq_natCast]
    rw [if_neg (by omega)]

theorem counts_getD (alt : Nat) (c : Nat → Nat) (a : Nat) (ha : a < alt + 1) :
    (((List.range (alt + 1)).map c).set 0 0).getD a 0 = if a = 0 then 0 else c a := by
  by_cases h0 : a = 0
  · subst h0; simp [List.getD_eq_getElem?_getD]
  · have : ¬ (0 = a) := fun h => h0 h.symm
    simp [List.getD_eq_getElem?_getD, this, h0, ha]

theorem localAlleles_eq (alt : Nat) (gt : List Int) :
    localAlleles alt gt
      = ((List.range (alt + 1)).filter fun a => 1 ≤ a ∧ (Int.ofNat a) ∈ gt).map Int.ofNat := by
  unfold localAlleles
  simp only []
  rw [← filterMap_ite_some (fun a => 1 ≤ a ∧ (Int.ofNat a) ∈ gt) Int.ofNat]
  apply filterMap_congr'
  intro a ha
  rw [List.mem_range] at ha
  rw [counts_getD alt _ a ha]
  by_cases h0 : a = 0
  · subst h0; simp
  · have h1 : 1 ≤ a := by omega
    have := count_clip_ne_zero gt a h1
    by_cases hm : Int.ofNat a ∈ gt
    · have hc := this.mpr hm
      simp only [h0, if_false] at *
      rw [if_pos hc, if_pos ⟨h1, hm⟩]
    · have hc : ¬ _ := fun h => hm (this.mp h)
      simp only [h0, if_false] at *
      rw [if_neg hc, if_neg (fun h => hm h.2)]


theorem range_pairwise_lt (n : Nat) : (List.range n).Pairwise (· < ·) := by
  induction n with
  | zero => simp
  | succ n ih =>
    rw [List.range_succ, List.pairwise_append]
    refine ⟨ih, by simp, ?_⟩
    intro a ha b hb
    simp at ha hb; omega

theorem localAlleles_pairwise (alt : Nat) (gt : List Int) :
    (localAlleles alt gt).Pairwise (· < ·) := by
  rw [localAlleles_eq, List.pairwise_map]
  have h := (range_pairwise_lt (alt + 1)).sublist
    (List.filter_sublist (p := fun a => decide (1 ≤ a ∧ (Int.ofNat a) ∈ gt)) (l := List.range (alt + 1)))
  refine h.imp ?_
  intro a b hab
  simp only [Int.ofNat_eq_natCast]; omega

theorem localAlleles_mem (alt : Nat) (gt : List Int) (a : Int) (ha : a ∈ localAlleles alt gt) :
    1 ≤ a ∧ a ≤ alt ∧ a ∈ gt := by
  rw [localAlleles_eq, List.mem_map] at ha
  obtain ⟨n, hn, rfl⟩ := ha
  rw [List.mem_filter, List.mem_range] at hn
  obtain ⟨hlt, hp⟩ := hn
  have hp' : 1 ≤ n ∧ Int.ofNat n ∈ gt := by simpa using hp
  refine ⟨?_, ?_, hp'.2⟩
  · simp only [Int.ofNat_eq_natCast]; omega
  · simp only [Int.ofNat_eq_natCast]; omega

/-! ## `laaWidth`, `padTo`, `laaField` -/

theorem foldl_max_ge_init (l : List Nat) (i : Nat) : i ≤ l.foldl max i := by
  induction l generalizing i with
  | nil => simp
  | cons x xs ih =>
    simp only [List.foldl_cons]
    exact Nat.le_trans (Nat.le_max_left i x) (ih _)

theorem foldl_max_ge_mem (l : List Nat) (i x : Nat) (hx : x ∈ l) : x ≤ l.foldl max i := by
  induction l generalizing i with
  | nil => simp at hx
  | cons y ys ih =>
    simp only [List.foldl_cons]
    rcases List.mem_cons.mp hx with rfl | h
    · exact Nat.le_trans (Nat.le_max_right i x) (foldl_max_ge_init _ _)
    · exact ih _ h

theorem laaWidth_pos (alt : Nat) (gts : List (List Int)) : 1 ≤ laaWidth alt gts :=
  foldl_max_ge_init _ _

theorem laaWidth_ge (alt : Nat) (gts : List (List Int)) (gt : List Int) (h : gt ∈ gts) :
    (localAlleles alt gt).length ≤ laaWidth alt gts := by
  apply foldl_max_ge_mem
  exact List.mem_map.mpr ⟨gt, h, rfl⟩

theorem padTo_length (w : Nat) (xs : List Int) : (padTo w xs).length = w := by
  simp [padTo]; omega

theorem padTo_eq (w : Nat) (xs : List Int) (h : xs.length ≤ w) :
    padTo w xs = xs ++ List.replicate (w - xs.length) FILL := by
  unfold padTo
  apply List.take_of_length_le
  simp; omega


/-! ## triangular enumeration -/

theorem tri_succ (n : Nat) : (n + 1) * (n + 2) / 2 = n * (n + 1) / 2 + (n + 1) := by
  have h : (n + 1) * (n + 2) = n * (n + 1) + 2 * (n + 1) := by
    rw [Nat.mul_add (n+1) n 2, Nat.mul_comm (n+1) n, Nat.mul_comm (n+1) 2]
  rw [h, Nat.add_mul_div_left _ _ (by decide : 0 < 2)]

theorem tri_mono {a b : Nat} (h : a ≤ b) : a * (a + 1) / 2 ≤ b * (b + 1) / 2 :=
  Nat.div_le_div_right (Nat.mul_le_mul h (by omega))

theorem flatMap_tri_length {α : Type} (f : Nat → List α) (hf : ∀ j, (f j).length = j + 1) (n : Nat) :
    ((List.range n).flatMap f).length = n * (n + 1) / 2 := by
  induction n with
  | zero => simp
  | succ n ih =>
    rw [List.range_succ, List.flatMap_append, List.length_append, ih, tri_succ]
    simp [hf]

theorem flatMap_tri_getElem? {α : Type} (f : Nat → List α) (hf : ∀ j, (f j).length = j + 1)
    (n i j : Nat) (hij : i ≤ j) (hj : j < n) :
    ((List.range n).flatMap f)[j * (j + 1) / 2 + i]? = (f j)[i]? := by
  induction n with
  | zero => omega
  | succ n ih =>
    rw [List.range_succ, List.flatMap_append]
    by_cases hjn : j < n
    · rw [List.getElem?_append_left]
      · exact ih hjn
      · rw [flatMap_tri_length f hf]
        have h1 := tri_succ j
        have h2 : (j + 1) * (j + 2) / 2 ≤ n * (n + 1) / 2 := tri_mono (a := j + 1) (by omega)
        omega
    · have hjn' : j = n := by omega
      subst hjn'
      rw [List.getElem?_append_right]
      · rw [flatMap_tri_length f hf]
        simp
      · rw [flatMap_tri_length f hf]; omega

theorem pairs_length (la : List Int) : (pairs la).length = la.length * (la.length + 1) / 2 := by
  unfold pairs
  exact flatMap_tri_length _ (by intro j; simp) _

theorem pairs_getElem? (la : List Int) (i j : Nat) (hij : i ≤ j) (hj : j < la.length) :
    (pairs la)[j * (j + 1) / 2 + i]? = some (la.getD i 0, la.getD j 0) := by
  unfold pairs
  rw [flatMap_tri_getElem? _ (by intro j; simp) _ i j hij hj]
  have : i < j + 1 := by omega
  simp [this]

theorem mem_pairs (la : List Int) (x : Int × Int) :
    x ∈ pairs la ↔ ∃ i j, i ≤ j ∧ j < la.length ∧ x = (la.getD i 0, la.getD j 0) := by
  unfold pairs
  simp only [List.mem_flatMap, List.mem_map, List.mem_range]
  constructor
  · rintro ⟨j, hj, i, hi, rfl⟩
    exact ⟨i, j, by omega, hj, rfl⟩
  · rintro ⟨i, j, hij, hj, rfl⟩
    exact ⟨j, hj, i, by omega, rfl⟩


/-! ## LPL -/

theorem mapM_option_congr {α β : Type} (f g : α → Option β) (l : List α)
    (h : ∀ x ∈ l, f x = g x) : l.mapM f = l.mapM g := by
  induction l with
  | nil => rfl
  | cons x xs ih =>
    have hx := h x (by simp)
    have ih' := ih (fun a ha => h a (by simp [ha]))
    simp [List.mapM_cons, hx, ih']

theorem mapM_option_none {α β : Type} (f : α → Option β) (l : List α) (x : α)
    (hx : x ∈ l) (hf : f x = none) : l.mapM f = none := by
  induction l with
  | nil => simp at hx
  | cons y ys ih =>
    rw [List.mapM_cons]
    rcases List.mem_cons.mp hx with rfl | h
    · simp [hf]
    · rw [ih h]
      cases f y <;> simp

/-- the model's per-genotype function -/
def fM (q : List Int) : Int × Int → Option Int := fun (a, b) =>
  (pyIndex q (plIndex a b)).map fun v => if b = FILL then FILL else v

/-- the specification's per-genotype function -/
def fS (q : List Int) : Int × Int → Option Int := fun (a, b) =>
  if a = FILL ∨ b = FILL then some FILL else q[(plIndex a b).toNat]?

def abOf (ploidy : Nat) (row : List Int) : List (Int × Int) :=
  if ploidy = 1 then ((0 : Int) :: row).map fun a => (a, 0) else pairs ((0 : Int) :: row)

/-- the model's per-genotype function when a single-column PL is broadcast -/
def fMB (pl : List Int) : Int × Int → Option Int := fun (_, b) =>
  (pl.head?).map fun v => if b = FILL then FILL else v

/-- the specification's per-genotype function when a single-column PL is broadcast -/
def fSB (pl : List Int) : Int × Int → Option Int := fun (a, b) =>
  if a = FILL ∨ b = FILL then some FILL else pl.head?

theorem lplRow_eq (ploidy : Nat) (row pl : List Int) :
    lplRow ploidy row pl =
      if pl.length < (abOf ploidy row).length ∧ pl.length ≠ 1 then none
      else if pl.length < (abOf ploidy row).length then (abOf ploidy row).mapM (fMB pl)
      else (abOf ploidy row).mapM (fM pl) := by
  show (if pl.length < (abOf ploidy row).length ∧ pl.length ≠ 1 then none
      else (abOf ploidy row).mapM fun (a, b) =>
        ((if pl.length < (abOf ploidy row).length then (fun _ => pl.head?) else pyIndex pl)
          (plIndex a b)).map fun v => if b = FILL then FILL else v) = _
  by_cases h : pl.length < (abOf ploidy row).length
  · simp only [h, if_true]; rfl
  · simp only [h, if_false]; rfl

theorem lplSpecRow_eq (ploidy : Nat) (row pl : List Int) :
    lplSpecRow ploidy row pl =
      if pl.length < (abOf ploidy row).length ∧ pl.length ≠ 1 then none
      else if pl.length < (abOf ploidy row).length then (abOf ploidy row).mapM (fSB pl)
      else (abOf ploidy row).mapM (fS pl) := by
  show (if pl.length < (abOf ploidy row).length ∧ pl.length ≠ 1 then none
      else (abOf ploidy row).mapM fun (a, b) =>
        if a = FILL ∨ b = FILL then some FILL
        else if pl.length < (abOf ploidy row).length then pl.head? else pl[(plIndex a b).toNat]?) = _
  by_cases h : pl.length < (abOf ploidy row).length
  · simp only [h, if_true]; rfl
  · simp only [h, if_false]; rfl

theorem plIndex_nonneg {a b : Int} (ha : 0 ≤ a) (hb : 0 ≤ b) : 0 ≤ plIndex a b := by
  unfold plIndex
  have h1 : 0 ≤ b * (b + 1) := Int.mul_nonneg hb (by omega)
  have h2 : 0 ≤ b * (b + 1) / 2 := Int.ediv_nonneg h1 (by decide)
  omega

theorem pyIndex_nonneg (q : List Int) {n : Int} (h : 0 ≤ n) : pyIndex q n = q[n.toNat]? := by
  simp [pyIndex, h]

theorem fM_eq_fS_nonneg (q : List Int) {a b : Int} (ha : 0 ≤ a) (hb : 0 ≤ b) :
    fM q (a, b) = fS q (a, b) := by
  have ha' : a ≠ FILL := by unfold FILL; omega
  have hb' : b ≠ FILL := by unfold FILL; omega
  simp only [fM, fS]
  rw [pyIndex_nonneg q (plIndex_nonneg ha hb)]
  simp [ha', hb']

theorem fS_nonneg (q : List Int) {a b : Int} (ha : 0 ≤ a) (hb : 0 ≤ b) :
    fS q (a, b) = q[(plIndex a b).toNat]? := by
  have ha' : a ≠ FILL := by unfold FILL; omega
  have hb' : b ≠ FILL := by unfold FILL; omega
  simp [fS, ha', hb']

theorem plIndex_fill (a : Int) : plIndex a FILL = 1 + a := by
  unfold plIndex FILL
  have : (-2 : Int) * (-2 + 1) / 2 = 1 := by decide
  rw [this]

theorem plIndex_diag_ge {a : Int} (ha : 1 ≤ a) : 1 + a ≤ plIndex a a := by
  unfold plIndex
  have h1 : 1 * (a + 1) ≤ a * (a + 1) := Int.mul_le_mul_of_nonneg_right ha (by omega)
  generalize a * (a + 1) = t at *
  omega

/-- shape of `0 :: als ++ replicate k FILL` by position -/
theorem la_getD (als : List Int) (k : Nat) (i : Nat)
    (hi : i < ((0 : Int) :: (als ++ List.replicate k FILL)).length) :
    (i ≤ als.length ∧ (((0 : Int) :: (als ++ List.replicate k FILL)).getD i 0 = 0 ∨
        (((0 : Int) :: (als ++ List.replicate k FILL)).getD i 0 ∈ als))) ∨
    (als.length < i ∧ ((0 : Int) :: (als ++ List.replicate k FILL)).getD i 0 = FILL) := by
  cases i with
  | zero => left; simp
  | succ i =>
    simp only [List.length_cons, List.length_append, List.length_replicate] at hi
    by_cases h : i < als.length
    · left
      refine ⟨by omega, Or.inr ?_⟩
      simp [List.getD_eq_getElem?_getD, List.getElem?_append_left h, List.getElem?_eq_getElem h]
    · right
      refine ⟨by omega, ?_⟩
      have h' : als.length ≤ i := by omega
      have h'' : i - als.length < k := by omega
      simp [List.getD_eq_getElem?_getD, List.getElem?_append_right h', h'']

theorem lpl_diploid_mapM (als : List Int) (k : Nat) (hals : ∀ a ∈ als, 1 ≤ a) (q : List Int)
    (hq : (pairs ((0 : Int) :: (als ++ List.replicate k FILL))).length ≤ q.length) :
    (pairs ((0 : Int) :: (als ++ List.replicate k FILL))).mapM (fM q)
      = (pairs ((0 : Int) :: (als ++ List.replicate k FILL))).mapM (fS q) := by
  generalize hla : ((0 : Int) :: (als ++ List.replicate k FILL)) = la at hq ⊢
  have hlen : la.length = 1 + als.length + k := by subst hla; simp; omega
  by_cases hex : ∃ x ∈ pairs la, 0 ≤ x.1 ∧ 0 ≤ x.2 ∧ q[(plIndex x.1 x.2).toNat]? = none
  · obtain ⟨⟨a, b⟩, hx, ha, hb, hnone⟩ := hex
    simp only at ha hb hnone
    rw [mapM_option_none (fM q) _ _ hx (by rw [fM_eq_fS_nonneg q ha hb, fS_nonneg q ha hb]; exact hnone),
        mapM_option_none (fS q) _ _ hx (by rw [fS_nonneg q ha hb]; exact hnone)]
  · apply mapM_option_congr
    intro x hx
    obtain ⟨i, j, hij, hj, rfl⟩ := (mem_pairs la x).mp hx
    have hI := la_getD als k i (by rw [hla]; omega)
    have hJ := la_getD als k j (by rw [hla]; omega)
    rw [hla] at hI hJ
    have nn : ∀ n, n ≤ als.length → (la.getD n 0 = 0 ∨ la.getD n 0 ∈ als) → 0 ≤ la.getD n 0 := by
      intro n _ h
      rcases h with h | h
      · omega
      · have := hals _ h; omega
    rcases hJ with ⟨hjl, hjv⟩ | ⟨hjl, hjv⟩
    · -- both real alleles
      rcases hI with ⟨hil, hiv⟩ | ⟨hil, _⟩
      · exact fM_eq_fS_nonneg q (nn i hil hiv) (nn j hjl hjv)
      · omega
    · -- b is fill
      have hk : 1 ≤ k := by omega
      have hq3 : 3 ≤ q.length := by
        have h1 := pairs_length la
        have h2 : 2 * (2 + 1) / 2 ≤ la.length * (la.length + 1) / 2 := tri_mono (by omega)
        have h3 : 2 * (2 + 1) / 2 = 3 := by decide
        omega
      have hS : fS q (la.getD i 0, la.getD j 0) = some FILL := by
        simp only [fS]; rw [if_pos (Or.inr hjv)]
      rw [hS]
      simp only [fM, hjv, plIndex_fill]
      suffices h : ∃ v, pyIndex q (1 + la.getD i 0) = some v by
        obtain ⟨v, hv⟩ := h; rw [hv]; simp
      rcases hI with ⟨hil, hiv⟩ | ⟨hil, hiv⟩
      · have h0 := nn i hil hiv
        rw [pyIndex_nonneg q (by omega)]
        suffices h : (1 + la.getD i 0).toNat < q.length by
          exact ⟨q[(1 + la.getD i 0).toNat], by simp⟩
        rcases hiv with hiv | hiv
        · rw [hiv]; simp; omega
        · have ha1 := hals _ hiv
          have hmem : (la.getD i 0, la.getD i 0) ∈ pairs la :=
            (mem_pairs la _).mpr ⟨i, i, Nat.le_refl _, by omega, rfl⟩
          have hlt : (plIndex (la.getD i 0) (la.getD i 0)).toNat < q.length := by
            apply Classical.byContradiction
            intro hge
            apply hex
            refine ⟨_, hmem, by simp only; omega, by simp only; omega, ?_⟩
            simp only
            exact List.getElem?_eq_none (by omega)
          have := plIndex_diag_ge ha1
          omega
      · rw [hiv]
        have : (1 : Int) + FILL = -1 := by decide
        rw [this]
        have hlt : ((-1 : Int) + (q.length : Int)).toNat < q.length := by omega
        refine ⟨q[((-1 : Int) + (q.length : Int)).toNat], ?_⟩
        have h1 : ¬ ((0 : Int) ≤ -1) := by decide
        have h2 : -(q.length : Int) ≤ -1 := by omega
        simp [pyIndex, h2, hlt]

theorem lpl_haploid_mapM (row : List Int) (hrow : ∀ a ∈ row, 1 ≤ a) (q : List Int) :
    (((0 : Int) :: row).map fun a => (a, (0 : Int))).mapM (fM q)
      = (((0 : Int) :: row).map fun a => (a, (0 : Int))).mapM (fS q) := by
  apply mapM_option_congr
  intro x hx
  obtain ⟨a, ha, rfl⟩ := List.mem_map.mp hx
  have h0 : 0 ≤ a := by
    rcases List.mem_cons.mp ha with rfl | h
    · omega
    · have := hrow _ h; omega
  exact fM_eq_fS_nonneg q h0 (Int.le_refl 0)

/-- broadcast, diploid: fills only at the end and `i ≤ j` in every pair, so `a = FILL → b = FILL` -/
theorem lpl_diploid_mapM_bc (als : List Int) (k : Nat) (hals : ∀ a ∈ als, 1 ≤ a) (pl : List Int)
    (hpl : pl.length = 1) :
    (pairs ((0 : Int) :: (als ++ List.replicate k FILL))).mapM (fMB pl)
      = (pairs ((0 : Int) :: (als ++ List.replicate k FILL))).mapM (fSB pl) := by
  obtain ⟨v, hv⟩ : ∃ v, pl.head? = some v := by
    cases pl with
    | nil => simp at hpl
    | cons v _ => exact ⟨v, rfl⟩
  apply mapM_option_congr
  intro x hx
  obtain ⟨i, j, hij, hj, rfl⟩ := (mem_pairs _ x).mp hx
  have hI := la_getD als k i (by omega)
  have hJ := la_getD als k j hj
  generalize ((0 : Int) :: (als ++ List.replicate k FILL)).getD i 0 = a at hI
  generalize ((0 : Int) :: (als ++ List.replicate k FILL)).getD j 0 = b at hJ
  have nn : ∀ c : Int, (c = 0 ∨ c ∈ als) → c ≠ FILL := by
    intro c h
    rcases h with h | h
    · unfold FILL; omega
    · have := hals _ h; unfold FILL; omega
  simp only [fMB, fSB, hv]
  rcases hJ with ⟨hjl, hjv⟩ | ⟨hjl, hjv⟩
  · rcases hI with ⟨_, hiv⟩ | ⟨hil, _⟩
    · simp [nn a hiv, nn b hjv]
    · omega
  · simp [hjv]

theorem lpl_haploid_mapM_bc (row : List Int) (hrow : ∀ a ∈ row, 1 ≤ a) (pl : List Int) :
    (((0 : Int) :: row).map fun a => (a, (0 : Int))).mapM (fMB pl)
      = (((0 : Int) :: row).map fun a => (a, (0 : Int))).mapM (fSB pl) := by
  apply mapM_option_congr
  intro x hx
  obtain ⟨a, ha, rfl⟩ := List.mem_map.mp hx
  have h0 : 0 ≤ a := by
    rcases List.mem_cons.mp ha with rfl | h
    · omega
    · have := hrow _ h; omega
  have ha' : a ≠ FILL := by unfold FILL; omega
  have hb' : (0 : Int) ≠ FILL := by decide
  simp [fMB, fSB, ha', hb']

theorem lplRow_diploid (row pl : List Int)
    (hrow : ∃ (als : List Int) (k : Nat), row = als ++ List.replicate k FILL ∧ ∀ a ∈ als, 1 ≤ a) :
    lplRow 2 row pl = lplSpecRow 2 row pl := by
  obtain ⟨als, k, rfl, hals⟩ := hrow
  rw [lplRow_eq, lplSpecRow_eq]
  have hab : abOf 2 (als ++ List.replicate k FILL)
      = pairs ((0 : Int) :: (als ++ List.replicate k FILL)) := by simp [abOf]
  rw [hab]
  split
  · rfl
  · next h =>
    split
    · next hlt => exact lpl_diploid_mapM_bc als k hals pl (by omega)
    · next hlt => exact lpl_diploid_mapM als k hals pl (by omega)

theorem lplRow_haploid (row pl : List Int) (hrow : ∀ a ∈ row, 1 ≤ a) :
    lplRow 1 row pl = lplSpecRow 1 row pl := by
  rw [lplRow_eq, lplSpecRow_eq]
  have hab : abOf 1 row = ((0 : Int) :: row).map fun a => (a, (0 : Int)) := by simp [abOf]
  rw [hab]
  split
  · rfl
  · split
    · exact lpl_haploid_mapM_bc row hrow pl
    · exact lpl_haploid_mapM row hrow pl

end B2Z.LA
