import B2Z.Model.Regions
/-! # `offsets()` of the two index kinds: `offsetsTbi`, `offsetsCsi`, `sortBy` -/
namespace B2Z.Regions

/-! ## tabix -/

def tbiRow (interval : Nat) : List Nat × Nat → List Off := fun (li, c) =>
  li.zipIdx.map fun (vfp, k) => { off := vfp / 65536 % 281474976710656, contig := c, pos := k * interval + 1 }

theorem offsetsTbi_eq (interval : Nat) (linear : List (List Nat)) :
    offsetsTbi interval linear = linear.zipIdx.flatMap (tbiRow interval) := rfl

theorem tbiRow_contig (interval : Nat) (li : List Nat) (c : Nat) :
    ∀ o ∈ tbiRow interval (li, c), o.contig = c := by
  intro o ho
  simp only [tbiRow, List.mem_map] at ho
  obtain ⟨⟨vfp, k⟩, _, rfl⟩ := ho
  rfl

theorem tbiRow_pos_strict_aux (interval : Nat) (hiv : 0 < interval) (c : Nat) (li : List Nat) (s : Nat) :
    ((li.zipIdx s).map fun ((vfp, k) : Nat × Nat) =>
      ({ off := vfp / 65536 % 281474976710656, contig := c, pos := k * interval + 1 } : Off)).Pairwise
      (fun a b => a.pos < b.pos) := by
  induction li generalizing s with
  | nil => simp
  | cons x xs ih =>
    rw [List.zipIdx_cons, List.map_cons]
    apply List.pairwise_cons.mpr
    refine ⟨?_, ih (s + 1)⟩
    intro o ho
    obtain ⟨⟨vfp, k⟩, hk, rfl⟩ := List.mem_map.mp ho
    have := (List.mem_zipIdx hk).1
    have : s * interval < k * interval := Nat.mul_lt_mul_of_pos_right (by omega) hiv
    simp only
    omega

theorem tbiRow_pos_strict (interval : Nat) (hiv : 0 < interval) (li : List Nat) (c : Nat) :
    (tbiRow interval (li, c)).Pairwise (fun a b => a.pos < b.pos) :=
  tbiRow_pos_strict_aux interval hiv c li 0

theorem tbi_contig_ge (interval : Nat) (l : List (List Nat)) (s : Nat) :
    ∀ o ∈ (l.zipIdx s).flatMap (tbiRow interval), s ≤ o.contig := by
  intro o ho
  obtain ⟨⟨li, c⟩, hc, hoc⟩ := List.mem_flatMap.mp ho
  have := (List.mem_zipIdx hc).1
  rw [tbiRow_contig interval li c o hoc]
  exact this

theorem tbi_strict_aux (interval : Nat) (hiv : 0 < interval) (l : List (List Nat)) (s : Nat)
    (hpos : ∀ o ∈ (l.zipIdx s).flatMap (tbiRow interval), o.pos < M) :
    ((l.zipIdx s).flatMap (tbiRow interval)).Pairwise
      (fun a b => a.contig * M + a.pos < b.contig * M + b.pos) := by
  induction l generalizing s with
  | nil => simp
  | cons li ls ih =>
    rw [List.zipIdx_cons, List.flatMap_cons] at hpos ⊢
    apply List.pairwise_append.mpr
    refine ⟨?_, ih (s + 1) (fun o ho => hpos o (List.mem_append_right _ ho)), ?_⟩
    · -- within one contig
      have hc := tbiRow_contig interval li s
      refine (tbiRow_pos_strict interval hiv li s).imp_of_mem ?_
      intro a b ha hb hab
      rw [hc a ha, hc b hb]
      omega
    · -- across contigs
      intro a ha b hb
      have h1 := tbiRow_contig interval li s a ha
      have h2 := tbi_contig_ge interval ls (s + 1) b hb
      have h3 := hpos a (List.mem_append_left _ ha)
      have h4 : (a.contig + 1) * M ≤ b.contig * M := Nat.mul_le_mul_right M (by omega)
      simp only [M] at *
      omega

theorem tbi_strict (interval : Nat) (hiv : 0 < interval) (linear : List (List Nat))
    (hpos : ∀ o ∈ offsetsTbi interval linear, o.pos < M) :
    (offsetsTbi interval linear).Pairwise (fun a b => a.contig * M + a.pos < b.contig * M + b.pos) := by
  rw [offsetsTbi_eq] at *
  exact tbi_strict_aux interval hiv linear 0 hpos

/-! ## the stable insertion sort by a lexicographic key -/

/-- the strict lexicographic order on keys (the test in `insertBy`) -/
def lexLt (k : Bin → Nat × Nat) (a b : Bin) : Prop :=
  (k a).1 < (k b).1 ∨ ((k a).1 = (k b).1 ∧ (k a).2 < (k b).2)

instance (k : Bin → Nat × Nat) (a b : Bin) : Decidable (lexLt k a b) := by
  unfold lexLt; infer_instance

theorem insertBy_cons (k : Bin → Nat × Nat) (x y : Bin) (ys : List Bin) :
    insertBy k x (y :: ys) = if lexLt k y x then y :: insertBy k x ys else x :: y :: ys := rfl

theorem mem_insertBy (k : Bin → Nat × Nat) (x z : Bin) (l : List Bin) :
    z ∈ insertBy k x l ↔ z = x ∨ z ∈ l := by
  induction l with
  | nil => simp [insertBy]
  | cons y ys ih =>
    rw [insertBy_cons]
    by_cases h : lexLt k y x
    · rw [if_pos h]
      simp only [List.mem_cons, ih]
      constructor
      · rintro (h | h | h)
        · exact Or.inr (Or.inl h)
        · exact Or.inl h
        · exact Or.inr (Or.inr h)
      · rintro (h | h | h)
        · exact Or.inr (Or.inl h)
        · exact Or.inl h
        · exact Or.inr (Or.inr h)
    · rw [if_neg h]; simp

theorem insertBy_sorted (k : Bin → Nat × Nat) (x : Bin) (l : List Bin)
    (h : l.Pairwise (fun a b => ¬ lexLt k b a)) :
    (insertBy k x l).Pairwise (fun a b => ¬ lexLt k b a) := by
  induction l with
  | nil => simp [insertBy]
  | cons y ys ih =>
    have hy := List.pairwise_cons.mp h
    rw [insertBy_cons]
    by_cases hc : lexLt k y x
    · rw [if_pos hc]
      apply List.pairwise_cons.mpr
      refine ⟨?_, ih hy.2⟩
      intro z hz
      rcases (mem_insertBy k x z ys).mp hz with rfl | hz
      · unfold lexLt at *; omega
      · exact hy.1 z hz
    · rw [if_neg hc]
      apply List.pairwise_cons.mpr
      refine ⟨?_, h⟩
      intro z hz
      rcases List.mem_cons.mp hz with rfl | hz
      · exact hc
      · have := hy.1 z hz
        unfold lexLt at *; omega

theorem mem_sortBy (k : Bin → Nat × Nat) (z : Bin) (l : List Bin) : z ∈ sortBy k l ↔ z ∈ l := by
  induction l with
  | nil => simp [sortBy]
  | cons x xs ih =>
    have : sortBy k (x :: xs) = insertBy k x (sortBy k xs) := rfl
    rw [this, mem_insertBy, ih]; simp

theorem sortBy_sorted (k : Bin → Nat × Nat) (l : List Bin) :
    (sortBy k l).Pairwise (fun a b => ¬ lexLt k b a) := by
  induction l with
  | nil => simp [sortBy]
  | cons x xs ih =>
    have : sortBy k (x :: xs) = insertBy k x (sortBy k xs) := rfl
    rw [this]; exact insertBy_sorted k x _ ih

/-! ## CSI -/

def csiKey (tieBreak : Bool) (minShift depth : Nat) : Bin → Nat × Nat :=
  fun b => (b.loffset, if tieBreak then firstLocus minShift depth b.bin else 0)

def csiOff (minShift depth c : Nat) (b : Bin) : Off :=
  { off := b.loffset / 65536 % 281474976710656, contig := c, pos := firstLocus minShift depth b.bin }

/-- the bins of one contig in the order `offsets()` lists them -/
def csiSel (tieBreak : Bool) (minShift depth : Nat) (bs : List Bin) : List Bin :=
  (sortBy (csiKey tieBreak minShift depth) bs).filter (fun b => b.bin ≠ firstBinInLevel (depth + 1) + 1)

def csiRow (tieBreak : Bool) (minShift depth : Nat) : List Bin × Nat → List Off := fun (bs, c) =>
  (csiSel tieBreak minShift depth bs).map (csiOff minShift depth c)

theorem offsetsCsi_eq (tieBreak : Bool) (minShift depth : Nat) (bins : List (List Bin)) :
    offsetsCsi tieBreak minShift depth bins = bins.zipIdx.flatMap (csiRow tieBreak minShift depth) := rfl

theorem csiRow_nil (tieBreak : Bool) (minShift depth c : Nat) :
    csiRow tieBreak minShift depth ([], c) = [] := rfl

/-- a single non-empty contig number `c`: only its row remains -/
theorem offsetsCsi_single (tieBreak : Bool) (minShift depth : Nat) (bs : List Bin) (c : Nat) :
    offsetsCsi tieBreak minShift depth (List.replicate c [] ++ [bs])
      = (csiSel tieBreak minShift depth bs).map (csiOff minShift depth c) := by
  rw [offsetsCsi_eq, List.zipIdx_append, List.flatMap_append]
  have hnil : (List.zipIdx (List.replicate c ([] : List Bin)) 0).flatMap (csiRow tieBreak minShift depth) = [] := by
    apply List.flatMap_eq_nil_iff.mpr
    rintro ⟨li, i⟩ hi
    have := (List.mem_zipIdx hi).2.2
    simp only [List.getElem_replicate] at this
    subst this
    rfl
  rw [hnil]
  simp [csiRow]

theorem mem_csiSel (tieBreak : Bool) (minShift depth : Nat) (bs : List Bin) (b : Bin) :
    b ∈ csiSel tieBreak minShift depth bs ↔ b ∈ bs ∧ b.bin ≠ firstBinInLevel (depth + 1) + 1 := by
  simp [csiSel, mem_sortBy]

theorem csiSel_sorted (tieBreak : Bool) (minShift depth : Nat) (bs : List Bin) :
    (csiSel tieBreak minShift depth bs).Pairwise
      (fun a b => ¬ lexLt (csiKey tieBreak minShift depth) b a) :=
  List.Pairwise.sublist List.filter_sublist (sortBy_sorted _ bs)

end B2Z.Regions
