import B2Z.Proofs.IcfThm
namespace B2Z

theorem length_flatten_eq_sum (l : List (List α)) : l.flatten.length = (l.map List.length).sum := by
  induction l with
  | nil => rfl
  | cons x xs ih => simp [ih]

/-- dropping the total length of the first `i` blocks of a flattened list leaves the other blocks -/
theorem drop_flatten_take (l : List (List α)) (i : Nat) :
    l.flatten.drop ((l.take i).map List.length).sum = (l.drop i).flatten := by
  induction l generalizing i with
  | nil => simp
  | cons x xs ih =>
    cases i with
    | zero => simp
    | succ i =>
      simp only [List.take_succ_cons, List.map_cons, List.sum_cons, List.flatten_cons,
        List.drop_succ_cons]
      rw [List.drop_append, ← ih i]
      have : x.length + (List.map List.length (List.take i xs)).sum - x.length
           = (List.map List.length (List.take i xs)).sum := by omega
      rw [this, List.drop_of_length_le (by omega : x.length ≤ x.length + _)]
      simp

theorem flatten_split (l : List (List α)) (i : Nat) (h : i < l.length) :
    l.flatten = (l.take i).flatten ++ l[i] ++ (l.drop (i+1)).flatten := by
  induction l generalizing i with
  | nil => simp at h
  | cons x xs ih =>
    cases i with
    | zero => simp
    | succ i =>
      simp at h
      simp [ih i h, List.append_assoc]

structure Store.WF (s : Store α) : Prop where
  parts_nonempty : ∀ p ∈ s, 0 < p.recs.length
  chunks_nonempty : ∀ p ∈ s, ∀ c ∈ p.chunks, 0 < c.length

theorem C08_iterValues (s : Store α) (wf : s.WF) (start stop : Nat)
    (h1 : start < stop) (h2 : stop ≤ s.all.length) :
    iterValues s start stop = (s.all.drop start).take (stop - start) := by
  -- partition level -------------------------------------------------------
  let blocks := s.map Part.recs
  have hall : s.all = blocks.flatten := rfl
  have hlens : (s.map fun p => p.recs.length) = blocks.map List.length := by
    simp [blocks, List.map_map, Function.comp_def]
  have hsum : (blocks.map List.length).sum = s.all.length := by
    rw [hall, length_flatten_eq_sum]
  have hpos : ∀ x ∈ blocks.map List.length, 0 < x := by
    intro x hx
    simp [blocks] at hx
    obtain ⟨p, hp, rfl⟩ := hx
    exact wf.parts_nonempty p hp
  obtain ⟨sp, hsp, hsr, hget, hle, hlt⟩ :=
    searchRight_cumsumFrom 0 start (blocks.map List.length) hpos (by omega) (by omega)
  simp only [Nat.zero_add, List.length_map] at hsp hget hle hlt
  have hspS : sp < s.length := by simpa [blocks] using hsp
  -- name the pieces
  generalize hoff : ((blocks.map List.length).take sp).sum = offset at hget hle hlt
  have hblk : blocks[sp]'hsp = (s[sp]'hspS).recs := by simp [blocks]
  generalize hp : s[sp]'hspS = p at hblk
  have hpmem : p ∈ s := by rw [← hp]; exact List.getElem_mem _
  have hlt' : start < offset + p.recs.length := by
    have : ((blocks.map List.length).take (sp+1)).sum = offset + (blocks[sp]'hsp).length := by
      rw [List.take_succ, List.sum_append, hoff]
      simp [List.getElem?_eq_getElem hsp]
    rw [this, hblk] at hlt; exact hlt
  -- chunk level -----------------------------------------------------------
  have hcpos : ∀ x ∈ p.chunks.map List.length, 0 < x := by
    intro x hx; simp at hx; obtain ⟨c, hc, rfl⟩ := hx; exact wf.chunks_nonempty p hpmem c hc
  have hplen : (p.chunks.map List.length).sum = p.recs.length := by
    simp [Part.recs, length_flatten_eq_sum]
  obtain ⟨sc, hsc, hsrc, hgetc, hlec, hltc⟩ :=
    searchRight_cumsumFrom 0 (start - offset) (p.chunks.map List.length) hcpos (by omega) (by omega)
  simp only [Nat.zero_add, List.length_map] at hsc hgetc hlec hltc
  generalize hcoff : ((p.chunks.map List.length).take sc).sum = coff at hgetc hlec hltc
  -- unfold the implementation ---------------------------------------------
  have hX : (p.chunks.drop sc).flatten = p.recs.drop coff := by
    rw [← hcoff, ← List.map_take]; exact (drop_flatten_take p.chunks sc).symm
  have hsp? : s[sp]? = some p := by rw [List.getElem?_eq_getElem hspS, hp]
  unfold iterValues
  simp only [Store.partIndex, cumsum, hlens, hsr, Nat.add_sub_cancel, hget, hsp?,
    Part.chunkIndex, hsrc, hgetc, hX]
  -- the specification side ------------------------------------------------
  have hsplit : s.all = (blocks.take sp).flatten ++ p.recs ++ (blocks.drop (sp+1)).flatten := by
    rw [hall, flatten_split blocks sp hsp, hblk]
  have hAlen : (blocks.take sp).flatten.length = offset := by
    rw [length_flatten_eq_sum, List.map_take, hoff]
  have hR : ((s.drop (sp + 1)).map Part.recs).flatten = (blocks.drop (sp+1)).flatten := by
    simp [blocks, List.map_drop]
  rw [hR]
  generalize (blocks.drop (sp+1)).flatten = R at *
  generalize hA : (blocks.take sp).flatten = A at *
  have hdrop : s.all.drop start = p.recs.drop (start - offset) ++ R := by
    rw [hsplit, List.append_assoc, List.drop_append, List.drop_of_length_le (by omega), hAlen,
      List.nil_append, List.drop_append]
    have : start - offset - p.recs.length = 0 := by omega
    rw [this]; simp
  rw [hdrop]
  -- emitFirst characterisation
  have hrid : offset + coff ≤ stop := by omega
  obtain ⟨e1, e2, e3⟩ := emitFirst_eq start stop (offset + coff) (p.recs.drop coff) hrid
  have hXlen : (p.recs.drop coff).length = p.recs.length - coff := by simp
  have hsub : start - (offset + coff) + coff = start - offset := by omega
  have hY : (p.recs.drop coff).drop (start - (offset + coff)) = p.recs.drop (start - offset) := by
    rw [List.drop_drop]; congr 1; omega
  have hYlen : (p.recs.drop (start - offset)).length = p.recs.length - (start - offset) := by simp
  by_cases hstop : stop - (offset + coff) < (p.recs.drop coff).length
  · rw [if_pos (e3.mpr hstop), e1, List.drop_take, hY]
    have : stop - (offset + coff) - (start - (offset + coff)) = stop - start := by omega
    rw [this, List.take_append_of_le_length (by rw [hYlen]; omega)]
  · have hns : ¬ ((emitFirst start stop (offset + coff) (p.recs.drop coff)).2.2 = true) :=
      fun h => hstop (e3.mp h)
    rw [if_neg hns, e1, e2, emitRest_eq _ _ _ (Nat.min_le_right _ _)]
    have hmin : min (offset + coff + (p.recs.drop coff).length) stop = offset + p.recs.length := by
      rw [hXlen]; omega
    have hfull : (p.recs.drop coff).take (stop - (offset + coff)) = p.recs.drop coff :=
      List.take_of_length_le (by omega)
    rw [hmin, hfull, hY, List.take_append, hYlen]
    have hYfull : (p.recs.drop (start - offset)).take (stop - start) = p.recs.drop (start - offset) :=
      List.take_of_length_le (by rw [hYlen]; omega)
    rw [hYfull]
    have : stop - (offset + p.recs.length) = stop - start - (p.recs.length - (start - offset)) := by omega
    rw [this]

end B2Z
