import B2Z.Model.RegionIndex
/-! # Helper lemmas about the region-index model (`B2Z.RIdx`) used by `Props/C12.lean` -/
namespace B2Z.RIdx

/-! ## `wrap` -/

theorem wrap_id' (bits : Nat) (hb : 0 < bits) (x : Int)
    (h : -(2 : Int) ^ (bits - 1) ≤ x ∧ x < (2 : Int) ^ (bits - 1)) : wrap bits x = x := by
  obtain ⟨b, rfl⟩ : ∃ b, bits = b + 1 := ⟨bits - 1, by omega⟩
  simp only [Nat.add_sub_cancel] at h
  have hpos : (0 : Int) < 2 ^ b := Int.pow_pos (by omega)
  unfold wrap
  simp only [Int.pow_succ]
  generalize (2 : Int) ^ b = H at h hpos
  have hdiv : H * 2 / 2 = H := by omega
  rw [hdiv]
  by_cases hx : 0 ≤ x
  · have : x % (H * 2) = x := Int.emod_eq_of_lt hx (by omega)
    rw [this]
    simp [h.2]
  · have : x % (H * 2) = x + H * 2 := by
      calc x % (H * 2) = (x + (H * 2) * 1) % (H * 2) :=
            (Int.add_mul_emod_self_left x (H * 2) 1).symm
        _ = x + H * 2 := by
            rw [Int.mul_one]; exact Int.emod_eq_of_lt (by omega) (by omega)
    rw [this]
    have : ¬ (x + H * 2 < H) := by omega
    simp only [this, if_false]
    omega

/-! ## `chunksOf` / `chunks` -/

theorem chunksOf_flatten (cs : Nat) (hcs : 0 < cs) :
    ∀ (fuel : Nat) (xs : List Rec), xs.length ≤ fuel → (chunksOf cs fuel xs).flatten = xs := by
  intro fuel
  induction fuel with
  | zero =>
    intro xs h
    have : xs = [] := List.eq_nil_of_length_eq_zero (by omega)
    subst this; simp [chunksOf]
  | succ n ih =>
    intro xs h
    cases xs with
    | nil => simp [chunksOf]
    | cons x rest =>
      simp only [chunksOf, List.flatten_cons]
      rw [ih _ (by simp only [List.length_drop, List.length_cons] at *; omega)]
      exact List.take_append_drop _ _

/-- chunk-shape invariant: every chunk is non-empty and at most `cs` long, and every chunk that
    is not the last one is exactly `cs` long -/
def ChunksOK (cs : Nat) : List (List Rec) → Prop
  | [] => True
  | ch :: rest => 0 < ch.length ∧ ch.length ≤ cs ∧ (rest ≠ [] → ch.length = cs) ∧ ChunksOK cs rest

theorem chunksOf_ne_nil_imp (cs : Nat) :
    ∀ (fuel : Nat) (xs : List Rec), chunksOf cs fuel xs ≠ [] → xs ≠ [] := by
  intro fuel xs h hx
  subst hx
  cases fuel <;> simp [chunksOf] at h

theorem chunksOf_ok (cs : Nat) (hcs : 0 < cs) :
    ∀ (fuel : Nat) (xs : List Rec), ChunksOK cs (chunksOf cs fuel xs) := by
  intro fuel
  induction fuel with
  | zero => intro xs; simp [chunksOf, ChunksOK]
  | succ n ih =>
    intro xs
    cases xs with
    | nil => simp [chunksOf, ChunksOK]
    | cons x rest =>
      simp only [chunksOf, ChunksOK]
      refine ⟨?_, ?_, ?_, ih _⟩
      · simp only [List.length_take, List.length_cons]; omega
      · simp only [List.length_take]; omega
      · intro hne
        have := chunksOf_ne_nil_imp cs n _ hne
        have : 0 < ((x :: rest).drop cs).length := List.length_pos_iff.mpr this
        simp only [List.length_drop, List.length_take] at *
        omega

theorem chunksOf_mem (cs : Nat) :
    ∀ (fuel : Nat) (xs : List Rec), ∀ ch ∈ chunksOf cs fuel xs, ∀ r ∈ ch, r ∈ xs := by
  intro fuel
  induction fuel with
  | zero => intro xs ch h; simp [chunksOf] at h
  | succ n ih =>
    intro xs ch h r hr
    cases xs with
    | nil => simp [chunksOf] at h
    | cons x rest =>
      simp only [chunksOf, List.mem_cons] at h
      rcases h with rfl | h
      · exact List.mem_of_mem_take hr
      · exact List.mem_of_mem_drop (ih _ ch h r hr)

/-! ## `splitRuns` -/

theorem splitRuns_flatten (l : List Rec) : (splitRuns l).flatten = l := by
  fun_induction splitRuns l with
  | case1 => rfl
  | case2 x => rfl
  | case3 x y rest h ih => simp [ih]
  | case4 x y rest h r rs heq ih => rw [heq] at ih; simpa using ih
  | case5 x y rest h heq ih => rw [heq] at ih; simp at ih

theorem splitRuns_cons (y : Rec) (rest : List Rec) :
    ∃ r rs, splitRuns (y :: rest) = (y :: r) :: rs := by
  cases rest with
  | nil => exact ⟨[], [], rfl⟩
  | cons z rest' =>
    unfold splitRuns
    split
    · exact ⟨[], _, rfl⟩
    · split
      · exact ⟨_, _, rfl⟩
      · exact ⟨[], [], rfl⟩

theorem splitRuns_uniform (l : List Rec) :
    ∀ run ∈ splitRuns l, run ≠ [] ∧ ∀ r ∈ run, r.contig = (run.headD default).contig := by
  fun_induction splitRuns l with
  | case1 => simp
  | case2 x => simp
  | case3 x y rest h ih =>
    intro run hrun
    simp only [List.mem_cons] at hrun
    rcases hrun with rfl | hrun
    · simp
    · exact ih run hrun
  | case4 x y rest h r rs heq ih =>
    intro run hrun
    rw [heq] at ih
    simp only [List.mem_cons] at hrun
    rcases hrun with rfl | hrun
    · refine ⟨by simp, ?_⟩
      obtain ⟨r', rs', h'⟩ := splitRuns_cons y rest
      rw [heq] at h'
      injection h' with h1 h2
      subst h1
      have := (ih (y :: r') (by simp)).2
      simp only [List.headD_cons] at this ⊢
      intro q hq
      simp only [List.mem_cons] at hq
      rcases hq with rfl | hq
      · rfl
      · rw [this q (by simpa using hq)]
        simp only [ne_eq, Decidable.not_not] at h
        exact h.symm
    · exact ih run (by simp [hrun])
  | case5 x y rest h heq ih => simp

theorem splitRuns_adjacent (l : List Rec) :
    ∀ j a b, (splitRuns l)[j]? = some a → (splitRuns l)[j + 1]? = some b →
      (a.getLastD default).contig ≠ (b.headD default).contig := by
  fun_induction splitRuns l with
  | case1 => simp
  | case2 x => simp
  | case3 x y rest h ih =>
    intro j a b ha hb
    cases j with
    | zero =>
      obtain ⟨r', rs', h'⟩ := splitRuns_cons y rest
      simp [h'] at ha hb
      subst ha hb
      simpa using h
    | succ j =>
      simp only [List.getElem?_cons_succ] at ha hb
      exact ih j a b ha hb
  | case4 x y rest h r rs heq ih =>
    intro j a b ha hb
    simp only [heq] at ih
    cases j with
    | zero =>
      simp at ha hb
      subst ha
      have := ih 0 r b (by simp) (by simpa using hb)
      obtain ⟨r', rs', h'⟩ := splitRuns_cons y rest
      rw [heq] at h'
      injection h' with h1 h2
      subst h1
      simpa using this
    | succ j =>
      simp only [List.getElem?_cons_succ] at ha hb
      exact ih (j + 1) a b (by simpa using ha) (by simpa using hb)
  | case5 x y rest h heq ih => simp

/-! ## `segments` -/

/-- `segments` with an explicit starting chunk number -/
def segsOf : Nat → List (List Rec) → List (Nat × List Rec)
  | _, [] => []
  | k, ch :: rest => (splitRuns ch).map (fun run => (k, run)) ++ segsOf (k + 1) rest

theorem flatMap_zipIdx_eq_segsOf (L : List (List Rec)) (k : Nat) :
    ((L.zipIdx k).flatMap fun (ch, v) => (splitRuns ch).map fun run => (v, run)) = segsOf k L := by
  induction L generalizing k with
  | nil => rfl
  | cons ch rest ih => simp [segsOf, List.zipIdx_cons, ih]

theorem segments_eq_segsOf (cs : Nat) (xs : List Rec) :
    segments cs xs = segsOf 0 (chunks cs xs) := flatMap_zipIdx_eq_segsOf _ 0

theorem segsOf_flatten (L : List (List Rec)) (k : Nat) :
    ((segsOf k L).map (·.2)).flatten = L.flatten := by
  induction L generalizing k with
  | nil => rfl
  | cons ch rest ih =>
    simp only [segsOf, List.map_append, List.flatten_append, ih, List.flatten_cons, List.map_map]
    congr 1
    have : ((fun (x : Nat × List Rec) => x.2) ∘ fun run => (k, run)) = id := rfl
    rw [this, List.map_id, splitRuns_flatten]

theorem segsOf_mem (L : List (List Rec)) (k : Nat) :
    ∀ s ∈ segsOf k L, k ≤ s.1 ∧ ∃ ch ∈ L, s.2 ∈ splitRuns ch := by
  induction L generalizing k with
  | nil => simp [segsOf]
  | cons ch rest ih =>
    intro s hs
    simp only [segsOf, List.mem_append, List.mem_map] at hs
    rcases hs with ⟨run, hrun, rfl⟩ | hs
    · exact ⟨Nat.le_refl _, ch, by simp, hrun⟩
    · obtain ⟨h1, ch', h2, h3⟩ := ih (k + 1) s hs
      exact ⟨by omega, ch', by simp [h2], h3⟩

theorem sum_take_add_le {α : Type} (R : List (List α)) :
    ∀ j run, R[j]? = some run → ((R.take j).map List.length).sum + run.length ≤ R.flatten.length := by
  induction R with
  | nil => simp
  | cons a R ih =>
    intro j run h
    cases j with
    | zero => simp at h; subst h; simp
    | succ j =>
      simp only [List.getElem?_cons_succ] at h
      have := ih j run h
      simp only [List.take_succ_cons, List.map_cons, List.sum_cons, List.flatten_cons,
        List.length_append]
      omega

theorem segsOf_in_chunk (cs : Nat) (L : List (List Rec)) (k : Nat) (hok : ChunksOK cs L) :
    ∀ j s, (segsOf k L)[j]? = some s →
      s.1 * cs ≤ k * cs + (((segsOf k L).take j).map (·.2.length)).sum ∧
      k * cs + (((segsOf k L).take j).map (·.2.length)).sum + s.2.length ≤ (s.1 + 1) * cs ∧
      0 < s.2.length := by
  induction L generalizing k with
  | nil => simp [segsOf]
  | cons ch rest ih =>
    obtain ⟨h0, hle, hfull, hrest⟩ := hok
    intro j s hs
    have hlenA : ((splitRuns ch).map (fun run => (k, run))).length = (splitRuns ch).length := by simp
    have hsumA : ((splitRuns ch).map (fun run => ((k, run) : Nat × List Rec).2.length)).sum = ch.length := by
      have := List.length_flatten (L := splitRuns ch)
      rw [splitRuns_flatten] at this
      exact this.symm
    simp only [segsOf] at hs ⊢
    by_cases hj : j < (splitRuns ch).length
    · rw [List.getElem?_append_left (by omega)] at hs
      simp only [List.getElem?_map, Option.map_eq_some_iff] at hs
      obtain ⟨run, hrun, rfl⟩ := hs
      rw [List.take_append, hlenA]
      have : j - (splitRuns ch).length = 0 := by omega
      rw [this]
      simp only [List.take_zero, List.append_nil, ← List.map_take, List.map_map]
      have hb := sum_take_add_le (splitRuns ch) j run hrun
      rw [splitRuns_flatten] at hb
      have hne := (splitRuns_uniform ch run (List.mem_of_getElem? hrun)).1
      have : 0 < run.length := List.length_pos_iff.mpr hne
      have e : ((fun (x : Nat × List Rec) => x.2.length) ∘ fun run => (k, run)) = List.length := rfl
      rw [e]
      simp only [Nat.add_mul, Nat.one_mul]
      omega
    · rw [List.getElem?_append_right (by omega), hlenA] at hs
      have hne : rest ≠ [] := by
        intro h; subst h; simp [segsOf] at hs
      have hcs := hfull hne
      obtain ⟨i1, i2, i3⟩ := ih (k + 1) hrest _ s hs
      rw [List.take_append, hlenA, List.take_of_length_le (by omega)]
      simp only [List.map_append, List.sum_append, List.map_map]
      have e : ((fun (x : Nat × List Rec) => x.2.length) ∘ fun run => (k, run)) = List.length := rfl
      rw [e]
      have e2 : ((splitRuns ch).map List.length).sum = ch.length := hsumA
      rw [e2]
      simp only [Nat.add_mul, Nat.one_mul] at i1 i2 ⊢
      omega

theorem segsOf_adjacent (L : List (List Rec)) (k : Nat) :
    ∀ j s t, (segsOf k L)[j]? = some s → (segsOf k L)[j + 1]? = some t → s.1 = t.1 →
      (s.2.getLastD default).contig ≠ (t.2.headD default).contig := by
  induction L generalizing k with
  | nil => simp [segsOf]
  | cons ch rest ih =>
    intro j s t hs ht hst
    have hlenA : ((splitRuns ch).map (fun run => (k, run))).length = (splitRuns ch).length := by simp
    simp only [segsOf] at hs ht
    by_cases hj : j < (splitRuns ch).length
    · rw [List.getElem?_append_left (by omega)] at hs
      simp only [List.getElem?_map, Option.map_eq_some_iff] at hs
      obtain ⟨run, hrun, rfl⟩ := hs
      by_cases hj' : j + 1 < (splitRuns ch).length
      · rw [List.getElem?_append_left (by omega)] at ht
        simp only [List.getElem?_map, Option.map_eq_some_iff] at ht
        obtain ⟨run', hrun', rfl⟩ := ht
        exact splitRuns_adjacent ch j run run' hrun hrun'
      · rw [List.getElem?_append_right (by omega)] at ht
        have := (segsOf_mem rest (k + 1) t (List.mem_of_getElem? ht)).1
        simp only at hst
        omega
    · rw [List.getElem?_append_right (by omega), hlenA] at hs
      rw [List.getElem?_append_right (by omega), hlenA] at ht
      have e : j + 1 - (splitRuns ch).length = (j - (splitRuns ch).length) + 1 := by omega
      rw [e] at ht
      exact ih (k + 1) _ s t hs ht hst

theorem segments_mem (cs : Nat) (xs : List Rec) :
    ∀ s ∈ segments cs xs, s.2 ≠ [] ∧ ∀ r ∈ s.2, r ∈ xs := by
  intro s hs
  rw [segments_eq_segsOf] at hs
  obtain ⟨_, ch, hch, hrun⟩ := segsOf_mem _ _ s hs
  refine ⟨(splitRuns_uniform ch s.2 hrun).1, fun r hr => ?_⟩
  apply chunksOf_mem cs _ xs ch hch
  rw [← splitRuns_flatten ch]
  exact List.mem_flatten.mpr ⟨s.2, hrun, hr⟩

end B2Z.RIdx
