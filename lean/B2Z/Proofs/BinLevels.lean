import B2Z.Model.Regions
import B2Z.Proofs.BinThm
/-! helper lemmas for the bin arithmetic part of C09 -/
namespace B2Z.Regions

theorem firstBinInLevel_eq' (l : Nat) : firstBinInLevel l = B2Z.firstBin l := by
  unfold firstBinInLevel; exact (B2Z.firstBin_eq l).symm

/-- the reversed-range search is the generated downward search -/
theorem find_rev_range_eq_downFind (p : Nat → Bool) (n : Nat) :
    (List.range (n + 1)).reverse.find? p = Gen.downFind n p := by
  induction n with
  | zero => simp [Gen.downFind, List.range_succ]
  | succ n ih =>
    rw [List.range_succ, List.reverse_append]
    simp only [List.reverse_cons, List.reverse_nil, List.nil_append, List.cons_append,
      List.find?_cons, Gen.downFind]
    rw [ih]
    cases p (n + 1) <;> simp

theorem downFind_spec (p : Nat → Bool) (n : Nat) (h0 : p 0 = true) :
    ∃ i, Gen.downFind n p = some i ∧ p i = true ∧ i ≤ n ∧ ∀ j, i < j → j ≤ n → p j = false := by
  induction n with
  | zero => exact ⟨0, by simp [Gen.downFind, h0], h0, Nat.le_refl _, by intro j h1 h2; omega⟩
  | succ n ih =>
    by_cases hp : p (n + 1) = true
    · exact ⟨n + 1, by simp [Gen.downFind, hp], hp, Nat.le_refl _, by intro j h1 h2; omega⟩
    · obtain ⟨i, h1, h2, h3, h4⟩ := ih
      refine ⟨i, by simp [Gen.downFind, hp, h1], h2, by omega, ?_⟩
      intro j hj1 hj2
      by_cases hj : j = n + 1
      · subst hj; simpa using hp
      · exact h4 j hj1 (by omega)

theorem levelForBin_eq (depth bin : Nat) :
    Gen.downFind depth (fun i => decide (firstBinInLevel i ≤ bin)) = some (levelForBin depth bin) := by
  obtain ⟨i, h1, _⟩ := downFind_spec (fun i => decide (firstBinInLevel i ≤ bin)) depth
    (by simp [firstBinInLevel])
  unfold levelForBin
  rw [find_rev_range_eq_downFind, h1]

theorem levelForBin_spec (depth bin : Nat) :
    firstBinInLevel (levelForBin depth bin) ≤ bin ∧ levelForBin depth bin ≤ depth ∧
    ∀ j, levelForBin depth bin < j → j ≤ depth → bin < firstBinInLevel j := by
  obtain ⟨i, h1, h2, h3, h4⟩ := downFind_spec (fun i => decide (firstBinInLevel i ≤ bin)) depth
    (by simp [firstBinInLevel])
  have := levelForBin_eq depth bin
  rw [h1] at this
  cases this
  refine ⟨by simpa using h2, h3, ?_⟩
  intro j hj1 hj2
  have := h4 j hj1 hj2
  simpa using this

theorem level_brackets (depth bin : Nat) (h : bin < firstBinInLevel (depth + 1)) :
    firstBinInLevel (levelForBin depth bin) ≤ bin ∧ bin < firstBinInLevel (levelForBin depth bin + 1) ∧
    levelForBin depth bin ≤ depth := by
  obtain ⟨h1, h2, h3⟩ := levelForBin_spec depth bin
  refine ⟨h1, ?_, h2⟩
  by_cases hd : levelForBin depth bin = depth
  · rw [hd]; exact h
  · exact h3 _ (Nat.lt_succ_self _) (by omega)

theorem eight_pow_eq (l : Nat) : 8 ^ l = 2 ^ (3 * l) := by
  rw [Nat.pow_mul]

theorem span_pos (ms depth l : Nat) (hl : l ≤ depth) : 1 ≤ 2 ^ (ms + 3 * depth) / 8 ^ l := by
  rw [eight_pow_eq]
  have hd : 2 ^ (3 * l) ∣ 2 ^ (ms + 3 * depth) := Nat.pow_dvd_pow 2 (by omega)
  have hpos : 0 < 2 ^ (3 * l) := Nat.pow_pos (by decide)
  have hpos' : 0 < 2 ^ (ms + 3 * depth) := Nat.pow_pos (by decide)
  exact Nat.div_pos (Nat.le_of_dvd hpos' hd) hpos

theorem first_locus_strict (ms depth b b' : Nat) (hb : b < b') (hb' : b' < firstBinInLevel (depth + 1))
    (hl : levelForBin depth b = levelForBin depth b') :
    firstLocus ms depth b < firstLocus ms depth b' := by
  unfold firstLocus
  simp only []
  rw [← hl]
  obtain ⟨h1, h2, _⟩ := levelForBin_spec depth b
  have hs := span_pos ms depth _ h2
  generalize 2 ^ (ms + 3 * depth) / 8 ^ levelForBin depth b = s at *
  generalize firstBinInLevel (levelForBin depth b) = f at *
  have : (b - f) + 1 ≤ b' - f := by omega
  have := Nat.mul_le_mul_right s this
  rw [Nat.add_mul] at this
  omega

theorem gen_level (depth bin : Nat) :
    Gen.get_level_for_bin (depth : Int) (bin : Int) = some (levelForBin depth bin : Int) := by
  unfold Gen.get_level_for_bin
  have hp : (fun i_n : Nat => decide ((bin : Int) ≥ Gen.get_first_bin_in_level (↑i_n : Int))) =
      (fun i => decide (firstBinInLevel i ≤ bin)) := by
    funext i
    rw [B2Z.gen_first_bin, firstBinInLevel_eq']
    simp
  rw [hp, Int.toNat_natCast, levelForBin_eq]
  rfl

theorem gen_level_size (l : Nat) : Gen.get_level_size (l : Int) = ((8 ^ l : Nat) : Int) := by
  unfold Gen.get_level_size
  have e : ((l : Int) * 3).toNat = l * 3 := by omega
  rw [e, B2Z.two_pow_three_mul]
  omega

theorem gen_first_locus (ms depth bin : Nat) :
    Gen.get_first_locus_in_bin (ms : Int) (depth : Int) (bin : Int) = some (firstLocus ms depth bin : Int) := by
  unfold Gen.get_first_locus_in_bin
  rw [gen_level]
  simp only [Option.map_some]
  rw [B2Z.gen_first_bin, gen_level_size, ← firstBinInLevel_eq']
  unfold firstLocus
  simp only []
  obtain ⟨h1, _, _⟩ := levelForBin_spec depth bin
  have e : ((ms : Int) + 3 * (depth : Int)).toNat = ms + 3 * depth := by omega
  rw [e]
  congr 1
  have : (1 : Int) * (2 : Int) ^ (ms + 3 * depth) = ((2 ^ (ms + 3 * depth) : Nat) : Int) := by
    rw [Int.one_mul]; norm_cast
  rw [this]
  generalize 2 ^ (ms + 3 * depth) = S
  generalize 8 ^ levelForBin depth bin = L
  generalize firstBinInLevel (levelForBin depth bin) = f at *
  rw [← Int.natCast_ediv]
  push_cast
  rw [Int.natCast_sub h1]

end B2Z.Regions
