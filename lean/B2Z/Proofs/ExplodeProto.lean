import B2Z.Model.ExplodeProto
import B2Z.Proofs.Fs
/-! # The protocol invariant of the distributed explode and its preservation

`Inv c s` holds of the empty directory and is preserved by every command from every state, for
every kill point (`Inv_step`).  The proofs use the weakest-precondition calculus of
`B2Z.Proofs.Fs` on the mutation part of each program (`wp_initBody`, `wp_partBody`, `wp_finBody`).
-/
namespace B2Z.XP
open B2Z.Fs

structure Inv (c : Cfg) (s : S) : Prop where
  /-- a readable completion record certifies the data of its partition -/
  sumData : ∀ j, s (.summary j) = .ok → ∀ k ∈ dataObjs c j, s (.data j k) = .ok
  /-- the completion marker (even torn) certifies all the data -/
  finData : s .final ≠ .absent → DataComplete c s
  /-- the plan is written last by init -/
  planInit : s .plan ≠ .absent →
    s .root = .ok ∧ s .header = .ok ∧ ∀ k, k < c.nShared → s (.shared k) = .ok
  dataFrame : ∀ j k, s (.data j k) ≠ .absent → j < c.nParts ∧ k ∈ dataObjs c j
  sumFrame : ∀ j, s (.summary j) ≠ .absent → j < c.nParts
  sharedFrame : ∀ k, s (.shared k) ≠ .absent → k < c.nShared

theorem Inv_empty (c : Cfg) : Inv c Fs.empty := by
  constructor <;> simp [Fs.empty]

variable {c : Cfg} {s : S}

/-! ## single mutations -/

theorem Inv.upd_data (h : Inv c s) {j k : Nat} (hs : s (.summary j) ≠ .ok)
    (hf : s .final = .absent) (hj : j < c.nParts) (hk : k ∈ dataObjs c j) (v : V) :
    Inv c (upd s (.data j k) v) := by
  constructor
  · intro j' h1 k' hk'
    simp only [upd, reduceCtorEq, if_false] at h1
    have hne : j' ≠ j := by rintro rfl; exact hs h1
    simp only [upd, Obj.data.injEq, hne, false_and, if_false]
    exact h.sumData j' h1 k' hk'
  · intro h1
    simp [upd, hf] at h1
  · simpa [upd] using h.planInit
  · intro j' k' h1
    simp only [upd, Obj.data.injEq] at h1
    by_cases e : j' = j ∧ k' = k
    · rw [e.1, e.2]; exact ⟨hj, hk⟩
    · rw [if_neg e] at h1; exact h.dataFrame j' k' h1
  · simpa [upd] using h.sumFrame
  · simpa [upd] using h.sharedFrame

theorem dataComplete_upd_nondata {o : Obj} (ho : ∀ j k, o ≠ .data j k) (v : V) :
    DataComplete c (upd s o v) ↔ DataComplete c s := by
  have : ∀ j k, upd s o v (.data j k) = s (.data j k) := by
    intro j k; simp only [upd]; rw [if_neg (fun e => ho j k e.symm)]
  simp only [DataComplete, this]

/-- the completion record of `j` is set to a value other than `ok` -/
theorem Inv.upd_summary (h : Inv c s) {j : Nat} {v : V} (hv : v ≠ .ok)
    (hj : v ≠ .absent → j < c.nParts) : Inv c (upd s (.summary j) v) := by
  constructor
  · intro j' h1 k' hk'
    simp only [upd, Obj.summary.injEq] at h1
    by_cases e : j' = j
    · rw [if_pos e] at h1; exact absurd h1 hv
    · rw [if_neg e] at h1
      simpa [upd] using h.sumData j' h1 k' hk'
  · intro h1
    rw [dataComplete_upd_nondata (by intros; simp)]
    exact h.finData (by simpa [upd] using h1)
  · simpa [upd] using h.planInit
  · simpa [upd] using h.dataFrame
  · intro j' h1
    simp only [upd, Obj.summary.injEq] at h1
    by_cases e : j' = j
    · rw [if_pos e] at h1; rw [e]; exact hj h1
    · rw [if_neg e] at h1; exact h.sumFrame j' h1
  · simpa [upd] using h.sharedFrame

theorem Inv.upd_summary_ok (h : Inv c s) {j : Nat} (hj : j < c.nParts)
    (hd : ∀ k ∈ dataObjs c j, s (.data j k) = .ok) : Inv c (upd s (.summary j) .ok) := by
  constructor
  · intro j' h1 k' hk'
    simp only [upd, Obj.summary.injEq] at h1
    simp only [upd, reduceCtorEq, if_false]
    by_cases e : j' = j
    · rw [e] at hk' ⊢; exact hd k' hk'
    · rw [if_neg e] at h1; exact h.sumData j' h1 k' hk'
  · intro h1
    rw [dataComplete_upd_nondata (by intros; simp)]
    exact h.finData (by simpa [upd] using h1)
  · simpa [upd] using h.planInit
  · simpa [upd] using h.dataFrame
  · intro j' h1
    simp only [upd, Obj.summary.injEq] at h1
    by_cases e : j' = j
    · rw [e]; exact hj
    · rw [if_neg e] at h1; exact h.sumFrame j' h1
  · simpa [upd] using h.sharedFrame

theorem Inv.upd_final (h : Inv c s) (hd : DataComplete c s) (v : V) :
    Inv c (upd s .final v) := by
  constructor
  · simpa [upd] using h.sumData
  · intro _
    rw [dataComplete_upd_nondata (by intros; simp)]
    exact hd
  · simpa [upd] using h.planInit
  · simpa [upd] using h.dataFrame
  · simpa [upd] using h.sumFrame
  · simpa [upd] using h.sharedFrame

theorem Inv.upd_wipDir (h : Inv c s) (v : V) : Inv c (upd s .wipDir v) := by
  constructor
  · simpa [upd] using h.sumData
  · intro h1
    rw [dataComplete_upd_nondata (by intros; simp)]
    exact h.finData (by simpa [upd] using h1)
  · simpa [upd] using h.planInit
  · simpa [upd] using h.dataFrame
  · simpa [upd] using h.sumFrame
  · simpa [upd] using h.sharedFrame

theorem Inv.upd_plan_absent (h : Inv c s) : Inv c (upd s .plan .absent) := by
  constructor
  · simpa [upd] using h.sumData
  · intro h1
    rw [dataComplete_upd_nondata (by intros; simp)]
    exact h.finData (by simpa [upd] using h1)
  · simp [upd]
  · simpa [upd] using h.dataFrame
  · simpa [upd] using h.sumFrame
  · simpa [upd] using h.sharedFrame

theorem Inv.upd_plan (h : Inv c s) (hr : s .root = .ok) (hh : s .header = .ok)
    (hs : ∀ k, k < c.nShared → s (.shared k) = .ok) (v : V) : Inv c (upd s .plan v) := by
  constructor
  · simpa [upd] using h.sumData
  · intro h1
    rw [dataComplete_upd_nondata (by intros; simp)]
    exact h.finData (by simpa [upd] using h1)
  · intro _
    simpa [upd] using ⟨hr, hh, hs⟩
  · simpa [upd] using h.dataFrame
  · simpa [upd] using h.sumFrame
  · simpa [upd] using h.sharedFrame

theorem Inv.upd_root (h : Inv c s) (hp : s .plan = .absent) (v : V) :
    Inv c (upd s .root v) := by
  constructor
  · simpa [upd] using h.sumData
  · intro h1
    rw [dataComplete_upd_nondata (by intros; simp)]
    exact h.finData (by simpa [upd] using h1)
  · intro h1
    simp [upd, hp] at h1
  · simpa [upd] using h.dataFrame
  · simpa [upd] using h.sumFrame
  · simpa [upd] using h.sharedFrame

theorem Inv.upd_header (h : Inv c s) (hp : s .plan = .absent) (v : V) :
    Inv c (upd s .header v) := by
  constructor
  · simpa [upd] using h.sumData
  · intro h1
    rw [dataComplete_upd_nondata (by intros; simp)]
    exact h.finData (by simpa [upd] using h1)
  · intro h1
    simp [upd, hp] at h1
  · simpa [upd] using h.dataFrame
  · simpa [upd] using h.sumFrame
  · simpa [upd] using h.sharedFrame

theorem Inv.upd_shared (h : Inv c s) (hp : s .plan = .absent) {k : Nat} (hk : k < c.nShared)
    (v : V) : Inv c (upd s (.shared k) v) := by
  constructor
  · simpa [upd] using h.sumData
  · intro h1
    rw [dataComplete_upd_nondata (by intros; simp)]
    exact h.finData (by simpa [upd] using h1)
  · intro h1
    simp [upd, hp] at h1
  · simpa [upd] using h.dataFrame
  · simpa [upd] using h.sumFrame
  · intro k' h1
    simp only [upd, Obj.shared.injEq] at h1
    by_cases e : k' = k
    · rw [e]; exact hk
    · rw [if_neg e] at h1; exact h.sharedFrame k' h1

/-! ## the mutation parts of the three programs -/

def initBody (c : Cfg) : Prog :=
  [.set .root .ok, .set .wipDir .ok] ++
  (List.range c.nShared).map (fun k => .set (.shared k) .ok) ++
  write .header ++ write .plan

theorem initProg_eq (c : Cfg) :
    initProg c = .check (fun s => s .root = .absent) :: initBody c := rfl

def partBody (c : Cfg) (s0 : S) (j : Nat) : Prog :=
  (if s0 (.summary j) ≠ .absent then [.set (.summary j) .absent] else []) ++
  (c.dataSeq j).flatMap (fun p => touch (.data j p.1) p.2) ++
  write (.summary j)

theorem partitionProg_eq (c : Cfg) (s0 : S) (j : Nat) :
    partitionProg c s0 j =
      .check (fun s => s .plan = .ok) :: .check (fun _ => decide (j < c.nParts)) ::
      .check (fun s => s .final = .absent) :: partBody c s0 j := rfl

def finBody (c : Cfg) : Prog :=
  write .final ++
  c.rmOrder.map (fun x => match x with
    | some j => .set (.summary j) .absent
    | none => .set .plan .absent) ++
  [.set .wipDir .absent]

theorem finaliseProg_eq (c : Cfg) :
    finaliseProg c =
      .check (fun s => s .plan = .ok) ::
      .check (fun s => (List.range c.nParts).all fun j => s (.summary j) = .ok) ::
      finBody c := rfl

/-! ### init -/

theorem wp_initBody (h : Inv c s) (hp : s .plan = .absent) :
    wp (Inv c) (initBody c) (Inv c) s := by
  unfold initBody
  -- after root, wipDir
  refine wp_seq _ _ _ (fun s' => Inv c s' ∧ s' .plan = .absent ∧ s' .root = .ok ∧
      (∀ k, k < c.nShared → s' (.shared k) = .ok) ∧ s' .header = .ok) _ s ?_ ?_
  · refine wp_seq _ _ _ (fun s' => Inv c s' ∧ s' .plan = .absent ∧ s' .root = .ok ∧
        (∀ k, k < c.nShared → s' (.shared k) = .ok)) _ s ?_ ?_
    · refine wp_seq _ _ _ (fun s' => Inv c s' ∧ s' .plan = .absent ∧ s' .root = .ok) _ s ?_ ?_
      · refine ⟨h, h.upd_root hp _, (h.upd_root hp _).upd_wipDir _, ?_, ?_⟩ <;> simp [upd, hp]
      · intro s1 h1
        have := wp_map (Inv c) (fun k => Step.set (Obj.shared k) V.ok)
          (fun pre s' => Inv c s' ∧ s' .plan = .absent ∧ s' .root = .ok ∧
            ∀ k ∈ pre, s' (.shared k) = .ok) (List.range c.nShared)
          (by
            intro pre k hk s2 ⟨i2, p2, r2, a2⟩
            have hk' : k < c.nShared := List.mem_range.1 hk
            refine ⟨i2, i2.upd_shared p2 hk' _, by simpa [upd] using p2, by simpa [upd] using r2, ?_⟩
            intro k' hk'
            simp only [upd, Obj.shared.injEq]
            by_cases e : k' = k
            · rw [if_pos e]
            · rw [if_neg e]
              rcases List.mem_append.1 hk' with h' | h'
              · exact a2 k' h'
              · exact absurd (by simpa using h') e)
          [] s1 ⟨h1.1, h1.2.1, h1.2.2, by simp⟩
        refine wp_mono _ _ _ _ ?_ s1 this
        intro s2 ⟨i2, p2, r2, a2⟩
        exact ⟨i2, p2, r2, fun k hk => a2 k (by simpa using hk)⟩
    · intro s1 ⟨i1, p1, r1, a1⟩
      have i2 := i1.upd_header p1 .torn
      have p2 : upd s1 .header .torn .plan = .absent := by simpa [upd] using p1
      refine ⟨i1, i2, i2.upd_header p2 _, ?_, ?_, ?_, ?_⟩
      · simpa [upd] using p1
      · simpa [upd] using r1
      · simpa [upd] using a1
      · simp [upd]
  · intro s1 ⟨i1, p1, r1, a1, h1⟩
    have i2 := i1.upd_plan r1 h1 a1 .torn
    refine ⟨i1, i2, i2.upd_plan ?_ ?_ ?_ _⟩
    · simpa [upd] using r1
    · simpa [upd] using h1
    · simpa [upd] using a1

/-! ### partition -/

theorem wp_touch_data (h : Inv c s) {j k : Nat} (hs : s (.summary j) ≠ .ok)
    (hf : s .final = .absent) (hj : j < c.nParts) (hk : k ∈ dataObjs c j) (b : Bool)
    (Q : S → Prop) (hQ : ∀ v, Q (upd (upd s (.data j k) v) (.data j k) .ok)) (hQ' : Q (upd s (.data j k) .ok)) :
    wp (Inv c) (touch (.data j k) b) Q s := by
  cases b with
  | true => exact ⟨h, hQ'⟩
  | false =>
    refine ⟨h, h.upd_data hs hf hj hk _, hQ _⟩

theorem wp_partBody (h : Inv c s) {j : Nat} (hp : s .plan = .ok) (hj : j < c.nParts)
    (hf : s .final = .absent) :
    wp (Inv c) (partBody c s j) (fun s' => Inv c s' ∧ s' .plan = .ok ∧ s' .final = .absent ∧
      s' (.summary j) = .ok ∧ ∀ j', s (.summary j') = .ok → s' (.summary j') = .ok) s := by
  unfold partBody
  let F : S → Prop := fun s' => Inv c s' ∧ s' .plan = .ok ∧ s' .final = .absent ∧
    ∀ j', j' ≠ j → s' (.summary j') = s (.summary j')
  refine wp_seq _ _ _ (fun s' => F s' ∧ s' (.summary j) = .absent ∧
      ∀ p ∈ c.dataSeq j, s' (.data j p.1) = .ok) _ s ?_ ?_
  · refine wp_seq _ _ _ (fun s' => F s' ∧ s' (.summary j) = .absent) _ s ?_ ?_
    · by_cases e : s (.summary j) = .absent
      · rw [if_neg (by simpa using e)]
        exact ⟨⟨h, hp, hf, fun _ _ => rfl⟩, e⟩
      · rw [if_pos e]
        refine ⟨h, ⟨h.upd_summary (by simp) (by simp), ?_, ?_, ?_⟩, ?_⟩
        · simpa [upd] using hp
        · simpa [upd] using hf
        · intro j' hj'; simp [upd, hj']
        · simp [upd]
    · intro s1 h1
      have := wp_flatMap (Inv c) (fun p : Nat × Bool => touch (.data j p.1) p.2)
        (fun pre s' => F s' ∧ s' (.summary j) = .absent ∧ ∀ p ∈ pre, s' (.data j p.1) = .ok)
        (c.dataSeq j)
        (by
          intro pre x hx s2 ⟨⟨i2, p2, f2, o2⟩, a2, d2⟩
          have hk : x.1 ∈ dataObjs c j := List.mem_map.2 ⟨x, hx, rfl⟩
          have key : ∀ s3 : S, (∀ o, (∀ k, o ≠ .data j k) → s3 o = s2 o) →
              Inv c s3 → s3 (.data j x.1) = .ok →
              (∀ k, k ≠ x.1 → s3 (.data j k) = s2 (.data j k)) →
              (F s3 ∧ s3 (.summary j) = .absent ∧ ∀ p ∈ pre ++ [x], s3 (.data j p.1) = .ok) := by
            intro s3 hfr i3 hx3 hd3
            refine ⟨⟨i3, ?_, ?_, ?_⟩, ?_, ?_⟩
            · rw [hfr _ (by intros; simp)]; exact p2
            · rw [hfr _ (by intros; simp)]; exact f2
            · intro j' hj'; rw [hfr _ (by intros; simp)]; exact o2 j' hj'
            · rw [hfr _ (by intros; simp)]; exact a2
            · intro p hp'
              by_cases e : p.1 = x.1
              · rw [e]; exact hx3
              · rw [hd3 _ e]
                rcases List.mem_append.1 hp' with h' | h'
                · exact d2 p h'
                · have : p = x := by simpa using h'
                  exact absurd (by rw [this]) e
          have hs2 : s2 (.summary j) ≠ .ok := by rw [a2]; simp
          apply wp_touch_data i2 hs2 f2 hj hk
          · intro v
            apply key
            · intro o ho
              have := ho x.1
              simp [upd, this]
            · exact (i2.upd_data hs2 f2 hj hk v).upd_data (by simpa [upd] using hs2)
                (by simpa [upd] using f2) hj hk _
            · simp [upd]
            · intro k hk'; simp [upd, hk']
          · apply key
            · intro o ho
              have := ho x.1
              simp [upd, this]
            · exact i2.upd_data hs2 f2 hj hk _
            · simp [upd]
            · intro k hk'; simp [upd, hk'])
        [] s1 ⟨h1.1, h1.2, by simp⟩
      simpa using this
  · intro s1 ⟨⟨i1, p1, f1, o1⟩, a1, d1⟩
    have i2 : Inv c (upd s1 (.summary j) .torn) := i1.upd_summary (by simp) (fun _ => hj)
    refine ⟨i1, i2, ?_, ?_, ?_, ?_, ?_⟩
    · refine i2.upd_summary_ok hj ?_
      intro k hk
      obtain ⟨p, hp', rfl⟩ := List.mem_map.1 hk
      simpa [upd] using d1 p hp'
    · simpa [upd] using p1
    · simpa [upd] using f1
    · simp [upd]
    · intro j' hj'
      simp only [upd, Obj.summary.injEq]
      by_cases e : j' = j
      · simp [e]
      · simp only [if_neg e]; rw [o1 j' e]; exact hj'

/-! ### finalise -/

/-- the part of the final state that finalise does not touch -/
structure Core (c : Cfg) (s : S) : Prop where
  root : s .root = .ok
  header : s .header = .ok
  shared : ∀ k, s (.shared k) = if k < c.nShared then .ok else .absent
  data : ∀ j k, s (.data j k) = if j < c.nParts ∧ k ∈ dataObjs c j then .ok else .absent

theorem Inv.core (h : Inv c s) (hp : s .plan = .ok) (hd : DataComplete c s) : Core c s := by
  have hp' : s .plan ≠ .absent := by rw [hp]; simp
  obtain ⟨hr, hh, hs⟩ := h.planInit hp'
  refine ⟨hr, hh, ?_, ?_⟩
  · intro k
    by_cases e : k < c.nShared
    · rw [if_pos e]; exact hs k e
    · rw [if_neg e]
      exact Classical.byContradiction fun h' => e (h.sharedFrame k h')
  · intro j k
    by_cases e : j < c.nParts ∧ k ∈ dataObjs c j
    · rw [if_pos e]; exact hd j e.1 k e.2
    · rw [if_neg e]
      exact Classical.byContradiction fun h' => e (h.dataFrame j k h')

theorem Core.upd {o : Obj} (h : Core c s) (h1 : o ≠ .root) (h2 : o ≠ .header)
    (h3 : ∀ k, o ≠ .shared k) (h4 : ∀ j k, o ≠ .data j k) (v : V) : Core c (upd s o v) := by
  refine ⟨?_, ?_, ?_, ?_⟩
  · simp only [Fs.upd]; rw [if_neg (fun e => h1 e.symm)]; exact h.root
  · simp only [Fs.upd]; rw [if_neg (fun e => h2 e.symm)]; exact h.header
  · intro k; simp only [Fs.upd]; rw [if_neg (fun e => h3 k e.symm)]; exact h.shared k
  · intro j k; simp only [Fs.upd]; rw [if_neg (fun e => h4 j k e.symm)]; exact h.data j k

/-- `rmtree(wip)` has removed this entry -/
def gone : Option Nat → S → Prop
  | some j, s => s (.summary j) = .absent
  | none, s => s .plan = .absent

theorem gone_upd_summary (x : Option Nat) (j : Nat) (h : gone x s) :
    gone x (upd s (.summary j) .absent) := by
  cases x with
  | none => simpa [gone, upd] using h
  | some j' =>
    simp only [gone, upd, Obj.summary.injEq] at h ⊢
    by_cases e : j' = j
    · rw [if_pos e]
    · rw [if_neg e]; exact h

theorem gone_upd_plan (x : Option Nat) (h : gone x s) : gone x (upd s .plan .absent) := by
  cases x with
  | none => simp [gone, upd]
  | some j' => simpa [gone, upd] using h

theorem gone_upd_wipDir (x : Option Nat) (v : V) (h : gone x s) : gone x (upd s .wipDir v) := by
  cases x with
  | none => simpa [gone, upd] using h
  | some j' => simpa [gone, upd] using h

theorem dataComplete_of_summaries (h : Inv c s) (hs : ∀ j, j < c.nParts → s (.summary j) = .ok) :
    DataComplete c s := fun j hj k hk => h.sumData j (hs j hj) k hk

theorem wp_finBody (h : Inv c s) (hp : s .plan = .ok)
    (hs : ∀ j, j < c.nParts → s (.summary j) = .ok) :
    wp (Inv c) (finBody c) (fun s' => Inv c s' ∧ Core c s' ∧ s' .final = .ok ∧
      s' .wipDir = .absent ∧ ∀ x ∈ c.rmOrder, gone x s') s := by
  have hd := dataComplete_of_summaries h hs
  have hc := h.core hp hd
  unfold finBody
  refine wp_seq _ _ _ (fun s' => Inv c s' ∧ Core c s' ∧ s' .final = .ok ∧
      ∀ x ∈ c.rmOrder, gone x s') _ s ?_ ?_
  · refine wp_seq _ _ _ (fun s' => Inv c s' ∧ Core c s' ∧ s' .final = .ok) _ s ?_ ?_
    · have i2 := h.upd_final hd .torn
      have d2 : DataComplete c (upd s .final .torn) := by
        rw [dataComplete_upd_nondata (by intros; simp)]; exact hd
      refine ⟨h, i2, i2.upd_final d2 _, ?_, ?_⟩
      · exact (hc.upd (by simp) (by simp) (by simp) (by simp) _).upd
          (by simp) (by simp) (by simp) (by simp) _
      · simp [upd]
    · intro s1 h1
      have := wp_map (Inv c) (fun x : Option Nat => match x with
          | some j => Step.set (Obj.summary j) V.absent
          | none => Step.set Obj.plan V.absent)
        (fun pre s' => Inv c s' ∧ Core c s' ∧ s' .final = .ok ∧ ∀ x ∈ pre, gone x s')
        c.rmOrder
        (by
          intro pre x _ s2 ⟨i2, c2, f2, g2⟩
          cases x with
          | none =>
            refine ⟨i2, i2.upd_plan_absent, c2.upd (by simp) (by simp) (by simp) (by simp) _,
              by simpa [upd] using f2, ?_⟩
            intro y hy
            rcases List.mem_append.1 hy with h' | h'
            · exact gone_upd_plan y (g2 y h')
            · have : y = none := by simpa using h'
              rw [this]; simp [gone, upd]
          | some j =>
            refine ⟨i2, i2.upd_summary (by simp) (by simp),
              c2.upd (by simp) (by simp) (by simp) (by simp) _,
              by simpa [upd] using f2, ?_⟩
            intro y hy
            rcases List.mem_append.1 hy with h' | h'
            · exact gone_upd_summary y j (g2 y h')
            · have : y = some j := by simpa using h'
              rw [this]; simp [gone, upd])
        [] s1 ⟨h1.1, h1.2.1, h1.2.2, by simp⟩
      simpa using this
  · intro s1 ⟨i1, c1, f1, g1⟩
    refine ⟨i1, i1.upd_wipDir _, c1.upd (by simp) (by simp) (by simp) (by simp) _,
      by simpa [upd] using f1, by simp [upd], fun x hx => gone_upd_wipDir x _ (g1 x hx)⟩

/-! ## the invariant holds after every history -/

theorem Inv_step (h : Inv c s) (cmd : Cmd) (kill : Option Nat) :
    Inv c (step c s cmd kill).st := by
  cases cmd with
  | init =>
    show Inv c (exec s (initProg c) kill).st
    rw [initProg_eq, exec_check_cons]
    split
    · rename_i hr
      have hr : s .root = .absent := by simpa using hr
      have hp : s .plan = .absent :=
        Classical.byContradiction fun hp => by
          have := (h.planInit hp).1; rw [hr] at this; cases this
      exact wp_exec_inv _ _ (fun _ h => h) s _ kill (wp_initBody h hp)
    · exact h
  | partition j =>
    show Inv c (exec s (partitionProg c s j) kill).st
    rw [partitionProg_eq, exec_check_cons]
    split
    · rename_i h1
      rw [exec_check_cons]
      split
      · rename_i h2
        rw [exec_check_cons]
        split
        · rename_i h3
          exact wp_exec_inv _ _ (fun _ h => h.1) s _ kill
            (wp_partBody h (by simpa using h1) (by simpa using h2) (by simpa using h3))
        · exact h
      · exact h
    · exact h
  | finalise =>
    show Inv c (exec s (finaliseProg c) kill).st
    rw [finaliseProg_eq, exec_check_cons]
    split
    · rename_i h1
      rw [exec_check_cons]
      split
      · rename_i h2
        have h2' : ∀ j, j < c.nParts → s (.summary j) = .ok := by
          intro j hj
          have := List.all_eq_true.1 h2 j (List.mem_range.2 hj)
          simpa using this
        exact wp_exec_inv _ _ (fun _ h => h.1) s _ kill (wp_finBody h (by simpa using h1) h2')
      · exact h
    · exact h

theorem Inv_runHist (h : Inv c s) (hist : List (Cmd × Option Nat)) : Inv c (runHist c s hist) := by
  induction hist generalizing s with
  | nil => exact h
  | cons x rest ih => exact ih (Inv_step h x.1 x.2)

theorem Inv_reachable (c : Cfg) (hist : List (Cmd × Option Nat)) :
    Inv c (runHist c Fs.empty hist) := Inv_runHist (Inv_empty c) hist

/-! ## complete runs -/

theorem partition_complete (h : Inv c s) {j : Nat} (hp : s .plan = .ok) (hj : j < c.nParts)
    (hf : s .final = .absent) :
    Inv c (step c s (.partition j) none).st ∧
    (step c s (.partition j) none).st .plan = .ok ∧
    (step c s (.partition j) none).st .final = .absent ∧
    (step c s (.partition j) none).st (.summary j) = .ok ∧
    ∀ j', s (.summary j') = .ok → (step c s (.partition j) none).st (.summary j') = .ok := by
  show Inv c (exec s (partitionProg c s j) none).st ∧ _
  have e : exec s (partitionProg c s j) none = exec s (partBody c s j) none := by
    rw [partitionProg_eq, exec_check_pass _ _ _ _ (by simpa using hp),
      exec_check_pass _ _ _ _ (by simpa using hj), exec_check_pass _ _ _ _ (by simpa using hf)]
  show Inv c (exec s (partitionProg c s j) none).st ∧
    (exec s (partitionProg c s j) none).st .plan = .ok ∧
    (exec s (partitionProg c s j) none).st .final = .absent ∧
    (exec s (partitionProg c s j) none).st (.summary j) = .ok ∧
    ∀ j', s (.summary j') = .ok → (exec s (partitionProg c s j) none).st (.summary j') = .ok
  rw [e]
  exact (wp_exec_post _ _ s _ (wp_partBody h hp hj hf)).1

theorem finalise_complete (h : Inv c s) (hp : s .plan = .ok)
    (hs : ∀ j, j < c.nParts → s (.summary j) = .ok)
    (hmem : ∀ j, j < c.nParts → some j ∈ c.rmOrder) (hnone : none ∈ c.rmOrder) :
    (step c s .finalise none).st = finalState c := by
  show (exec s (finaliseProg c) none).st = finalState c
  have hall : ((List.range c.nParts).all fun j => s (.summary j) = .ok) = true := by
    rw [List.all_eq_true]
    intro j hj
    simpa using hs j (List.mem_range.1 hj)
  rw [finaliseProg_eq, exec_check_pass _ _ _ _ (by simpa using hp),
    exec_check_pass _ _ _ _ hall]
  obtain ⟨i', c', f', w', g'⟩ := (wp_exec_post _ _ s _ (wp_finBody h hp hs)).1
  funext o
  cases o with
  | root => exact c'.root
  | wipDir => exact w'
  | header => exact c'.header
  | plan => exact g' none hnone
  | final => exact f'
  | shared k => exact c'.shared k
  | summary j =>
    show _ = V.absent
    by_cases e : j < c.nParts
    · exact g' (some j) (hmem j e)
    · exact Classical.byContradiction fun h' => e (i'.sumFrame j h')
  | data j k => exact c'.data j k

/-- running every outstanding partition to completion (in any order, with repetitions) and then
    finalise reaches the final state -/
theorem rerun_complete (hmem : ∀ j, j < c.nParts → some j ∈ c.rmOrder) (hnone : none ∈ c.rmOrder)
    (order : List Nat) :
    ∀ s : S, Inv c s → s .plan = .ok → s .final = .absent →
      (∀ j ∈ order, j < c.nParts) →
      (∀ j, j < c.nParts → j ∈ order ∨ s (.summary j) = .ok) →
      runHist c s (order.map (fun j => (Cmd.partition j, none)) ++ [(Cmd.finalise, none)])
        = finalState c := by
  induction order with
  | nil =>
    intro s h hp _ _ hall
    show (step c s .finalise none).st = finalState c
    exact finalise_complete h hp (fun j hj => (hall j hj).resolve_left (by simp)) hmem hnone
  | cons j order ih =>
    intro s h hp hf hrange hall
    obtain ⟨i', p', f', sj, sk⟩ :=
      partition_complete h hp (hrange j (List.mem_cons_self ..)) hf
    show runHist c (step c s (.partition j) none).st _ = finalState c
    apply ih _ i' p' f' (fun j' hj' => hrange j' (List.mem_cons_of_mem _ hj'))
    intro j' hj'
    rcases hall j' hj' with h' | h'
    · rcases List.mem_cons.1 h' with rfl | h''
      · exact Or.inr sj
      · exact Or.inl h''
    · exact Or.inr (sk j' h')

end B2Z.XP
