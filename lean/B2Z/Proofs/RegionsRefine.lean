import B2Z.Proofs.RegionsMain
namespace B2Z.Regions

theorem start_le_of_matches (g : Reg) (r : Rec) (h : g.matches r = true) : g.start ≤ r.pos := by
  cases g <;> simp only [Reg.matches, Bool.and_eq_true, beq_iff_eq, decide_eq_true_eq] at h <;>
    simp only [Reg.start] <;> omega

theorem matches_withStart (g : Reg) (p : Nat) (hp : g.start ≤ p) (r : Rec) :
    (g.withStart p).matches r = (g.matches r && decide (p ≤ r.pos)) := by
  cases g <;> simp only [Reg.withStart, Reg.matches, Reg.start] at * <;>
    (rw [Bool.eq_iff_iff]; simp only [Bool.and_eq_true, beq_iff_eq, decide_eq_true_eq]; constructor <;> intro h <;> omega)

/-- in a key-sorted list, everything a region matches starts at or after its first match -/
theorem first_match_min (recs : List Rec) (hs : recs.Pairwise (fun a b => key a ≤ key b))
    (hrecs : ∀ r ∈ recs, RecOK r) (g : Reg) (r0 : Rec) (rest : List Rec)
    (hq : query recs g = r0 :: rest) : ∀ r ∈ recs, g.matches r = true → r0.pos ≤ r.pos := by
  intro r hr hm
  have hmem : r ∈ query recs g := List.mem_filter.mpr ⟨hr, hm⟩
  have hsorted : (query recs g).Pairwise (fun a b => key a ≤ key b) := hs.filter _
  rw [hq] at hmem hsorted
  have hc : ∀ x ∈ query recs g, x.contig = (match g with | .bounded c _ _ => c | .openEnd c _ => c | .whole c => c) := by
    intro x hx
    have := (List.mem_filter.mp hx).2
    cases g <;> simp only [Reg.matches, Bool.and_eq_true, beq_iff_eq] at this <;> simp [this]
  have h0 := hc r0 (by rw [hq]; simp)
  have h1 := hc r (by rw [hq]; exact hmem)
  rcases List.mem_cons.mp hmem with rfl | hin
  · exact Nat.le_refl _
  · have := (List.pairwise_cons.mp hsorted).1 r hin
    have b0 := (hrecs r0 (List.mem_filter.mp (by rw [hq]; simp : r0 ∈ query recs g)).1).2
    simp only [key, M] at this b0
    rw [h0, h1] at this; omega

theorem refine_query (recs : List Rec) (hs : recs.Pairwise (fun a b => key a ≤ key b))
    (hrecs : ∀ r ∈ recs, RecOK r) (g g' : Reg) (h : refine recs g = some g') :
    query recs g' = query recs g ∧ query recs g' ≠ [] := by
  unfold refine at h
  split at h
  · exact absurd h (by simp)
  · rename_i r0 rest hq
    injection h with h; subst h
    have hmin := first_match_min recs hs hrecs g r0 rest hq
    have heq : query recs (g.withStart r0.pos) = query recs g := by
      unfold query
      apply List.filter_congr
      intro r hr
      have hr0 : g.matches r0 = true :=
        (List.mem_filter.mp (by rw [hq]; simp : r0 ∈ query recs g)).2
      rw [matches_withStart g r0.pos (start_le_of_matches g r0 hr0) r]
      by_cases hm : g.matches r = true
      · simp [hm, hmin r hr hm]
      · simp [hm]
    exact ⟨heq, by rw [heq, hq]; simp⟩

/-- dropping empty regions and refining starts does not change what is read, and leaves no empty region -/
theorem final_flatMap (recs : List Rec) (hs : recs.Pairwise (fun a b => key a ≤ key b))
    (hrecs : ∀ r ∈ recs, RecOK r) (gs : List Reg) :
    (finalRegions recs gs).flatMap (query recs) = gs.flatMap (query recs) ∧
    ∀ g ∈ finalRegions recs gs, query recs g ≠ [] := by
  induction gs with
  | nil => simp [finalRegions]
  | cons g gs ih =>
    unfold finalRegions at *
    cases hr : refine recs g with
    | none =>
      have : query recs g = [] := by
        unfold refine at hr; split at hr
        · assumption
        · exact absurd hr (by simp)
      simp only [List.filterMap_cons, hr, List.flatMap_cons, this, List.nil_append]
      exact ih
    | some g' =>
      have ⟨e1, e2⟩ := refine_query recs hs hrecs g g' hr
      simp only [List.filterMap_cons, hr, List.flatMap_cons, e1, ih.1]
      refine ⟨trivial, ?_⟩
      intro x hx
      rcases List.mem_cons.mp hx with rfl | hx
      · exact e2
      · exact ih.2 x hx

end B2Z.Regions
