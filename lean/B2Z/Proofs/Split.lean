import B2Z.Model.Split
import B2Z.Proofs.Checks
import B2Z.Proofs.ChecksOrder
/-! # helper lemmas for C03 (split input): `insertPiece` / `explodeOrder` mirror
`sortParts.insertBefore` / `sortParts` through `metaOf` -/
namespace B2Z.Split
open B2Z.Checks

theorem insertPiece_meta (x : List Rec) (l : List (List Rec)) :
    (insertPiece x l).map metaOf = sortParts.insertBefore (metaOf x) (l.map metaOf) := by
  induction l with
  | nil => rfl
  | cons y ys ih =>
    simp only [insertPiece, List.map_cons, sortParts.insertBefore]
    split
    · rfl
    · rw [List.map_cons, ih]

theorem explodeOrder_cons (p : List Rec) (ps : List (List Rec)) :
    explodeOrder (p :: ps) = insertPiece p (explodeOrder ps) := rfl

theorem explodeOrder_meta' (pieces : List (List Rec)) :
    (explodeOrder pieces).map metaOf = sortParts (pieces.map metaOf) := by
  induction pieces with
  | nil => rfl
  | cons p ps ih =>
    rw [explodeOrder_cons, insertPiece_meta, ih, List.map_cons, sortParts_cons]

theorem insertPiece_perm (x : List Rec) (l : List (List Rec)) : (insertPiece x l).Perm (x :: l) := by
  induction l with
  | nil => exact List.Perm.refl _
  | cons y ys ih =>
    unfold insertPiece
    split
    · exact List.Perm.refl _
    · exact (List.Perm.cons y ih).trans (List.Perm.swap x y ys)

theorem explodeOrder_perm (pieces : List (List Rec)) : (explodeOrder pieces).Perm pieces := by
  induction pieces with
  | nil => exact List.Perm.refl _
  | cons p ps ih =>
    rw [explodeOrder_cons]
    exact (insertPiece_perm p _).trans (List.Perm.cons p ih)

/-- the output order is sorted by the key of the pieces' meta data -/
theorem explodeOrder_sorted (pieces : List (List Rec)) :
    (explodeOrder pieces).Pairwise (fun p q => (metaOf p).le (metaOf q) = true) := by
  have h := sortParts_sorted' (pieces.map metaOf)
  rw [← explodeOrder_meta', List.pairwise_map] at h
  exact h

/-- two members of a `Pairwise` list are equal or related one way or the other -/
theorem pairwise_mem_cases {α : Type _} {S : α → α → Prop} {l : List α} (h : l.Pairwise S) :
    ∀ a ∈ l, ∀ b ∈ l, a = b ∨ S a b ∨ S b a := by
  induction l with
  | nil => intro a ha; cases ha
  | cons x xs ih =>
    have hx := List.pairwise_cons.1 h
    intro a ha b hb
    rcases List.mem_cons.1 ha with rfl | ha'
    · rcases List.mem_cons.1 hb with rfl | hb'
      · exact Or.inl rfl
      · exact Or.inr (Or.inl (hx.1 b hb'))
    · rcases List.mem_cons.1 hb with rfl | hb'
      · exact Or.inr (Or.inr (hx.1 a ha'))
      · exact ih hx.2 a ha' b hb'

/-- strictly separated, well-formed pieces: the key order is antisymmetric on the members -/
theorem sep_antisymm (cut : List (List Rec))
    (hsep : (cut.map metaOf).Pairwise B2Z.Checks.Sep)
    (hwf : ∀ p ∈ cut.map metaOf, p.start ≤ p.stop) :
    ∀ p ∈ cut, ∀ q ∈ cut, (metaOf p).le (metaOf q) = true → (metaOf q).le (metaOf p) = true → p = q := by
  rw [List.pairwise_map] at hsep
  intro p hp q hq hpq hqp
  have hk := Part.le_antisymm_key hpq hqp
  have wp : (metaOf p).start ≤ (metaOf p).stop := hwf _ (List.mem_map.2 ⟨p, hp, rfl⟩)
  have wq : (metaOf q).start ≤ (metaOf q).stop := hwf _ (List.mem_map.2 ⟨q, hq, rfl⟩)
  rcases pairwise_mem_cases hsep p hp q hq with e | hs | hs
  · exact e
  · unfold B2Z.Checks.Sep at hs; omega
  · unfold B2Z.Checks.Sep at hs; omega

/-- accepted, well-formed pieces given in key order: any permutation is put back into that order -/
theorem explodeOrder_eq_of_perm (cut pieces : List (List Rec)) (hperm : pieces.Perm cut)
    (hord : sortParts (cut.map metaOf) = cut.map metaOf)
    (hsep : (cut.map metaOf).Pairwise B2Z.Checks.Sep)
    (hwf : ∀ p ∈ cut.map metaOf, p.start ≤ p.stop) :
    explodeOrder pieces = cut := by
  have hcs : cut.Pairwise (fun p q => (metaOf p).le (metaOf q) = true) := by
    have h := sortParts_sorted' (cut.map metaOf)
    rw [hord, List.pairwise_map] at h
    exact h
  have hp : (explodeOrder pieces).Perm cut := (explodeOrder_perm pieces).trans hperm
  refine sorted_perm_eq (explodeOrder_sorted pieces) hcs hp ?_
  intro a ha b hb
  exact sep_antisymm cut hsep hwf a (hp.mem_iff.1 ha) b (hp.mem_iff.1 hb)

end B2Z.Split
