import B2Z.Model.IndexBytes
/-! helper lemmas for the byte-level part of C09: each reader inverts its encoder -/
namespace B2Z.Idx

/-! ## primitive readers -/

theorem rdU_enc (n v : Nat) (rest : Bytes) (h : v < 256 ^ n) :
    rdU n (leBytes n v ++ rest) = .ok (v, rest) := by
  have hl := leBytes_length n v
  simp [rdU, hl, List.take_append_of_le_length, List.drop_append_of_le_length,
        leVal_leBytes n v h]

theorem toI32_ofI32 (v : Int) (h : -2147483648 ≤ v ∧ v < 2147483648) : toI32 (ofI32 v) = v := by
  unfold toI32 ofI32
  split <;> omega

theorem ofI32_lt (v : Int) : ofI32 v < 256 ^ 4 := by
  unfold ofI32
  omega

theorem rdI32_enc (v : Int) (rest : Bytes) (h : -2147483648 ≤ v ∧ v < 2147483648) :
    rdI32 (encI32 v ++ rest) = .ok (v, rest) := by
  simp [rdI32, encI32, rdU_enc 4 _ rest (ofI32_lt v), Except.map, toI32_ofI32 v h]

theorem rdI32_encNat (n : Nat) (rest : Bytes) (h : n < 2147483648) :
    rdI32 (encI32 (n : Int) ++ rest) = .ok ((n : Int), rest) :=
  rdI32_enc _ _ (by omega)

theorem encI32_append_isEmpty (v : Int) (rest : Bytes) : (encI32 v ++ rest).isEmpty = false := by
  simp [encI32, leBytes]

theorem encI32_length (v : Int) : (encI32 v).length = 4 := leBytes_length 4 _

theorem rdChunk_enc (c : Chunk) (rest : Bytes) (h : c.beg < 18446744073709551616 ∧ c.fin < 18446744073709551616) :
    rdChunk (encChunk c ++ rest) = .ok (c, rest) := by
  have h1 : c.beg < 256 ^ 8 := by omega
  have h2 : c.fin < 256 ^ 8 := by omega
  simp [rdChunk, encChunk, List.append_assoc, rdU_enc _ _ _ h1, rdU_enc _ _ _ h2,
    bind, Except.bind, pure, Except.pure]

theorem rdN_enc_map (p : R γ) (enc : α → Bytes) (f : α → γ) (ok : α → Prop)
    (hp : ∀ x rest, ok x → p (enc x ++ rest) = .ok (f x, rest))
    (xs : List α) (hok : ∀ x ∈ xs, ok x) (rest : Bytes) :
    rdN p xs.length ((xs.map enc).flatten ++ rest) = .ok (xs.map f, rest) := by
  induction xs with
  | nil => simp [rdN]
  | cons x xs ih =>
    have hx := hp x ((xs.map enc).flatten ++ rest) (hok x (by simp))
    have ih' := ih (fun y hy => hok y (List.mem_cons_of_mem _ hy))
    simp [rdN, List.append_assoc, hx, ih', bind, Except.bind, pure, Except.pure]

theorem rdN_enc (p : R α) (enc : α → Bytes) (ok : α → Prop)
    (hp : ∀ x rest, ok x → p (enc x ++ rest) = .ok (x, rest))
    (xs : List α) (hok : ∀ x ∈ xs, ok x) (rest : Bytes) :
    rdN p xs.length ((xs.map enc).flatten ++ rest) = .ok (xs, rest) := by
  have := rdN_enc_map p enc id ok hp xs hok rest
  simpa using this

theorem rdChunks_enc (cs : List Chunk) (rest : Bytes)
    (h : ∀ c ∈ cs, c.beg < 18446744073709551616 ∧ c.fin < 18446744073709551616) :
    rdN rdChunk cs.length ((cs.map encChunk).flatten ++ rest) = .ok (cs, rest) :=
  rdN_enc rdChunk encChunk _ (fun c rest hc => rdChunk_enc c rest hc) cs h rest

/-! ## bins -/

theorem rdCsiBin_enc (b : CsiBin) (rest : Bytes)
    (h : b.bin < 4294967296 ∧ b.loffset < 18446744073709551616 ∧ b.chunks.length < 2147483648 ∧
      ∀ c ∈ b.chunks, c.beg < 18446744073709551616 ∧ c.fin < 18446744073709551616) :
    rdCsiBin (encCsiBin b ++ rest) = .ok (b, rest) := by
  obtain ⟨h1, h2, h3, h4⟩ := h
  have h1' : b.bin < 256 ^ 4 := by omega
  have h2' : b.loffset < 256 ^ 8 := by omega
  simp [rdCsiBin, encCsiBin, List.append_assoc, rdU_enc _ _ _ h1', rdU_enc _ _ _ h2',
    rdI32_encNat _ _ h3, cnt, rdChunks_enc _ _ h4, bind, Except.bind, pure, Except.pure]

theorem rdTbxBin_enc (b : TbxBin) (rest : Bytes)
    (h : b.bin < 4294967296 ∧ b.chunks.length < 2147483648 ∧
      ∀ c ∈ b.chunks, c.beg < 18446744073709551616 ∧ c.fin < 18446744073709551616) :
    rdTbxBin (encTbxBin b ++ rest) = .ok (b, rest) := by
  obtain ⟨h1, h3, h4⟩ := h
  have h1' : b.bin < 256 ^ 4 := by omega
  simp [rdTbxBin, encTbxBin, List.append_assoc, rdU_enc _ _ _ h1',
    rdI32_encNat _ _ h3, cnt, rdChunks_enc _ _ h4, bind, Except.bind, pure, Except.pure]

/-! ## record counts -/

/-- the count a pseudo-bin carries -/
def binCount (chunksOf : β → List Chunk) (b : β) : Count :=
  match chunksOf b with
  | [_, c] => .known (c.beg + c.fin)
  | _ => .unknown

/-- same body as `specCount` in `Props/C09.lean` -/
def specCount' (pseudo : Nat) (binOf : β → Nat) (chunksOf : β → List Chunk) (bs : List β) : Count :=
  if bs = [] then .known 0
  else match (bs.filter fun b => binOf b = pseudo).getLast? with
    | none => .unknown
    | some b => match chunksOf b with
      | [_, c] => .known (c.beg + c.fin)
      | _ => .unknown

def countStep (pseudo : Nat) (chunksOf : β → List Chunk) (binOf : β → Nat) (acc : Count) (b : β) :
    Except String Count :=
  if binOf b = pseudo then
    match chunksOf b with
    | [_, c] => .ok (.known (c.beg + c.fin))
    | _ => .error "error"
  else .ok acc

theorem countStep_pseudo (pseudo : Nat) (chunksOf : β → List Chunk) (binOf : β → Nat) (acc : Count) (b : β)
    (hb : binOf b = pseudo) (hl : (chunksOf b).length = 2) :
    countStep pseudo chunksOf binOf acc b = .ok (binCount chunksOf b) := by
  unfold countStep binCount
  rw [if_pos hb]
  match hc : chunksOf b, hl with
  | [c0, c], _ => rfl

theorem fold_countStep (pseudo : Nat) (chunksOf : β → List Chunk) (binOf : β → Nat) (bs : List β)
    (hp : ∀ b ∈ bs, binOf b = pseudo → (chunksOf b).length = 2) (acc : Count) :
    bs.foldlM (countStep pseudo chunksOf binOf) acc =
      .ok (match (bs.filter fun b => binOf b = pseudo).getLast? with
           | none => acc
           | some b => binCount chunksOf b) := by
  induction bs generalizing acc with
  | nil => rfl
  | cons b bs ih =>
    have ih' := ih (fun y hy => hp y (List.mem_cons_of_mem _ hy))
    rw [List.foldlM_cons]
    by_cases hb : binOf b = pseudo
    · rw [countStep_pseudo pseudo chunksOf binOf acc b hb (hp b (by simp) hb)]
      show bs.foldlM (countStep pseudo chunksOf binOf) (binCount chunksOf b) = _
      rw [ih', List.filter_cons_of_pos (by simpa using hb), List.getLast?_cons]
      cases (bs.filter fun b => binOf b = pseudo).getLast? <;> rfl
    · have : countStep pseudo chunksOf binOf acc b = .ok acc := by
        unfold countStep; rw [if_neg hb]
      rw [this]
      show bs.foldlM (countStep pseudo chunksOf binOf) acc = _
      rw [ih', List.filter_cons_of_neg (by simpa using hb)]

theorem countOf_enc (pseudo : Nat) (chunksOf : β → List Chunk) (binOf : β → Nat) (bs : List β)
    (hp : ∀ b ∈ bs, binOf b = pseudo → (chunksOf b).length = 2) :
    countOf pseudo chunksOf binOf (bs.length : Int) bs = .ok (specCount' pseudo binOf chunksOf bs) := by
  have h := fold_countStep pseudo chunksOf binOf bs hp
  have e : countOf pseudo chunksOf binOf (bs.length : Int) bs =
      bs.foldlM (countStep pseudo chunksOf binOf)
        (if ((bs.length : Nat) : Int) = 0 then Count.known 0 else Count.unknown) := rfl
  rw [e, h]
  unfold specCount'
  cases bs with
  | nil => rfl
  | cons b bs =>
    have : ¬ (((b :: bs).length : Nat) : Int) = 0 := by simp; omega
    rw [if_neg this, if_neg (by simp)]
    cases ((b :: bs).filter fun b => binOf b = pseudo).getLast? <;> rfl

/-! ## references -/

theorem rdCsiRef_enc (pseudo : Nat) (bs : List CsiBin) (rest : Bytes)
    (hl : bs.length < 2147483648)
    (hb : ∀ b ∈ bs, b.bin < 4294967296 ∧ b.loffset < 18446744073709551616 ∧ b.chunks.length < 2147483648 ∧
      ∀ c ∈ b.chunks, c.beg < 18446744073709551616 ∧ c.fin < 18446744073709551616)
    (hp : ∀ b ∈ bs, b.bin = pseudo → b.chunks.length = 2) :
    rdCsiRef pseudo (encCsiRef bs ++ rest) =
      .ok ((bs, specCount' pseudo CsiBin.bin CsiBin.chunks bs), rest) := by
  have hbins := rdN_enc rdCsiBin encCsiBin _ (fun b rest hb => rdCsiBin_enc b rest hb) bs hb rest
  simp [rdCsiRef, encCsiRef, List.append_assoc, encI32_append_isEmpty, rdI32_encNat _ _ hl, cnt,
    hbins, countOf_enc pseudo CsiBin.chunks CsiBin.bin bs hp, bind, Except.bind, pure, Except.pure]

theorem rdLin_enc (vs : List Nat) (rest : Bytes) (h : ∀ v ∈ vs, v < 18446744073709551616) :
    rdN (rdU 8) vs.length ((vs.map (leBytes 8)).flatten ++ rest) = .ok (vs, rest) :=
  rdN_enc (rdU 8) (leBytes 8) (fun v => v < 18446744073709551616)
    (fun v rest hv => rdU_enc 8 v rest (by omega)) vs h rest

theorem rdTbxRef_enc (x : List TbxBin × List Nat) (rest : Bytes)
    (hl : x.1.length < 2147483648)
    (hb : ∀ b ∈ x.1, b.bin < 4294967296 ∧ b.chunks.length < 2147483648 ∧
      ∀ c ∈ b.chunks, c.beg < 18446744073709551616 ∧ c.fin < 18446744073709551616)
    (hl2 : x.2.length < 2147483648) (hv : ∀ v ∈ x.2, v < 18446744073709551616)
    (hp : ∀ b ∈ x.1, b.bin = 37450 → b.chunks.length = 2) :
    rdTbxRef (encTbxRef x ++ rest) =
      .ok ((x.1, x.2, specCount' 37450 TbxBin.bin TbxBin.chunks x.1), rest) := by
  have hbins := fun rest => rdN_enc rdTbxBin encTbxBin _ (fun b rest hb => rdTbxBin_enc b rest hb) x.1 hb rest
  simp [rdTbxRef, encTbxRef, List.append_assoc, encI32_append_isEmpty, rdI32_encNat _ _ hl,
    rdI32_encNat _ _ hl2, cnt, hbins, rdLin_enc _ _ hv,
    countOf_enc 37450 TbxBin.chunks TbxBin.bin x.1 hp, bind, Except.bind, pure, Except.pure]

/-! ## trailer -/

theorem rdTrailer_nil : rdTrailer [] = .ok 0 := rfl

theorem rdTrailer_enc (n : Nat) (h : n < 18446744073709551616) : rdTrailer (leBytes 8 n) = .ok n := by
  have := rdU_enc 8 n [] (by omega)
  rw [List.append_nil] at this
  have hne : (leBytes 8 n).isEmpty = false := by simp [leBytes]
  simp [rdTrailer, rdOptU, hne, this, Except.map, bind, Except.bind, pure, Except.pure]

theorem rdTrailer_garbage (n : Nat) (g : Bytes) (h : n < 18446744073709551616) (hg : g ≠ []) :
    rdTrailer (leBytes 8 n ++ g) = .error "error" := by
  have := rdU_enc 8 n g (by omega)
  have hne : (leBytes 8 n ++ g).isEmpty = false := by simp [leBytes]
  simp [rdTrailer, rdOptU, hne, this, Except.map, bind, Except.bind, hg, throw, throwThe,
    MonadExceptOf.throw]

def tailBytes : Option Nat → Bytes
  | none => []
  | some n => leBytes 8 n

theorem rdTrailer_tail (tail : Option Nat) (h : ∀ n, tail = some n → n < 18446744073709551616) :
    rdTrailer (tailBytes tail) = .ok (tail.getD 0) := by
  cases tail with
  | none => rfl
  | some n => exact rdTrailer_enc n (h n rfl)

/-! ## whole files -/

theorem auxRead (aux rest : Bytes) :
    (if aux.length = 0 ∨ (aux ++ rest).isEmpty = true then Except.ok (([] : Bytes), aux ++ rest)
     else if (aux ++ rest).length < aux.length then (Except.error "error" : Except String (Bytes × Bytes))
     else Except.ok ((aux ++ rest).take aux.length, (aux ++ rest).drop aux.length)) = .ok (aux, rest) := by
  cases aux with
  | nil => simp
  | cons a aux => simp

def csiBody (minShift depth : Int) (aux : Bytes) (bins : List (List CsiBin)) (t : Bytes) : Bytes :=
  csiMagic ++ (encI32 minShift ++ (encI32 depth ++ (encI32 aux.length ++ (aux ++ (encI32 bins.length ++
    ((bins.map encCsiRef).flatten ++ t))))))

theorem encodeCsi_append (minShift depth : Int) (aux : Bytes) (bins : List (List CsiBin)) (tail : Option Nat)
    (g : Bytes) :
    encodeCsi minShift depth aux bins tail ++ g =
      csiBody minShift depth aux bins (tailBytes tail ++ g) := by
  cases tail <;> simp [encodeCsi, csiBody, tailBytes, List.append_assoc]

theorem parseCsi_body (minShift depth : Int) (aux : Bytes) (bins : List (List CsiBin)) (t : Bytes)
    (hms : -2147483648 ≤ minShift ∧ minShift < 2147483648)
    (hd : -2147483648 ≤ depth ∧ depth < 2147483648) (hd0 : 0 ≤ depth)
    (haux : aux.length < 2147483648)
    (hnref : bins.length < 2147483648)
    (hbins : ∀ bs ∈ bins, bs.length < 2147483648 ∧ ∀ b ∈ bs,
      b.bin < 4294967296 ∧ b.loffset < 18446744073709551616 ∧ b.chunks.length < 2147483648 ∧
      ∀ c ∈ b.chunks, c.beg < 18446744073709551616 ∧ c.fin < 18446744073709551616)
    (hp : ∀ bs ∈ bins, ∀ b ∈ bs, b.bin = (8 ^ (depth + 1).toNat - 1) / 7 + 1 → b.chunks.length = 2) :
    parseCsi (csiBody minShift depth aux bins t) =
      (rdTrailer t).map fun nnc =>
        { minShift := minShift, depth := depth, aux := aux, bins := bins,
          counts := bins.map (specCount' ((8 ^ (depth + 1).toNat - 1) / 7 + 1) CsiBin.bin CsiBin.chunks),
          nNoCoor := nnc } := by
  have hrefs := rdN_enc_map (rdCsiRef ((8 ^ (depth + 1).toNat - 1) / 7 + 1)) encCsiRef
    (fun bs => (bs, specCount' ((8 ^ (depth + 1).toNat - 1) / 7 + 1) CsiBin.bin CsiBin.chunks bs))
    (fun bs => bs ∈ bins)
    (fun bs rest hbs => rdCsiRef_enc _ bs rest (hbins bs hbs).1 (hbins bs hbs).2 (hp bs hbs))
    bins (fun _ h => h) t
  have hps : pseudoBinOf depth = .ok ((8 ^ (depth + 1).toNat - 1) / 7 + 1) := by
    unfold pseudoBinOf; rw [if_neg (by omega)]
  have hmagic : (csiBody minShift depth aux bins t).take 4 = csiMagic := by
    simp [csiBody, csiMagic]
  have hdrop : (csiBody minShift depth aux bins t).drop 4 =
      (encI32 minShift ++ (encI32 depth ++ (encI32 aux.length ++ (aux ++ (encI32 bins.length ++
        ((bins.map encCsiRef).flatten ++ t)))))) := by
    simp [csiBody, csiMagic]
  have hlen : ¬ (csiBody minShift depth aux bins t).length < 4 := by
    simp [csiBody, csiMagic]
  have hne : (csiBody minShift depth aux bins t).isEmpty = false := by
    simp [csiBody, csiMagic]
  unfold parseCsi
  simp only [hmagic, hdrop, hlen, hne]
  have hl0 : ¬ ((aux.length : Int) < 0) := by omega
  simp only [rdI32_enc _ _ hms, rdI32_enc _ _ hd, rdI32_encNat _ _ haux, bind, Except.bind,
    Int.toNat_natCast, auxRead, hl0, if_false, Bool.false_eq_true, encI32_append_isEmpty,
    rdI32_encNat _ _ hnref, hps, cnt, hrefs, pure, Except.pure, Except.map]
  cases rdTrailer t <;> simp [Function.comp_def]

def tbxBody (hdr6 : List Int) (names : Bytes) (refs : List (List TbxBin × List Nat)) (t : Bytes) : Bytes :=
  tbiMagic ++ (encI32 refs.length ++ ((hdr6.map encI32).flatten ++ (encI32 names.length ++ (names ++
    ((refs.map encTbxRef).flatten ++ t)))))

theorem encodeTbx_append (hdr6 : List Int) (names : Bytes) (refs : List (List TbxBin × List Nat))
    (tail : Option Nat) (g : Bytes) :
    encodeTbx hdr6 names refs tail ++ g =
      tbxBody hdr6 names refs (tailBytes tail ++ g) := by
  cases tail <;> simp [encodeTbx, tbxBody, tailBytes, List.append_assoc]

theorem hdr_getD7 (n m : Int) (hdr6 : List Int) (h : hdr6.length = 6) :
    (n :: (hdr6 ++ [m])).getD 7 0 = m := by
  match hdr6, h with
  | [a, b, c, d, e, f], _ => rfl

theorem hdr_read (n m : Int) (hdr6 : List Int) (rest : Bytes) (h : hdr6.length = 6)
    (hn : -2147483648 ≤ n ∧ n < 2147483648) (hm : -2147483648 ≤ m ∧ m < 2147483648)
    (hh : ∀ v ∈ hdr6, -2147483648 ≤ v ∧ v < 2147483648) :
    rdN rdI32 8 (encI32 n ++ ((hdr6.map encI32).flatten ++ (encI32 m ++ rest))) =
      .ok (n :: (hdr6 ++ [m]), rest) := by
  have := rdN_enc rdI32 encI32 (fun v => -2147483648 ≤ v ∧ v < 2147483648)
    (fun v rest hv => rdI32_enc v rest hv) (n :: (hdr6 ++ [m]))
    (by intro v hv
        simp only [List.mem_cons, List.mem_append, List.not_mem_nil, or_false] at hv
        rcases hv with rfl | hv | rfl
        · exact hn
        · exact hh v hv
        · exact hm) rest
  have hl : (n :: (hdr6 ++ [m])).length = 8 := by simp [h]
  rw [hl] at this
  simpa [List.append_assoc] using this

theorem parseTbx_body (hdr6 : List Int) (names : Bytes) (refs : List (List TbxBin × List Nat)) (t : Bytes)
    (hh6 : hdr6.length = 6) (hh : ∀ v ∈ hdr6, -2147483648 ≤ v ∧ v < 2147483648)
    (hn0 : 0 < names.length) (hn : names.length < 2147483648)
    (hnref : refs.length < 2147483648)
    (hrefs : ∀ x ∈ refs, x.1.length < 2147483648 ∧
      (∀ b ∈ x.1, b.bin < 4294967296 ∧ b.chunks.length < 2147483648 ∧
        ∀ c ∈ b.chunks, c.beg < 18446744073709551616 ∧ c.fin < 18446744073709551616) ∧
      x.2.length < 2147483648 ∧ ∀ v ∈ x.2, v < 18446744073709551616)
    (hp : ∀ x ∈ refs, ∀ b ∈ x.1, b.bin = 37450 → b.chunks.length = 2) :
    parseTbx (tbxBody hdr6 names refs t) =
      (rdTrailer t).map fun nnc =>
        { header := (refs.length : Int) :: (hdr6 ++ [(names.length : Int)]), names := names,
          bins := refs.map (·.1), linear := refs.map (·.2),
          counts := refs.map (fun x => specCount' 37450 TbxBin.bin TbxBin.chunks x.1),
          nNoCoor := nnc } := by
  have hr := rdN_enc_map rdTbxRef encTbxRef
    (fun x => (x.1, x.2, specCount' 37450 TbxBin.bin TbxBin.chunks x.1))
    (fun x => x ∈ refs)
    (fun x rest hx => rdTbxRef_enc x rest (hrefs x hx).1 (hrefs x hx).2.1 (hrefs x hx).2.2.1
      (hrefs x hx).2.2.2 (hp x hx))
    refs (fun _ h => h) t
  have hmagic : (tbxBody hdr6 names refs t).take 4 = tbiMagic := by
    simp [tbxBody, tbiMagic]
  have hdrop : (tbxBody hdr6 names refs t).drop 4 =
      (encI32 refs.length ++ ((hdr6.map encI32).flatten ++ (encI32 names.length ++ (names ++
        ((refs.map encTbxRef).flatten ++ t))))) := by
    simp [tbxBody, tbiMagic]
  have hlen : ¬ (tbxBody hdr6 names refs t).length < 4 := by
    simp [tbxBody, tbiMagic]
  have hne : (tbxBody hdr6 names refs t).isEmpty = false := by
    simp [tbxBody, tbiMagic]
  have hhdr := hdr_read (refs.length : Int) (names.length : Int) hdr6
    (names ++ ((refs.map encTbxRef).flatten ++ t)) hh6 (by omega) (by omega) hh
  have hnm : ((names.length : Nat) : Int) > 0 := by omega
  have hne2 : (names ++ ((refs.map encTbxRef).flatten ++ t)).isEmpty = false := by
    cases names with
    | nil => simp at hn0
    | cons a l => rfl
  have hlen2 : ¬ (names ++ ((refs.map encTbxRef).flatten ++ t)).length < names.length := by
    simp
  have htake : (names ++ ((refs.map encTbxRef).flatten ++ t)).take names.length = names := by simp
  have hdrop2 : (names ++ ((refs.map encTbxRef).flatten ++ t)).drop names.length =
      (refs.map encTbxRef).flatten ++ t := by simp
  unfold parseTbx
  simp only [hmagic, hdrop, hlen, hne]
  simp only [hhdr, bind, Except.bind, hdr_getD7 _ _ _ hh6, List.getD_cons_zero, hnm, if_true,
    hne2, hlen2, htake, hdrop2, Int.toNat_natCast, if_false, Bool.false_eq_true, cnt, hr,
    pure, Except.pure, Except.map]
  cases rdTrailer t <;> simp [Function.comp_def]

/-! ## rejection -/

theorem parseCsi_bad_magic (inp : Bytes) (h4 : 4 ≤ inp.length) (h : inp.take 4 ≠ csiMagic) :
    parseCsi inp = .error "ValueError" := by
  have hne : inp.isEmpty = false := by
    cases inp with
    | nil => simp at h4
    | cons a l => rfl
  have hlen : ¬ inp.length < 4 := by omega
  unfold parseCsi
  simp only [hne, hlen, h, bind, Except.bind, if_false, Bool.false_eq_true, ne_eq, not_false_eq_true, if_true]
  rfl

theorem parseTbx_bad_magic (inp : Bytes) (h4 : 4 ≤ inp.length) (h : inp.take 4 ≠ tbiMagic) :
    parseTbx inp = .error "ValueError" := by
  have hne : inp.isEmpty = false := by
    cases inp with
    | nil => simp at h4
    | cons a l => rfl
  have hlen : ¬ inp.length < 4 := by omega
  unfold parseTbx
  simp only [hne, hlen, h, bind, Except.bind, if_false, Bool.false_eq_true, ne_eq, not_false_eq_true, if_true]
  rfl

theorem parseTbx_csi (minShift depth : Int) (aux : Bytes) (bins : List (List CsiBin)) (tail : Option Nat) :
    parseTbx (encodeCsi minShift depth aux bins tail) = .error "ValueError" := by
  have e := encodeCsi_append minShift depth aux bins tail []
  rw [List.append_nil] at e
  rw [e]
  apply parseTbx_bad_magic
  · simp [csiBody, csiMagic]
  · simp [csiBody, csiMagic, tbiMagic]

theorem parseCsi_tbx (hdr6 : List Int) (names : Bytes) (refs : List (List TbxBin × List Nat)) (tail : Option Nat) :
    parseCsi (encodeTbx hdr6 names refs tail) = .error "ValueError" := by
  have e := encodeTbx_append hdr6 names refs tail []
  rw [List.append_nil] at e
  rw [e]
  apply parseCsi_bad_magic
  · simp [tbxBody, tbiMagic]
  · simp [tbxBody, csiMagic, tbiMagic]

/-! ## `specCount'` characterisation -/

theorem specCount'_cases (pseudo : Nat) (binOf : β → Nat) (chunksOf : β → List Chunk) (bs : List β)
    (hp : ∀ b ∈ bs, binOf b = pseudo → (chunksOf b).length = 2) (hne : bs ≠ []) :
    (specCount' pseudo binOf chunksOf bs = .unknown ∧ ∀ b ∈ bs, binOf b ≠ pseudo) ∨
    (∃ b ∈ bs, binOf b = pseudo ∧ ∃ c0 c, chunksOf b = [c0, c] ∧
      specCount' pseudo binOf chunksOf bs = .known (c.beg + c.fin)) := by
  unfold specCount'
  rw [if_neg hne]
  cases hg : (bs.filter fun b => binOf b = pseudo).getLast? with
  | none =>
    left
    refine ⟨rfl, ?_⟩
    rw [List.getLast?_eq_none_iff, List.filter_eq_nil_iff] at hg
    intro b hb
    simpa using hg b hb
  | some b =>
    right
    have hm := List.mem_of_getLast? hg
    rw [List.mem_filter] at hm
    have hbp : binOf b = pseudo := by simpa using hm.2
    have hl := hp b hm.1 hbp
    refine ⟨b, hm.1, hbp, ?_⟩
    match hc : chunksOf b, hl with
    | [c0, c], _ => exact ⟨c0, c, rfl, by simp only [hc]⟩

theorem specCount'_props (pseudo : Nat) (binOf : β → Nat) (chunksOf : β → List Chunk) (bs : List β)
    (hp : ∀ b ∈ bs, binOf b = pseudo → (chunksOf b).length = 2) :
    (bs = [] → specCount' pseudo binOf chunksOf bs = .known 0) ∧
    (specCount' pseudo binOf chunksOf bs = .unknown ↔ (bs ≠ [] ∧ ∀ b ∈ bs, binOf b ≠ pseudo)) ∧
    (∀ n, specCount' pseudo binOf chunksOf bs = .known n →
        (bs = [] ∧ n = 0) ∨ ∃ b ∈ bs, binOf b = pseudo ∧ ∃ c0 c, chunksOf b = [c0, c] ∧ n = c.beg + c.fin) := by
  by_cases hne : bs = []
  · subst hne
    refine ⟨fun _ => rfl, ?_, ?_⟩
    · simp [specCount']
    · intro n hn
      left
      simp [specCount'] at hn
      exact ⟨rfl, hn.symm⟩
  · refine ⟨fun h => absurd h hne, ?_, ?_⟩
    · rcases specCount'_cases pseudo binOf chunksOf bs hp hne with ⟨h1, h2⟩ | ⟨b, hb, hbp, c0, c, hc, h1⟩
      · exact ⟨fun _ => ⟨hne, h2⟩, fun _ => h1⟩
      · constructor
        · intro h; rw [h1] at h; cases h
        · intro h; exact absurd hbp (h.2 b hb)
    · intro n hn
      right
      rcases specCount'_cases pseudo binOf chunksOf bs hp hne with ⟨h1, h2⟩ | ⟨b, hb, hbp, c0, c, hc, h1⟩
      · rw [h1] at hn; cases hn
      · rw [h1] at hn
        cases hn
        exact ⟨b, hb, hbp, c0, c, hc, rfl⟩

/-! ## sequence names -/

theorem splitNames_go_name (nm : Bytes) (h : ∀ b ∈ nm, b ≠ 0) (cur rest : Bytes) :
    splitNames.go cur (nm ++ 0 :: rest) = (cur.reverse ++ nm) :: splitNames.go [] rest := by
  induction nm generalizing cur with
  | nil => simp [splitNames.go]
  | cons b nm ih =>
    have hb : b ≠ 0 := h b (by simp)
    have ih' := ih (fun y hy => h y (List.mem_cons_of_mem _ hy)) (b :: cur)
    cases b with
    | zero => exact absurd rfl hb
    | succ k =>
      simp only [List.cons_append, splitNames.go]
      rw [ih']
      simp

theorem splitNames_join (names : List Bytes) (h : ∀ nm ∈ names, ∀ b ∈ nm, b ≠ 0) :
    splitNames (names.flatMap fun nm => nm ++ [0]) = names := by
  unfold splitNames
  induction names with
  | nil => simp [splitNames.go]
  | cons nm names ih =>
    have ih' := ih (fun y hy => h y (List.mem_cons_of_mem _ hy))
    rw [List.flatMap_cons, List.append_assoc]
    show splitNames.go [] (nm ++ 0 :: _) = _
    rw [splitNames_go_name nm (h nm (by simp))]
    simpa using ih'

end B2Z.Idx
