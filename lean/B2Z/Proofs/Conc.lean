import B2Z.Model.Conc
import B2Z.Proofs.Fs
import B2Z.Proofs.Buffer
import B2Z.Props.C11
/-! # Helper lemmas for C07 (`Props/C07.lean`)

* locality of a mutation: it changes only objects of its footprint and reads only objects of its
  footprint (`Mut.apply_not_mem`, `Mut.apply_congr`), hence `Mut.apply_comm`;
* swapping a mutation / a whole task past a block it commutes with (`run_swap`, `run_comm`);
* n-way merges (`merge_eq_seq`) and permutations of whole tasks (`perm_eq_seq`);
* `mem_mutsOf`: the mutations of a program are its `set` / `move` steps;
* footprints of the explode / encode partition programs;
* chunk keys of a buffered run on a chunk-aligned slice.
-/
namespace B2Z.Conc
open B2Z.Fs

variable {Obj : Type} [DecidableEq Obj]

/-! ## `Disjoint` -/

omit [DecidableEq Obj] in
theorem Disjoint.symm {a b : List Obj} (h : Disjoint a b) : Disjoint b a :=
  fun x hb ha => h x ha hb

/-! ## locality of one mutation -/

omit [DecidableEq Obj] in
theorem mem_footprint_move {ps : List (Obj × Obj)} {x : Obj} :
    x ∈ (Mut.move ps).footprint ↔ ∃ p ∈ ps, p.1 = x ∨ p.2 = x := by
  simp only [Mut.footprint, List.mem_flatMap, List.mem_cons, List.not_mem_nil, or_false]
  constructor
  · rintro ⟨p, hp, h⟩; exact ⟨p, hp, h.imp Eq.symm Eq.symm⟩
  · rintro ⟨p, hp, h⟩; exact ⟨p, hp, h.imp Eq.symm Eq.symm⟩

/-- a mutation leaves every object outside its footprint alone -/
theorem Mut.apply_not_mem (m : Mut Obj) (s : St Obj) (x : Obj) (hx : x ∉ m.footprint) :
    m.apply s x = s x := by
  cases m with
  | set o v =>
    have : x ≠ o := by simpa [Mut.footprint] using hx
    simp [Mut.apply, upd, this]
  | move ps =>
    rw [mem_footprint_move] at hx
    exact applyMove_other s ps x (fun p hp e => hx ⟨p, hp, Or.inr e⟩) (fun p hp e => hx ⟨p, hp, Or.inl e⟩)

/-- the value a mutation leaves at `x` depends only on the old values on its footprint and at `x` -/
theorem Mut.apply_congr (m : Mut Obj) (s s' : St Obj) (x : Obj)
    (h : ∀ o ∈ m.footprint, s o = s' o) (hx : s x = s' x) : m.apply s x = m.apply s' x := by
  cases m with
  | set o v => simp only [Mut.apply, upd, hx]
  | move ps =>
    simp only [Mut.apply, applyMove]
    cases hf : ps.find? (fun p => p.2 = x) with
    | some p =>
      exact h p.1 (mem_footprint_move.2 ⟨p, List.mem_of_find?_eq_some hf, Or.inl rfl⟩)
    | none => simp only [hx]

/-- mutations with disjoint footprints commute -/
theorem Mut.apply_comm (m m' : Mut Obj) (h : Disjoint m.footprint m'.footprint) (s : St Obj) :
    m'.apply (m.apply s) = m.apply (m'.apply s) := by
  funext x
  by_cases hx : x ∈ m.footprint
  · have hx' : x ∉ m'.footprint := h x hx
    rw [Mut.apply_not_mem m' _ x hx']
    exact Mut.apply_congr m _ _ x (fun o ho => (Mut.apply_not_mem m' s o (h o ho)).symm)
      (Mut.apply_not_mem m' s x hx').symm
  · rw [Mut.apply_not_mem m _ x hx]
    exact Mut.apply_congr m' _ _ x (fun o ho => Mut.apply_not_mem m s o (fun hm => h o hm ho))
      (Mut.apply_not_mem m s x hx)

/-! ## `run` -/

theorem run_nil (s : St Obj) : run s [] = s := rfl

theorem run_cons (s : St Obj) (m : Mut Obj) (ms : List (Mut Obj)) :
    run s (m :: ms) = run (m.apply s) ms := rfl

theorem run_append (s : St Obj) (ms ms' : List (Mut Obj)) :
    run s (ms ++ ms') = run (run s ms) ms' := by
  simp [run, List.foldl_append]

/-- a run leaves every object outside all its footprints alone -/
theorem run_not_mem (ms : List (Mut Obj)) (s : St Obj) (x : Obj)
    (hx : ∀ m ∈ ms, x ∉ m.footprint) : run s ms x = s x := by
  induction ms generalizing s with
  | nil => rfl
  | cons m ms ih =>
    rw [run_cons, ih _ (fun m' hm' => hx m' (List.mem_cons_of_mem _ hm')),
      Mut.apply_not_mem m s x (hx m (List.mem_cons_self ..))]

/-- moving one mutation `y` in front of a block `xs` of mutations on other objects -/
theorem run_swap (xs : List (Mut Obj)) (y : Mut Obj)
    (hc : ∀ x ∈ xs, Disjoint (Mut.footprint x) y.footprint) (s : St Obj) :
    y.apply (run s xs) = run (y.apply s) xs := by
  induction xs generalizing s with
  | nil => rfl
  | cons x xs ih =>
    rw [run_cons, run_cons, ih (fun x' hx' => hc x' (List.mem_cons_of_mem _ hx')),
      Mut.apply_comm x y (hc x (List.mem_cons_self ..))]

/-- two whole blocks on disjoint objects commute -/
theorem run_comm (xs ys : List (Mut Obj))
    (hc : ∀ x ∈ xs, ∀ y ∈ ys, Disjoint (Mut.footprint x) (Mut.footprint y)) (s : St Obj) :
    run (run s xs) ys = run (run s ys) xs := by
  induction ys generalizing s with
  | nil => rfl
  | cons y ys ih =>
    rw [run_cons, run_cons, run_swap xs y (fun x hx => hc x hx y (List.mem_cons_self ..)),
      ih (fun x hx y' hy' => hc x hx y' (List.mem_cons_of_mem _ hy'))]

/-! ## tasks -/

/-- no mutation of `a` shares an object with a mutation of `b` -/
def TaskRel (a b : List (Mut Obj)) : Prop :=
  ∀ m ∈ a, ∀ m' ∈ b, Disjoint (Mut.footprint m) (Mut.footprint m')

omit [DecidableEq Obj] in
theorem TaskRel.symm {a b : List (Mut Obj)} (h : TaskRel a b) : TaskRel b a :=
  fun m hm m' hm' => (h m' hm' m hm).symm

omit [DecidableEq Obj] in
/-- the index-based formulation (`TasksDisjoint` of `Props/C07.lean`) is `Pairwise TaskRel` -/
theorem pairwise_of_index (ts : List (List (Mut Obj)))
    (hd : ∀ (i j : Nat) (hi : i < ts.length) (hj : j < ts.length), i ≠ j → TaskRel ts[i] ts[j]) :
    ts.Pairwise TaskRel :=
  List.pairwise_iff_getElem.2 fun i j hi hj hij => hd i j hi hj (Nat.ne_of_lt hij)

/-- permuting whole tasks does not change the final state -/
theorem perm_eq_seq {ts ts' : List (List (Mut Obj))} (hp : ts.Perm ts') :
    ts.Pairwise TaskRel → ∀ s : St Obj, run s ts.flatten = run s ts'.flatten := by
  induction hp with
  | nil => intro _ _; rfl
  | cons x _ ih =>
    intro hd s
    simp only [List.flatten_cons, run_append]
    exact ih (List.pairwise_cons.1 hd).2 _
  | swap x y l =>
    intro hd s
    simp only [List.flatten_cons, run_append]
    have hyx : TaskRel y x := (List.pairwise_cons.1 hd).1 x (List.mem_cons_self ..)
    rw [run_comm y x hyx]
  | trans h₁ _ ih₁ ih₂ =>
    intro hd s
    rw [ih₁ hd s, ih₂ ((h₁.pairwise_iff TaskRel.symm).1 hd) s]

/-- every interleaving of tasks on disjoint objects ends in the state of the sequential run -/
theorem merge_eq_seq {ts : List (List (Mut Obj))} {zs : List (Mut Obj)} (h : Merge ts zs) :
    (∀ (i j : Nat) (hi : i < ts.length) (hj : j < ts.length), i ≠ j → TaskRel ts[i] ts[j]) →
    ∀ s : St Obj, run s zs = run s ts.flatten := by
  induction h with
  | @done ts hall =>
    intro _ s
    have : ts.flatten = [] := by
      rw [List.flatten_eq_nil_iff]; exact hall
    rw [this]
  | @pick ts zs i x rest hi _ ih =>
    intro hd s
    obtain ⟨hlt, hget⟩ := List.getElem?_eq_some_iff.1 hi
    -- the remaining tasks are still pairwise disjoint
    have hd' : ∀ (a b : Nat) (ha : a < (ts.set i rest).length) (hb : b < (ts.set i rest).length),
        a ≠ b → TaskRel (ts.set i rest)[a] (ts.set i rest)[b] := by
      intro a b ha hb hab m hm m' hm'
      have ha' : a < ts.length := by simpa using ha
      have hb' : b < ts.length := by simpa using hb
      rw [List.getElem_set] at hm hm'
      refine hd a b ha' hb' hab m ?_ m' ?_
      · split at hm
        · rename_i e; subst e; rw [hget]; exact List.mem_cons_of_mem _ hm
        · exact hm
      · split at hm'
        · rename_i e; subst e; rw [hget]; exact List.mem_cons_of_mem _ hm'
        · exact hm'
    rw [run_cons, ih hd' (x.apply s)]
    -- split both flattened lists around position `i`
    have hsplit : ts = ts.take i ++ (x :: rest) :: ts.drop (i + 1) := by
      rw [← hget, List.getElem_cons_drop, List.take_append_drop]
    have hset : ts.set i rest = ts.take i ++ rest :: ts.drop (i + 1) := by
      rw [List.set_eq_take_append_cons_drop, if_pos hlt]
    have hfl : ts.flatten = (ts.take i).flatten ++ (x :: (rest ++ (ts.drop (i + 1)).flatten)) := by
      conv => lhs; rw [hsplit]
      simp [List.flatten_append]
    rw [hset, hfl]
    simp only [List.flatten_append, List.flatten_cons, run_append, run_cons]
    -- `x` commutes with every mutation of the tasks before `i`
    have hsw : x.apply (run s (ts.take i).flatten) = run (x.apply s) (ts.take i).flatten := by
      apply run_swap
      intro m hm
      obtain ⟨t, ht, hmt⟩ := List.mem_flatten.1 hm
      obtain ⟨k, hk, rfl⟩ := List.mem_take_iff_getElem.1 ht
      have hk' : k < ts.length := by omega
      exact hd k i hk' hlt (by omega) m hmt x (by rw [hget]; exact List.mem_cons_self ..)
    rw [hsw]

/-! ## the mutations of a program -/

omit [DecidableEq Obj] in
theorem mutsOf_append {S : Type} (p q : List (Step Obj S)) : mutsOf (p ++ q) = mutsOf p ++ mutsOf q := by
  induction p with
  | nil => rfl
  | cons a p ih => cases a <;> simp [mutsOf, ih]

omit [DecidableEq Obj] in
/-- the mutations of a program are exactly its `set` and `move` steps -/
theorem mem_mutsOf {S : Type} (prog : List (Step Obj S)) (m : Mut Obj) :
    m ∈ mutsOf prog ↔
      (∃ o v, m = .set o v ∧ Step.set o v ∈ prog) ∨ (∃ ps, m = .move ps ∧ Step.move ps ∈ prog) := by
  induction prog with
  | nil => simp [mutsOf]
  | cons a p ih =>
    cases a with
    | set o v =>
      simp only [mutsOf, List.mem_cons, ih]
      constructor
      · rintro (rfl | ⟨o', v', rfl, h⟩ | ⟨ps, rfl, h⟩)
        · exact Or.inl ⟨o, v, rfl, Or.inl rfl⟩
        · exact Or.inl ⟨o', v', rfl, Or.inr h⟩
        · exact Or.inr ⟨ps, rfl, by simpa using h⟩
      · rintro (⟨o', v', rfl, h | h⟩ | ⟨ps, rfl, h⟩)
        · injection h with h1 h2; subst h1; subst h2; exact Or.inl rfl
        · exact Or.inr (Or.inl ⟨o', v', rfl, h⟩)
        · exact Or.inr (Or.inr ⟨ps, rfl, by simpa using h⟩)
    | move qs =>
      simp only [mutsOf, List.mem_cons, ih]
      constructor
      · rintro (rfl | ⟨o', v', rfl, h⟩ | ⟨ps, rfl, h⟩)
        · exact Or.inr ⟨qs, rfl, Or.inl rfl⟩
        · exact Or.inl ⟨o', v', rfl, by simpa using h⟩
        · exact Or.inr ⟨ps, rfl, Or.inr h⟩
      · rintro (⟨o', v', rfl, h⟩ | ⟨ps, rfl, h | h⟩)
        · exact Or.inr (Or.inl ⟨o', v', rfl, by simpa using h⟩)
        · injection h with h1; subst h1; exact Or.inl rfl
        · exact Or.inr (Or.inr ⟨ps, rfl, h⟩)
    | check c =>
      simp only [mutsOf, ih, List.mem_cons]
      constructor
      · rintro (⟨o', v', rfl, h⟩ | ⟨ps, rfl, h⟩)
        · exact Or.inl ⟨o', v', rfl, Or.inr h⟩
        · exact Or.inr ⟨ps, rfl, Or.inr h⟩
      · rintro (⟨o', v', rfl, h⟩ | ⟨ps, rfl, h⟩)
        · exact Or.inl ⟨o', v', rfl, by simpa using h⟩
        · exact Or.inr ⟨ps, rfl, by simpa using h⟩

end B2Z.Conc

namespace B2Z.Conc
open B2Z.Fs

/-! ## explode: the steps of a partition program -/

theorem explode_set_mem (c : XP.Cfg) (s : XP.S) (j : Nat) (o : XP.Obj) (v : V)
    (h : Step.set o v ∈ XP.partitionProg c s j) : o = XP.Obj.summary j ∨ ∃ k, o = XP.Obj.data j k := by
  simp only [XP.partitionProg, List.mem_append, List.mem_flatMap, write] at h
  rcases h with ((h | h) | ⟨p, _, h⟩) | h
  · simp at h
  · split at h
    · simp at h; exact Or.inl h.1
    · simp at h
  · unfold XP.touch at h
    split at h
    · simp at h; exact Or.inr ⟨_, h.1⟩
    · simp [write] at h
      rcases h with h | h <;> exact Or.inr ⟨_, h.1⟩
  · simp at h
    rcases h with h | h <;> exact Or.inl h.1

theorem explode_move_not_mem (c : XP.Cfg) (s : XP.S) (j : Nat) (ps : List (XP.Obj × XP.Obj)) :
    Step.move ps ∉ XP.partitionProg c s j := by
  intro h
  simp only [XP.partitionProg, List.mem_append, List.mem_flatMap, write] at h
  rcases h with ((h | h) | ⟨p, _, h⟩) | h
  · simp at h
  · split at h <;> simp at h
  · unfold XP.touch at h
    split at h <;> simp [write] at h
  · simp at h

theorem explode_footprint (c : XP.Cfg) (s : XP.S) (j : Nat) :
    ∀ m ∈ mutsOf (XP.partitionProg c s j), ∀ o ∈ m.footprint,
      o = XP.Obj.summary j ∨ ∃ k, o = XP.Obj.data j k := by
  intro m hm o ho
  rcases (mem_mutsOf _ m).1 hm with ⟨o', v, rfl, h⟩ | ⟨ps, rfl, h⟩
  · simp only [Mut.footprint, List.mem_singleton] at ho
    subst ho
    exact explode_set_mem c s j o v h
  · exact absurd h (explode_move_not_mem c s j ps)

/-- the program of partition `j` depends on the state only through `wip/p<j>.json` -/
theorem explode_prog_congr (c : XP.Cfg) (s s' : XP.S) (j : Nat)
    (h : s' (XP.Obj.summary j) = s (XP.Obj.summary j)) :
    XP.partitionProg c s' j = XP.partitionProg c s j := by
  simp only [XP.partitionProg, h]

end B2Z.Conc

namespace B2Z.Conc
open B2Z.Fs

/-! ## encode: the steps of a partition program -/

/-- the private objects of encode partition `j` (same as `EPPrivate` of `Props/C07.lean`) -/
def EPPriv (j : Nat) (o : EP.Obj) : Prop :=
  o = .wdir j ∨ o = .pdir j ∨ o = .sdir j ∨ (∃ a, o = .wmeta j a ∨ o = .pmeta j a ∨ o = .smeta j a) ∨
  (∃ a e, o = .went j a e ∨ o = .pent j a e ∨ o = .sent j a e)

theorem EPPriv.w (j : Nat) (r : EP.PRef) : EPPriv j (r.w j) := by
  cases r with
  | hdr a => exact Or.inr (Or.inr (Or.inr (Or.inl ⟨a, Or.inl rfl⟩)))
  | ent a e => exact Or.inr (Or.inr (Or.inr (Or.inr ⟨a, e, Or.inl rfl⟩)))

theorem EPPriv.p (j : Nat) (r : EP.PRef) : EPPriv j (r.p j) := by
  cases r with
  | hdr a => exact Or.inr (Or.inr (Or.inr (Or.inl ⟨a, Or.inr (Or.inl rfl)⟩)))
  | ent a e => exact Or.inr (Or.inr (Or.inr (Or.inr ⟨a, e, Or.inr (Or.inl rfl)⟩)))

theorem EPPriv.s (j : Nat) (r : EP.PRef) : EPPriv j (r.s j) := by
  cases r with
  | hdr a => exact Or.inr (Or.inr (Or.inr (Or.inl ⟨a, Or.inr (Or.inr rfl)⟩)))
  | ent a e => exact Or.inr (Or.inr (Or.inr (Or.inr ⟨a, e, Or.inr (Or.inr rfl)⟩)))

theorem EPPriv.wdir (j : Nat) : EPPriv j (.wdir j) := Or.inl rfl
theorem EPPriv.pdir (j : Nat) : EPPriv j (.pdir j) := Or.inr (Or.inl rfl)
theorem EPPriv.sdir (j : Nat) : EPPriv j (.sdir j) := Or.inr (Or.inr (Or.inl rfl))

/-- every `set` / `move` step of the encode partition program is on private objects of `j` -/
theorem encode_step_mem (c : EP.Cfg) (s : EP.S) (j : Nat) :
    (∀ o v, Step.set o v ∈ EP.partitionProg c s j → EPPriv j o) ∧
    (∀ ps, Step.move ps ∈ EP.partitionProg c s j → ∀ p ∈ ps, EPPriv j p.1 ∧ EPPriv j p.2) := by
  have hmv : ∀ (f g : EP.PRef → EP.Obj) (A B : EP.Obj), EPPriv j A → EPPriv j B →
      (∀ r, EPPriv j (f r)) → (∀ r, EPPriv j (g r)) →
      ∀ p ∈ (A, B) :: (EP.allRefs c j).map (fun r => (f r, g r)), EPPriv j p.1 ∧ EPPriv j p.2 := by
    intro f g A B hA hB hf hg p hp
    rcases List.mem_cons.1 hp with rfl | hp
    · exact ⟨hA, hB⟩
    · obtain ⟨r, _, rfl⟩ := List.mem_map.1 hp
      exact ⟨hf r, hg r⟩
  constructor
  · intro o v h
    simp only [EP.partitionProg, List.mem_append, List.mem_flatMap] at h
    rcases h with (((((h | h) | h) | ⟨p, _, h⟩) | h) | h)
    · simp at h
    · split at h
      · simp only [List.mem_append, List.mem_map, List.mem_singleton] at h
        rcases h with ⟨p, _, h⟩ | h
        · injection h with h1; subst h1; exact EPPriv.w j _
        · injection h with h1; subst h1; exact EPPriv.wdir j
      · simp at h
    · simp at h; rw [h.1]; exact EPPriv.wdir j
    · split at h
      · simp at h; rw [h.1]; exact EPPriv.w j (.hdr _)
      · simp at h; rw [h.1]; exact EPPriv.w j (.ent _ _)
    · split at h
      · simp only [List.mem_append, List.mem_map, List.mem_singleton] at h
        rcases h with (((h | h) | ⟨p, _, h⟩) | h)
        · split at h
          · simp only [List.mem_append, List.mem_map, List.mem_singleton] at h
            rcases h with ⟨p, _, h⟩ | h
            · injection h with h1; subst h1; exact EPPriv.s j _
            · injection h with h1; subst h1; exact EPPriv.sdir j
          · simp at h
        · simp at h
        · injection h with h1; subst h1; exact EPPriv.s j _
        · injection h with h1; subst h1; exact EPPriv.sdir j
      · simp at h
    · simp at h
  · intro ps h
    simp only [EP.partitionProg, List.mem_append, List.mem_flatMap] at h
    rcases h with (((((h | h) | h) | ⟨p, _, h⟩) | h) | h)
    · simp at h
    · split at h <;> simp at h
    · simp at h
    · split at h <;> simp at h
    · split at h
      · simp only [List.mem_append, List.mem_map, List.mem_singleton] at h
        rcases h with (((h | h) | ⟨p, _, h⟩) | h)
        · split at h <;> simp at h
        · injection h with h1; subst h1
          exact hmv _ _ _ _ (EPPriv.pdir j) (EPPriv.sdir j) (EPPriv.p j) (EPPriv.s j)
        · simp at h
        · simp at h
      · simp at h
    · simp only [List.mem_singleton] at h
      injection h with h1; subst h1
      exact hmv _ _ _ _ (EPPriv.wdir j) (EPPriv.pdir j) (EPPriv.w j) (EPPriv.p j)

theorem encode_footprint (c : EP.Cfg) (s : EP.S) (j : Nat) :
    ∀ m ∈ mutsOf (EP.partitionProg c s j), ∀ o ∈ m.footprint, EPPriv j o := by
  intro m hm o ho
  rcases (mem_mutsOf _ m).1 hm with ⟨o', v, rfl, h⟩ | ⟨ps, rfl, h⟩
  · simp only [Mut.footprint, List.mem_singleton] at ho
    subst ho
    exact (encode_step_mem c s j).1 o v h
  · obtain ⟨p, hp, e⟩ := mem_footprint_move.1 ho
    have := (encode_step_mem c s j).2 ps h p hp
    rcases e with rfl | rfl
    · exact this.1
    · exact this.2

/-- private objects of different partitions are different -/
theorem EPPriv.ne {i j : Nat} (hij : i ≠ j) {o : EP.Obj} (hi : EPPriv i o) (hj : EPPriv j o) : False := by
  rcases hi with rfl | rfl | rfl | ⟨a, rfl | rfl | rfl⟩ | ⟨a, e, rfl | rfl | rfl⟩ <;>
    rcases hj with h | h | h | ⟨a', h | h | h⟩ | ⟨a', e', h | h | h⟩ <;>
    first
    | (injection h with h1; exact hij h1)
    | cases h

end B2Z.Conc

namespace B2Z.Conc

/-! ## PLINK: chunk keys of buffered runs over two slices of an exact cover -/

theorem cover_chunkKeys_lt {α : Type} {ps : List (Nat × Nat)} {c p total : Nat}
    (h : ExactCover ps c p total) (hc : 0 < c) (i j : Nat) (hij : i < j) (hj : j < ps.length)
    (xs ys : List α)
    (hx : xs.length = (ps[i]'(by omega)).2 - (ps[i]'(by omega)).1)
    (hy : ys.length = (ps[j]'hj).2 - (ps[j]'hj).1) :
    ∀ k ∈ Buf.chunkKeys c (Buf.run c (ps[i]'(by omega)).1 xs),
    ∀ k' ∈ Buf.chunkKeys c (Buf.run c (ps[j]'hj).1 ys), k < k' := by
  have hi : i < ps.length := by omega
  intro k hk k' hk'
  obtain ⟨w, hw, rfl⟩ := List.mem_map.1 hk
  obtain ⟨w', hw', rfl⟩ := List.mem_map.1 hk'
  have a1 := Buf.run_aligned c _ hc (h.aligned _ (List.getElem_mem hi)) xs w hw
  have a2 := Buf.run_aligned c _ hc (h.aligned _ (List.getElem_mem hj)) ys w' hw'
  have n1 := h.nonempty _ (List.getElem_mem hi)
  have n2 := h.nonempty _ (List.getElem_mem hj)
  exact C11_chunks_disjoint h hc i j hi hj hij w.1 w'.1 (by omega) (by omega)

end B2Z.Conc
