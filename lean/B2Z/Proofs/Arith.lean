import B2Z.Model.Arith
namespace B2Z

/-- The declarative statement of C11 for a list of (start, stop) pairs. -/
structure ExactCover (ps : List (Nat × Nat)) (c p total : Nat) : Prop where
  nonempty_list : ps ≠ []
  at_most : ps.length ≤ p
  nonempty : ∀ x ∈ ps, x.1 < x.2
  aligned : ∀ x ∈ ps, c ∣ x.1
  first : ∀ h : 0 < ps.length, (ps[0]'h).1 = 0
  last : ∀ h : 0 < ps.length, (ps[ps.length - 1]'(by omega)).2 = total
  contiguous : ∀ i (h : i + 1 < ps.length), (ps[i]'(by omega)).2 = (ps[i+1]'h).1

theorem splitStart_mono (k s i j : Nat) (hs : 0 < s) (hsk : s ≤ k) (hij : i ≤ j) :
    splitStart k s i ≤ splitStart k s j := by
  induction j with
  | zero => simp_all
  | succ j ih =>
    by_cases h : i = j + 1
    · subst h; exact Nat.le_refl _
    · have := splitStart_lt_succ k s j hs hsk
      have := ih (by omega)
      omega

theorem numChunks_pos (n c : Nat) (m : Option Nat) (hn : 0 < n) (hc : 0 < c)
    (hm : ∀ x, m = some x → 0 < x) : 0 < numChunks n c m := by
  unfold numChunks
  have := ceilDiv_pos n c hn hc
  cases m with
  | none => simpa
  | some x => have := hm x rfl; simp; omega


theorem genPartitions_length (n c p : Nat) (m : Option Nat) :
    (genPartitions n c p m).length = min p (numChunks n c m) := by
  simp [genPartitions]

theorem genPartitions_get (n c p : Nat) (m : Option Nat) (i : Nat)
    (h : i < (genPartitions n c p m).length) :
    (genPartitions n c p m)[i] =
      (splitStart (numChunks n c m) (min p (numChunks n c m)) i * c,
       min (splitStart (numChunks n c m) (min p (numChunks n c m)) (i+1) * c) n) := by
  simp [genPartitions]

end B2Z
