import B2Z.Proofs.RegionsThm
namespace B2Z.Regions

theorem flatMap_filter_of_empty {α β : Type} (l : List α) (p : α → Bool) (f : α → List β)
    (h : ∀ x ∈ l, p x = false → f x = []) : (l.filter p).flatMap f = l.flatMap f := by
  induction l with
  | nil => rfl
  | cons x xs ih =>
    have ih' := ih (fun y hy => h y (List.mem_cons_of_mem _ hy))
    by_cases hp : p x = true
    · simp [List.filter_cons, hp, ih']
    · have hp' : p x = false := by simpa using hp
      simp [List.filter_cons, hp', ih', h x (by simp) hp']

/-- C04, covering clause: reading the regions in order yields every record exactly once, in order. -/
theorem C04_cover (recs : List Rec) (hrecs : ∀ r ∈ recs, RecOK r)
    (hs : recs.Pairwise (fun a b => key a ≤ key b))
    (es : List Entry) (hne : es ≠ []) (hok : ∀ e ∈ es, EntryOK e) (hinc : es.Pairwise Entry.lt)
    (nContigs : Nat) (hasRecs : Nat → Bool)
    (hlast : (es.getLast hne).contig < nContigs)
    (hfirst : ∀ r ∈ recs, ekey (es.head hne) ≤ key r)
    (hN : ∀ r ∈ recs, r.contig < nContigs)
    (hcounts : ∀ r ∈ recs, (es.getLast hne).contig < r.contig → hasRecs r.contig = true) :
    (regions es (es.getLast hne).contig nContigs hasRecs).flatMap (query recs) = recs := by
  generalize hL : (es.getLast hne).contig = lastC at *
  have hb := body_chain es hne hok hinc
  rw [hL] at hb
  unfold regions
  rw [List.flatMap_append, chain_query recs hrecs hs hb]
  -- the tail: add back the contigs the code skips (they hold no records)
  have htail : (tail lastC nContigs hasRecs).flatMap (query recs)
      = (wholes (lastC + 1) (nContigs - (lastC + 1))).flatMap (query recs) := by
    unfold tail wholes
    rw [List.flatMap_map, List.flatMap_map]
    apply flatMap_filter_of_empty
    intro c hc hfalse
    simp only [List.mem_range'_1] at hc
    apply List.filter_eq_nil_iff.mpr
    intro r hr hm
    simp only [Reg.matches, Bool.and_eq_true, beq_iff_eq, decide_eq_true_eq] at hm
    have := hcounts r hr (by omega)
    rw [hm.1] at this; rw [this] at hfalse; exact absurd hfalse (by simp)
  have hw := wholes_chain (lastC + 1) (nContigs - (lastC + 1))
  have e3 : lastC + 1 + (nContigs - (lastC + 1)) = nContigs := by omega
  rw [e3] at hw
  rw [htail, chain_query recs hrecs hs hw, filter_adjacent key recs hs _ _ _ hb.le hw.le]
  -- every record lies in the union interval
  apply List.filter_eq_self.mpr
  intro r hr
  have h1 := hfirst r hr
  have h2 := hN r hr
  have h3 := (hrecs r hr).2
  simp only [key, M] at h1 h3
  rw [inIv_true_iff]
  simp only [key, M]
  constructor <;> omega

end B2Z.Regions
