import B2Z.Model.Checks
import B2Z.Gen.Reserved
/-! # helper lemmas for C13 (`Props/C13.lean`) about the `B2Z.Checks` model -/
namespace B2Z.Checks

/-! ## `Part.le` is a total preorder -/

theorem Part.le_iff (a b : Part) :
    a.le b = true ↔ a.contig < b.contig ∨ (a.contig = b.contig ∧ a.start ≤ b.start) := by
  simp [Part.le]

theorem Part.le_total (a b : Part) : a.le b = true ∨ b.le a = true := by
  rw [Part.le_iff, Part.le_iff]; omega

theorem Part.le_trans {a b c : Part} (h₁ : a.le b = true) (h₂ : b.le c = true) : a.le c = true := by
  rw [Part.le_iff] at *; omega

/-! ## the insertion sort -/

theorem insertBefore_perm (x : Part) (l : List Part) : (sortParts.insertBefore x l).Perm (x :: l) := by
  induction l with
  | nil => exact List.Perm.refl _
  | cons y ys ih =>
    unfold sortParts.insertBefore
    split
    · exact List.Perm.refl _
    · exact (List.Perm.cons y ih).trans (List.Perm.swap x y ys)

theorem sortParts_cons (p : Part) (ps : List Part) :
    sortParts (p :: ps) = sortParts.insertBefore p (sortParts ps) := rfl

theorem sortParts_perm' (ps : List Part) : (sortParts ps).Perm ps := by
  induction ps with
  | nil => exact List.Perm.refl _
  | cons p ps ih =>
    rw [sortParts_cons]
    exact (insertBefore_perm p _).trans (List.Perm.cons p ih)

theorem insertBefore_sorted (x : Part) (l : List Part)
    (h : l.Pairwise (fun a b => a.le b = true)) :
    (sortParts.insertBefore x l).Pairwise (fun a b => a.le b = true) := by
  induction l with
  | nil => simp [sortParts.insertBefore]
  | cons y ys ih =>
    have hy := List.pairwise_cons.1 h
    unfold sortParts.insertBefore
    split
    · rename_i hxy
      refine List.pairwise_cons.2 ⟨?_, h⟩
      intro z hz
      rcases List.mem_cons.1 hz with rfl | hz
      · exact hxy
      · exact Part.le_trans hxy (hy.1 z hz)
    · rename_i hxy
      refine List.pairwise_cons.2 ⟨?_, ih hy.2⟩
      intro z hz
      have hz' := (insertBefore_perm x ys).mem_iff.1 hz
      rcases List.mem_cons.1 hz' with rfl | hz'
      · rcases Part.le_total z y with h' | h'
        · exact absurd h' hxy
        · exact h'
      · exact hy.1 z hz'

theorem sortParts_sorted' (ps : List Part) : (sortParts ps).Pairwise (fun a b => a.le b = true) := by
  induction ps with
  | nil => exact List.Pairwise.nil
  | cons p ps ih => rw [sortParts_cons]; exact insertBefore_sorted p _ ih

/-! ## sorted ∧ adjacent check ∧ well-formed ⇒ pairwise strictly separated -/

/-- the separation relation of `C13_accept_sound` -/
def Sep (a b : Part) : Prop := a.contig < b.contig ∨ (a.contig = b.contig ∧ a.stop < b.start)

theorem noOverlap_cons_cons (a b : Part) (rest : List Part) :
    noOverlap (a :: b :: rest) = true ↔
      (a.contig = b.contig → a.stop < b.start) ∧ noOverlap (b :: rest) = true := by
  simp only [noOverlap, Bool.and_eq_true, Bool.or_eq_true, Bool.not_eq_true', beq_eq_false_iff_ne,
    decide_eq_true_eq]
  constructor
  · rintro ⟨h, h'⟩
    refine ⟨fun e => ?_, h'⟩
    rcases h with h | h
    · exact absurd e h
    · exact h
  · rintro ⟨h, h'⟩
    refine ⟨?_, h'⟩
    by_cases e : a.contig = b.contig
    · exact Or.inr (h e)
    · exact Or.inl e

theorem noOverlap_tail (a : Part) (l : List Part) (h : noOverlap (a :: l) = true) :
    noOverlap l = true := by
  cases l with
  | nil => rfl
  | cons b rest => exact ((noOverlap_cons_cons a b rest).1 h).2

theorem sep_head (a : Part) (l : List Part)
    (hs : (a :: l).Pairwise (fun a b => a.le b = true))
    (hn : noOverlap (a :: l) = true)
    (wf : ∀ p ∈ a :: l, p.start ≤ p.stop) :
    ∀ b ∈ l, Sep a b := by
  induction l generalizing a with
  | nil => intro b hb; cases hb
  | cons c rest ih =>
    have hs' := List.pairwise_cons.1 hs
    have hn' := (noOverlap_cons_cons a c rest).1 hn
    have hac := (Part.le_iff a c).1 (hs'.1 c (List.mem_cons_self ..))
    have wfc : c.start ≤ c.stop := wf c (by simp)
    have hrec := ih c hs'.2 hn'.2 (fun p hp => wf p (List.mem_cons_of_mem _ hp))
    intro b hb
    rcases List.mem_cons.1 hb with rfl | hb
    · rcases hac with h | ⟨h, _⟩
      · exact Or.inl h
      · exact Or.inr ⟨h, hn'.1 h⟩
    · have hcb := hrec b hb
      unfold Sep at hcb ⊢
      rcases hac with h | ⟨h, _⟩
      · omega
      · have := hn'.1 h
        omega

theorem sorted_noOverlap_sep (l : List Part)
    (hs : l.Pairwise (fun a b => a.le b = true))
    (hn : noOverlap l = true)
    (wf : ∀ p ∈ l, p.start ≤ p.stop) :
    l.Pairwise Sep := by
  induction l with
  | nil => exact List.Pairwise.nil
  | cons a l ih =>
    refine List.pairwise_cons.2 ⟨sep_head a l hs hn wf, ?_⟩
    exact ih (List.pairwise_cons.1 hs).2 (noOverlap_tail a l hn)
      (fun p hp => wf p (List.mem_cons_of_mem _ hp))

/-! ## a `Pairwise` list, permuted: two distinct positions are related one way or the other -/

theorem pairwise_perm_getElem {α : Type _} {R : α → α → Prop} {l ps : List α}
    (hp : l.Pairwise R) (perm : l.Perm ps) (i j : Nat) (hi : i < ps.length) (hj : j < ps.length)
    (hij : i ≠ j) : R ps[i] ps[j] ∨ R ps[j] ps[i] := by
  have h1 : l.Pairwise (fun a b => R a b ∨ R b a) := hp.imp Or.inl
  have h2 : ps.Pairwise (fun a b => R a b ∨ R b a) :=
    (perm.pairwise_iff (fun h => h.symm)).1 h1
  rw [List.pairwise_iff_getElem] at h2
  rcases Nat.lt_or_gt_of_ne hij with h | h
  · exact h2 i j hi hj h
  · exact (h2 j i hj hi h).symm

/-! ## name clashes -/

theorem not_nodup_of_mem_append {α : Type _} {a : α} {l₁ l₂ : List α} (h₁ : a ∈ l₁) (h₂ : a ∈ l₂) :
    ¬ (l₁ ++ l₂).Nodup := by
  intro h
  exact (List.nodup_append.1 h).2.2 a h₁ a h₂ rfl

theorem arrayNames_not_nodup_info (fixed infoNames formatNames : List String) (k : String)
    (hk : k ∈ infoNames) (hf : ("variant_" ++ k) ∈ fixed) :
    ¬ (arrayNames fixed infoNames formatNames).Nodup := by
  unfold arrayNames
  intro h
  exact not_nodup_of_mem_append hf (List.mem_map.2 ⟨k, hk, rfl⟩) (List.nodup_append.1 h).1

theorem arrayNames_not_nodup_format (fixed infoNames formatNames : List String) (k : String)
    (hk : k ∈ formatNames) (hgt : k ≠ "GT") (hf : ("call_" ++ k) ∈ fixed) :
    ¬ (arrayNames fixed infoNames formatNames).Nodup := by
  unfold arrayNames
  refine not_nodup_of_mem_append (a := "call_" ++ k) (List.mem_append_left _ hf) ?_
  refine List.mem_map.2 ⟨k, List.mem_filter.2 ⟨hk, ?_⟩, rfl⟩
  simpa using hgt

theorem namesOk_false_of_not_nodup (ci cf fixed infoNames formatNames : List String)
    (h : ¬ (arrayNames fixed infoNames formatNames).Nodup) :
    namesOk ci cf fixed infoNames formatNames = false := by
  unfold namesOk
  rw [Bool.and_eq_false_iff]
  exact Or.inr (decide_eq_false h)

/-! ## duplicate paths, undeclared filters -/

theorem not_nodup_of_two_le_count (paths : List String) (p : String) (h : 2 ≤ paths.count p) :
    ¬ paths.Nodup := by
  intro hn
  have := List.nodup_iff_count.1 hn p
  omega

theorem filtersOk_false (declared : List String) (used : List (List String)) (f : String)
    (h : ∃ fs ∈ used, f ∈ fs) (hf : f ∉ declared) : filtersOk declared used = false := by
  obtain ⟨fs, hfs, hmem⟩ := h
  apply Bool.eq_false_iff.2
  intro hok
  unfold filtersOk at hok
  have h1 := List.all_eq_true.1 hok fs hfs
  have h2 := List.all_eq_true.1 h1 f hmem
  exact hf (List.contains_iff_mem.1 h2)

end B2Z.Checks
