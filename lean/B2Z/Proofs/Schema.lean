import B2Z.Model.Schema
import B2Z.Proofs.RegionIndex
/-! # helper lemmas for C02 / C10 (schema generation, dtype choice, row encoders) -/
namespace B2Z.Schema

/-! ## integer dtypes -/

/-- same table lookup as `dtRange` in `Props/C10.lean` (which is definitionally this) -/
def dtRangeH (dt : String) : Int × Int :=
  ((intDtypes.find? fun d => d.1 = dt).map fun d => (d.2.1, d.2.2)).getD (0, 0)


theorem dtRange_i1 : dtRangeH "i1" = (-128, 127) := by decide
theorem dtRange_i2 : dtRangeH "i2" = (-32768, 32767) := by decide
theorem dtRange_i4 : dtRangeH "i4" = (-2147483648, 2147483647) := by decide
theorem dtRange_i8 : dtRangeH "i8" = (-9223372036854775808, 9223372036854775807) := by decide
theorem dtypeBits_i1 : dtypeBits "i1" = 8 := by decide
theorem dtypeBits_i2 : dtypeBits "i2" = 16 := by decide
theorem dtypeBits_i4 : dtypeBits "i4" = 32 := by decide
theorem dtypeBits_i8 : dtypeBits "i8" = 64 := by decide

theorem cast_id (dt : String) (hdt : dt ∈ ["i1", "i2", "i4", "i8"]) (x : Int)
    (h : (dtRangeH dt).1 ≤ x ∧ x ≤ (dtRangeH dt).2) : RIdx.wrap (dtypeBits dt) x = x := by
  simp only [List.mem_cons, List.not_mem_nil, or_false] at hdt
  rcases hdt with rfl | rfl | rfl | rfl
  · rw [dtRange_i1] at h; rw [dtypeBits_i1]
    exact RIdx.wrap_id' 8 (by decide) x (by simp only [Nat.reduceSub, Int.reducePow]; omega)
  · rw [dtRange_i2] at h; rw [dtypeBits_i2]
    exact RIdx.wrap_id' 16 (by decide) x (by simp only [Nat.reduceSub, Int.reducePow]; omega)
  · rw [dtRange_i4] at h; rw [dtypeBits_i4]
    exact RIdx.wrap_id' 32 (by decide) x (by simp only [Nat.reduceSub, Int.reducePow]; omega)
  · rw [dtRange_i8] at h; rw [dtypeBits_i8]
    exact RIdx.wrap_id' 64 (by decide) x (by simp only [Nat.reduceSub, Int.reducePow]; omega)

/-- every integer dtype's range contains `[-2, -1]` -/
theorem dtRange_sentinels (dt : String) (hdt : dt ∈ ["i1", "i2", "i4", "i8"]) :
    (dtRangeH dt).1 ≤ -2 ∧ -1 ≤ (dtRangeH dt).2 := by
  simp only [List.mem_cons, List.not_mem_nil, or_false] at hdt
  rcases hdt with rfl | rfl | rfl | rfl
  · rw [dtRange_i1]; decide
  · rw [dtRange_i2]; decide
  · rw [dtRange_i4]; decide
  · rw [dtRange_i8]; decide

def sentMap (x : Int) : Int := if x = VCF_INT_MISSING then -1 else if x = VCF_INT_FILL then -2 else x

theorem sanitiseInt_eq (dt : String) (hdt : dt ∈ ["i1", "i2", "i4", "i8"]) (x : Int)
    (h : x = VCF_INT_MISSING ∨ x = VCF_INT_FILL ∨ ((dtRangeH dt).1 ≤ x ∧ x ≤ (dtRangeH dt).2)) :
    sanitiseInt dt x = sentMap x := by
  have hs := dtRange_sentinels dt hdt
  unfold sanitiseInt sentMap
  apply cast_id dt hdt
  split
  · omega
  · split
    · omega
    · rcases h with h | h | h
      · contradiction
      · contradiction
      · exact h

theorem intRow_eq_spec (dt : String) (hdt : dt ∈ ["i1", "i2", "i4", "i8"]) (w : Nat) (xs : List Int)
    (hlen : xs.length ≤ w)
    (hv : ∀ x ∈ xs, x = VCF_INT_MISSING ∨ x = VCF_INT_FILL ∨ ((dtRangeH dt).1 ≤ x ∧ x ≤ (dtRangeH dt).2)) :
    intRow dt w (some xs) = some (intRowSpec w (some xs)) := by
  unfold intRow intRowSpec
  simp only
  rw [if_neg (by omega)]
  congr 2
  apply List.map_congr_left
  intro x hx
  exact sanitiseInt_eq dt hdt x (hv x hx)

theorem dtRange_mono (dt dt' : String) (hdt : dt ∈ ["i1", "i2", "i4", "i8"]) (hdt' : dt' ∈ ["i1", "i2", "i4", "i8"])
    (hw : dtypeBits dt ≤ dtypeBits dt') :
    (dtRangeH dt').1 ≤ (dtRangeH dt).1 ∧ (dtRangeH dt).2 ≤ (dtRangeH dt').2 := by
  simp only [List.mem_cons, List.not_mem_nil, or_false] at hdt hdt'
  rcases hdt with rfl | rfl | rfl | rfl <;> rcases hdt' with rfl | rfl | rfl | rfl <;>
    simp only [dtRange_i1, dtRange_i2, dtRange_i4, dtRange_i8, dtypeBits_i1, dtypeBits_i2, dtypeBits_i4, dtypeBits_i8] at hw ⊢ <;>
    first | omega | decide

set_option linter.unusedSimpArgs false in
theorem minIntDtype_spec (lo hi : Int) (dt : String) (h : minIntDtype lo hi = some dt) :
    (dtRangeH dt).1 ≤ lo ∧ hi ≤ (dtRangeH dt).2 ∧ lo ≤ hi ∧ dt ∈ ["i1", "i2", "i4", "i8"] ∧
    ∀ dt' ∈ intDtypes, dt'.2.2 < (dtRangeH dt).2 → ¬ (dt'.2.1 ≤ lo ∧ hi ≤ dt'.2.2) := by
  unfold minIntDtype at h
  split at h
  · cases h
  · rename_i hle
    simp only [intDtypes, List.find?, ← Bool.decide_and] at h
    by_cases h1 : (-128 ≤ lo ∧ hi ≤ 127)
    · simp [h1] at h
      subst h
      simp only [dtRange_i1, intDtypes, List.mem_cons, List.not_mem_nil, or_false]
      refine ⟨h1.1, h1.2, by omega, by simp, ?_⟩
      rintro dt' (rfl | rfl | rfl | rfl) <;> simp <;> omega
    by_cases h2 : (-32768 ≤ lo ∧ hi ≤ 32767)
    · simp [h1, h2] at h
      subst h
      simp only [dtRange_i2, intDtypes, List.mem_cons, List.not_mem_nil, or_false]
      refine ⟨h2.1, h2.2, by omega, by simp, ?_⟩
      rintro dt' (rfl | rfl | rfl | rfl) <;> simp <;> omega
    by_cases h3 : (-2147483648 ≤ lo ∧ hi ≤ 2147483647)
    · simp [h1, h2, h3] at h
      subst h
      simp only [dtRange_i4, intDtypes, List.mem_cons, List.not_mem_nil, or_false]
      refine ⟨h3.1, h3.2, by omega, by simp, ?_⟩
      rintro dt' (rfl | rfl | rfl | rfl) <;> simp <;> omega
    by_cases h4 : (-9223372036854775808 ≤ lo ∧ hi ≤ 9223372036854775807)
    · simp [h1, h2, h3, h4] at h
      subst h
      simp only [dtRange_i8, intDtypes, List.mem_cons, List.not_mem_nil, or_false]
      refine ⟨h4.1, h4.2, by omega, by simp, ?_⟩
      rintro dt' (rfl | rfl | rfl | rfl) <;> simp <;> omega
    · simp [h1, h2, h3, h4] at h


/-! ## shape of `fromField` -/

def fExtra (f : Field) : Bool := decide (f.maxNumber > 1) || (decide (f.category = "FORMAT") && decide (f.name = "LAA"))

def fdims (f : Field) : List Dim :=
  [Dim.variants] ++ (if f.category = "FORMAT" then [Dim.samples] else []) ++ (if fExtra f then [numberDim f] else [])
def fshape (f : Field) (m n : Nat) : List Nat :=
  [m] ++ (if f.category = "FORMAT" then [n] else []) ++ (if fExtra f then [f.maxNumber] else [])

theorem fromField_spec (f : Field) (m n vcs scs : Nat) (nm : Option String) (s : Spec)
    (h : fromField f m n vcs scs nm = some s) :
    s.vcfField = some (f.category, f.name) ∧ s.dims = fdims f ∧ s.shape = fshape f m n ∧
      s.chunks.length = s.shape.length ∧ smallestDtype f = some s.dtype := by
  unfold fromField at h
  simp only [Option.map_eq_some_iff] at h
  obtain ⟨dt, hdt, rfl⟩ := h
  refine ⟨rfl, ?_, ?_, ?_, hdt⟩
  · simp [fdims, fExtra]
  · simp [fshape, fExtra]
  · simp only [List.length_append]
    split <;> split <;> rfl

theorem mapM_some_mem {α β : Type} (f : α → Option β) :
    ∀ (l : List α) (r : List β), l.mapM f = some r → ∀ y ∈ r, ∃ x ∈ l, f x = some y := by
  intro l
  induction l with
  | nil => intro r h y hy; simp [List.mapM_nil] at h; subst h; cases hy
  | cons a l ih =>
    intro r h y hy
    rw [List.mapM_cons] at h
    simp only [Option.bind_eq_bind, Option.bind_eq_some_iff, Option.pure_def, Option.some.injEq] at h
    obtain ⟨b, hb, bs, hbs, rfl⟩ := h
    rcases List.mem_cons.1 hy with rfl | hy
    · exact ⟨a, List.mem_cons_self, hb⟩
    · obtain ⟨x, hx, hfx⟩ := ih bs hbs y hy
      exact ⟨x, List.mem_cons_of_mem _ hx, hfx⟩

def headSpecs (contigDt : String) (m nf M vcs : Nat) : List Spec := [
    { name := "variant_contig", dtype := contigDt, shape := [m], chunks := [vcs], dims := [.variants], vcfField := none },
    { name := "variant_filter", dtype := "bool", shape := [m, nf], chunks := [vcs, nf], dims := [.variants, .filters], vcfField := none },
    { name := "variant_allele", dtype := "O", shape := [m, M], chunks := [vcs, M], dims := [.variants, .alleles], vcfField := none },
    { name := "variant_id", dtype := "O", shape := [m], chunks := [vcs], dims := [.variants], vcfField := none },
    { name := "variant_id_mask", dtype := "bool", shape := [m], chunks := [vcs], dims := [.variants], vcfField := none }]

def gtSpecs (dt : String) (m n pl vcs scs : Nat) : List Spec := [
    { name := "call_genotype_phased", dtype := "bool", shape := [m, n], chunks := [vcs, scs], dims := [.variants, .samples], vcfField := none },
    { name := "call_genotype", dtype := dt, shape := [m, n, pl], chunks := [vcs, scs, pl], dims := [.variants, .samples, .ploidy], vcfField := none },
    { name := "call_genotype_mask", dtype := "bool", shape := [m, n, pl], chunks := [vcs, scs, pl], dims := [.variants, .samples, .ploidy], vcfField := none }]

theorem generate_shape (repair : Bool) (fields : List Field) (m n nc nf vcs scs : Nat) (specs : List Spec)
    (h : generate repair fields m n nc nf vcs scs = some specs) :
    ∃ alt contigDt qual pos rlen q p l infos fmts gt,
      findField fields "fixed" "ALT" = some alt ∧ minIntDtype 0 nc = some contigDt ∧
      findField fields "fixed" "QUAL" = some qual ∧ findField fields "fixed" "POS" = some pos ∧
      findField fields "fixed" "rlen" = some rlen ∧
      fromField qual m n vcs scs (some "variant_quality") = some q ∧
      fromField pos m n vcs scs (some "variant_position") = some p ∧
      fromField rlen m n vcs scs (some "variant_length") = some l ∧
      (fields.filter fun f => f.category = "INFO").mapM (fun f => fromField f m n vcs scs none) = some infos ∧
      (fields.filter fun f => f.category = "FORMAT" && f.name ≠ "GT").mapM (fun f => fromField f m n vcs scs none) = some fmts ∧
      (gt = [] ∨ ∃ g dt, findField fields "FORMAT" "GT" = some g ∧ smallestDtype g = some dt ∧
          gt = gtSpecs dt m n (max (g.maxNumber - 1) 1) vcs scs) ∧
      specs = (if repair then
          repairDims (alt.maxNumber + 1) (headSpecs contigDt m nf (alt.maxNumber + 1) vcs ++ [q, p, l] ++ infos ++ fmts ++ gt)
        else headSpecs contigDt m nf (alt.maxNumber + 1) vcs ++ [q, p, l] ++ infos ++ fmts ++ gt) := by
  unfold generate at h
  simp only [Option.bind_eq_bind, Option.bind_eq_some_iff, Option.pure_def] at h
  obtain ⟨alt, h1, cdt, h2, qual, h3, pos, h4, rlen, h5, q, h6, p, h7, l, h8, infos, h9, fmts, h10, h⟩ := h
  split at h
  · simp only [Option.bind_some, Option.some.injEq] at h
    exact ⟨alt, cdt, qual, pos, rlen, q, p, l, infos, fmts, [], h1, h2, h3, h4, h5, h6, h7, h8, h9, h10,
      Or.inl rfl, h.symm⟩
  · rename_i g hg
    simp only [Option.bind_eq_some_iff, Option.bind_some, Option.some.injEq] at h
    obtain ⟨dt, hdt, h⟩ := h
    exact ⟨alt, cdt, qual, pos, rlen, q, p, l, infos, fmts, _, h1, h2, h3, h4, h5, h6, h7, h8, h9, h10,
      Or.inr ⟨g, dt, hg, hdt, rfl⟩, h.symm⟩

def allDtypes : List String := ["i1", "i2", "i4", "i8", "f4", "bool", "O", "U1"]

theorem minIntDtype_mem (lo hi : Int) (dt : String) (h : minIntDtype lo hi = some dt) :
    dt ∈ ["i1", "i2", "i4", "i8"] := by
  unfold minIntDtype at h
  split at h
  · cases h
  · simp only [Option.map_eq_some_iff] at h
    obtain ⟨d, hd, rfl⟩ := h
    have := List.mem_of_find?_eq_some hd
    simp only [intDtypes, List.mem_cons, List.not_mem_nil, or_false] at this
    rcases this with rfl | rfl | rfl | rfl <;> simp

theorem smallestDtype_mem (f : Field) (dt : String) (h : smallestDtype f = some dt) : dt ∈ allDtypes := by
  unfold smallestDtype at h
  split at h
  · cases h; simp [allDtypes]
  split at h
  · split at h
    · have := minIntDtype_mem _ _ _ h
      simp only [List.mem_cons, List.not_mem_nil, or_false] at this
      rcases this with rfl | rfl | rfl | rfl <;> simp [allDtypes]
    · cases h; simp [allDtypes]
  split at h
  · cases h; simp [allDtypes]
  split at h
  · cases h; simp [allDtypes]
  · cases h; simp [allDtypes]

def fixedForms (m n nf M pl : Nat) : List (List Dim × List Nat) :=
  [([.variants], [m]), ([.variants, .filters], [m, nf]), ([.variants, .alleles], [m, M]),
   ([.variants, .samples], [m, n]), ([.variants, .samples, .ploidy], [m, n, pl])]

def Pre (fields : List Field) (m n nf M pl : Nat) (s : Spec) : Prop :=
  s.chunks.length = s.shape.length ∧ s.dtype ∈ allDtypes ∧
  ((s.vcfField = none ∧ (s.dims, s.shape) ∈ fixedForms m n nf M pl) ∨
   (∃ f ∈ fields, s.vcfField = some (f.category, f.name) ∧ s.dims = fdims f ∧ s.shape = fshape f m n))

theorem pre_of_fromField {fields : List Field} {m n nf M pl vcs scs : Nat} {f : Field} (hf : f ∈ fields)
    {nm : Option String} {s : Spec} (h : fromField f m n vcs scs nm = some s) : Pre fields m n nf M pl s := by
  obtain ⟨h1, h2, h3, h4, h5⟩ := fromField_spec f m n vcs scs nm s h
  exact ⟨h4, smallestDtype_mem f _ h5, Or.inr ⟨f, hf, h1, h2, h3⟩⟩

theorem generate_all (repair : Bool) (fields : List Field) (m n nc nf vcs scs : Nat) (specs : List Spec)
    (h : generate repair fields m n nc nf vcs scs = some specs) :
    ∃ M pl all, (∀ s ∈ all, Pre fields m n nf M pl s) ∧
      specs = if repair then repairDims M all else all := by
  obtain ⟨alt, cdt, qual, pos, rlen, q, p, l, infos, fmts, gt, h1, h2, h3, h4, h5, h6, h7, h8, h9, h10, hgt, rfl⟩ :=
    generate_shape repair fields m n nc nf vcs scs specs h
  have hcdt : cdt ∈ allDtypes := by
    have := minIntDtype_mem _ _ _ h2
    simp only [List.mem_cons, List.not_mem_nil, or_false] at this
    rcases this with rfl | rfl | rfl | rfl <;> simp [allDtypes]
  have hpl : ∃ pl, ∀ s ∈ gt, Pre fields m n nf (alt.maxNumber + 1) pl s := by
    rcases hgt with rfl | ⟨g, dt, _, hdt, rfl⟩
    · exact ⟨0, fun s hs => by cases hs⟩
    · refine ⟨max (g.maxNumber - 1) 1, fun s hs => ?_⟩
      have hdt' := smallestDtype_mem g dt hdt
      simp only [gtSpecs, List.mem_cons, List.not_mem_nil, or_false] at hs
      rcases hs with rfl | rfl | rfl <;> refine ⟨rfl, ?_, Or.inl ⟨rfl, ?_⟩⟩ <;> simp [allDtypes, fixedForms] <;> simpa [allDtypes] using hdt'
  obtain ⟨pl, hpl⟩ := hpl
  refine ⟨alt.maxNumber + 1, pl, _, ?_, rfl⟩
  intro s hs
  simp only [List.mem_append, List.mem_cons, List.not_mem_nil, or_false] at hs
  rcases hs with (((hs | hs) | hs) | hs) | hs
  · simp only [headSpecs, List.mem_cons, List.not_mem_nil, or_false] at hs
    rcases hs with rfl | rfl | rfl | rfl | rfl <;> refine ⟨rfl, ?_, Or.inl ⟨rfl, ?_⟩⟩ <;> simp [allDtypes, fixedForms] <;> simpa [allDtypes] using hcdt
  · rcases hs with rfl | rfl | rfl
    · exact pre_of_fromField (List.mem_of_find?_eq_some h3) h6
    · exact pre_of_fromField (List.mem_of_find?_eq_some h4) h7
    · exact pre_of_fromField (List.mem_of_find?_eq_some h5) h8
  · obtain ⟨f, hf, hfs⟩ := mapM_some_mem _ _ _ h9 s hs
    exact pre_of_fromField (List.mem_filter.1 hf).1 hfs
  · obtain ⟨f, hf, hfs⟩ := mapM_some_mem _ _ _ h10 s hs
    exact pre_of_fromField (List.mem_filter.1 hf).1 hfs
  · exact hpl s hs

/-! ## the repair -/

def gsizesOf (specs : List Spec) : List Nat :=
  specs.filterMap fun s => if s.dims.getLast? = some Dim.genotypes then s.shape.getLast? else none

def canonOf (M : Nat) (specs : List Spec) : Dim → Option Nat := fun d =>
  match d with
  | .alleles => some M
  | .altAlleles => some (M - 1)
  | .genotypes => if (gsizesOf specs).isEmpty then none else some ((gsizesOf specs).foldl max 0)
  | _ => none

def rep1 (canon : Dim → Option Nat) (s : Spec) : Spec :=
  match s.vcfField, s.dims.getLast?, s.shape.getLast? with
  | some (c, n), some d, some sz =>
    match canon d with
    | some want => if sz ≠ want then { s with dims := s.dims.dropLast ++ [Dim.field c n] } else s
    | none => s
  | _, _, _ => s

theorem repairDims_eq (M : Nat) (specs : List Spec) :
    repairDims M specs = specs.map (rep1 (canonOf M specs)) := rfl

/-- what the per-spec repair needs to know about the canonical sizes -/
structure CanonOK (canon : Dim → Option Nat) (M : Nat) : Prop where
  alleles : canon .alleles = some M
  alt : canon .altAlleles = some (M - 1)
  variants : canon .variants = none
  samples : canon .samples = none
  field : ∀ c n, canon (.field c n) = none

theorem canonOf_ok (M : Nat) (specs : List Spec) : CanonOK (canonOf M specs) M :=
  ⟨rfl, rfl, rfl, rfl, fun _ _ => rfl⟩

theorem canonOf_genotypes (M : Nat) (specs : List Spec) (s : Spec) (hs : s ∈ specs) (k : Nat)
    (hd : s.dims.getLast? = some .genotypes) (hk : s.shape.getLast? = some k) :
    ∃ G, canonOf M specs .genotypes = some G := by
  have : k ∈ gsizesOf specs := by
    unfold gsizesOf
    rw [List.mem_filterMap]
    exact ⟨s, hs, by rw [if_pos hd, hk]⟩
  simp only [canonOf]
  cases hg : gsizesOf specs with
  | nil => rw [hg] at this; cases this
  | cons a l => exact ⟨_, rfl⟩

/-- the per-dimension size table of a generated schema -/
def dimSize (m n nf M G pl : Nat) : Dim → Nat
  | .variants => m | .samples => n | .filters => nf | .alleles => M | .altAlleles => M - 1
  | .genotypes => G | .ploidy => pl | .field _ _ => 0

def DimOk (sz : Dim → Nat) (vf : Option (String × String)) (d : Dim) (k : Nat) : Prop :=
  match d with
  | .field c nm => vf = some (c, nm)
  | d => k = sz d

def Inv (sz : Dim → Nat) (s : Spec) : Prop :=
  s.dims.length = s.shape.length ∧ s.dims.Nodup ∧ ∀ p ∈ s.dims.zip s.shape, DimOk sz s.vcfField p.1 p.2

def fieldForms (m n k : Nat) (e : Dim) : List (List Dim × List Nat) :=
  [([.variants], [m]), ([.variants, e], [m, k]), ([.variants, .samples], [m, n]), ([.variants, .samples, e], [m, n, k])]

def Form (m n nf M pl : Nat) (s : Spec) : Prop :=
  (s.vcfField = none ∧ (s.dims, s.shape) ∈ fixedForms m n nf M pl) ∨
  (∃ c nm k e, s.vcfField = some (c, nm) ∧ e ∈ [Dim.alleles, .altAlleles, .genotypes, .field c nm] ∧
    (s.dims, s.shape) ∈ fieldForms m n k e)

theorem numberDim_mem (f : Field) : numberDim f ∈ [Dim.alleles, .altAlleles, .genotypes, .field f.category f.name] := by
  unfold numberDim
  split; · simp
  split; · simp
  split <;> simp

theorem form_of_pre {fields : List Field} {m n nf M pl : Nat} {s : Spec} (h : Pre fields m n nf M pl s) :
    Form m n nf M pl s := by
  rcases h.2.2 with h | ⟨f, _, h1, h2, h3⟩
  · exact Or.inl h
  · refine Or.inr ⟨f.category, f.name, f.maxNumber, numberDim f, h1, numberDim_mem f, ?_⟩
    rw [h2, h3, fdims, fshape, fieldForms]
    by_cases hc : f.category = "FORMAT" <;> cases fExtra f <;> simp [hc]

theorem rep1_inv {m n nf M pl : Nat} {canon : Dim → Option Nat} (hc : CanonOK canon M) {s : Spec}
    (hs : Form m n nf M pl s) (G : Nat)
    (hG : canon .genotypes = some G ∨
      (canon .genotypes = none ∧ ¬ (s.dims.getLast? = some .genotypes ∧ ∃ k, s.shape.getLast? = some k))) :
    Inv (dimSize m n nf M G pl) (rep1 canon s) := by
  obtain ⟨name, dtype, shape, chunks, dims, vf⟩ := s
  rcases hs with ⟨h1, h2⟩ | ⟨c, nm, k, e, h1, he, h2⟩
  · simp only at h1 h2
    subst h1
    simp only [fixedForms, List.mem_cons, Prod.mk.injEq, List.not_mem_nil, or_false] at h2
    rcases h2 with ⟨rfl, rfl⟩ | ⟨rfl, rfl⟩ | ⟨rfl, rfl⟩ | ⟨rfl, rfl⟩ | ⟨rfl, rfl⟩ <;>
      simp [rep1, Inv, DimOk, dimSize]
  · simp only at h1 h2 hG
    subst h1
    simp only [fieldForms, List.mem_cons, Prod.mk.injEq, List.not_mem_nil, or_false] at h2 he
    rcases h2 with ⟨rfl, rfl⟩ | ⟨rfl, rfl⟩ | ⟨rfl, rfl⟩ | ⟨rfl, rfl⟩
    · simp [rep1, Inv, DimOk, dimSize, hc.variants]
    · rcases he with rfl | rfl | rfl | rfl
      · by_cases hk : k = M <;> simp [rep1, Inv, DimOk, dimSize, hc.alleles, hk]
      · by_cases hk : k = M - 1 <;> simp [rep1, Inv, DimOk, dimSize, hc.alt, hk]
      · rcases hG with hG | ⟨hG, hno⟩
        · by_cases hk : k = G <;> simp [rep1, Inv, DimOk, dimSize, hG, hk]
        · simp at hno
      · simp [rep1, Inv, DimOk, dimSize, hc.field]
    · simp [rep1, Inv, DimOk, dimSize, hc.samples]
    · rcases he with rfl | rfl | rfl | rfl
      · by_cases hk : k = M <;> simp [rep1, Inv, DimOk, dimSize, hc.alleles, hk]
      · by_cases hk : k = M - 1 <;> simp [rep1, Inv, DimOk, dimSize, hc.alt, hk]
      · rcases hG with hG | ⟨hG, hno⟩
        · by_cases hk : k = G <;> simp [rep1, Inv, DimOk, dimSize, hG, hk]
        · simp at hno
      · simp [rep1, Inv, DimOk, dimSize, hc.field]

theorem rep1_keeps (canon : Dim → Option Nat) (s : Spec) :
    (rep1 canon s).vcfField = s.vcfField ∧ (rep1 canon s).shape = s.shape ∧ (rep1 canon s).chunks = s.chunks ∧
      (rep1 canon s).dtype = s.dtype ∧ (rep1 canon s).name = s.name := by
  unfold rep1
  split
  · split
    · split <;> simp
    · simp
  · simp

theorem rep1_congr (canon : Dim → Option Nat) (a b : Spec) (h1 : a.vcfField = b.vcfField) (h2 : a.dims = b.dims)
    (h3 : a.shape = b.shape) : (rep1 canon a).dims = (rep1 canon b).dims := by
  obtain ⟨_, _, _, _, _, _⟩ := a
  obtain ⟨_, _, _, _, _, _⟩ := b
  simp only at h1 h2 h3
  subst h1 h2 h3
  unfold rep1
  simp only
  split
  · split
    · split <;> rfl
    · rfl
  · rfl

theorem rep1_form {m n nf M pl : Nat} {canon : Dim → Option Nat} (hc : CanonOK canon M) {s : Spec}
    (hs : Form m n nf M pl s) : Form m n nf M pl (rep1 canon s) := by
  obtain ⟨name, dtype, shape, chunks, dims, vf⟩ := s
  rcases hs with ⟨h1, h2⟩ | ⟨c, nm, k, e, h1, he, h2⟩
  · simp only at h1 h2
    subst h1
    exact Or.inl ⟨rfl, h2⟩
  · simp only at h1 h2
    subst h1
    simp only [fieldForms, List.mem_cons, Prod.mk.injEq, List.not_mem_nil, or_false] at h2
    rcases h2 with ⟨rfl, rfl⟩ | ⟨rfl, rfl⟩ | ⟨rfl, rfl⟩ | ⟨rfl, rfl⟩
    · refine Or.inr ⟨c, nm, k, e, ?_, he, ?_⟩ <;> simp [rep1, hc.variants, fieldForms]
    · cases hcan : canon e with
      | none => refine Or.inr ⟨c, nm, k, e, ?_, he, ?_⟩ <;> simp [rep1, hcan, fieldForms]
      | some want =>
        by_cases hk : k = want
        · refine Or.inr ⟨c, nm, k, e, ?_, he, ?_⟩ <;> simp [rep1, hcan, hk, fieldForms]
        · refine Or.inr ⟨c, nm, k, .field c nm, ?_, by simp, ?_⟩ <;> simp [rep1, hcan, hk, fieldForms]
    · refine Or.inr ⟨c, nm, k, e, ?_, he, ?_⟩ <;> simp [rep1, hc.samples, fieldForms]
    · cases hcan : canon e with
      | none => refine Or.inr ⟨c, nm, k, e, ?_, he, ?_⟩ <;> simp [rep1, hcan, fieldForms]
      | some want =>
        by_cases hk : k = want
        · refine Or.inr ⟨c, nm, k, e, ?_, he, ?_⟩ <;> simp [rep1, hcan, hk, fieldForms]
        · refine Or.inr ⟨c, nm, k, .field c nm, ?_, by simp, ?_⟩ <;> simp [rep1, hcan, hk, fieldForms]

theorem form_rank {m n nf M pl : Nat} {s : Spec} (hs : Form m n nf M pl s) : s.dims.length = s.shape.length := by
  rcases hs with ⟨_, h2⟩ | ⟨c, nm, k, e, _, _, h2⟩
  · simp only [fixedForms, List.mem_cons, Prod.mk.injEq, List.not_mem_nil, or_false] at h2
    rcases h2 with ⟨h, h'⟩ | ⟨h, h'⟩ | ⟨h, h'⟩ | ⟨h, h'⟩ | ⟨h, h'⟩ <;> rw [h, h'] <;> rfl
  · simp only [fieldForms, List.mem_cons, Prod.mk.injEq, List.not_mem_nil, or_false] at h2
    rcases h2 with ⟨h, h'⟩ | ⟨h, h'⟩ | ⟨h, h'⟩ | ⟨h, h'⟩ <;> rw [h, h'] <;> rfl

theorem form_axes {m n nf M pl : Nat} {s : Spec} (hs : Form m n nf M pl s) :
    s.dims.head? = some Dim.variants ∧ s.shape.head? = some m ∧
      (∀ i : Nat, s.dims[i]? = some Dim.samples → s.shape[i]? = some n) := by
  rcases hs with ⟨_, h2⟩ | ⟨c, nm, k, e, _, he, h2⟩
  · simp only [fixedForms, List.mem_cons, Prod.mk.injEq, List.not_mem_nil, or_false] at h2
    rcases h2 with ⟨h, h'⟩ | ⟨h, h'⟩ | ⟨h, h'⟩ | ⟨h, h'⟩ | ⟨h, h'⟩ <;> rw [h, h'] <;>
      refine ⟨rfl, rfl, fun i hi => ?_⟩ <;>
      (rcases i with _ | _ | _ | i <;> simp at hi ⊢)
  · simp only [fieldForms, List.mem_cons, Prod.mk.injEq, List.not_mem_nil, or_false] at h2 he
    rcases h2 with ⟨h, h'⟩ | ⟨h, h'⟩ | ⟨h, h'⟩ | ⟨h, h'⟩ <;> rw [h, h'] <;>
      refine ⟨rfl, rfl, fun i hi => ?_⟩ <;>
      (rcases i with _ | _ | _ | i <;> simp at hi ⊢) <;>
      (rcases he with rfl | rfl | rfl | rfl <;> cases hi)

theorem nodup_map_inj {α β : Type} (g : α → β) : ∀ (l : List α), (l.map g).Nodup →
    ∀ x ∈ l, ∀ y ∈ l, g x = g y → x = y := by
  intro l
  induction l with
  | nil => intro _ x hx; cases hx
  | cons a l ih =>
    intro hn x hx y hy hxy
    rw [List.map_cons, List.nodup_cons] at hn
    rcases List.mem_cons.1 hx with hxa | hxl <;> rcases List.mem_cons.1 hy with hya | hyl
    · rw [hxa, hya]
    · subst hxa
      exact absurd (hxy ▸ List.mem_map_of_mem hyl) hn.1
    · subst hya
      exact absurd (hxy ▸ List.mem_map_of_mem hxl) hn.1
    · exact ih hn.2 x hxl y hyl hxy

/-- result of `generate` in both modes: every spec has a known `Form`, chunk rank and dtype -/
theorem generate_forms (repair : Bool) (fields : List Field) (m n nc nf vcs scs : Nat) (specs : List Spec)
    (h : generate repair fields m n nc nf vcs scs = some specs) :
    ∃ M pl, ∀ s ∈ specs, Form m n nf M pl s ∧ s.chunks.length = s.shape.length ∧ s.dtype ∈ allDtypes := by
  obtain ⟨M, pl, all, hall, rfl⟩ := generate_all repair fields m n nc nf vcs scs specs h
  refine ⟨M, pl, fun s hs => ?_⟩
  cases repair with
  | false => exact ⟨form_of_pre (hall s hs), (hall s hs).1, (hall s hs).2.1⟩
  | true =>
    simp only [if_true, repairDims_eq, List.mem_map] at hs
    obtain ⟨s0, hs0, rfl⟩ := hs
    obtain ⟨_, k2, k3, k4, _⟩ := rep1_keeps (canonOf M all) s0
    rw [k2, k3, k4]
    exact ⟨rep1_form (canonOf_ok M all) (form_of_pre (hall s0 hs0)), (hall s0 hs0).1, (hall s0 hs0).2.1⟩

theorem coherent_of_inv {sz : Dim → Nat} {a b : Spec} (ha : Inv sz a) (hb : Inv sz b)
    (hsame : a.vcfField = b.vcfField → a.vcfField ≠ none → a.dims = b.dims ∧ a.shape = b.shape) :
    ∀ (i j : Nat) (d : Dim), a.dims[i]? = some d → b.dims[j]? = some d → a.shape[i]? = b.shape[j]? := by
  intro i j d hi hj
  obtain ⟨hi', _⟩ := List.getElem?_eq_some_iff.1 hi
  obtain ⟨hj', _⟩ := List.getElem?_eq_some_iff.1 hj
  obtain ⟨x, hia⟩ : ∃ x, a.shape[i]? = some x := ⟨_, List.getElem?_eq_getElem (ha.1 ▸ hi')⟩
  obtain ⟨y, hjb⟩ : ∃ y, b.shape[j]? = some y := ⟨_, List.getElem?_eq_getElem (hb.1 ▸ hj')⟩
  have ka := ha.2.2 (d, x) (List.mem_of_getElem? (List.getElem?_zip_eq_some.2 ⟨hi, hia⟩))
  have kb := hb.2.2 (d, y) (List.mem_of_getElem? (List.getElem?_zip_eq_some.2 ⟨hj, hjb⟩))
  cases d with
  | field c nm =>
    simp only [DimOk] at ka kb
    obtain ⟨e1, e2⟩ := hsame (ka.trans kb.symm) (by rw [ka]; simp)
    rw [← e1] at hj
    have : i = j := (List.getElem?_inj hi' ha.2.1).1 (hi.trans hj.symm)
    subst this
    rw [e2]
  | _ =>
    simp only [DimOk] at ka kb
    rw [hia, hjb, ka, kb]

theorem generate_coherent (fields : List Field)
    (hf : (fields.map fun f => (f.category, f.name)).Nodup) (m n nc nf vcs scs : Nat) (specs : List Spec)
    (h : generate true fields m n nc nf vcs scs = some specs) :
    ∀ a ∈ specs, ∀ b ∈ specs,
      ∀ (i j : Nat) (d : Dim), a.dims[i]? = some d → b.dims[j]? = some d → a.shape[i]? = b.shape[j]? := by
  obtain ⟨M, pl, all, hall, rfl⟩ := generate_all true fields m n nc nf vcs scs specs h
  simp only [if_true, repairDims_eq, List.mem_map]
  rintro _ ⟨a, ha, rfl⟩ _ ⟨b, hb, rfl⟩
  have hinv : ∀ s ∈ all, Inv (dimSize m n nf M ((canonOf M all .genotypes).getD 0) pl) (rep1 (canonOf M all) s) := by
    intro s hs
    refine rep1_inv (canonOf_ok M all) (form_of_pre (hall s hs)) _ ?_
    cases hg : canonOf M all .genotypes with
    | some G => exact Or.inl rfl
    | none =>
      refine Or.inr ⟨rfl, ?_⟩
      rintro ⟨h1, k, h2⟩
      obtain ⟨G, hG⟩ := canonOf_genotypes M all s hs k h1 h2
      rw [hg] at hG; cases hG
  refine coherent_of_inv (hinv a ha) (hinv b hb) ?_
  obtain ⟨ka1, ka2, _⟩ := rep1_keeps (canonOf M all) a
  obtain ⟨kb1, kb2, _⟩ := rep1_keeps (canonOf M all) b
  rw [ka1, kb1, ka2, kb2]
  intro hv hne
  rcases (hall a ha).2.2 with ⟨h0, _⟩ | ⟨f, hfm, f1, f2, f3⟩
  · exact absurd h0 hne
  rcases (hall b hb).2.2 with ⟨h0, _⟩ | ⟨g, hgm, g1, g2, g3⟩
  · rw [hv] at hne; exact absurd h0 hne
  have hfg : f = g := nodup_map_inj _ fields hf f hfm g hgm (by
    have := f1.symm.trans (hv.trans g1)
    simpa using this)
  subst hfg
  exact ⟨rep1_congr _ a b hv (f2.trans g2.symm) (f3.trans g3.symm), f3.trans g3.symm⟩

end B2Z.Schema
