import B2Z.Model.Sched
/-! # Helper lemmas for C14 (`Props/C14.lean`): step characterisation, pool-loop invariant,
termination measure (fuel `n` suffices), and `waitOnFutures` / `syncRun` facts. -/
namespace B2Z.Sched

theorem perm_getElem_eraseIdx {α} (l : List α) (i : Nat) (h : i < l.length) :
    l.Perm (l[i] :: l.eraseIdx i) := by
  induction l generalizing i with
  | nil => simp at h
  | cons a l ih =>
    cases i with
    | zero => simp
    | succ i =>
      simp only [List.getElem_cons_succ, List.eraseIdx_cons_succ]
      have := ih i (by simpa using h)
      exact (List.Perm.cons a this).trans (List.Perm.swap _ _ _)

theorem step_nil (out) (p : Pool) (pick) (h : p.running = []) : p.step out pick = p := by
  unfold Pool.step; simp [h]

theorem step_die (out) (p : Pool) (pick) (h : p.running ≠ [])
    (hd : out (p.running.getD (pick % p.running.length) 0) = .die) :
    p.step out pick =
      { running := [], pending := [],
        events := p.events ++ [(p.running.getD (pick % p.running.length) 0, .broken)] ++
          ((p.running.eraseIdx (pick % p.running.length)) ++ p.pending).map fun u => (u, .broken) } := by
  unfold Pool.step
  split
  · contradiction
  · simp only []
    split
    · rfl
    · rename_i h2; exact absurd hd (h2 )


theorem step_live_nil (out) (p : Pool) (pick) (h : p.running ≠ [])
    (hd : out (p.running.getD (pick % p.running.length) 0) ≠ .die) (hp : p.pending = []) :
    p.step out pick =
      { running := p.running.eraseIdx (pick % p.running.length), pending := [],
        events := p.events ++ [(p.running.getD (pick % p.running.length) 0,
          resOf (out (p.running.getD (pick % p.running.length) 0)))] } := by
  unfold Pool.step
  split
  · contradiction
  · simp only [hp]

theorem step_live_cons (out) (p : Pool) (pick) (h : p.running ≠ [])
    (hd : out (p.running.getD (pick % p.running.length) 0) ≠ .die) (u us) (hp : p.pending = u :: us) :
    p.step out pick =
      { running := p.running.eraseIdx (pick % p.running.length) ++ [u], pending := us,
        events := p.events ++ [(p.running.getD (pick % p.running.length) 0,
          resOf (out (p.running.getD (pick % p.running.length) 0)))] } := by
  unfold Pool.step
  split
  · contradiction
  · simp only [hp]


def EvOK (out : Nat → Outcome) (n : Nat) (ev : Nat × Res) : Prop :=
  (ev.2 = resOf (out ev.1) ∧ out ev.1 ≠ .die) ∨ (ev.2 = .broken ∧ ∃ t', t' < n ∧ out t' = .die)

structure Inv (out : Nat → Outcome) (n : Nat) (p : Pool) : Prop where
  perm : (p.events.map (·.1) ++ (p.running ++ p.pending)).Perm (List.range n)
  ev : ∀ ev ∈ p.events, EvOK out n ev

def Drain (p : Pool) : Prop := p.running = [] → p.pending = []

theorem pick_lt (p : Pool) (pick : Nat) (h : p.running ≠ []) :
    pick % p.running.length < p.running.length :=
  Nat.mod_lt _ (List.length_pos_iff.mpr h)

theorem perm_rearrange {E R O P : List Nat} {t : Nat} (hr : R.Perm (t :: O)) :
    (E ++ t :: (O ++ P)).Perm (E ++ (R ++ P)) := by
  apply List.Perm.append_left
  exact (List.Perm.append_right P hr).symm

theorem Inv.step {out n p} (hI : Inv out n p) (pick : Nat) : Inv out n (p.step out pick) := by
  by_cases h : p.running = []
  · rw [step_nil _ _ _ h]; exact hI
  · have hi := pick_lt p pick h
    have hget : p.running.getD (pick % p.running.length) 0 = p.running[pick % p.running.length] := by
      simp [List.getD_eq_getElem?_getD, List.getElem?_eq_getElem hi]
    have hr := perm_getElem_eraseIdx p.running _ hi
    rw [← hget] at hr
    have htn : p.running.getD (pick % p.running.length) 0 < n := by
      have : p.running.getD (pick % p.running.length) 0 ∈ List.range n := by
        apply hI.perm.subset
        simp only [List.mem_append]
        right; left
        rw [hget]; exact List.getElem_mem _
      simpa using this
    by_cases hd : out (p.running.getD (pick % p.running.length) 0) = .die
    · rw [step_die _ _ _ h hd]
      constructor
      · have := (perm_rearrange (E := p.events.map (·.1)) (P := p.pending) hr).trans hI.perm
        simpa [List.map_append, Function.comp_def] using this
      · intro ev hev
        simp only [List.mem_append, List.mem_singleton, List.mem_map] at hev
        rcases hev with (hev | hev) | ⟨u, _, hev⟩
        · exact hI.ev ev hev
        · subst hev; exact Or.inr ⟨rfl, _, htn, hd⟩
        · subst hev; exact Or.inr ⟨rfl, _, htn, hd⟩
    · cases hp : p.pending with
      | nil =>
        rw [step_live_nil _ _ _ h hd hp]
        constructor
        · have := (perm_rearrange (E := p.events.map (·.1)) (P := p.pending) hr).trans hI.perm
          simpa [List.map_append, hp] using this
        · intro ev hev
          simp only [List.mem_append, List.mem_singleton] at hev
          rcases hev with hev | hev
          · exact hI.ev ev hev
          · subst hev; exact Or.inl ⟨rfl, hd⟩
      | cons u us =>
        rw [step_live_cons _ _ _ h hd u us hp]
        constructor
        · have := (perm_rearrange (E := p.events.map (·.1)) (P := p.pending) hr).trans hI.perm
          simpa [List.map_append, hp] using this
        · intro ev hev
          simp only [List.mem_append, List.mem_singleton] at hev
          rcases hev with hev | hev
          · exact hI.ev ev hev
          · subst hev; exact Or.inl ⟨rfl, hd⟩

theorem Drain.step {p} (hD : Drain p) (out) (pick : Nat) : Drain (p.step out pick) := by
  by_cases h : p.running = []
  · rw [step_nil _ _ _ h]; exact hD
  · by_cases hd : out (p.running.getD (pick % p.running.length) 0) = .die
    · rw [step_die _ _ _ h hd]; intro _; rfl
    · cases hp : p.pending with
      | nil => rw [step_live_nil _ _ _ h hd hp]; intro _; rfl
      | cons u us => rw [step_live_cons _ _ _ h hd u us hp]; intro hh; simp at hh

theorem step_measure (out) (p : Pool) (pick : Nat) (h : p.running ≠ []) :
    (p.step out pick).running.length + (p.step out pick).pending.length
      < p.running.length + p.pending.length := by
  have hi := pick_lt p pick h
  by_cases hd : out (p.running.getD (pick % p.running.length) 0) = .die
  · rw [step_die _ _ _ h hd]; simp; omega
  · cases hp : p.pending with
    | nil => rw [step_live_nil _ _ _ h hd hp]; simp [List.length_eraseIdx, hi]; omega
    | cons u us => rw [step_live_cons _ _ _ h hd u us hp]; simp [List.length_eraseIdx, hi]; omega

theorem go_inv (out n) : ∀ fuel p s, Inv out n p → Inv out n (poolRun.go out fuel p s) := by
  intro fuel
  induction fuel with
  | zero => intro p s h; simpa [poolRun.go] using h
  | succ f ih =>
    intro p s h
    unfold poolRun.go
    split
    · exact h
    · exact ih _ _ (h.step _)

theorem go_drained (out) : ∀ fuel p s, Drain p → p.running.length + p.pending.length ≤ fuel →
    (poolRun.go out fuel p s).running = [] ∧ (poolRun.go out fuel p s).pending = [] := by
  intro fuel
  induction fuel with
  | zero =>
    intro p s hD hm
    have h1 : p.running = [] := List.length_eq_zero_iff.mp (by omega)
    have h2 : p.pending = [] := List.length_eq_zero_iff.mp (by omega)
    simp [poolRun.go, h1, h2]
  | succ f ih =>
    intro p s hD hm
    unfold poolRun.go
    split
    · rename_i he
      have h1 : p.running = [] := by simpa using he
      exact ⟨h1, hD h1⟩
    · rename_i he
      have h1 : p.running ≠ [] := by simpa using he
      have := step_measure out p (s.headD 0) h1
      exact ih _ _ (hD.step _ _) (by omega)

theorem start_inv (out n w) : Inv out n (Pool.start n w) := by
  constructor
  · simp only [Pool.start, List.map_nil, List.nil_append, List.take_append_drop]
    exact List.Perm.refl _
  · intro ev hev; simp [Pool.start] at hev

theorem start_drain (n w) (hw : 0 < w) : Drain (Pool.start n w) := by
  intro h
  simp only [Pool.start, List.take_eq_nil_iff] at h
  rcases h with h | h
  · omega
  · have : n = 0 := by simpa using h
    subst this; simp [Pool.start]

theorem start_measure (n w) : (Pool.start n w).running.length + (Pool.start n w).pending.length ≤ n := by
  simp [Pool.start]; omega

theorem poolRun_inv (out n w sched) : ∃ p, Inv out n p ∧ p.events = poolRun out n w sched :=
  ⟨_, go_inv out n _ _ _ (start_inv out n w), rfl⟩

theorem poolRun_perm (out n w sched) (hw : 0 < w) :
    ((poolRun out n w sched).map (·.1)).Perm (List.range n) := by
  have hI := go_inv out n n _ sched (start_inv out n w)
  have hD := go_drained out n _ sched (start_drain n w hw) (start_measure n w)
  have := hI.perm
  rw [hD.1, hD.2] at this
  simpa [poolRun] using this

theorem poolRun_ev (out n w sched) : ∀ ev ∈ poolRun out n w sched, EvOK out n ev :=
  (go_inv out n n _ sched (start_inv out n w)).ev

/-! ## `waitOnFutures` / `syncRun` -/

theorem wait_ok_iff_all (events : List Res) :
    (waitOnFutures events).1 = Verdict.ok ↔ ∀ r ∈ events, r = Res.ok := by
  induction events with
  | nil => simp [waitOnFutures]
  | cons r rest ih => cases r <;> simp [waitOnFutures, ih]

theorem wait_steps_le (events : List Res) : (waitOnFutures events).2 ≤ events.length := by
  induction events with
  | nil => simp [waitOnFutures]
  | cons r rest ih => cases r <;> simp [waitOnFutures] <;> omega

theorem wait_skip_ok (pre rest : List Res) (hpre : ∀ x ∈ pre, x = Res.ok) :
    (waitOnFutures (pre ++ rest)).1 = (waitOnFutures rest).1 := by
  induction pre with
  | nil => rfl
  | cons a pre ih =>
    have ha : a = Res.ok := hpre a (by simp)
    subst ha
    simp only [List.cons_append, waitOnFutures]
    exact ih (fun x hx => hpre x (by simp [hx]))

theorem wait_taskError_mem (events : List Res) (e : Nat)
    (h : (waitOnFutures events).1 = Verdict.taskError e) : Res.exc e ∈ events := by
  induction events with
  | nil => simp [waitOnFutures] at h
  | cons r rest ih =>
    cases r <;> simp [waitOnFutures] at h
    · simp [ih h]
    · simp [h]

theorem wait_runtimeError_mem (events : List Res)
    (h : (waitOnFutures events).1 = Verdict.runtimeError) : Res.broken ∈ events := by
  induction events with
  | nil => simp [waitOnFutures] at h
  | cons r rest ih =>
    cases r <;> simp [waitOnFutures] at h
    · simp [ih h]
    · simp

theorem sync_ok_iff_all (outs : List Outcome) :
    (syncRun outs).1 = Verdict.ok ↔ ∀ o ∈ outs, o = Outcome.ok := by
  induction outs with
  | nil => simp [syncRun]
  | cons r rest ih => cases r <;> simp [syncRun, ih]

theorem sync_steps_le (outs : List Outcome) : (syncRun outs).2 ≤ outs.length := by
  induction outs with
  | nil => simp [syncRun]
  | cons r rest ih => cases r <;> simp [syncRun] <;> omega

theorem sync_taskError_mem (outs : List Outcome) (e : Nat)
    (h : (syncRun outs).1 = Verdict.taskError e) : Outcome.raise e ∈ outs := by
  induction outs with
  | nil => simp [syncRun] at h
  | cons r rest ih =>
    cases r <;> simp [syncRun] at h
    · simp [ih h]
    · simp [h]

theorem sync_runtimeError_mem (outs : List Outcome)
    (h : (syncRun outs).1 = Verdict.runtimeError) : Outcome.die ∈ outs := by
  induction outs with
  | nil => simp [syncRun] at h
  | cons r rest ih =>
    cases r <;> simp [syncRun] at h
    · simp [ih h]
    · simp

end B2Z.Sched
