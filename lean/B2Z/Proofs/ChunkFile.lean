import B2Z.Model.ChunkFile
namespace B2Z.ChunkFile

theorem declared_take (file : List Nat) (k : Nat) (hk : 16 ≤ k) : declared (file.take k) = declared file := by
  unfold declared
  congr 1
  rw [List.drop_take, List.take_take]
  congr 1
  omega

theorem leVal_lt (bs : List Nat) (h : ∀ b ∈ bs, b < 256) : leVal bs < 256 ^ bs.length := by
  induction bs with
  | nil => simp [leVal]
  | cons b bs ih =>
    have hb := h b (by simp)
    have := ih (fun x hx => h x (by simp [hx]))
    simp only [leVal, List.length_cons, Nat.pow_succ]
    omega

end B2Z.ChunkFile
