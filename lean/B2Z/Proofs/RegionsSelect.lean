import B2Z.Proofs.RegionsThm
/-! # the selection step: `searchLeft`, `uniqueSorted`, `selectIdx`, `selectEntries` -/
namespace B2Z.Regions

/-! ## `searchLeft` on a non-decreasing list -/

theorem searchLeft_nil (v : Nat) : searchLeft [] v = 0 := rfl

theorem searchLeft_zero (a : List Nat) : searchLeft a 0 = 0 := by
  simp [searchLeft]

theorem searchLeft_cons_lt (x : Nat) (xs : List Nat) (v : Nat) (h : x < v) :
    searchLeft (x :: xs) v = searchLeft xs v + 1 := by
  simp [searchLeft, h]

theorem searchLeft_cons_ge (x : Nat) (xs : List Nat) (v : Nat) (h : v ≤ x)
    (hs : (x :: xs).Pairwise (· ≤ ·)) : searchLeft (x :: xs) v = 0 := by
  have hx := (List.pairwise_cons.mp hs).1
  have hnil : (x :: xs).filter (· < v) = [] := by
    apply List.filter_eq_nil_iff.mpr
    intro y hy
    rcases List.mem_cons.mp hy with rfl | hy
    · simp; omega
    · have := hx y hy
      simp; omega
  simp [searchLeft, hnil]

/-- every index below `searchLeft a v` holds a value `< v` -/
theorem lt_of_lt_searchLeft (a : List Nat) (hs : a.Pairwise (· ≤ ·)) (v k : Nat)
    (hk : k < searchLeft a v) (hlen : k < a.length) : a[k] < v := by
  induction a generalizing k with
  | nil => simp at hlen
  | cons x xs ih =>
    by_cases hx : x < v
    · rw [searchLeft_cons_lt x xs v hx] at hk
      cases k with
      | zero => simpa using hx
      | succ k =>
        simp only [List.getElem_cons_succ]
        exact ih (List.pairwise_cons.mp hs).2 k (by omega) (by simpa using hlen)
    · rw [searchLeft_cons_ge x xs v (by omega) hs] at hk
      omega

/-- the entry at `searchLeft a v` (if any) is `≥ v` -/
theorem ge_at_searchLeft (a : List Nat) (hs : a.Pairwise (· ≤ ·)) (v : Nat)
    (hlen : searchLeft a v < a.length) : v ≤ a[searchLeft a v] := by
  induction a with
  | nil => simp at hlen
  | cons x xs ih =>
    by_cases hx : x < v
    · have e := searchLeft_cons_lt x xs v hx
      have hlen' : searchLeft xs v < xs.length := by
        rw [e] at hlen; simpa using hlen
      have := ih (List.pairwise_cons.mp hs).2 hlen'
      simp only [e, List.getElem_cons_succ]
      exact this
    · have e := searchLeft_cons_ge x xs v (by omega) hs
      simp only [e, List.getElem_cons_zero]
      omega

/-- two different results of `searchLeft` (both in range) index strictly increasing values -/
theorem searchLeft_strict (a : List Nat) (hs : a.Pairwise (· ≤ ·)) (v w : Nat)
    (hlt : searchLeft a v < searchLeft a w) (hw : searchLeft a w < a.length) :
    a[searchLeft a v]'(by omega) < a[searchLeft a w] := by
  have h1 := lt_of_lt_searchLeft a hs w (searchLeft a v) hlt (by omega)
  have h2 := ge_at_searchLeft a hs w hw
  omega

/-! ## `uniqueSorted` -/

theorem mem_insertU (x y : Nat) (l : List Nat) : y ∈ insertU x l ↔ y = x ∨ y ∈ l := by
  induction l with
  | nil => simp [insertU]
  | cons z zs ih =>
    unfold insertU
    by_cases h1 : x < z
    · simp [h1]
    · rw [if_neg h1]
      by_cases h2 : x = z
      · rw [if_pos h2]; subst h2; simp
      · rw [if_neg h2]
        simp only [List.mem_cons, ih]
        constructor
        · rintro (h | h | h)
          · exact Or.inr (Or.inl h)
          · exact Or.inl h
          · exact Or.inr (Or.inr h)
        · rintro (h | h | h)
          · exact Or.inr (Or.inl h)
          · exact Or.inl h
          · exact Or.inr (Or.inr h)

theorem insertU_strict (x : Nat) (l : List Nat) (h : l.Pairwise (· < ·)) :
    (insertU x l).Pairwise (· < ·) := by
  induction l with
  | nil => simp [insertU]
  | cons z zs ih =>
    have hz := List.pairwise_cons.mp h
    unfold insertU
    by_cases h1 : x < z
    · rw [if_pos h1]
      apply List.pairwise_cons.mpr
      refine ⟨?_, h⟩
      intro y hy
      rcases List.mem_cons.mp hy with rfl | hy
      · exact h1
      · have := hz.1 y hy; omega
    · rw [if_neg h1]
      by_cases h2 : x = z
      · rw [if_pos h2]; exact h
      · rw [if_neg h2]
        apply List.pairwise_cons.mpr
        refine ⟨?_, ih hz.2⟩
        intro y hy
        rcases (mem_insertU x y zs).mp hy with rfl | hy
        · omega
        · exact hz.1 y hy

theorem mem_uniqueSorted (y : Nat) (l : List Nat) : y ∈ uniqueSorted l ↔ y ∈ l := by
  induction l with
  | nil => simp [uniqueSorted]
  | cons x xs ih =>
    have : uniqueSorted (x :: xs) = insertU x (uniqueSorted xs) := rfl
    rw [this, mem_insertU, ih]; simp

theorem uniqueSorted_strict (l : List Nat) : (uniqueSorted l).Pairwise (· < ·) := by
  induction l with
  | nil => simp [uniqueSorted]
  | cons x xs ih =>
    have : uniqueSorted (x :: xs) = insertU x (uniqueSorted xs) := rfl
    rw [this]; exact insertU_strict x _ ih

/-- a strictly increasing list of naturals containing 0 starts with 0 -/
theorem head_zero_of_strict (l : List Nat) (h : l.Pairwise (· < ·)) (h0 : 0 ∈ l) :
    ∃ tl, l = 0 :: tl := by
  cases l with
  | nil => simp at h0
  | cons x xs =>
    rcases List.mem_cons.mp h0 with rfl | hm
    · exact ⟨xs, rfl⟩
    · have := (List.pairwise_cons.mp h).1 0 hm
      omega

/-! ## `selectIdx` -/

theorem mem_selectIdx (a : List Nat) (n t i : Nat) :
    i ∈ selectIdx a n t ↔ i < a.length ∧ ∃ k, k < n ∧ i = searchLeft a (t * k) := by
  unfold selectIdx
  simp only [mem_uniqueSorted, List.mem_filter, List.mem_map, List.mem_range, decide_eq_true_eq]
  constructor
  · rintro ⟨⟨k, hk, rfl⟩, hlt⟩
    exact ⟨hlt, k, hk, rfl⟩
  · rintro ⟨hlt, k, hk, rfl⟩
    exact ⟨⟨k, hk, rfl⟩, hlt⟩

theorem selectIdx_strict (a : List Nat) (n t : Nat) : (selectIdx a n t).Pairwise (· < ·) :=
  uniqueSorted_strict _

theorem selectIdx_head (a : List Nat) (n t : Nat) (hn : 1 ≤ n) (hne : a ≠ []) :
    ∃ tl, selectIdx a n t = 0 :: tl := by
  apply head_zero_of_strict _ (selectIdx_strict a n t)
  rw [mem_selectIdx]
  refine ⟨?_, 0, by omega, ?_⟩
  · cases a with
    | nil => exact absurd rfl hne
    | cons x xs => simp
  · simp [searchLeft_zero]

/-! ## `selectEntries` -/

def Off.toEntry (o : Off) : Entry := { contig := o.contig, pos := o.pos }

theorem selectEntries_eq (offs : List Off) (n t : Nat) :
    selectEntries offs n t =
      (selectIdx (offs.map (·.off)) n t).filterMap fun i => (offs[i]?).map Off.toEntry := rfl

/-- every selected entry is an index entry -/
theorem mem_selectEntries (offs : List Off) (n t : Nat) (e : Entry) (h : e ∈ selectEntries offs n t) :
    ∃ o ∈ offs, e = Off.toEntry o := by
  rw [selectEntries_eq, List.mem_filterMap] at h
  obtain ⟨i, _, hi⟩ := h
  cases ho : offs[i]? with
  | none => rw [ho] at hi; simp at hi
  | some o =>
    rw [ho] at hi
    simp only [Option.map_some, Option.some.injEq] at hi
    exact ⟨o, List.mem_of_getElem? ho, hi.symm⟩

theorem selectEntries_head (offs : List Off) (n t : Nat) (hn : 1 ≤ n) (hne : offs ≠ []) :
    (selectEntries offs n t).head? = (offs.head?).map Off.toEntry := by
  obtain ⟨tl, htl⟩ := selectIdx_head (offs.map (·.off)) n t hn (by simpa using hne)
  rw [selectEntries_eq, htl]
  cases offs with
  | nil => exact absurd rfl hne
  | cons o os => simp

/-- from the order on keys to the lexicographic order (needs the later position `< M`) -/
theorem lt_of_key_lt (c p c' p' : Nat) (hp' : p' < M) (h : c * M + p < c' * M + p') :
    c < c' ∨ (c = c' ∧ p < p') := by
  simp only [M] at *
  by_cases h1 : c < c'
  · exact Or.inl h1
  · by_cases h2 : c = c'
    · subst h2; exact Or.inr ⟨rfl, by omega⟩
    · exfalso
      have : c' + 1 ≤ c := by omega
      have := Nat.mul_le_mul_right 4294967296 this
      omega

theorem selectEntries_strict (offs : List Off) (n t : Nat)
    (hmono : (offs.map (·.off)).Pairwise (· ≤ ·))
    (hkey : offs.Pairwise (fun a b => a.off < b.off → a.contig * M + a.pos < b.contig * M + b.pos))
    (hpos : ∀ o ∈ offs, o.pos < M) :
    (selectEntries offs n t).Pairwise Entry.lt := by
  rw [selectEntries_eq]
  refine List.Pairwise.filterMap _ ?_ (selectIdx_strict _ n t |>.imp_of_mem
    (S := fun i j => i < j ∧ i ∈ selectIdx (offs.map (·.off)) n t ∧ j ∈ selectIdx (offs.map (·.off)) n t)
    (fun ha hb hab => ⟨hab, ha, hb⟩))
  rintro i j ⟨hij, hi, hj⟩ e he e' he'
  rw [mem_selectIdx] at hi hj
  obtain ⟨hil, k, _, hik⟩ := hi
  obtain ⟨hjl, k', _, hjk⟩ := hj
  have hil' : i < offs.length := by simpa using hil
  have hjl' : j < offs.length := by simpa using hjl
  rw [List.getElem?_eq_getElem hil'] at he
  rw [List.getElem?_eq_getElem hjl'] at he'
  simp only [Option.map_some, Option.some.injEq] at he he'
  subst he he'
  -- strictly increasing file offsets
  have hoff : (offs.map (·.off))[i]'hil < (offs.map (·.off))[j]'hjl := by
    have := searchLeft_strict (offs.map (·.off)) hmono (t * k) (t * k')
      (by rw [← hik, ← hjk]; exact hij) (by rw [← hjk]; exact hjl)
    simpa only [← hik, ← hjk] using this
  simp only [List.getElem_map] at hoff
  have hk := (List.pairwise_iff_getElem.mp hkey) i j hil' hjl' hij hoff
  exact lt_of_key_lt _ _ _ _ (hpos _ (List.getElem_mem hjl')) hk

end B2Z.Regions
