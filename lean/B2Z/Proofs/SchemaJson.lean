import B2Z.Model.SchemaJson
/-! # helper lemmas for the schema ⇄ JSON round trip (C10) -/
namespace B2Z.SchemaJson

theorem mapM_map_some {α β : Type} (f : α → β) (g : β → Option α) (h : ∀ x, g (f x) = some x) (l : List α) :
    (l.map f).mapM g = some l := by
  induction l with
  | nil => rfl
  | cons a l ih => simp [List.mapM_cons, h, ih]

theorem asNat_ofNat (n : Nat) : J.asNat (.num (Int.ofNat n)) = some n := by
  simp [J.asNat]

theorem asNats_natsJ (l : List Nat) : (natsJ l).asNats = some l := by
  simp only [natsJ, J.asNats, J.asArr, Option.bind]
  exact mapM_map_some _ _ asNat_ofNat l

theorem asStrs_strsJ (l : List String) : (strsJ l).asStrs = some l := by
  simp only [strsJ, J.asStrs, J.asArr, Option.bind]
  exact mapM_map_some J.str J.asStr (fun _ => rfl) l

theorem asScalar_toJ (v : Scalar) : J.asScalar (Scalar.toJ v) = some v := by
  cases v <;> rfl

theorem arrayspec_roundtrip (a : ArraySpec) : ArraySpec.ofJ a.toJ = some a := by
  have hc : (a.compressor.map fun (k, v) => (k, Scalar.toJ v)).mapM (fun (k, v) => v.asScalar.map fun n => (k, n)) = some a.compressor :=
    mapM_map_some _ _ (fun ⟨k, v⟩ => by simp only [asScalar_toJ, Option.map]) a.compressor
  cases a with
  | mk name dtype shape chunks dims descr vf comp cid filters =>
  simp only [ArraySpec.ofJ, ArraySpec.toJ, J.get, List.find?, String.reduceEq, decide_false, decide_true, Option.map,
    bind, Option.bind, J.asStr, asNats_natsJ, asStrs_strsJ, pure] at hc ⊢
  rw [hc]
  cases vf <;> rfl

theorem samples_rt (l : List String) :
    (l.map fun x => J.obj [("id", .str x)]).mapM (fun o => (o.get "id").bind J.asStr) = some l :=
  mapM_map_some _ _ (fun _ => by simp [J.get, J.asStr]) l

theorem filters_rt (l : List (String × String)) :
    (l.map fun (i, d) => J.obj [("id", .str i), ("description", .str d)]).mapM
      (fun o => do
        let i ← (o.get "id").bind J.asStr
        let d ← (o.get "description").bind J.asStr
        pure (i, d)) = some l :=
  mapM_map_some _ _ (fun ⟨i, d⟩ => by simp [J.get, J.asStr]) l

theorem fields_rt (l : List ArraySpec) : (l.map ArraySpec.toJ).mapM ArraySpec.ofJ = some l :=
  mapM_map_some _ _ arrayspec_roundtrip l


theorem get_fv (s : Schema) : s.toJ.get "format_version" = some (.str s.formatVersion) := rfl
theorem get_scs (s : Schema) : s.toJ.get "samples_chunk_size" = some (.num (Int.ofNat s.samplesChunkSize)) := rfl
theorem get_vcs (s : Schema) : s.toJ.get "variants_chunk_size" = some (.num (Int.ofNat s.variantsChunkSize)) := rfl
theorem get_samples (s : Schema) : s.toJ.get "samples" = some (.arr (s.samples.map fun x => .obj [("id", .str x)])) := rfl
theorem get_contigs (s : Schema) : s.toJ.get "contigs" = some (.arr (s.contigs.map fun (i, l) => .obj [("id", .str i), ("length", match l with | none => .null | some n => .num (Int.ofNat n))])) := rfl
theorem get_filters (s : Schema) : s.toJ.get "filters" = some (.arr (s.filters.map fun (i, d) => .obj [("id", .str i), ("description", .str d)])) := rfl
theorem get_fields (s : Schema) : s.toJ.get "fields" = some (.arr (s.fields.map ArraySpec.toJ)) := rfl

theorem schema_roundtrip (s : Schema) : Schema.ofJ s.formatVersion s.toJ = .ok s := by
  have h1 := samples_rt s.samples
  have h3 := filters_rt s.filters
  have h4 := fields_rt s.fields
  unfold Schema.ofJ
  simp only [get_fv, get_scs, get_vcs, get_samples, get_contigs, get_filters, get_fields] at h1 h3 h4 ⊢
  simp only [Option.bind_some, J.asStr, pure_bind, ne_eq, not_true_eq_false, if_false] at h1 h3 h4 ⊢
  simp only [Option.bind_eq_bind, Option.bind_some, J.asArr, asNat_ofNat] at h1 h3 h4 ⊢
  simp only [h1, h3, h4, Option.bind_some]
  rw [mapM_map_some]
  · rfl
  · rintro ⟨i, l⟩
    cases l <;> simp [J.get, J.asStr, J.asNat]


theorem version_mismatch (s : Schema) (expected : String) (h : s.formatVersion ≠ expected) :
    Schema.ofJ expected s.toJ = .error "ValueError: format version mismatch" := by
  unfold Schema.ofJ
  simp only [get_fv, Option.bind_some, J.asStr, pure_bind, ne_eq, h, not_false_eq_true, if_true]
  rfl

end B2Z.SchemaJson
