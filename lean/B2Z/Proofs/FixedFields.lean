import B2Z.Model.FixedFields
/-! # helper lemmas for C01 (fixed fields): `lookup` on a duplicate-free list, the `filterRow` fold,
`takeWhile` over a padded row -/
namespace B2Z.Fixed

/-! ## `lookup` -/

theorem filter_zipIdx_not_mem (declared : List String) (name : String) (k : Nat)
    (h : name ∉ declared) : (declared.zipIdx k).filter (fun p => p.1 == name) = [] := by
  rw [List.filter_eq_nil_iff]
  intro p hp hpn
  have hm := List.fst_mem_of_mem_zipIdx hp
  have : p.1 = name := by simpa using hpn
  exact h (this ▸ hm)

theorem filter_zipIdx_nodup (declared : List String) (name : String) :
    ∀ (k j : Nat), declared.Nodup → declared[j]? = some name →
      (declared.zipIdx k).filter (fun p => p.1 == name) = [(name, k + j)] := by
  induction declared with
  | nil => intro k j _ h; simp at h
  | cons d ds ih =>
    intro k j hn hj
    rw [List.nodup_cons] at hn
    rw [List.zipIdx_cons]
    cases j with
    | zero =>
      have hd : d = name := by simpa using hj
      subst hd
      rw [List.filter_cons_of_pos (by simp), filter_zipIdx_not_mem ds d (k + 1) hn.1]
      rfl
    | succ j =>
      have hj' : ds[j]? = some name := by simpa using hj
      have hmem : name ∈ ds := List.mem_of_getElem? hj'
      have hne : d ≠ name := fun e => hn.1 (e ▸ hmem)
      rw [List.filter_cons_of_neg (by simpa using hne), ih (k + 1) j hn.2 hj']
      congr 2
      omega

theorem lookup_of_getElem? (declared : List String) (hn : declared.Nodup) (name : String) (j : Nat)
    (h : declared[j]? = some name) : lookup declared name = some j := by
  unfold lookup
  rw [filter_zipIdx_nodup declared name 0 j hn h]
  simp

theorem lookup_of_not_mem (declared : List String) (name : String) (h : name ∉ declared) :
    lookup declared name = none := by
  unfold lookup
  rw [filter_zipIdx_not_mem declared name 0 h]
  rfl

theorem lookup_isSome_of_mem (declared : List String) (name : String) (h : name ∈ declared) :
    (lookup declared name).isSome := by
  unfold lookup
  obtain ⟨j, hj⟩ := List.getElem?_of_mem h
  have hm : (name, j) ∈ declared.zipIdx.filter (fun p => p.1 == name) := by
    rw [List.mem_filter]
    refine ⟨?_, by simp⟩
    rw [List.mem_zipIdx_iff_getElem?]
    simpa using hj
  cases hl : (declared.zipIdx.filter (fun p => p.1 == name)).getLast? with
  | none =>
    rw [List.getLast?_eq_none_iff] at hl
    rw [hl] at hm
    simp at hm
  | some p => rfl

/-! ## `filterRow` -/

/-- one step of the `filterRow` fold -/
def filterStep (declared : List String) (row : List Bool) (f : String) : Option (List Bool) :=
  (lookup declared f).map fun i => row.set i true

theorem filterRow_eq (declared present : List String) :
    filterRow declared present =
      present.foldlM (filterStep declared) (List.replicate declared.length false) := rfl

theorem foldlM_filterStep_error (declared : List String) (f : String) (hf : f ∉ declared) :
    ∀ (present : List String) (acc : List Bool), f ∈ present →
      present.foldlM (filterStep declared) acc = none := by
  intro present
  induction present with
  | nil => intro acc h; simp at h
  | cons g gs ih =>
    intro acc h
    rw [List.foldlM_cons]
    cases hs : filterStep declared acc g with
    | none => rfl
    | some acc' =>
      rcases List.mem_cons.1 h with e | hm
      · subst e
        simp [filterStep, lookup_of_not_mem declared f hf] at hs
      · exact ih acc' hm

theorem foldlM_filterStep (declared : List String) (hn : declared.Nodup) :
    ∀ (present : List String) (acc : List Bool), (∀ f ∈ present, f ∈ declared) →
      acc.length = declared.length →
      present.foldlM (filterStep declared) acc =
        some (List.zipWith (fun d b => b || present.contains d) declared acc) := by
  intro present
  induction present with
  | nil =>
    intro acc _ hl
    simp only [List.foldlM_nil, List.contains_nil, Bool.or_false]
    congr 1
    apply List.ext_getElem
    · simp [hl]
    · intro j h1 h2
      simp
  | cons f fs ih =>
    intro acc hp hl
    rw [List.foldlM_cons]
    have hfd : f ∈ declared := hp f (List.mem_cons_self)
    obtain ⟨i, hi⟩ := List.getElem?_of_mem hfd
    have hlk := lookup_of_getElem? declared hn f i hi
    have hs : filterStep declared acc f = some (acc.set i true) := by
      simp [filterStep, hlk]
    rw [hs]
    show List.foldlM (filterStep declared) (acc.set i true) fs = _
    rw [ih (acc.set i true) (fun g hg => hp g (List.mem_cons_of_mem _ hg)) (by simpa using hl)]
    congr 1
    apply List.ext_getElem
    · simp
    · intro j h1 h2
      have hjd : j < declared.length := by simp at h1; omega
      have hja : j < acc.length := by omega
      obtain ⟨hid, hie⟩ := List.getElem?_eq_some_iff.1 hi
      simp only [List.getElem_zipWith, List.getElem_set, List.contains_cons]
      by_cases hij : i = j
      · subst hij
        simp [hie]
      · have hb : (declared[j] == f) = false := by
          apply beq_eq_false_iff_ne.2
          intro e
          apply hij
          have hj' : declared[j]? = some f := by
            rw [List.getElem?_eq_getElem hjd, e]
          have := lookup_of_getElem? declared hn f j hj'
          rw [hlk] at this
          exact Option.some.inj this
        simp [hij, hb]

theorem zipWith_replicate_false (declared : List String) (g : String → Bool) :
    List.zipWith (fun d b => b || g d) declared (List.replicate declared.length false) =
      declared.map g := by
  apply List.ext_getElem
  · simp
  · intro j h1 h2
    simp

theorem zip_map_filter_mem (declared : List String) (g : String → Bool) (f : String) :
    f ∈ ((declared.zip (declared.map g)).filter (·.2)).map (·.1) ↔ f ∈ declared ∧ g f = true := by
  induction declared with
  | nil => simp
  | cons d ds ih =>
    simp only [List.map_cons, List.zip_cons_cons, List.filter_cons]
    cases hg : g d with
    | true =>
      simp only [if_true, List.map_cons, List.mem_cons, ih]
      constructor
      · rintro (e | ⟨h1, h2⟩)
        · subst e; exact ⟨Or.inl rfl, hg⟩
        · exact ⟨Or.inr h1, h2⟩
      · rintro ⟨e | h1, h2⟩
        · exact Or.inl e
        · exact Or.inr ⟨h1, h2⟩
    | false =>
      simp only [Bool.false_eq_true, if_false, List.mem_cons, ih]
      constructor
      · rintro ⟨h1, h2⟩; exact ⟨Or.inr h1, h2⟩
      · rintro ⟨e | h1, h2⟩
        · subst e; rw [hg] at h2; exact absurd h2 (by decide)
        · exact ⟨h1, h2⟩

/-! ## padded rows -/

theorem takeWhile_append_replicate_of_all {α : Type} (p : α → Bool) (l : List α) (n : Nat) (x : α)
    (hl : ∀ a ∈ l, p a = true) (hx : p x = false) :
    (l ++ List.replicate n x).takeWhile p = l := by
  induction l with
  | nil =>
    cases n with
    | zero => rfl
    | succ n => simp [List.replicate_succ, hx]
  | cons a as ih =>
    have ha : p a = true := hl a List.mem_cons_self
    simp only [List.cons_append, List.takeWhile_cons, ha, if_true]
    rw [ih (fun b hb => hl b (List.mem_cons_of_mem _ hb))]

theorem takeWhile_append_replicate {α : Type} (p : α → Bool) (l : List α) (n : Nat) (x : α)
    (hx : p x = false) : (l ++ List.replicate n x).takeWhile p = l.takeWhile p := by
  induction l with
  | nil =>
    cases n with
    | zero => rfl
    | succ n => simp [List.replicate_succ, hx]
  | cons a as ih =>
    simp only [List.cons_append, List.takeWhile_cons, ih]

end B2Z.Fixed
