import B2Z.Proofs.RegionsRefine
/-! # the ordering clause and the `Region.__post_init__` assertions -/
namespace B2Z.Regions

/-- a chain is pairwise ordered and stays within its end points -/
theorem Chain.pairwise {a b : Nat} {gs : List Reg} (h : Chain a gs b) :
    gs.Pairwise (fun g g' => g.hi ≤ g'.lo) ∧ ∀ g ∈ gs, a ≤ g.lo ∧ g.hi ≤ b := by
  induction h with
  | nil => simp
  | cons hok hle hch ih =>
    rename_i g gs b
    have hb := hch.le
    refine ⟨List.pairwise_cons.mpr ⟨fun x hx => (ih.2 x hx).1, ih.1⟩, ?_⟩
    intro x hx
    rcases List.mem_cons.mp hx with rfl | hx
    · exact ⟨Nat.le_refl _, hb⟩
    · have := ih.2 x hx
      exact ⟨by omega, this.2⟩

theorem tail_sublist (lastC nContigs : Nat) (hasRecs : Nat → Bool) :
    (tail lastC nContigs hasRecs).Sublist (wholes (lastC + 1) (nContigs - (lastC + 1))) := by
  unfold tail wholes
  exact List.Sublist.map _ List.filter_sublist

/-- the raw region list is ordered and non-overlapping -/
theorem regions_ordered (es : List Entry) (hne : es ≠ []) (hok : ∀ e ∈ es, EntryOK e)
    (hinc : es.Pairwise Entry.lt) (nContigs : Nat) (hasRecs : Nat → Bool) :
    (regions es (es.getLast hne).contig nContigs hasRecs).Pairwise (fun g g' => g.hi ≤ g'.lo) := by
  have hb := body_chain es hne hok hinc
  have hw := wholes_chain ((es.getLast hne).contig + 1) (nContigs - ((es.getLast hne).contig + 1))
  have hall := (hb.append hw).pairwise.1
  unfold regions
  exact List.Pairwise.sublist (List.Sublist.append (List.Sublist.refl _) (tail_sublist _ _ _)) hall

theorem withStart_hi (g : Reg) (p : Nat) : (g.withStart p).hi = g.hi := by
  cases g <;> rfl

theorem withStart_lo (g : Reg) (p : Nat) (hp : g.start ≤ p) : g.lo ≤ (g.withStart p).lo := by
  cases g <;> simp only [Reg.withStart, Reg.lo, Reg.start] at * <;> omega

/-- refinement keeps the end and only raises the start -/
theorem refine_bounds (recs : List Rec) (g g' : Reg) (h : refine recs g = some g') :
    g'.hi = g.hi ∧ g.lo ≤ g'.lo := by
  unfold refine at h
  split at h
  · exact absurd h (by simp)
  · rename_i r0 rest hq
    injection h with h; subst h
    have hr0 : g.matches r0 = true :=
      (List.mem_filter.mp (by rw [hq]; simp : r0 ∈ query recs g)).2
    exact ⟨withStart_hi g _, withStart_lo g _ (start_le_of_matches g r0 hr0)⟩

theorem finalRegions_ordered (recs : List Rec) (gs : List Reg)
    (h : gs.Pairwise (fun g g' => g.hi ≤ g'.lo)) :
    (finalRegions recs gs).Pairwise (fun g g' => g.hi ≤ g'.lo) := by
  unfold finalRegions
  refine List.Pairwise.filterMap _ ?_ h
  intro a a' haa b hb b' hb'
  have h1 := refine_bounds recs a b hb
  have h2 := refine_bounds recs a' b' hb'
  omega

/-! ## validity (`start > 0`, `end ≥ start`) of every raw region -/

theorem wholes_valid (a n : Nat) : ∀ g ∈ wholes a n, g.valid = true := by
  intro g hg
  unfold wholes at hg
  obtain ⟨c, _, rfl⟩ := List.mem_map.mp hg
  rfl

theorem between_valid (e e' : Entry) (he : 1 ≤ e.pos) (hlt : e.lt e') :
    ∀ g ∈ between e e', g.valid = true := by
  intro g hg
  unfold between at hg
  by_cases hc : e'.contig = e.contig
  · rw [if_pos hc] at hg
    have hp : e.pos < e'.pos := by
      rcases hlt with h | h
      · omega
      · exact h.2
    simp only [List.mem_singleton] at hg
    subst hg
    simp only [Reg.valid, Bool.and_eq_true, decide_eq_true_eq]
    omega
  · rw [if_neg hc] at hg
    rcases List.mem_append.mp hg with hg | hg
    · rcases List.mem_append.mp hg with hg | hg
      · simp only [List.mem_singleton] at hg
        subst hg
        simp only [Reg.valid, decide_eq_true_eq]
        omega
      · exact wholes_valid _ _ g hg
    · by_cases hp : e'.pos - 1 ≥ 1
      · rw [if_pos hp] at hg
        simp only [List.mem_singleton] at hg
        subst hg
        simp only [Reg.valid, Bool.and_eq_true, decide_eq_true_eq]
        omega
      · rw [if_neg hp] at hg
        simp at hg

theorem body_valid (es : List Entry) (hok : ∀ e ∈ es, 1 ≤ e.pos) (hinc : es.Pairwise Entry.lt) :
    ∀ g ∈ body es, g.valid = true := by
  induction es with
  | nil => intro g hg; simp [body] at hg
  | cons e rest ih =>
    cases rest with
    | nil =>
      intro g hg
      simp only [body, List.mem_singleton] at hg
      subst hg
      have := hok e (by simp)
      simp only [Reg.valid, decide_eq_true_eq]
      omega
    | cons e' rest =>
      have hp := List.pairwise_cons.mp hinc
      have ih' := ih (fun x hx => hok x (List.mem_cons_of_mem _ hx)) hp.2
      intro g hg
      simp only [body] at hg
      rcases List.mem_append.mp hg with hg | hg
      · exact between_valid e e' (hok e (by simp)) (hp.1 e' (by simp)) g hg
      · exact ih' g hg

theorem tail_valid (lastC nContigs : Nat) (hasRecs : Nat → Bool) :
    ∀ g ∈ tail lastC nContigs hasRecs, g.valid = true := by
  intro g hg
  unfold tail at hg
  obtain ⟨c, _, rfl⟩ := List.mem_map.mp hg
  rfl

theorem regions_valid (es : List Entry) (hok : ∀ e ∈ es, 1 ≤ e.pos) (hinc : es.Pairwise Entry.lt)
    (lastC nContigs : Nat) (hasRecs : Nat → Bool) :
    (regions es lastC nContigs hasRecs).all Reg.valid = true := by
  rw [List.all_eq_true]
  intro g hg
  unfold regions at hg
  rcases List.mem_append.mp hg with hg | hg
  · exact body_valid es hok hinc g hg
  · exact tail_valid _ _ _ g hg

end B2Z.Regions
