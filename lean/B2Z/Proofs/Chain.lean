namespace B2Z

variable {α : Type} (key : α → Nat)

def inIv (lo hi : Nat) (x : α) : Bool := decide (lo ≤ key x) && decide (key x < hi)

/-- for a list sorted by key, filtering two adjacent intervals and concatenating
    equals filtering the union interval -/
theorem filter_adjacent (l : List α) (hs : l.Pairwise (fun a b => key a ≤ key b))
    (a b c : Nat) (hab : a ≤ b) (hbc : b ≤ c) :
    l.filter (inIv key a b) ++ l.filter (inIv key b c) = l.filter (inIv key a c) := by
  induction l with
  | nil => simp
  | cons x xs ih =>
    have hxs := (List.pairwise_cons.mp hs).2
    have hx := (List.pairwise_cons.mp hs).1
    have ih' := ih hxs
    by_cases h1 : key x < a
    · -- x in none
      have e1 : inIv key a b x = false := by simp [inIv]; omega
      have e2 : inIv key b c x = false := by simp [inIv]; omega
      have e3 : inIv key a c x = false := by simp [inIv]; omega
      simp [List.filter_cons, e1, e2, e3, ih']
    · by_cases h2 : key x < b
      · have e1 : inIv key a b x = true := by simp [inIv]; omega
        have e2 : inIv key b c x = false := by simp [inIv]; omega
        have e3 : inIv key a c x = true := by simp [inIv]; omega
        simp [List.filter_cons, e1, e2, e3, ih']
      · -- key x ≥ b : nothing later is in [a,b)
        have hnone : xs.filter (inIv key a b) = [] := by
          apply List.filter_eq_nil_iff.mpr
          intro y hy
          have := hx y hy
          simp [inIv]; omega
        have e1 : inIv key a b x = false := by simp [inIv]; omega
        by_cases h3 : key x < c
        · have e2 : inIv key b c x = true := by simp [inIv]; omega
          have e3 : inIv key a c x = true := by simp [inIv]; omega
          rw [hnone] at ih'
          simp [List.filter_cons, e1, e2, e3, hnone]
          simpa using ih'
        · have e2 : inIv key b c x = false := by simp [inIv]; omega
          have e3 : inIv key a c x = false := by simp [inIv]; omega
          simp [List.filter_cons, e1, e2, e3, ih']

/-- chain of boundaries b₀ ≤ b₁ ≤ … : concatenated interval filters = one filter -/
def chainFilter (l : List α) : Nat → List Nat → List α
  | _, [] => []
  | lo, hi :: rest => l.filter (inIv key lo hi) ++ chainFilter l hi rest

def lastOr (d : Nat) : List Nat → Nat
  | [] => d
  | x :: xs => lastOr x xs

theorem le_lastOr (b : Nat) (bs : List Nat) (h : (b :: bs).Pairwise (· ≤ ·)) : b ≤ lastOr b bs := by
  induction bs generalizing b with
  | nil => simp [lastOr]
  | cons c cs ih =>
    have h1 := List.pairwise_cons.mp h
    have hbc : b ≤ c := h1.1 c (by simp)
    have := ih c h1.2
    simp [lastOr]; omega

theorem chain_filter (l : List α) (hs : l.Pairwise (fun a b => key a ≤ key b))
    (lo : Nat) (bs : List Nat) (hmono : (lo :: bs).Pairwise (· ≤ ·)) :
    chainFilter key l lo bs = l.filter (inIv key lo (lastOr lo bs)) := by
  induction bs generalizing lo with
  | nil =>
    simp [chainFilter, lastOr, inIv]
  | cons b bs ih =>
    have h1 := List.pairwise_cons.mp hmono
    have hb : lo ≤ b := h1.1 b (by simp)
    have ih' := ih b h1.2
    simp only [chainFilter, lastOr, ih']
    exact filter_adjacent key l hs lo b (lastOr b bs) hb (le_lastOr b bs h1.2)

end B2Z
