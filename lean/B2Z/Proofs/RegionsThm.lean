import B2Z.Model.Regions
import B2Z.Proofs.Chain
namespace B2Z.Regions

def RecOK (r : Rec) : Prop := 1 ≤ r.pos ∧ r.pos < M

def RegOK : Reg → Prop
  | .bounded _ s e => 1 ≤ s ∧ e < M
  | .openEnd _ s => 1 ≤ s
  | .whole _ => True

theorem inIv_true_iff (lo hi : Nat) (r : Rec) : inIv key lo hi r = true ↔ lo ≤ key r ∧ key r < hi := by
  simp [inIv]

theorem matches_true_iff (g : Reg) (r : Rec) (hr : RecOK r) (hg : RegOK g) :
    g.matches r = true ↔ g.lo ≤ key r ∧ key r < g.hi := by
  obtain ⟨h1, h2⟩ := hr
  cases g with
  | bounded c s e =>
    simp only [RegOK, M] at hg
    simp only [Reg.matches, key, Reg.lo, Reg.hi, M, Bool.and_eq_true, beq_iff_eq, decide_eq_true_eq] at *
    constructor <;> intro h <;> omega
  | openEnd c s =>
    simp only [RegOK] at hg
    simp only [Reg.matches, key, Reg.lo, Reg.hi, M, Bool.and_eq_true, beq_iff_eq, decide_eq_true_eq] at *
    constructor <;> intro h <;> omega
  | whole c =>
    simp only [Reg.matches, key, Reg.lo, Reg.hi, M, Bool.and_eq_true, beq_iff_eq, decide_eq_true_eq] at *
    constructor <;> intro h <;> omega

theorem query_eq_filter (recs : List Rec) (hrecs : ∀ r ∈ recs, RecOK r) (g : Reg) (hg : RegOK g) :
    query recs g = recs.filter (inIv key g.lo g.hi) := by
  unfold query
  apply List.filter_congr
  intro r hr
  rw [Bool.eq_iff_iff, matches_true_iff g r (hrecs r hr) hg, inIv_true_iff]

/-- a list of regions forms a chain from `lo` to `hi` -/
inductive Chain : Nat → List Reg → Nat → Prop
  | nil (a : Nat) : Chain a [] a
  | cons {g gs b} : RegOK g → g.lo ≤ g.hi → Chain g.hi gs b → Chain g.lo (g :: gs) b

theorem Chain.le {a b : Nat} {gs : List Reg} (h : Chain a gs b) : a ≤ b := by
  induction h with
  | nil => exact Nat.le_refl _
  | cons _ h1 _ ih => omega

theorem Chain.append {a b c : Nat} {g1 g2 : List Reg} (h1 : Chain a g1 b) (h2 : Chain b g2 c) :
    Chain a (g1 ++ g2) c := by
  induction h1 with
  | nil => simpa
  | cons hok hle _ ih => exact Chain.cons hok hle (ih h2)

/-- querying a chain of regions, in order, over key-sorted records = one interval filter -/
theorem chain_query (recs : List Rec) (hrecs : ∀ r ∈ recs, RecOK r)
    (hs : recs.Pairwise (fun a b => key a ≤ key b)) {a b : Nat} {gs : List Reg} (h : Chain a gs b) :
    gs.flatMap (query recs) = recs.filter (inIv key a b) := by
  induction h with
  | nil a =>
    simp only [List.flatMap_nil]
    symm; apply List.filter_eq_nil_iff.mpr
    intro r _; simp [inIv]
  | cons hok hle hch ih =>
    rename_i g gs b
    simp only [List.flatMap_cons, ih, query_eq_filter recs hrecs g hok]
    exact filter_adjacent key recs hs g.lo g.hi b hle hch.le


def EntryOK (e : Entry) : Prop := 1 ≤ e.pos ∧ e.pos < M

/-- lexicographic order on (contig, pos) -/
def Entry.lt (e e' : Entry) : Prop := e.contig < e'.contig ∨ (e.contig = e'.contig ∧ e.pos < e'.pos)

theorem wholes_chain (a n : Nat) : Chain (a * M + 1) (wholes a n) ((a + n) * M + 1) := by
  induction n generalizing a with
  | zero => simpa [wholes] using Chain.nil (a * M + 1)
  | succ n ih =>
    have h := ih (a + 1)
    simp only [wholes, List.range'_succ, List.map_cons] at *
    have e : a + 1 + n = a + (n + 1) := by omega
    rw [e] at h
    have hc : Chain (Reg.whole a).lo (Reg.whole a :: List.map Reg.whole (List.range' (a + 1) n))
        ((a + (n + 1)) * M + 1) := by
      apply Chain.cons (g := Reg.whole a) trivial
      · simp [Reg.lo, Reg.hi, M]; omega
      · simpa [Reg.hi] using h
    simpa [Reg.lo] using hc

theorem between_chain (e e' : Entry) (he : EntryOK e) (he' : EntryOK e') (hlt : e.lt e') :
    Chain (ekey e) (between e e') (ekey e') := by
  obtain ⟨h1, h2⟩ := he
  obtain ⟨h1', h2'⟩ := he'
  unfold between
  by_cases hc : e'.contig = e.contig
  · have hp : e.pos < e'.pos := by
      rcases hlt with h | h
      · omega
      · exact h.2
    rw [if_pos hc]
    have : Chain (Reg.bounded e.contig e.pos (e'.pos - 1)).lo [Reg.bounded e.contig e.pos (e'.pos - 1)]
        (Reg.bounded e.contig e.pos (e'.pos - 1)).hi :=
      Chain.cons (by simp [RegOK, M] at *; omega) (by simp [Reg.lo, Reg.hi]; omega) (Chain.nil _)
    have e1 : (Reg.bounded e.contig e.pos (e'.pos - 1)).lo = ekey e := rfl
    have e2 : (Reg.bounded e.contig e.pos (e'.pos - 1)).hi = ekey e' := by
      simp only [Reg.hi, ekey, hc]; omega
    rw [e1, e2] at this; exact this
  · have hcl : e.contig < e'.contig := by
      rcases hlt with h | h
      · exact h
      · exact absurd h.1.symm hc
    rw [if_neg hc]
    -- first link
    have c1 : Chain (ekey e) [Reg.openEnd e.contig e.pos] ((e.contig + 1) * M + 1) := by
      have : Chain (Reg.openEnd e.contig e.pos).lo [Reg.openEnd e.contig e.pos] (Reg.openEnd e.contig e.pos).hi :=
        Chain.cons (by simpa [RegOK] using h1) (by simp [Reg.lo, Reg.hi, M] at *; omega) (Chain.nil _)
      simpa [Reg.lo, Reg.hi, ekey] using this
    -- skipped contigs
    have c2 := wholes_chain (e.contig + 1) (e'.contig - (e.contig + 1))
    have e3 : e.contig + 1 + (e'.contig - (e.contig + 1)) = e'.contig := by omega
    rw [e3] at c2
    -- last link
    have c3 : Chain (e'.contig * M + 1)
        (if e'.pos - 1 ≥ 1 then [Reg.bounded e'.contig 1 (e'.pos - 1)] else []) (ekey e') := by
      by_cases hp : e'.pos - 1 ≥ 1
      · rw [if_pos hp]
        have : Chain (Reg.bounded e'.contig 1 (e'.pos - 1)).lo [Reg.bounded e'.contig 1 (e'.pos - 1)]
            (Reg.bounded e'.contig 1 (e'.pos - 1)).hi :=
          Chain.cons (by simp [RegOK, M] at *; omega) (by simp [Reg.lo, Reg.hi]) (Chain.nil _)
        have e2 : (Reg.bounded e'.contig 1 (e'.pos - 1)).hi = ekey e' := by
          simp only [Reg.hi, ekey]; omega
        rw [e2] at this; exact this
      · rw [if_neg hp]
        have : ekey e' = e'.contig * M + 1 := by simp only [ekey]; omega
        rw [this]; exact Chain.nil _
    exact (c1.append c2).append c3

theorem body_chain (es : List Entry) (hne : es ≠ []) (hok : ∀ e ∈ es, EntryOK e)
    (hinc : es.Pairwise Entry.lt) :
    Chain (ekey (es.head hne)) (body es) (((es.getLast hne).contig + 1) * M + 1) := by
  induction es with
  | nil => exact absurd rfl hne
  | cons e rest ih =>
    cases rest with
    | nil =>
      have h1 := (hok e (by simp)).1
      have : Chain (Reg.openEnd e.contig e.pos).lo [Reg.openEnd e.contig e.pos] (Reg.openEnd e.contig e.pos).hi :=
        Chain.cons (by simpa [RegOK] using h1) (by have := (hok e (by simp)).2; simp [Reg.lo, Reg.hi, M] at *; omega) (Chain.nil _)
      simpa [body, Reg.lo, Reg.hi, ekey] using this
    | cons e' rest =>
      have hp := List.pairwise_cons.mp hinc
      have ih' := ih (by simp) (fun x hx => hok x (List.mem_cons_of_mem _ hx)) hp.2
      have hb := between_chain e e' (hok e (by simp)) (hok e' (by simp)) (hp.1 e' (by simp))
      simp only [body, List.head_cons, List.getLast_cons_cons] at *
      exact hb.append ih'

end B2Z.Regions
