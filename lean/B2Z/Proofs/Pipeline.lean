import B2Z.Model.Pipeline
import B2Z.Proofs.Buffer
import B2Z.Proofs.Plink
import B2Z.Props.C08
import B2Z.Props.C11
/-! # Helper lemmas about the one-column pipeline model (`Model/Pipeline.lean`) used by C01–C03 -/
namespace B2Z.Pipe

/-! ## the explode side: `splitBy`, `icfOf` -/

theorem splitBy_flatten_aux : ∀ (ns : List Nat) (xs : List α), (splitBy ns xs).flatten = xs := by
  intro ns
  induction ns with
  | nil =>
    intro xs
    cases xs <;> simp [splitBy]
  | cons n ns ih =>
    intro xs
    cases xs with
    | nil => simp [splitBy]
    | cons x xs =>
      simp only [splitBy, List.isEmpty_cons, Bool.false_eq_true, if_false, List.flatten_cons, ih]
      exact List.take_append_drop n (x :: xs)

/-- dropping the empty pieces and projecting every piece loses nothing -/
theorem flatten_map_filter_nonempty (g : β → γ) (l : List (List β)) :
    ((l.filter fun p => !p.isEmpty).map fun p => p.map g).flatten = l.flatten.map g := by
  induction l with
  | nil => rfl
  | cons p l ih =>
    cases p with
    | nil => simpa using ih
    | cons x p =>
      simp only [List.filter_cons, List.isEmpty_cons, Bool.not_false, if_true, List.map_cons,
        List.flatten_cons, List.map_append, ih]

theorem icfOf_all_eq (c : Cfg) (vals : List α) : (icfOf c vals).all = vals := by
  unfold icfOf
  simp only
  rw [writeStore_all, flatten_map_filter_nonempty, splitBy_flatten_aux, List.map_map]
  have : ((fun x : α × Nat => x.1) ∘ fun x : α × Nat => (x.1, c.sizes x.2)) = Prod.fst := by
    funext x; rfl
  rw [this, List.zipIdx_map_fst]

theorem icfOf_wf (c : Cfg) (vals : List α) : (icfOf c vals).WF := by
  unfold icfOf
  apply writeStore_wf
  intro p hp
  have := (List.mem_filter.1 hp).2
  intro h
  subst h
  simp at this

/-- a range read of the column's ICF is the slice of the column -/
theorem iterValues_icfOf (c : Cfg) (vals : List α) (a b : Nat) (hab : a < b) (hb : b ≤ vals.length) :
    iterValues (icfOf c vals) a b = (vals.drop a).take (b - a) := by
  have h := C08_iterValues (icfOf c vals) (icfOf_wf c vals) a b hab (by rw [icfOf_all_eq]; exact hb)
  rw [icfOf_all_eq] at h
  exact h

/-! ## the encode side -/

/-- one encode partition's writes overwrite exactly `[a, b)` with the encoded values -/
theorem applyWrites_encodePartition (c : Cfg) (hc : 0 < c.chunk) (enc : α → β) (vals : List α)
    (ab : Nat × Nat) (hab : ab.1 < ab.2) (hb : ab.2 ≤ vals.length) (a : Buf.Arr β) (i : Nat) :
    Buf.applyWrites a (encodePartition c enc (icfOf c vals) ab) i =
      if ab.1 ≤ i ∧ i < ab.2 then (vals[i]?).map enc else a i := by
  unfold encodePartition
  rw [Buf.run_spec c.chunk ab.1 hc, iterValues_icfOf c vals ab.1 ab.2 hab hb]
  simp only [List.length_map, List.length_take, List.length_drop]
  by_cases h : ab.1 ≤ i ∧ i < ab.2
  · have c' : ab.1 ≤ i ∧ i < ab.1 + min (ab.2 - ab.1) (vals.length - ab.1) := by omega
    rw [if_pos h, if_pos c', List.getElem?_map, List.getElem?_take, if_pos (by omega),
      List.getElem?_drop]
    congr 2; omega
  · have c' : ¬ (ab.1 ≤ i ∧ i < ab.1 + min (ab.2 - ab.1) (vals.length - ab.1)) := by omega
    rw [if_neg h, if_neg c']

/-- any sequence of (valid) encode partitions, in any order: a row is overwritten with its encoding
    iff some partition contains it -/
theorem applyWrites_flatMap_encodePartition (c : Cfg) (hc : 0 < c.chunk) (enc : α → β)
    (vals : List α) (i : Nat) :
    ∀ (order : List (Nat × Nat)), (∀ ab ∈ order, ab.1 < ab.2 ∧ ab.2 ≤ vals.length) →
      ∀ (a : Buf.Arr β),
      Buf.applyWrites a (order.flatMap (encodePartition c enc (icfOf c vals))) i =
        if ∃ ab ∈ order, ab.1 ≤ i ∧ i < ab.2 then (vals[i]?).map enc else a i := by
  intro order
  induction order with
  | nil => intro _ a; simp [Buf.applyWrites_nil]
  | cons ab rest ih =>
    intro hv a
    have hab := hv ab List.mem_cons_self
    have hrest : ∀ x ∈ rest, x.1 < x.2 ∧ x.2 ≤ vals.length :=
      fun x hx => hv x (List.mem_cons_of_mem _ hx)
    rw [List.flatMap_cons, Buf.applyWrites_append, ih hrest]
    by_cases h1 : ∃ ab ∈ rest, ab.1 ≤ i ∧ i < ab.2
    · have c' : ∃ x ∈ ab :: rest, x.1 ≤ i ∧ i < x.2 := by
        obtain ⟨x, hx, hp⟩ := h1
        exact ⟨x, List.mem_cons_of_mem _ hx, hp⟩
      rw [if_pos h1, if_pos c']
    · rw [if_neg h1, applyWrites_encodePartition c hc enc vals ab hab.1 hab.2]
      by_cases h2 : ab.1 ≤ i ∧ i < ab.2
      · have c' : ∃ x ∈ ab :: rest, x.1 ≤ i ∧ i < x.2 := ⟨ab, List.mem_cons_self, h2⟩
        rw [if_pos h2, if_pos c']
      · have c' : ¬ ∃ x ∈ ab :: rest, x.1 ≤ i ∧ i < x.2 := by
          rintro ⟨x, hx, hp⟩
          rcases List.mem_cons.1 hx with rfl | hx
          · exact h2 hp
          · exact h1 ⟨x, hx, hp⟩
        rw [if_neg h2, if_neg c']

/-! ## consequences of `ExactCover` -/

theorem ExactCover.stop_le (h : ExactCover ps c p total) (x : Nat × Nat) (hx : x ∈ ps) :
    x.2 ≤ total := by
  obtain ⟨j, hj, rfl⟩ := List.getElem_of_mem hx
  have hne := h.nonempty _ (List.getElem_mem hj)
  have := (C11_cover h ((ps[j]'hj).2 - 1)).2 ⟨j, hj, by omega, by omega⟩
  omega

theorem totalWritten_le (n c : Nat) (m : Option Nat) : totalWritten n c m ≤ n := by
  unfold totalWritten; exact Nat.min_le_right _ _

theorem totalWritten_some (n c m : Nat) (hc : 0 < c) :
    totalWritten n c (some m) = min (m * c) n := by
  unfold totalWritten numChunks
  simp only
  have h1 := ceilDiv_mul_ge n c hc
  by_cases h : m ≤ ceilDiv n c
  · rw [Nat.min_eq_right h]
  · have h2 : ceilDiv n c ≤ m := by omega
    have h3 := Nat.mul_le_mul_right c h2
    rw [Nat.min_eq_left h2]
    omega

/-- the validity facts about the encode partitions used everywhere below -/
theorem order_valid (c : Cfg) (n : Nat) (hn : 0 < n) (hc : 0 < c.chunk) (hp : 0 < c.encodeParts)
    (hm : ∀ x, c.maxChunks = some x → 0 < x) (order : List (Nat × Nat))
    (hperm : order.Perm (B2Z.genPartitions n c.chunk c.encodeParts c.maxChunks)) :
    (∀ ab ∈ order, ab.1 < ab.2 ∧ ab.2 ≤ rowsWritten c n ∧ c.chunk ∣ ab.1) ∧
    (∀ i, (∃ ab ∈ order, ab.1 ≤ i ∧ i < ab.2) ↔ i < rowsWritten c n) := by
  have hcov := C11_encode_partitions n c.chunk c.encodeParts c.maxChunks hn hc hp hm
  constructor
  · intro ab hab
    have hmem := hperm.mem_iff.1 hab
    exact ⟨hcov.nonempty ab hmem, ExactCover.stop_le hcov ab hmem, hcov.aligned ab hmem⟩
  · intro i
    unfold rowsWritten
    rw [C11_cover hcov i]
    constructor
    · rintro ⟨ab, hab, h1, h2⟩
      obtain ⟨j, hj, rfl⟩ := List.getElem_of_mem (hperm.mem_iff.1 hab)
      exact ⟨j, hj, h1, h2⟩
    · rintro ⟨j, hj, h1, h2⟩
      exact ⟨_, hperm.mem_iff.2 (List.getElem_mem hj), h1, h2⟩

/-- the pipeline, read back -/
theorem pipeline_spec (c : Cfg) (enc : α → β) (vals : List α)
    (hn : vals ≠ []) (hc : 0 < c.chunk) (hp : 0 < c.encodeParts) (hm : ∀ x, c.maxChunks = some x → 0 < x)
    (order : List (Nat × Nat))
    (hperm : order.Perm (B2Z.genPartitions vals.length c.chunk c.encodeParts c.maxChunks)) (i : Nat) :
    pipeline c enc vals order i =
      if i < rowsWritten c vals.length then (vals[i]?).map enc else none := by
  have hpos : 0 < vals.length := List.length_pos_iff.2 hn
  obtain ⟨hv, hcover⟩ := order_valid c vals.length hpos hc hp hm order hperm
  have hle : rowsWritten c vals.length ≤ vals.length := totalWritten_le _ _ _
  unfold pipeline
  rw [applyWrites_flatMap_encodePartition c hc enc vals i order
    (fun ab hab => ⟨(hv ab hab).1, Nat.le_trans (hv ab hab).2.1 hle⟩)]
  by_cases h : i < rowsWritten c vals.length
  · rw [if_pos h, if_pos ((hcover i).2 h)]
  · rw [if_neg h, if_neg (fun h' => h ((hcover i).1 h'))]

/-! ## the chunk grid -/

/-- a cell changed by a write log lies inside one of its writes -/
theorem exists_write_of_applyWrites_ne (i : Nat) :
    ∀ (ws : List (Nat × List β)) (a : Buf.Arr β), Buf.applyWrites a ws i ≠ a i →
      ∃ w ∈ ws, w.1 ≤ i ∧ i < w.1 + w.2.length := by
  intro ws
  induction ws with
  | nil => intro a h; exact absurd rfl h
  | cons w ws ih =>
    intro a h
    rw [Buf.applyWrites_cons] at h
    by_cases hw : w.1 ≤ i ∧ i < w.1 + w.2.length
    · exact ⟨w, List.mem_cons_self, hw⟩
    · have h' : Buf.writeBlock a w.1 w.2 i = a i := by
        unfold Buf.writeBlock; rw [if_neg hw]
      rw [← h'] at h
      obtain ⟨x, hx, hp⟩ := ih _ h
      exact ⟨x, List.mem_cons_of_mem _ hx, hp⟩

theorem ceilDiv_lt_iff (k t c : Nat) (hc : 0 < c) : k < ceilDiv t c ↔ k * c < t := by
  unfold ceilDiv
  rw [Nat.lt_iff_add_one_le, Nat.le_div_iff_mul_le hc, Nat.add_mul]
  omega

theorem chunk_grid (c : Cfg) (enc : α → β) (vals : List α)
    (hn : vals ≠ []) (hc : 0 < c.chunk) (hp : 0 < c.encodeParts) (hm : ∀ x, c.maxChunks = some x → 0 < x)
    (order : List (Nat × Nat))
    (hperm : order.Perm (B2Z.genPartitions vals.length c.chunk c.encodeParts c.maxChunks)) (k : Nat) :
    k ∈ Buf.chunkKeys c.chunk (order.flatMap (encodePartition c enc (icfOf c vals))) ↔
      k < B2Z.ceilDiv (rowsWritten c vals.length) c.chunk := by
  have hpos : 0 < vals.length := List.length_pos_iff.2 hn
  obtain ⟨hv, hcover⟩ := order_valid c vals.length hpos hc hp hm order hperm
  have hle : rowsWritten c vals.length ≤ vals.length := totalWritten_le _ _ _
  -- every write of every partition: aligned, non-empty, at most a chunk, inside the partition
  have hwrites : ∀ ab ∈ order, ∀ w ∈ encodePartition c enc (icfOf c vals) ab,
      c.chunk ∣ w.1 ∧ 0 < w.2.length ∧ w.2.length ≤ c.chunk ∧ ab.1 ≤ w.1 ∧ w.1 + w.2.length ≤ ab.2 := by
    intro ab hab w hw
    obtain ⟨h1, h2, h3⟩ := hv ab hab
    unfold encodePartition at hw
    have := Buf.run_aligned c.chunk ab.1 hc h3 _ w hw
    rw [iterValues_icfOf c vals ab.1 ab.2 h1 (Nat.le_trans h2 hle)] at this
    simp only [List.length_map, List.length_take, List.length_drop] at this
    refine ⟨this.1, this.2.1, this.2.2.1, this.2.2.2.1, ?_⟩
    omega
  rw [ceilDiv_lt_iff _ _ _ hc]
  unfold Buf.chunkKeys
  rw [List.mem_map]
  constructor
  · rintro ⟨w, hw, rfl⟩
    obtain ⟨ab, hab, hw⟩ := List.mem_flatMap.1 hw
    obtain ⟨⟨q, hq⟩, h2, _, _, h5⟩ := hwrites ab hab w hw
    have := (hv ab hab).2.1
    rw [hq, Nat.mul_div_cancel_left _ hc, Nat.mul_comm]
    omega
  · intro hk
    have hspec := pipeline_spec c enc vals hn hc hp hm order hperm (k * c.chunk)
    unfold pipeline at hspec
    rw [if_pos hk, List.getElem?_eq_getElem (by omega)] at hspec
    have hne : Buf.applyWrites (fun _ => none)
        (order.flatMap (encodePartition c enc (icfOf c vals))) (k * c.chunk) ≠
        (fun _ => (none : Option β)) (k * c.chunk) := by
      rw [hspec]; simp
    obtain ⟨w, hw, h1, h2⟩ := exists_write_of_applyWrites_ne _ _ _ hne
    refine ⟨w, hw, ?_⟩
    obtain ⟨ab, hab, hw'⟩ := List.mem_flatMap.1 hw
    obtain ⟨⟨q, hq⟩, _, h3, _, _⟩ := hwrites ab hab w hw'
    rw [hq, Nat.mul_div_cancel_left _ hc]
    rw [hq] at h1 h2
    -- c*q ≤ k*c < c*q + c  ⇒  q = k
    have e1 : q ≤ k := by
      apply Nat.le_of_mul_le_mul_left _ hc
      rw [Nat.mul_comm c.chunk k]; exact h1
    have e2 : k < q + 1 := by
      apply Nat.lt_of_mul_lt_mul_left (a := c.chunk)
      rw [Nat.mul_add, Nat.mul_one, Nat.mul_comm c.chunk k]; omega
    omega

end B2Z.Pipe
