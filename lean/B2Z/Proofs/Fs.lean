import B2Z.Model.Fs
/-! # Generic facts about `B2Z.Fs.exec`

* `exec_check_cons`, `exec_nil`: unfolding of `exec` on a leading check.
* `wp I prog Q s`: a weakest-precondition calculus.  `wp I prog Q s` says that, running `prog`
  from `s`, every check passes, the state *before* every mutation satisfies `I` (so a kill at that
  point leaves a state satisfying `I`), and the state reached at the end satisfies `Q`.
* `wp_exec_inv`: soundness for every kill point; `wp_exec_post`: soundness for complete runs.
-/
namespace B2Z.Fs

variable {Obj : Type} [DecidableEq Obj]

theorem exec_nil (s : St Obj) (fuel : Option Nat) : exec s [] fuel = ⟨s, false, 0⟩ := by
  simp [exec, exec.go]

/-- a check performs no mutation: it either aborts the program in the current state or is skipped -/
theorem exec_check_cons (s : St Obj) (p : St Obj → Bool) (rest : List (Step Obj (St Obj)))
    (fuel : Option Nat) :
    exec s (.check p :: rest) fuel = if p s then exec s rest fuel else ⟨s, true, 0⟩ := by
  simp [exec, exec.go]

theorem exec_check_fail (s : St Obj) (p : St Obj → Bool) (rest : List (Step Obj (St Obj)))
    (fuel : Option Nat) (h : p s = false) :
    (exec s (.check p :: rest) fuel).error = true ∧ (exec s (.check p :: rest) fuel).st = s := by
  simp [exec_check_cons, h]

theorem exec_check_pass (s : St Obj) (p : St Obj → Bool) (rest : List (Step Obj (St Obj)))
    (fuel : Option Nat) (h : p s = true) :
    exec s (.check p :: rest) fuel = exec s rest fuel := by
  simp [exec_check_cons, h]

/-- weakest precondition: all checks pass, `I` holds before every mutation, `Q` holds at the end -/
def wp (I : St Obj → Prop) : List (Step Obj (St Obj)) → (St Obj → Prop) → St Obj → Prop
  | [], Q, s => Q s
  | .check p :: rest, Q, s => p s = true ∧ wp I rest Q s
  | .set o v :: rest, Q, s => I s ∧ wp I rest Q (upd s o v)
  | .move ps :: rest, Q, s => I s ∧ wp I rest Q (applyMove s ps)

theorem wp_append (I : St Obj → Prop) (p q : List (Step Obj (St Obj))) (Q : St Obj → Prop)
    (s : St Obj) : wp I (p ++ q) Q s ↔ wp I p (wp I q Q) s := by
  induction p generalizing s with
  | nil => simp [wp]
  | cons a p ih =>
    cases a with
    | set o v => simp [wp, ih]
    | move ps => simp [wp, ih]
    | check c => simp [wp, ih]

theorem wp_mono (I : St Obj → Prop) (p : List (Step Obj (St Obj))) (Q Q' : St Obj → Prop)
    (h : ∀ s, Q s → Q' s) (s : St Obj) : wp I p Q s → wp I p Q' s := by
  induction p generalizing s with
  | nil => exact h s
  | cons a p ih =>
    cases a with
    | set o v => exact fun ⟨h1, h2⟩ => ⟨h1, ih _ h2⟩
    | move ps => exact fun ⟨h1, h2⟩ => ⟨h1, ih _ h2⟩
    | check c => exact fun ⟨h1, h2⟩ => ⟨h1, ih _ h2⟩

/-- sequencing -/
theorem wp_seq (I : St Obj → Prop) (p q : List (Step Obj (St Obj))) (M Q : St Obj → Prop)
    (s : St Obj) (hp : wp I p M s) (hq : ∀ s, M s → wp I q Q s) : wp I (p ++ q) Q s :=
  (wp_append I p q Q s).2 (wp_mono I p M _ hq s hp)

/-- loop rule: `J pre` is the loop invariant after the elements `pre` have been processed -/
theorem wp_flatMap {α : Type} (I : St Obj → Prop) (f : α → List (Step Obj (St Obj)))
    (J : List α → St Obj → Prop) (l : List α)
    (hJ : ∀ pre x, x ∈ l → ∀ s, J pre s → wp I (f x) (J (pre ++ [x])) s) :
    ∀ pre s, J pre s → wp I (l.flatMap f) (J (pre ++ l)) s := by
  induction l with
  | nil => intro pre s h; simpa [wp] using h
  | cons x l ih =>
    intro pre s h
    rw [List.flatMap_cons]
    refine wp_seq I _ _ (J (pre ++ [x])) _ s (hJ pre x (List.mem_cons_self ..) s h) ?_
    intro s' h'
    have := ih (fun pre y hy => hJ pre y (List.mem_cons_of_mem _ hy)) (pre ++ [x]) s' h'
    simpa using this

theorem wp_map {α : Type} (I : St Obj → Prop) (f : α → Step Obj (St Obj))
    (J : List α → St Obj → Prop) (l : List α)
    (hJ : ∀ pre x, x ∈ l → ∀ s, J pre s → wp I [f x] (J (pre ++ [x])) s) :
    ∀ pre s, J pre s → wp I (l.map f) (J (pre ++ l)) s := by
  have : ∀ l : List α, l.map f = l.flatMap (fun x => [f x]) := by
    intro l
    induction l with
    | nil => rfl
    | cons x l ih => simp [List.flatMap_cons, ih]
  rw [this]
  exact wp_flatMap I (fun x => [f x]) J l hJ

theorem wp_go_inv (I : St Obj → Prop) (Q : St Obj → Prop) (hQ : ∀ s, Q s → I s)
    (fuel : Option Nat) (prog : List (Step Obj (St Obj))) :
    ∀ (s : St Obj) (n : Nat), wp I prog Q s → I (exec.go fuel s n prog).st := by
  induction prog with
  | nil => intro s n h; exact hQ s h
  | cons a p ih =>
    intro s n h
    cases a with
    | set o v =>
      simp only [exec.go]
      split
      · exact h.1
      · exact ih _ _ h.2
    | move ps =>
      simp only [exec.go]
      split
      · exact h.1
      · exact ih _ _ h.2
    | check c =>
      simp only [exec.go, h.1, if_true]
      exact ih _ _ h.2

theorem wp_go_post (I : St Obj → Prop) (Q : St Obj → Prop)
    (prog : List (Step Obj (St Obj))) :
    ∀ (s : St Obj) (n : Nat), wp I prog Q s →
      Q (exec.go none s n prog).st ∧ (exec.go none s n prog).error = false := by
  induction prog with
  | nil => intro s n h; exact ⟨h, rfl⟩
  | cons a p ih =>
    intro s n h
    cases a with
    | set o v =>
      simp only [exec.go]
      rw [if_neg (by simp)]
      exact ih _ _ h.2
    | move ps =>
      simp only [exec.go]
      rw [if_neg (by simp)]
      exact ih _ _ h.2
    | check c =>
      simp only [exec.go, h.1, if_true]
      exact ih _ _ h.2

/-- soundness for every kill point: the state a (possibly killed) run ends in satisfies `I` -/
theorem wp_exec_inv (I Q : St Obj → Prop) (hQ : ∀ s, Q s → I s) (s : St Obj)
    (prog : List (Step Obj (St Obj))) (fuel : Option Nat) (h : wp I prog Q s) :
    I (exec s prog fuel).st :=
  wp_go_inv I Q hQ fuel prog s 0 h

/-- soundness for complete runs: the run ends without error in a state satisfying `Q` -/
theorem wp_exec_post (I Q : St Obj → Prop) (s : St Obj)
    (prog : List (Step Obj (St Obj))) (h : wp I prog Q s) :
    Q (exec s prog none).st ∧ (exec s prog none).error = false :=
  wp_go_post I Q prog s 0 h

end B2Z.Fs
