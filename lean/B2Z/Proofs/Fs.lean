import B2Z.Model.Fs
/-! # Generic facts about `B2Z.Fs.exec`

* `exec_check_cons`, `exec_nil`: unfolding of `exec` on a leading check.
* `wp I prog Q s`: a weakest-precondition calculus.  `wp I prog Q s` says that, running `prog`
  from `s`, every check passes, the state *before* every mutation satisfies `I` (so a kill at that
  point leaves a state satisfying `I`), and the state reached at the end satisfies `Q`.
* `wp_exec_inv`: soundness for every kill point; `wp_exec_post`: soundness for complete runs.
-/
namespace B2Z.Fs

variable {Obj : Type} [DecidableEq Obj]

theorem exec_nil (s : St Obj) (fuel : Option Nat) : exec s [] fuel = ⟨s, false, 0⟩ := by
  simp [exec, exec.go]

/-- a check performs no mutation: it either aborts the program in the current state or is skipped -/
theorem exec_check_cons (s : St Obj) (p : St Obj → Bool) (rest : List (Step Obj (St Obj)))
    (fuel : Option Nat) :
    exec s (.check p :: rest) fuel = if p s then exec s rest fuel else ⟨s, true, 0⟩ := by
  simp [exec, exec.go]

theorem exec_check_fail (s : St Obj) (p : St Obj → Bool) (rest : List (Step Obj (St Obj)))
    (fuel : Option Nat) (h : p s = false) :
    (exec s (.check p :: rest) fuel).error = true ∧ (exec s (.check p :: rest) fuel).st = s := by
  simp [exec_check_cons, h]

theorem exec_check_pass (s : St Obj) (p : St Obj → Bool) (rest : List (Step Obj (St Obj)))
    (fuel : Option Nat) (h : p s = true) :
    exec s (.check p :: rest) fuel = exec s rest fuel := by
  simp [exec_check_cons, h]

/-- weakest precondition: all checks pass, `I` holds before every mutation, `Q` holds at the end -/
def wp (I : St Obj → Prop) : List (Step Obj (St Obj)) → (St Obj → Prop) → St Obj → Prop
  | [], Q, s => Q s
  | .check p :: rest, Q, s => p s = true ∧ wp I rest Q s
  | .set o v :: rest, Q, s => I s ∧ wp I rest Q (upd s o v)
  | .move ps :: rest, Q, s => I s ∧ wp I rest Q (applyMove s ps)

theorem wp_append (I : St Obj → Prop) (p q : List (Step Obj (St Obj))) (Q : St Obj → Prop)
    (s : St Obj) : wp I (p ++ q) Q s ↔ wp I p (wp I q Q) s := by
  induction p generalizing s with
  | nil => simp [wp]
  | cons a p ih =>
    cases a with
    | set o v => simp [wp, ih]
    | move ps => simp [wp, ih]
    | check c => simp [wp, ih]

theorem wp_mono (I : St Obj → Prop) (p : List (Step Obj (St Obj))) (Q Q' : St Obj → Prop)
    (h : ∀ s, Q s → Q' s) (s : St Obj) : wp I p Q s → wp I p Q' s := by
  induction p generalizing s with
  | nil => exact h s
  | cons a p ih =>
    cases a with
    | set o v => exact fun ⟨h1, h2⟩ => ⟨h1, ih _ h2⟩
    | move ps => exact fun ⟨h1, h2⟩ => ⟨h1, ih _ h2⟩
    | check c => exact fun ⟨h1, h2⟩ => ⟨h1, ih _ h2⟩

/-- sequencing -/
theorem wp_seq (I : St Obj → Prop) (p q : List (Step Obj (St Obj))) (M Q : St Obj → Prop)
    (s : St Obj) (hp : wp I p M s) (hq : ∀ s, M s → wp I q Q s) : wp I (p ++ q) Q s :=
  (wp_append I p q Q s).2 (wp_mono I p M _ hq s hp)

/-- loop rule: `J pre` is the loop invariant after the elements `pre` have been processed -/
theorem wp_flatMap {α : Type} (I : St Obj → Prop) (f : α → List (Step Obj (St Obj)))
    (J : List α → St Obj → Prop) (l : List α)
    (hJ : ∀ pre x, x ∈ l → ∀ s, J pre s → wp I (f x) (J (pre ++ [x])) s) :
    ∀ pre s, J pre s → wp I (l.flatMap f) (J (pre ++ l)) s := by
  induction l with
  | nil => intro pre s h; simpa [wp] using h
  | cons x l ih =>
    intro pre s h
    rw [List.flatMap_cons]
    refine wp_seq I _ _ (J (pre ++ [x])) _ s (hJ pre x (List.mem_cons_self ..) s h) ?_
    intro s' h'
    have := ih (fun pre y hy => hJ pre y (List.mem_cons_of_mem _ hy)) (pre ++ [x]) s' h'
    simpa using this

theorem wp_map {α : Type} (I : St Obj → Prop) (f : α → Step Obj (St Obj))
    (J : List α → St Obj → Prop) (l : List α)
    (hJ : ∀ pre x, x ∈ l → ∀ s, J pre s → wp I [f x] (J (pre ++ [x])) s) :
    ∀ pre s, J pre s → wp I (l.map f) (J (pre ++ l)) s := by
  have : ∀ l : List α, l.map f = l.flatMap (fun x => [f x]) := by
    intro l
    induction l with
    | nil => rfl
    | cons x l ih => simp [List.flatMap_cons, ih]
  rw [this]
  exact wp_flatMap I (fun x => [f x]) J l hJ

theorem wp_go_inv (I : St Obj → Prop) (Q : St Obj → Prop) (hQ : ∀ s, Q s → I s)
    (fuel : Option Nat) (prog : List (Step Obj (St Obj))) :
    ∀ (s : St Obj) (n : Nat), wp I prog Q s → I (exec.go fuel s n prog).st := by
  induction prog with
  | nil => intro s n h; exact hQ s h
  | cons a p ih =>
    intro s n h
    cases a with
    | set o v =>
      simp only [exec.go]
      split
      · exact h.1
      · exact ih _ _ h.2
    | move ps =>
      simp only [exec.go]
      split
      · exact h.1
      · exact ih _ _ h.2
    | check c =>
      simp only [exec.go, h.1, if_true]
      exact ih _ _ h.2

theorem wp_go_post (I : St Obj → Prop) (Q : St Obj → Prop)
    (prog : List (Step Obj (St Obj))) :
    ∀ (s : St Obj) (n : Nat), wp I prog Q s →
      Q (exec.go none s n prog).st ∧ (exec.go none s n prog).error = false := by
  induction prog with
  | nil => intro s n h; exact ⟨h, rfl⟩
  | cons a p ih =>
    intro s n h
    cases a with
    | set o v =>
      simp only [exec.go]
      rw [if_neg (by simp)]
      exact ih _ _ h.2
    | move ps =>
      simp only [exec.go]
      rw [if_neg (by simp)]
      exact ih _ _ h.2
    | check c =>
      simp only [exec.go, h.1, if_true]
      exact ih _ _ h.2

/-- soundness for every kill point: the state a (possibly killed) run ends in satisfies `I` -/
theorem wp_exec_inv (I Q : St Obj → Prop) (hQ : ∀ s, Q s → I s) (s : St Obj)
    (prog : List (Step Obj (St Obj))) (fuel : Option Nat) (h : wp I prog Q s) :
    I (exec s prog fuel).st :=
  wp_go_inv I Q hQ fuel prog s 0 h

/-- soundness for complete runs: the run ends without error in a state satisfying `Q` -/
theorem wp_exec_post (I Q : St Obj → Prop) (s : St Obj)
    (prog : List (Step Obj (St Obj))) (h : wp I prog Q s) :
    Q (exec s prog none).st ∧ (exec s prog none).error = false :=
  wp_go_post I Q prog s 0 h

/-! ## `wpe`: checks may fail

`wpe I G prog Q s`: `I` holds before every step (mutation *or* check), so a kill or a failing check
leaves a state satisfying `I`; if the proposition `G` holds then every check passes; `Q` holds at
the end of a run in which every check passed. -/

def wpe (I : St Obj → Prop) (G : Prop) : List (Step Obj (St Obj)) → (St Obj → Prop) → St Obj → Prop
  | [], Q, s => Q s
  | .check p :: rest, Q, s => I s ∧ (G → p s = true) ∧ (p s = true → wpe I G rest Q s)
  | .set o v :: rest, Q, s => I s ∧ wpe I G rest Q (upd s o v)
  | .move ps :: rest, Q, s => I s ∧ wpe I G rest Q (applyMove s ps)

theorem wpe_append (I : St Obj → Prop) (G : Prop) (p q : List (Step Obj (St Obj))) (Q : St Obj → Prop)
    (s : St Obj) : wpe I G (p ++ q) Q s ↔ wpe I G p (wpe I G q Q) s := by
  induction p generalizing s with
  | nil => simp [wpe]
  | cons a p ih =>
    cases a with
    | set o v => simp [wpe, ih]
    | move ps => simp [wpe, ih]
    | check c => simp [wpe, ih]

theorem wpe_mono (I : St Obj → Prop) (G : Prop) (p : List (Step Obj (St Obj))) (Q Q' : St Obj → Prop)
    (h : ∀ s, Q s → Q' s) (s : St Obj) : wpe I G p Q s → wpe I G p Q' s := by
  induction p generalizing s with
  | nil => exact h s
  | cons a p ih =>
    cases a with
    | set o v => exact fun ⟨h1, h2⟩ => ⟨h1, ih _ h2⟩
    | move ps => exact fun ⟨h1, h2⟩ => ⟨h1, ih _ h2⟩
    | check c => exact fun ⟨h1, h2, h3⟩ => ⟨h1, h2, fun hc => ih _ (h3 hc)⟩

theorem wpe_seq (I : St Obj → Prop) (G : Prop) (p q : List (Step Obj (St Obj))) (M Q : St Obj → Prop)
    (s : St Obj) (hp : wpe I G p M s) (hq : ∀ s, M s → wpe I G q Q s) : wpe I G (p ++ q) Q s :=
  (wpe_append I G p q Q s).2 (wpe_mono I G p M _ hq s hp)

theorem wpe_flatMap {α : Type} (I : St Obj → Prop) (G : Prop) (f : α → List (Step Obj (St Obj)))
    (J : List α → St Obj → Prop) (l : List α)
    (hJ : ∀ pre x post, l = pre ++ x :: post → ∀ s, J pre s → wpe I G (f x) (J (pre ++ [x])) s) :
    ∀ s, J [] s → wpe I G (l.flatMap f) (J l) s := by
  suffices H : ∀ (l' pre : List α), l = pre ++ l' → ∀ s, J pre s →
      wpe I G (l'.flatMap f) (J (pre ++ l')) s by
    intro s h
    simpa using H l [] (by simp) s h
  intro l'
  induction l' with
  | nil => intro pre _ s h; simpa [wpe] using h
  | cons x l' ih =>
    intro pre e s h
    rw [List.flatMap_cons]
    refine wpe_seq I G _ _ (J (pre ++ [x])) _ s (hJ pre x l' e s h) ?_
    intro s' h'
    have := ih (pre ++ [x]) (by simp [e]) s' h'
    simpa using this

theorem wpe_map {α : Type} (I : St Obj → Prop) (G : Prop) (f : α → Step Obj (St Obj))
    (J : List α → St Obj → Prop) (l : List α)
    (hJ : ∀ pre x post, l = pre ++ x :: post → ∀ s, J pre s → wpe I G [f x] (J (pre ++ [x])) s) :
    ∀ s, J [] s → wpe I G (l.map f) (J l) s := by
  have : ∀ l : List α, l.map f = l.flatMap (fun x => [f x]) := by
    intro l
    induction l with
    | nil => rfl
    | cons x l ih => simp [List.flatMap_cons, ih]
  rw [this]
  exact wpe_flatMap I G (fun x => [f x]) J l hJ

theorem wpe_go_inv (I : St Obj → Prop) (G : Prop) (Q : St Obj → Prop) (hQ : ∀ s, Q s → I s)
    (fuel : Option Nat) (prog : List (Step Obj (St Obj))) :
    ∀ (s : St Obj) (n : Nat), wpe I G prog Q s → I (exec.go fuel s n prog).st := by
  induction prog with
  | nil => intro s n h; exact hQ s h
  | cons a p ih =>
    intro s n h
    cases a with
    | set o v =>
      simp only [exec.go]
      split
      · exact h.1
      · exact ih _ _ h.2
    | move ps =>
      simp only [exec.go]
      split
      · exact h.1
      · exact ih _ _ h.2
    | check c =>
      simp only [exec.go]
      split
      · rename_i hc; exact ih _ _ (h.2.2 hc)
      · exact h.1

theorem wpe_go_post (I : St Obj → Prop) (G : Prop) (Q : St Obj → Prop)
    (prog : List (Step Obj (St Obj))) :
    ∀ (s : St Obj) (n : Nat), wpe I G prog Q s →
      (G → (exec.go none s n prog).error = false) ∧
      ((exec.go none s n prog).error = false → Q (exec.go none s n prog).st) := by
  induction prog with
  | nil => intro s n h; exact ⟨fun _ => rfl, fun _ => h⟩
  | cons a p ih =>
    intro s n h
    cases a with
    | set o v =>
      simp only [exec.go]
      rw [if_neg (by simp)]
      exact ih _ _ h.2
    | move ps =>
      simp only [exec.go]
      rw [if_neg (by simp)]
      exact ih _ _ h.2
    | check c =>
      simp only [exec.go]
      split
      · rename_i hc; exact ih _ _ (h.2.2 hc)
      · rename_i hc
        exact ⟨fun g => absurd (h.2.1 g) hc, fun e => by simp at e⟩

/-- every kill point and every failing check leaves a state satisfying `I` -/
theorem wpe_exec_inv (I : St Obj → Prop) (G : Prop) (Q : St Obj → Prop) (hQ : ∀ s, Q s → I s)
    (s : St Obj) (prog : List (Step Obj (St Obj))) (fuel : Option Nat) (h : wpe I G prog Q s) :
    I (exec s prog fuel).st :=
  wpe_go_inv I G Q hQ fuel prog s 0 h

/-- complete runs: under `G` no check fails; a run without error ends in `Q` -/
theorem wpe_exec_post (I : St Obj → Prop) (G : Prop) (Q : St Obj → Prop) (s : St Obj)
    (prog : List (Step Obj (St Obj))) (h : wpe I G prog Q s) :
    (G → (exec s prog none).error = false) ∧
    ((exec s prog none).error = false → Q (exec s prog none).st) :=
  wpe_go_post I G Q prog s 0 h

/-! ## `applyMove` -/

theorem applyMove_single (s : St Obj) (a b x : Obj) :
    applyMove s [(a, b)] x = if b = x then s a else if a = x then V.absent else s x := by
  simp only [applyMove, List.find?_cons, List.find?_nil, List.any_cons, List.any_nil, Bool.or_false]
  by_cases h : b = x <;> simp [h]

theorem applyMove_not_target (s : St Obj) (ps : List (Obj × Obj)) (x : Obj)
    (h : ∀ p ∈ ps, p.2 ≠ x) :
    applyMove s ps x = if ps.any (fun p => p.1 = x) then V.absent else s x := by
  have : ps.find? (fun p => p.2 = x) = none := by
    rw [List.find?_eq_none]
    intro p hp; simpa using h p hp
  simp only [applyMove, this]

theorem applyMove_other (s : St Obj) (ps : List (Obj × Obj)) (x : Obj)
    (h : ∀ p ∈ ps, p.2 ≠ x) (h' : ∀ p ∈ ps, p.1 ≠ x) : applyMove s ps x = s x := by
  rw [applyMove_not_target s ps x h, if_neg]
  simp only [List.any_eq_true, decide_eq_true_eq, not_exists, not_and]
  exact h'

theorem applyMove_source (s : St Obj) (ps : List (Obj × Obj)) (x : Obj)
    (h : ∀ p ∈ ps, p.2 ≠ x) (h' : ∃ p ∈ ps, p.1 = x) : applyMove s ps x = V.absent := by
  rw [applyMove_not_target s ps x h, if_pos]
  simp only [List.any_eq_true, decide_eq_true_eq]
  exact h'

theorem applyMove_target (s : St Obj) (ps : List (Obj × Obj)) (x : Obj)
    (h : ∃ p ∈ ps, p.2 = x) : ∃ p ∈ ps, p.2 = x ∧ applyMove s ps x = s p.1 := by
  cases hf : ps.find? (fun p => p.2 = x) with
  | none =>
    rw [List.find?_eq_none] at hf
    obtain ⟨p, hp, e⟩ := h
    exact absurd (by simpa using e) (hf p hp)
  | some p =>
    refine ⟨p, List.mem_of_find?_eq_some hf, by simpa using List.find?_some hf, ?_⟩
    simp only [applyMove, hf]

/-- the atomic rename of a directory `A → B` carrying the objects `f r → g r`, `r ∈ l` -/
theorem applyMove_dir {ρ : Type} (s : St Obj) (A B : Obj) (f g : ρ → Obj) (l : List ρ)
    (hB : ∀ r, g r ≠ B) (hg : ∀ r r', g r = g r' → r = r') :
    applyMove s ((A, B) :: l.map (fun r => (f r, g r))) B = s A ∧
    (∀ r ∈ l, applyMove s ((A, B) :: l.map (fun r => (f r, g r))) (g r) = s (f r)) ∧
    (∀ x, x ≠ B → (∀ r ∈ l, x ≠ g r) →
      applyMove s ((A, B) :: l.map (fun r => (f r, g r))) x =
        if x = A ∨ ∃ r ∈ l, x = f r then V.absent else s x) := by
  refine ⟨?_, ?_, ?_⟩
  · simp [applyMove]
  · intro r hr
    obtain ⟨p, hp, e, hv⟩ := applyMove_target s ((A, B) :: l.map (fun r => (f r, g r))) (g r)
      ⟨(f r, g r), by simp; exact Or.inr ⟨r, hr, rfl, rfl⟩, rfl⟩
    rw [hv]
    rcases List.mem_cons.1 hp with rfl | hp
    · exact absurd e.symm (hB r)
    · obtain ⟨r', _, rfl⟩ := List.mem_map.1 hp
      rw [hg r' r e]
  · intro x hxB hxg
    rw [applyMove_not_target]
    · by_cases hc : x = A ∨ ∃ r ∈ l, x = f r
      · rw [if_pos hc, if_pos]
        simp only [List.any_eq_true, decide_eq_true_eq]
        rcases hc with rfl | ⟨r, hr, rfl⟩
        · exact ⟨_, List.mem_cons_self .., rfl⟩
        · exact ⟨(f r, g r), List.mem_cons_of_mem _ (List.mem_map.2 ⟨r, hr, rfl⟩), rfl⟩
      · rw [if_neg hc, if_neg]
        simp only [List.any_eq_true, decide_eq_true_eq, not_exists, not_and]
        intro p hp e
        apply hc
        rcases List.mem_cons.1 hp with rfl | hp
        · exact Or.inl e.symm
        · obtain ⟨r', hr', rfl⟩ := List.mem_map.1 hp
          exact Or.inr ⟨r', hr', e.symm⟩
    · intro p hp e
      rcases List.mem_cons.1 hp with rfl | hp
      · exact hxB e.symm
      · obtain ⟨r', hr', rfl⟩ := List.mem_map.1 hp
        exact hxg r' hr' e.symm

end B2Z.Fs
