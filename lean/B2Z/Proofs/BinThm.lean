import B2Z.Gen.BinArith
namespace B2Z

/-- number of bins above level `l`: 0, 1, 9, 73, … -/
def firstBin : Nat → Nat
  | 0 => 0
  | l+1 => firstBin l + 8 ^ l

theorem seven_firstBin (l : Nat) : 7 * firstBin l + 1 = 8 ^ l := by
  induction l with
  | zero => rfl
  | succ l ih => simp [firstBin, Nat.pow_succ]; omega

theorem firstBin_eq (l : Nat) : firstBin l = (8 ^ l - 1) / 7 := by
  have := seven_firstBin l; omega

theorem two_pow_three_mul (l : Nat) : (2 : Int) ^ (l * 3) = ((8 ^ l : Nat) : Int) := by
  rw [Nat.mul_comm, Int.pow_mul]; norm_cast

/-- bridging lemma: the regenerated definition is the model's -/
theorem gen_first_bin (l : Nat) : Gen.get_first_bin_in_level (l : Int) = (firstBin l : Int) := by
  unfold Gen.get_first_bin_in_level
  have h := seven_firstBin l
  have e : ((l : Int) * 3).toNat = l * 3 := by omega
  rw [e, two_pow_three_mul]
  omega

theorem gen_bin_limit (ms : Int) (d : Nat) : Gen.bin_limit ms (d : Int) = (firstBin (d+1) : Int) := by
  unfold Gen.bin_limit
  have h := seven_firstBin (d+1)
  have e : (((d : Int) + 1) * 3).toNat = (d+1) * 3 := by omega
  rw [e, two_pow_three_mul]
  omega

theorem gen_ceildiv (a b : Nat) (hb : 0 < b) : Gen.ceildiv a b = (((a + b - 1) / b : Nat) : Int) := by
  unfold Gen.ceildiv
  have h1 := Nat.div_add_mod (a + b - 1) b
  have h2 := Nat.mod_lt (a + b - 1) hb
  generalize hq : (a + b - 1) / b = q at *
  generalize (a + b - 1) % b = r at *
  have hbq : (b : Int) * (q : Int) = ((b * q : Nat) : Int) := by norm_cast
  have key : (-(a : Int)) / (b : Int) = -(q : Int) ∧ (-(a : Int)) % (b : Int) = ((b * q - a : Nat) : Int) := by
    rw [Int.ediv_emod_unique (by omega)]
    refine ⟨?_, by omega, ?_⟩
    · rw [Int.mul_neg, hbq]; omega
    · have : b * q - a < b := by omega
      omega
  rw [key.1]; omega

theorem gen_file_offset (v : Nat) : Gen.get_file_offset v = ((v / 65536 % 281474976710656 : Nat) : Int) := by
  show ((v : Int) / (2 : Int) ^ (16 : Int).toNat) % 281474976710656 = _
  have h16 : (16 : Int).toNat = 16 := rfl
  have hp : (2 : Int) ^ 16 = 65536 := by decide
  rw [h16, hp]
  omega

end B2Z
