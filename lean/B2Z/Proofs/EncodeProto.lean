import B2Z.Model.EncodeProto
import B2Z.Proofs.Fs
/-! # The protocol invariants of the distributed encode and their preservation

* `InvA`: histories of `init` / `partition` commands (no finalise yet): nothing is finalised, a
  present `p<j>` is whole.
* `InvB`: the finalise stage (`init` / `finalise` commands): `Fin` (what is at its final place is
  complete) and either every array is finalised (`AllDone`) or the conservation invariant `Mid`
  holds of the objects below `wip/`.
* `InvA → InvB`; every command preserves its invariant at every kill point (`wpe` calculus of
  `B2Z.Proofs.Fs`).
-/
namespace B2Z.EP
open B2Z.Fs

/-- same as `LastTouch` of `Props/C06.lean` (definitionally) -/
def LastTouchH {α : Type} (seq : List (α × V)) (x : α) (v : V) : Prop :=
  ∃ pre post, seq = pre ++ [(x, v)] ++ post ∧ ∀ q ∈ post, q.1 ≠ x

/-- the clauses of `Cfg.WF` the proofs use -/
structure WFH (c : Cfg) : Prop where
  arrays_pos : 0 < c.nArrays
  init_tmpl : ∀ a, a < c.nArrays → LastTouchH c.initSeq (IRef.tmpl a) .ok
  wseq_private : ∀ j, ∀ p ∈ c.wseq j, p.1 ∈ allRefs c j
  wseq_complete : ∀ j, j < c.nParts → ∀ r ∈ allRefs c j, LastTouchH (c.wseq j) r .ok
  mv_all : ∀ j a, ∀ e ∈ c.ents j a, e ∈ c.mvOrder j a
  mv_nodup : ∀ j a, (c.mvOrder j a).Nodup
  rmWip_side : ∀ p ∈ c.rmWip, p.1.wipSide = true
  rmWip_plan : LastTouchH c.rmWip Obj.plan .absent

/-! ## touch sequences -/

theorem lastTouchH_nil {α : Type} (x : α) (v : V) : ¬ LastTouchH ([] : List (α × V)) x v := by
  rintro ⟨pre, post, h, _⟩
  simp at h

theorem lastTouchH_snoc {α : Type} (pre : List (α × V)) (q : α × V) (x : α) (v : V)
    (h : LastTouchH (pre ++ [q]) x v) : q = (x, v) ∨ (q.1 ≠ x ∧ LastTouchH pre x v) := by
  obtain ⟨p0, post, e, hp⟩ := h
  rcases List.eq_nil_or_concat post with rfl | ⟨post', q', rfl⟩
  · left
    have e' : pre ++ [q] = p0 ++ [(x, v)] := by simpa using e
    have := List.append_inj' e' rfl
    simpa using this.2
  · right
    have e' : pre ++ [q] = (p0 ++ [(x, v)] ++ post') ++ [q'] := by rw [e]; simp
    have := List.append_inj' e' rfl
    have hq : q = q' := by simpa using this.2
    refine ⟨?_, p0, post', this.1, fun q'' h'' => hp q'' (by simp [h''])⟩
    rw [hq]; exact hp q' (by simp)

theorem wpe_checks (I : S → Prop) (G : Prop) (l : List (S → Bool)) (rest : Prog) (Q : S → Prop)
    (s : S) (hI : I s) (hl : ∀ q ∈ l, q s = true) (h : wpe I G rest Q s) :
    wpe I G (l.map Step.check ++ rest) Q s := by
  induction l with
  | nil => exact h
  | cons q l ih =>
    exact ⟨hI, fun _ => hl q (List.mem_cons_self ..), fun _ => ih (fun q' h' => hl q' (List.mem_cons_of_mem _ h'))⟩

/-- a phase that touches the objects `f x` (`f` injective) in the order `seq`, each touch possibly
    preceded by checks: objects outside the image of `f` keep their value, the others end with the
    value of their last touch -/
theorem wpe_touchSeq {α : Type} (f : α → Obj) (hf : ∀ x y, f x = f y → x = y) (I : S → Prop)
    (G : Prop) (chk : α × V → List (S → Bool)) (seq : List (α × V)) (s : S)
    (hI : ∀ s', (∀ o, (∀ p ∈ seq, o ≠ f p.1) → s' o = s o) →
      I s' ∧ ∀ p ∈ seq, ∀ q ∈ chk p, q s' = true) :
    wpe I G (seq.flatMap fun p => (chk p).map Step.check ++ [Step.set (f p.1) p.2])
      (fun s' => (∀ o, (∀ p ∈ seq, o ≠ f p.1) → s' o = s o) ∧
        ∀ x v, LastTouchH seq x v → s' (f x) = v) s := by
  refine wpe_flatMap I G _
    (fun pre s' => (∀ o, (∀ p ∈ pre, o ≠ f p.1) → s' o = s o) ∧
        ∀ x v, LastTouchH pre x v → s' (f x) = v) seq ?_ s
    ⟨fun _ _ => rfl, fun x v h => absurd h (lastTouchH_nil x v)⟩
  intro pre x post e s' ⟨fr, lt⟩
  have hfr : ∀ o, (∀ p ∈ seq, o ≠ f p.1) → s' o = s o := by
    intro o ho
    exact fr o (fun p hp => ho p (by rw [e]; simp [hp]))
  obtain ⟨i1, c1⟩ := hI s' hfr
  refine wpe_checks I G _ _ _ s' i1 (c1 x (by rw [e]; simp)) ⟨i1, ?_, ?_⟩
  · intro o ho
    have : o ≠ f x.1 := ho x (by simp)
    simp only [upd, if_neg this]
    exact fr o (fun p hp => ho p (by simp [hp]))
  · intro y v h
    rcases lastTouchH_snoc pre x y v h with rfl | ⟨hne, h'⟩
    · simp [upd]
    · have : f y ≠ f x.1 := fun e' => hne (hf _ _ e').symm
      simp only [upd, if_neg this]
      exact lt y v h'

theorem wpe_setSeq {α : Type} (f : α → Obj) (hf : ∀ x y, f x = f y → x = y) (I : S → Prop)
    (G : Prop) (seq : List (α × V)) (s : S)
    (hI : ∀ s', (∀ o, (∀ p ∈ seq, o ≠ f p.1) → s' o = s o) → I s') :
    wpe I G (seq.map fun p => Step.set (f p.1) p.2)
      (fun s' => (∀ o, (∀ p ∈ seq, o ≠ f p.1) → s' o = s o) ∧
        ∀ x v, LastTouchH seq x v → s' (f x) = v) s := by
  have := wpe_touchSeq f hf I G (fun _ => []) seq s (fun s' h => ⟨hI s' h, by simp⟩)
  have e : ∀ l : List (α × V), (l.map fun p => Step.set (Obj := Obj) (St := S) (f p.1) p.2) =
      l.flatMap fun p => ([] : List (S → Bool)).map Step.check ++ [Step.set (f p.1) p.2] := by
    intro l
    induction l with
    | nil => rfl
    | cons x l ih => simp [List.flatMap_cons, ih]
  rw [e]
  exact this

/-- a run of `set`s on objects satisfying `P` keeps every `R` that is stable under such sets -/
theorem wpe_sets (I : S → Prop) (G : Prop) (R : S → Prop) (P : Obj → Prop) (prog : Prog)
    (hprog : ∀ st ∈ prog, ∃ o v, st = Step.set o v ∧ P o)
    (hR : ∀ s o v, R s → P o → R (upd s o v)) (hRI : ∀ s, R s → I s) :
    ∀ s, R s → wpe I G prog R s := by
  induction prog with
  | nil => intro s h; exact h
  | cons st prog ih =>
    intro s h
    obtain ⟨o, v, rfl, hP⟩ := hprog st (List.mem_cons_self ..)
    exact ⟨hRI s h, ih (fun st' h' => hprog st' (List.mem_cons_of_mem _ h')) _ (hR s o v h hP)⟩

/-! ## references and object classes -/

theorem hdr_mem_allRefs (c : Cfg) (j a : Nat) : PRef.hdr a ∈ allRefs c j ↔ a < c.nArrays := by
  simp [allRefs, List.mem_flatMap]

theorem ent_mem_allRefs (c : Cfg) (j a e : Nat) :
    PRef.ent a e ∈ allRefs c j ↔ a < c.nArrays ∧ e ∈ c.ents j a := by
  simp [allRefs, List.mem_flatMap]

theorem PRef.p_inj {j j' : Nat} {r r' : PRef} (h : r.p j = r'.p j') : j = j' ∧ r = r' := by
  cases r <;> cases r' <;> simp_all [PRef.p]

theorem PRef.w_inj {j j' : Nat} {r r' : PRef} (h : r.w j = r'.w j') : j = j' ∧ r = r' := by
  cases r <;> cases r' <;> simp_all [PRef.w]

theorem PRef.s_inj {j j' : Nat} {r r' : PRef} (h : r.s j = r'.s j') : j = j' ∧ r = r' := by
  cases r <;> cases r' <;> simp_all [PRef.s]

theorem IRef.obj_inj {x y : IRef} (h : x.obj = y.obj) : x = y := by
  cases x <;> cases y <;> simp_all [IRef.obj]

def Obj.isW : Obj → Bool
  | .wdir _ | .wmeta _ _ | .went _ _ _ => true
  | _ => false
def Obj.isP : Obj → Bool
  | .pdir _ | .pmeta _ _ | .pent _ _ _ => true
  | _ => false
def Obj.isS : Obj → Bool
  | .sdir _ | .smeta _ _ | .sent _ _ _ => true
  | _ => false
/-- objects no invariant mentions -/
def Obj.scratch : Obj → Bool
  | .keep _ | .wips _ | .wdir _ | .wmeta _ _ | .went _ _ _ | .sdir _ | .smeta _ _ | .sent _ _ _
  | .ridx _ => true
  | _ => false
/-- objects init touches -/
def Obj.isInit : Obj → Bool
  | .root | .plan | .keep _ | .wips _ | .tmpl _ => true
  | _ => false

theorem IRef.obj_isInit (x : IRef) : x.obj.isInit = true := by cases x <;> rfl
theorem IRef.obj_ne_plan (x : IRef) : Obj.plan ≠ x.obj := by cases x <;> simp [IRef.obj]
theorem IRef.obj_ne_root (x : IRef) : Obj.root ≠ x.obj := by cases x <;> simp [IRef.obj]

def staleMv (c : Cfg) (j : Nat) : List (Obj × Obj) :=
  (.pdir j, .sdir j) :: (allRefs c j).map fun r => (r.p j, r.s j)
def finalMv (c : Cfg) (j : Nat) : List (Obj × Obj) :=
  (.wdir j, .pdir j) :: (allRefs c j).map fun r => (r.w j, r.p j)

theorem staleMv_val (c : Cfg) (s : S) (j : Nat) (x : Obj) (hx : x.isS = false) :
    applyMove s (staleMv c j) x =
      if x = .pdir j ∨ ∃ r ∈ allRefs c j, x = r.p j then .absent else s x := by
  refine (applyMove_dir s (.pdir j) (.sdir j) (fun r => PRef.p j r) (fun r => PRef.s j r)
    (allRefs c j) ?_ ?_).2.2 x ?_ ?_
  · intro r; cases r <;> simp [PRef.s]
  · intro r r' e; exact (PRef.s_inj e).2
  · rintro rfl; simp [Obj.isS] at hx
  · rintro r _ rfl; cases r <;> simp [PRef.s, Obj.isS] at hx

theorem finalMv_spec (c : Cfg) (s : S) (j : Nat) :
    applyMove s (finalMv c j) (.pdir j) = s (.wdir j) ∧
    (∀ r ∈ allRefs c j, applyMove s (finalMv c j) (r.p j) = s (r.w j)) ∧
    (∀ x, x ≠ .pdir j → (∀ r ∈ allRefs c j, x ≠ r.p j) → x.isW = false →
      applyMove s (finalMv c j) x = s x) := by
  obtain ⟨h1, h2, h3⟩ := applyMove_dir s (.wdir j) (.pdir j) (fun r => PRef.w j r)
    (fun r => PRef.p j r) (allRefs c j) (by intro r; cases r <;> simp [PRef.p])
    (fun r r' e => (PRef.p_inj e).2)
  refine ⟨h1, h2, ?_⟩
  intro x hx1 hx2 hx3
  have := h3 x hx1 hx2
  rw [if_neg] at this
  · exact this
  · rintro (rfl | ⟨r, _, rfl⟩)
    · simp [Obj.isW] at hx3
    · cases r <;> simp [PRef.w, Obj.isW] at hx3

/-! ## stage A: the invariant of histories without finalise -/

structure InvA (c : Cfg) (s : S) : Prop where
  aent0 : ∀ a e, s (.aent a e) = .absent
  farr0 : ∀ a, s (.farr a) = .absent
  fent0 : ∀ a e, s (.fent a e) = .absent
  zmeta0 : s .zmeta = .absent
  /-- init writes the plan last -/
  planok : s .plan ≠ .absent → s .root = .ok ∧ ∀ a, a < c.nArrays → s (.tmpl a) = .ok
  /-- a present `p<j>` is whole -/
  whole : ∀ j, s (.pdir j) ≠ .absent → ∀ r ∈ allRefs c j, s (r.p j) = .ok
  pentv : ∀ j a e, s (.pent j a e) ≠ .absent → a < c.nArrays ∧ e ∈ c.ents j a ∧ s (.pent j a e) = .ok

theorem InvA_empty (c : Cfg) : InvA c Fs.empty := by
  constructor <;> simp [Fs.empty]

variable {c : Cfg} {s : S}

theorem InvA.congr {s' : S} (h : InvA c s) (e : ∀ o, o.scratch = false → s' o = s o) :
    InvA c s' := by
  have hp : ∀ j r, s' (PRef.p j r) = s (PRef.p j r) := fun j r => e _ (by cases r <;> rfl)
  constructor
  · intro a e'; rw [e _ rfl]; exact h.aent0 a e'
  · intro a; rw [e _ rfl]; exact h.farr0 a
  · intro a e'; rw [e _ rfl]; exact h.fent0 a e'
  · rw [e _ rfl]; exact h.zmeta0
  · intro h1
    rw [e _ rfl] at h1 ⊢
    refine ⟨(h.planok h1).1, fun a ha => ?_⟩
    rw [e _ rfl]; exact (h.planok h1).2 a ha
  · intro j h1 r hr
    rw [e _ rfl] at h1
    rw [hp]; exact h.whole j h1 r hr
  · intro j a e' h1
    rw [e _ rfl] at h1 ⊢
    exact h.pentv j a e' h1

theorem InvA.move_stale (h : InvA c s) (j : Nat) : InvA c (applyMove s (staleMv c j)) := by
  have hv := staleMv_val c s j
  have hnp : ∀ x, x.isS = false → x.isP = false → applyMove s (staleMv c j) x = s x := by
    intro x h1 h2
    rw [hv x h1, if_neg]
    rintro (rfl | ⟨r, _, rfl⟩)
    · simp [Obj.isP] at h2
    · cases r <;> simp [PRef.p, Obj.isP] at h2
  constructor
  · intro a e; rw [hnp _ rfl rfl]; exact h.aent0 a e
  · intro a; rw [hnp _ rfl rfl]; exact h.farr0 a
  · intro a e; rw [hnp _ rfl rfl]; exact h.fent0 a e
  · rw [hnp _ rfl rfl]; exact h.zmeta0
  · intro h1
    rw [hnp _ rfl rfl] at h1 ⊢
    refine ⟨(h.planok h1).1, fun a ha => ?_⟩
    rw [hnp _ rfl rfl]; exact (h.planok h1).2 a ha
  · intro j' hd r hr
    rw [hv _ rfl] at hd
    by_cases hc : Obj.pdir j' = Obj.pdir j ∨ ∃ r ∈ allRefs c j, Obj.pdir j' = r.p j
    · rw [if_pos hc] at hd; exact absurd rfl hd
    · rw [if_neg hc] at hd
      have hjj : j' ≠ j := by rintro rfl; exact hc (Or.inl rfl)
      rw [hv _ (by cases r <;> rfl), if_neg]
      · exact h.whole j' hd r hr
      · rintro (e | ⟨r', _, e⟩)
        · cases r <;> simp [PRef.p] at e
        · exact hjj (PRef.p_inj e).1
  · intro j' a e hne
    rw [hv _ rfl] at hne ⊢
    by_cases hc : Obj.pent j' a e = Obj.pdir j ∨ ∃ r ∈ allRefs c j, Obj.pent j' a e = r.p j
    · rw [if_pos hc] at hne; exact absurd rfl hne
    · rw [if_neg hc] at hne ⊢
      exact h.pentv j' a e hne

theorem InvA.move_final (h : InvA c s) (j : Nat) (hw : ∀ r ∈ allRefs c j, s (r.w j) = .ok) :
    InvA c (applyMove s (finalMv c j)) := by
  obtain ⟨_, h2, h3⟩ := finalMv_spec c s j
  have hnp : ∀ x, x.isW = false → x.isP = false → applyMove s (finalMv c j) x = s x := by
    intro x h1 h2'
    apply h3 x _ _ h1
    · rintro rfl; simp [Obj.isP] at h2'
    · rintro r _ rfl; cases r <;> simp [PRef.p, Obj.isP] at h2'
  constructor
  · intro a e; rw [hnp _ rfl rfl]; exact h.aent0 a e
  · intro a; rw [hnp _ rfl rfl]; exact h.farr0 a
  · intro a e; rw [hnp _ rfl rfl]; exact h.fent0 a e
  · rw [hnp _ rfl rfl]; exact h.zmeta0
  · intro h1
    rw [hnp _ rfl rfl] at h1 ⊢
    refine ⟨(h.planok h1).1, fun a ha => ?_⟩
    rw [hnp _ rfl rfl]; exact (h.planok h1).2 a ha
  · intro j' hd r hr
    by_cases hjj : j' = j
    · subst hjj
      rw [h2 r hr]; exact hw r hr
    · have e1 : applyMove s (finalMv c j) (.pdir j') = s (.pdir j') := by
        apply h3 _ _ _ rfl
        · simpa using hjj
        · intro r' _; cases r' <;> simp [PRef.p]
      rw [e1] at hd
      have e2 : applyMove s (finalMv c j) (r.p j') = s (r.p j') := by
        apply h3 _ _ _ (by cases r <;> rfl)
        · cases r <;> simp [PRef.p]
        · intro r' _ e; exact hjj (PRef.p_inj e).1
      rw [e2]; exact h.whole j' hd r hr
  · intro j' a e hne
    by_cases hc : j' = j ∧ a < c.nArrays ∧ e ∈ c.ents j a
    · obtain ⟨rfl, ha, he⟩ := hc
      have := h2 (.ent a e) ((ent_mem_allRefs c j' a e).2 ⟨ha, he⟩)
      refine ⟨ha, he, ?_⟩
      show applyMove s (finalMv c j') (PRef.p j' (.ent a e)) = .ok
      rw [this]; exact hw _ ((ent_mem_allRefs c j' a e).2 ⟨ha, he⟩)
    · have e1 : applyMove s (finalMv c j) (.pent j' a e) = s (.pent j' a e) := by
        apply h3 _ _ _ rfl
        · simp
        · intro r hr e'
          cases r with
          | hdr a' => simp [PRef.p] at e'
          | ent a' e'' =>
            simp only [PRef.p, Obj.pent.injEq] at e'
            obtain ⟨rfl, rfl, rfl⟩ := e'
            exact hc ⟨rfl, (ent_mem_allRefs c _ _ _).1 hr⟩
      rw [e1] at hne ⊢
      exact h.pentv j' a e hne

/-! ### init -/

def initBody (c : Cfg) : Prog :=
  [.set .root .ok] ++ c.initSeq.map (fun p => .set p.1.obj p.2) ++ write .plan

theorem initProg_eq (c : Cfg) :
    initProg c = .check (fun s => s .root = .absent) :: initBody c := rfl

def PlanInit (c : Cfg) (s : S) : Prop :=
  s .plan ≠ .absent → s .root = .ok ∧ ∀ a, a < c.nArrays → s (.tmpl a) = .ok

/-- init preserves every `I` that holds of all states that differ from the initial one only on
    init's objects and that satisfy the plan clause (if there was no plan at the start) -/
theorem wpe_initBody (w : WFH c) (I : S → Prop) (s : S)
    (hI : ∀ s', (∀ o, o.isInit = false → s' o = s o) → (s .plan = .absent → PlanInit c s') → I s') :
    wpe I True (initBody c) I s := by
  unfold initBody
  refine wpe_seq I True _ _ (fun s2 => (∀ o, o.isInit = false → s2 o = s o) ∧
      (s .plan = .absent → s2 .plan = .absent) ∧ s2 .root = .ok ∧
      ∀ a, a < c.nArrays → s2 (.tmpl a) = .ok) _ s ?_ ?_
  · refine ⟨hI s (fun _ _ => rfl) (fun hp h => absurd hp h), ?_⟩
    have := wpe_setSeq IRef.obj (fun x y e => IRef.obj_inj e) I True c.initSeq
      (upd s .root .ok) ?_
    · refine wpe_mono I True _ _ _ ?_ _ this
      intro s2 ⟨fr, lt⟩
      refine ⟨?_, ?_, ?_, ?_⟩
      · intro o ho
        rw [fr o (by rintro p _ rfl; rw [IRef.obj_isInit] at ho; cases ho)]
        simp only [upd]; rw [if_neg]; rintro rfl; simp [Obj.isInit] at ho
      · intro hp
        rw [fr _ (fun p _ => IRef.obj_ne_plan p.1)]
        simpa [upd] using hp
      · rw [fr _ (fun p _ => IRef.obj_ne_root p.1)]
        simp [upd]
      · intro a ha
        exact lt (IRef.tmpl a) .ok (w.init_tmpl a ha)
    · intro s' fr
      apply hI
      · intro o ho
        rw [fr o (by rintro p _ rfl; rw [IRef.obj_isInit] at ho; cases ho)]
        simp only [upd]; rw [if_neg]; rintro rfl; simp [Obj.isInit] at ho
      · intro hp h1
        rw [fr _ (fun p _ => IRef.obj_ne_plan p.1)] at h1
        simp [upd, hp] at h1
  · intro s2 ⟨fr, hpl, hr, ht⟩
    have key : ∀ s3 : S, (∀ o, o ≠ .plan → s3 o = s2 o) → I s3 := by
      intro s3 h3
      apply hI
      · intro o ho
        rw [h3 o (by rintro rfl; simp [Obj.isInit] at ho)]; exact fr o ho
      · intro _ _
        rw [h3 _ (by simp)]
        refine ⟨hr, fun a ha => ?_⟩
        rw [h3 _ (by simp)]; exact ht a ha
    refine ⟨hI s2 fr (fun hp h => absurd (hpl hp) h), key _ ?_, key _ ?_⟩
    · intro o ho; simp [upd, ho]
    · intro o ho; simp [upd, ho]

/-! ### partition -/

/-- repaired F11: `rmtree` of a left-over `wip_p<j>` -/
def cleanW (c : Cfg) (s0 : S) (j : Nat) : Prog :=
  if s0 (.wdir j) ≠ .absent then
    ((c.rmWork j).filter fun p => s0 (p.1.w j) ≠ .absent).map (fun p => .set (p.1.w j) p.2) ++
      [.set (.wdir j) .absent]
  else []

def partBody0 (c : Cfg) (s0 : S) (j : Nat) : Prog :=
  [.set (.wdir j) .ok] ++
  (c.wseq j).flatMap (fun p =>
    match p.1 with
    | .hdr a => [.check fun s => s (.tmpl a) = .ok, .set (.wmeta j a) p.2]
    | .ent a e => [.set (.went j a e) p.2]) ++
  (if s0 (.pdir j) ≠ .absent then
      (if s0 (.sdir j) ≠ .absent then
          ((c.rmStale j).filter fun p => s0 (p.1.s j) ≠ .absent).map (fun p => .set (p.1.s j) p.2) ++ [.set (.sdir j) .absent]
       else []) ++
      [.move (staleMv c j)] ++
      (c.rmStale j).map (fun p => .set (p.1.s j) p.2) ++ [.set (.sdir j) .absent]
   else []) ++
  [.move (finalMv c j)]

def partBody (c : Cfg) (s0 : S) (j : Nat) : Prog := cleanW c s0 j ++ partBody0 c s0 j

theorem partitionProg_eq (c : Cfg) (s0 : S) (j : Nat) :
    partitionProg c s0 j =
      .check (fun s => s .plan = .ok) :: .check (fun _ => decide (j < c.nParts)) ::
      partBody c s0 j := by
  simp only [partitionProg, partBody, partBody0, cleanW, staleMv, finalMv, List.append_assoc,
    List.cons_append, List.nil_append]
  rfl

/-- the checks preceding a touch of partition `j` -/
def chkW (p : PRef × V) : List (S → Bool) :=
  match p.1 with
  | .hdr a => [fun s => s (.tmpl a) = .ok]
  | .ent _ _ => []

theorem wseq_fun_eq (j : Nat) :
    (fun p : PRef × V =>
      match p.1 with
      | .hdr a => [Step.check (Obj := Obj) (St := S) fun s => s (.tmpl a) = .ok, .set (.wmeta j a) p.2]
      | .ent a e => [.set (.went j a e) p.2]) =
    fun p => (chkW p).map Step.check ++ [Step.set (p.1.w j) p.2] := by
  funext p
  rcases p with ⟨r, v⟩
  cases r <;> rfl

theorem PRef.w_scratch (j : Nat) (r : PRef) : (r.w j).scratch = true := by cases r <;> rfl
theorem PRef.s_isS (j : Nat) (r : PRef) : (r.s j).isS = true := by cases r <;> rfl
theorem Obj.scratch_of_isS {o : Obj} (h : o.isS = true) : o.scratch = true := by
  cases o <;> simp_all [Obj.isS, Obj.scratch]

/-- the clean-up of a left-over work directory touches scratch objects only -/
theorem wpe_cleanW (h : InvA c s) (s0 : S) (j : Nat) :
    wpe (InvA c) True (cleanW c s0 j) (fun s' => ∀ o : Obj, o.scratch = false → s' o = s o) s := by
  unfold cleanW
  by_cases hc : s0 (.wdir j) ≠ .absent
  · rw [if_pos hc]
    refine wpe_sets _ _ (fun s' => ∀ o : Obj, o.scratch = false → s' o = s o)
      (fun o => o.scratch = true) _ ?_ ?_ (fun _ h' => h.congr h') s (fun _ _ => rfl)
    · intro st hst
      rcases List.mem_append.1 hst with h' | h'
      · obtain ⟨p, _, rfl⟩ := List.mem_map.1 h'
        exact ⟨_, _, rfl, PRef.w_scratch j p.1⟩
      · exact ⟨_, _, by simpa using h', rfl⟩
    · intro s' o v hR ho x hx
      simp only [upd]
      rw [if_neg (by rintro rfl; rw [ho] at hx; cases hx)]
      exact hR x hx
  · rw [if_neg hc]; exact fun _ _ => rfl

/-- the body after the clean-up, started from a state `s1` that agrees with the state `s` the
    command was issued in except on scratch objects -/
theorem wpe_partBody0 (w : WFH c) (h : InvA c s) {j : Nat} (hp : s .plan = .ok) (hj : j < c.nParts)
    (s1 : S) (h01 : ∀ o : Obj, o.scratch = false → s1 o = s o) :
    wpe (InvA c) True (partBody0 c s j) (fun s' => InvA c s' ∧ s' .plan = .ok ∧ s' (.pdir j) = .ok ∧
      (∀ r ∈ allRefs c j, s' (r.p j) = .ok) ∧ ∀ j', j' ≠ j → s' (.pdir j') = s (.pdir j')) s1 := by
  let R : S → Prop := fun s' => InvA c s' ∧ s' .plan = .ok ∧ s' (.wdir j) = .ok ∧
      (∀ r ∈ allRefs c j, s' (r.w j) = .ok) ∧ ∀ j', j' ≠ j → s' (.pdir j') = s (.pdir j')
  have hRS : ∀ s' o v, R s' → o.isS = true → R (upd s' o v) := by
    intro s' o v ⟨i1, p1, w1, a1, d1⟩ ho
    have hne : ∀ x : Obj, x.isS = false → upd s' o v x = s' x := by
      intro x hx; simp only [upd]; rw [if_neg]; rintro rfl; rw [ho] at hx; cases hx
    refine ⟨i1.congr (fun x hx => hne x ?_), ?_, ?_, ?_, ?_⟩
    · cases x <;> simp_all [Obj.isS, Obj.scratch]
    · rw [hne _ rfl]; exact p1
    · rw [hne _ rfl]; exact w1
    · intro r hr; rw [hne _ (by cases r <;> rfl)]; exact a1 r hr
    · intro j' hj'; rw [hne _ rfl]; exact d1 j' hj'
  unfold partBody0
  refine wpe_seq _ _ _ _ R _ s1 (wpe_seq _ _ _ _ R _ s1 ?_ ?_) ?_
  · -- build wip_p<j>
    refine ⟨h.congr h01, ?_⟩
    rw [wseq_fun_eq]
    have := wpe_touchSeq (fun r => PRef.w j r) (fun x y e => (PRef.w_inj e).2) (InvA c) True chkW
      (c.wseq j) (upd s1 (.wdir j) .ok) ?_
    · refine wpe_mono _ _ _ _ _ ?_ _ this
      intro s2 ⟨fr, lt⟩
      have hne : ∀ x : Obj, x.scratch = false → s2 x = s x := by
        intro x hx
        rw [fr x (by rintro p _ rfl; rw [PRef.w_scratch] at hx; cases hx)]
        simp only [upd]; rw [if_neg (by rintro rfl; simp [Obj.scratch] at hx)]
        exact h01 x hx
      refine ⟨h.congr hne, ?_, ?_, ?_, ?_⟩
      · rw [hne _ rfl]; exact hp
      · rw [fr _ (by intro p _; cases p.1 <;> simp [PRef.w])]; simp [upd]
      · intro r hr; exact lt r .ok (w.wseq_complete j hj r hr)
      · intro j' _; exact hne _ rfl
    · intro s' fr
      have hne : ∀ x : Obj, x.scratch = false → s' x = s x := by
        intro x hx
        rw [fr x (by rintro p _ rfl; rw [PRef.w_scratch] at hx; cases hx)]
        simp only [upd]; rw [if_neg (by rintro rfl; simp [Obj.scratch] at hx)]
        exact h01 x hx
      refine ⟨h.congr hne, ?_⟩
      rintro ⟨r, v⟩ hpm q hq
      cases r with
      | hdr a =>
        have ha : a < c.nArrays := (hdr_mem_allRefs c j a).1 (w.wseq_private j _ hpm)
        have : q = fun s => decide (s (.tmpl a) = .ok) := by simpa [chkW] using hq
        rw [this]
        show decide (s' (.tmpl a) = .ok) = true
        rw [hne (.tmpl a) rfl]
        simpa using (h.planok (by rw [hp]; simp)).2 a ha
      | ent a e => simp [chkW] at hq
  · -- move a stale p<j> aside and delete it
    intro s2 hR2
    by_cases hc : s (.pdir j) ≠ .absent
    · rw [if_pos hc]
      refine wpe_seq _ _ _ _ R _ s2 (wpe_seq _ _ _ _ R _ s2 (wpe_seq _ _ _ _ R _ s2 ?_ ?_) ?_) ?_
      · by_cases hc' : s (.sdir j) ≠ .absent
        · rw [if_pos hc']
          refine wpe_sets _ _ R (fun o => o.isS = true) _ ?_ hRS (fun _ h' => h'.1) s2 hR2
          intro st hst
          rcases List.mem_append.1 hst with h' | h'
          · obtain ⟨p, _, rfl⟩ := List.mem_map.1 h'
            exact ⟨_, _, rfl, PRef.s_isS j p.1⟩
          · exact ⟨_, _, by simpa using h', rfl⟩
        · rw [if_neg hc']; exact hR2
      · intro s3 ⟨i3, p3, w3, a3, d3⟩
        have hv := staleMv_val c s3 j
        have hnp : ∀ x : Obj, x.isS = false → x.isP = false → applyMove s3 (staleMv c j) x = s3 x := by
          intro x h1 h2
          rw [hv x h1, if_neg]
          rintro (rfl | ⟨r, _, rfl⟩)
          · simp [Obj.isP] at h2
          · cases r <;> simp [PRef.p, Obj.isP] at h2
        refine ⟨i3, i3.move_stale j, ?_, ?_, ?_, ?_⟩
        · rw [hnp _ rfl rfl]; exact p3
        · rw [hnp _ rfl rfl]; exact w3
        · intro r hr; rw [hnp _ (by cases r <;> rfl) (by cases r <;> rfl)]; exact a3 r hr
        · intro j' hj'
          rw [hv _ rfl, if_neg]
          · exact d3 j' hj'
          · rintro (e | ⟨r, _, e⟩)
            · exact hj' (by simpa using e)
            · cases r <;> simp [PRef.p] at e
      · intro s3 hR3
        refine wpe_sets _ _ R (fun o => o.isS = true) _ ?_ hRS (fun _ h' => h'.1) s3 hR3
        intro st hst
        obtain ⟨p, _, rfl⟩ := List.mem_map.1 hst
        exact ⟨_, _, rfl, PRef.s_isS j p.1⟩
      · intro s3 hR3
        exact ⟨hR3.1, hRS _ _ _ hR3 rfl⟩
    · rw [if_neg hc]; exact hR2
  · -- swap wip_p<j> into place
    intro s3 ⟨i3, p3, w3, a3, d3⟩
    obtain ⟨h1, h2, h3⟩ := finalMv_spec c s3 j
    refine ⟨i3, i3.move_final j a3, ?_, ?_, ?_, ?_⟩
    · rw [h3 _ (by simp) (by intro r _; cases r <;> simp [PRef.p]) rfl]; exact p3
    · rw [h1]; exact w3
    · intro r hr; rw [h2 r hr]; exact a3 r hr
    · intro j' hj'
      rw [h3 _ (by simpa using hj') (by intro r _; cases r <;> simp [PRef.p]) rfl]
      exact d3 j' hj'

theorem wpe_partBody (w : WFH c) (h : InvA c s) {j : Nat} (hp : s .plan = .ok) (hj : j < c.nParts) :
    wpe (InvA c) True (partBody c s j) (fun s' => InvA c s' ∧ s' .plan = .ok ∧ s' (.pdir j) = .ok ∧
      (∀ r ∈ allRefs c j, s' (r.p j) = .ok) ∧ ∀ j', j' ≠ j → s' (.pdir j') = s (.pdir j')) s := by
  unfold partBody
  exact wpe_seq _ _ _ _ _ _ s (wpe_cleanW h s j) (fun s1 h01 => wpe_partBody0 w h hp hj s1 h01)

/-! ## stage B: the invariant of the finalise stage -/

/-- what is at its final place is complete -/
structure Fin (c : Cfg) (s : S) : Prop where
  /-- `.zmetadata` is written last -/
  zfin : s .zmeta ≠ .absent → ∀ a, a < c.nArrays → s (.farr a) = .ok
  /-- an array is moved out of wip whole and with all its entries -/
  ffin : ∀ a, s (.farr a) ≠ .absent →
    s (.farr a) = .ok ∧ ∀ j, j < c.nParts → ∀ e ∈ c.ents j a, s (.fent a e) = .ok

def AllDone (c : Cfg) (s : S) : Prop := ∀ a, a < c.nArrays → s (.farr a) = .ok

/-- conservation below `wip/` while some array is still to be finalised -/
structure Mid (c : Cfg) (s : S) : Prop where
  planok : s .plan ≠ .absent →
    s .root = .ok ∧ ∀ a, a < c.nArrays → s (.tmpl a) = .ok ∨ s (.farr a) = .ok
  /-- an entry of a present partition is in `p<j>`, or already in the array directory, or the
      array is already finalised -/
  cons : ∀ j a e, j < c.nParts → a < c.nArrays → e ∈ c.ents j a → s (.pdir j) ≠ .absent →
    s (.pent j a e) = .ok ∨ s (.aent a e) = .ok ∨ s (.farr a) = .ok
  pentv : ∀ j a e, s (.pent j a e) ≠ .absent →
    a < c.nArrays ∧ e ∈ c.ents j a ∧ s (.pent j a e) = .ok

def InvB (c : Cfg) (s : S) : Prop := Fin c s ∧ (AllDone c s ∨ Mid c s)

def Obj.isFin : Obj → Bool
  | .farr _ | .fent _ _ | .zmeta => true
  | _ => false

theorem Fin.congr {s' : S} (h : Fin c s) (e : ∀ o, o.isFin = true → s' o = s o) : Fin c s' := by
  constructor
  · intro hz a ha
    rw [e _ rfl] at hz ⊢
    exact h.zfin hz a ha
  · intro a h1
    rw [e _ rfl] at h1 ⊢
    refine ⟨(h.ffin a h1).1, fun j hj e' he' => ?_⟩
    rw [e _ rfl]; exact (h.ffin a h1).2 j hj e' he'

theorem AllDone.congr {s' : S} (h : AllDone c s) (e : ∀ o, o.isFin = true → s' o = s o) :
    AllDone c s' := by
  intro a ha; rw [e _ rfl]; exact h a ha

theorem InvA.toInvB (h : InvA c s) : InvB c s := by
  refine ⟨⟨?_, ?_⟩, Or.inr ⟨?_, ?_, h.pentv⟩⟩
  · intro hz; exact absurd h.zmeta0 hz
  · intro a ha; exact absurd (h.farr0 a) ha
  · intro hp; exact ⟨(h.planok hp).1, fun a ha => Or.inl ((h.planok hp).2 a ha)⟩
  · intro j a e _ ha he hd
    exact Or.inl (h.whole j hd (.ent a e) ((ent_mem_allRefs c j a e).2 ⟨ha, he⟩))

theorem Fin.complete (h : Fin c s) (hz : s .zmeta = .ok) : StoreComplete c s := by
  intro a ha
  have h1 : s (.farr a) = .ok := h.zfin (by rw [hz]; simp) a ha
  exact ⟨h1, (h.ffin a (by rw [h1]; simp)).2⟩

theorem InvB_init (w : WFH c) (h : InvB c s) (hr : s .root = .absent) :
    wpe (InvB c) True (initBody c) (InvB c) s := by
  apply wpe_initBody w
  intro s' fr pl
  have hfin : ∀ o : Obj, o.isFin = true → s' o = s o := by
    intro o ho; apply fr; cases o <;> simp_all [Obj.isFin, Obj.isInit]
  refine ⟨h.1.congr hfin, ?_⟩
  rcases h.2 with ad | m
  · exact Or.inl (ad.congr hfin)
  · right
    have hp : s .plan = .absent :=
      Classical.byContradiction fun hp => by
        have := (m.planok hp).1; rw [hr] at this; cases this
    refine ⟨?_, ?_, ?_⟩
    · intro h1
      exact ⟨(pl hp h1).1, fun a ha => Or.inl ((pl hp h1).2 a ha)⟩
    · intro j a e hj ha he hd
      rw [fr _ rfl] at hd
      rw [fr _ rfl, fr _ rfl, fr _ rfl]
      exact m.cons j a e hj ha he hd
    · intro j a e h1
      rw [fr _ rfl] at h1 ⊢
      exact m.pentv j a e h1

/-! ### the moves of finalise -/

theorem nodup_mid {α : Type} {l pre post : List α} {x : α} (h : l.Nodup) (e : l = pre ++ x :: post) :
    x ∉ pre := by
  subst e
  rw [List.nodup_append] at h
  intro hx
  exact h.2.2 x hx x (List.mem_cons_self ..) rfl

/-- the objects the finalisation of array `a` may touch -/
def arrObj (a : Nat) : Obj → Bool
  | .pent _ a' _ => decide (a' = a)
  | .aent a' _ => decide (a' = a)
  | .tmpl a' => decide (a' = a)
  | .farr a' => decide (a' = a)
  | .fent a' _ => decide (a' = a)
  | _ => false

def allEnts (c : Cfg) (a : Nat) : List Nat := (List.range c.nParts).flatMap fun j => c.ents j a

theorem mem_allEnts (c : Cfg) (a e : Nat) : e ∈ allEnts c a ↔ ∃ j, j < c.nParts ∧ e ∈ c.ents j a := by
  simp [allEnts, List.mem_flatMap]

def arrMv (c : Cfg) (a : Nat) : List (Obj × Obj) :=
  (.tmpl a, .farr a) :: (allEnts c a).map fun e => (.aent a e, .fent a e)

theorem arrMv_eq (c : Cfg) (a : Nat) :
    ((Obj.tmpl a, Obj.farr a) :: (List.range c.nParts).flatMap fun j =>
      (c.ents j a).map fun e => (Obj.aent a e, Obj.fent a e)) = arrMv c a := by
  simp [arrMv, allEnts, List.map_flatMap]

theorem arrMv_spec (c : Cfg) (s : S) (a : Nat) :
    applyMove s (arrMv c a) (.farr a) = s (.tmpl a) ∧
    (∀ e ∈ allEnts c a, applyMove s (arrMv c a) (.fent a e) = s (.aent a e)) ∧
    (∀ x, x ≠ .farr a → (∀ e, x ≠ .fent a e) → x ≠ .tmpl a → (∀ e, x ≠ .aent a e) →
      applyMove s (arrMv c a) x = s x) := by
  obtain ⟨h1, h2, h3⟩ := applyMove_dir s (.tmpl a) (.farr a) (fun e => Obj.aent a e)
    (fun e => Obj.fent a e) (allEnts c a) (by intro r; simp) (by intro r r' e; simpa using e)
  refine ⟨h1, h2, ?_⟩
  intro x hx1 hx2 hx3 hx4
  have := h3 x hx1 (fun e _ => hx2 e)
  rw [if_neg] at this
  · exact this
  · rintro (e | ⟨e, _, he⟩)
    · exact hx3 e
    · exact hx4 e he

theorem Mid.move_ent (hf : Fin c s) (hm : Mid c s) {j a e : Nat} (hv : s (.pent j a e) = .ok) :
    Fin c (applyMove s [(.pent j a e, .aent a e)]) ∧ Mid c (applyMove s [(.pent j a e, .aent a e)]) := by
  have hs := applyMove_single s (.pent j a e) (.aent a e)
  have hne : ∀ x, x ≠ Obj.aent a e → x ≠ Obj.pent j a e →
      applyMove s [(.pent j a e, .aent a e)] x = s x := by
    intro x h1 h2; rw [hs, if_neg (Ne.symm h1), if_neg (Ne.symm h2)]
  have h1 : applyMove s [(.pent j a e, .aent a e)] (.aent a e) = .ok := by
    rw [hs, if_pos rfl]; exact hv
  have h2 : applyMove s [(.pent j a e, .aent a e)] (.pent j a e) = .absent := by
    rw [hs, if_neg (by simp), if_pos rfl]
  generalize applyMove s [(.pent j a e, .aent a e)] = s' at hne h1 h2
  refine ⟨⟨?_, ?_⟩, ⟨?_, ?_, ?_⟩⟩
  · intro hz a' ha'
    rw [hne _ (by simp) (by simp)] at hz ⊢
    exact hf.zfin hz a' ha'
  · intro a' h3
    rw [hne _ (by simp) (by simp)] at h3 ⊢
    refine ⟨(hf.ffin a' h3).1, fun j' hj' e' he' => ?_⟩
    rw [hne _ (by simp) (by simp)]; exact (hf.ffin a' h3).2 j' hj' e' he'
  · intro h3
    rw [hne _ (by simp) (by simp)] at h3
    rw [hne _ (by simp) (by simp)]
    refine ⟨(hm.planok h3).1, fun a' ha' => ?_⟩
    rw [hne _ (by simp) (by simp), hne _ (by simp) (by simp)]
    exact (hm.planok h3).2 a' ha'
  · intro j' a' e' hj' ha' he' hd
    rw [hne _ (by simp) (by simp)] at hd
    rw [hne (.farr a') (by simp) (by simp)]
    by_cases hc : a' = a ∧ e' = e
    · obtain ⟨rfl, rfl⟩ := hc
      exact Or.inr (Or.inl h1)
    · have n1 : Obj.aent a' e' ≠ .aent a e := by simpa using hc
      have n2 : Obj.pent j' a' e' ≠ .pent j a e := by
        intro h; injection h with _ h4 h5; exact hc ⟨h4, h5⟩
      rw [hne _ n1 (by simp), hne _ (by simp) n2]
      exact hm.cons j' a' e' hj' ha' he' hd
  · intro j' a' e' h3
    by_cases hc : Obj.pent j' a' e' = .pent j a e
    · rw [hc, h2] at h3; exact absurd rfl h3
    · rw [hne _ (by simp) hc] at h3 ⊢; exact hm.pentv j' a' e' h3

theorem Mid.move_final (hf : Fin c s) (hm : Mid c s) {a : Nat} (hp : s .plan ≠ .absent)
    (hfa : s (.farr a) = .absent) (ha : a < c.nArrays)
    (hae : ∀ j, j < c.nParts → ∀ e ∈ c.ents j a, s (.aent a e) = .ok) :
    Fin c (applyMove s (arrMv c a)) ∧ Mid c (applyMove s (arrMv c a)) ∧
    applyMove s (arrMv c a) (.farr a) = .ok ∧
    ∀ o, arrObj a o = false → applyMove s (arrMv c a) o = s o := by
  obtain ⟨h1, h2, hne⟩ := arrMv_spec c s a
  have ht : s (.tmpl a) = .ok := by
    rcases (hm.planok hp).2 a ha with h | h
    · exact h
    · rw [hfa] at h; cases h
  rw [ht] at h1
  have h2' : ∀ j, j < c.nParts → ∀ e ∈ c.ents j a, applyMove s (arrMv c a) (.fent a e) = .ok := by
    intro j hj e he
    rw [h2 e ((mem_allEnts c a e).2 ⟨j, hj, he⟩)]; exact hae j hj e he
  generalize applyMove s (arrMv c a) = s' at hne h1 h2'
  refine ⟨⟨?_, ?_⟩, ⟨?_, ?_, ?_⟩, h1, ?_⟩
  · intro hz
    rw [hne _ (by simp) (by simp) (by simp) (by simp)] at hz
    have := hf.zfin hz a ha
    rw [hfa] at this; cases this
  · intro a' h3
    by_cases hc : a' = a
    · subst hc; exact ⟨h1, h2'⟩
    · have n1 : Obj.farr a' ≠ .farr a := by simpa using hc
      rw [hne _ n1 (by simp) (by simp) (by simp)] at h3 ⊢
      refine ⟨(hf.ffin a' h3).1, fun j' hj' e' he' => ?_⟩
      rw [hne _ (by simp) (by intro e; simp [hc]) (by simp) (by simp)]
      exact (hf.ffin a' h3).2 j' hj' e' he'
  · intro h3
    rw [hne _ (by simp) (by simp) (by simp) (by simp)] at h3
    rw [hne _ (by simp) (by simp) (by simp) (by simp)]
    refine ⟨(hm.planok h3).1, fun a' ha' => ?_⟩
    by_cases hc : a' = a
    · subst hc; exact Or.inr h1
    · rw [hne (.tmpl a') (by simp) (by simp) (by simpa using hc) (by simp),
        hne (.farr a') (by simpa using hc) (by simp) (by simp) (by simp)]
      exact (hm.planok h3).2 a' ha'
  · intro j' a' e' hj' ha' he' hd
    rw [hne _ (by simp) (by simp) (by simp) (by simp)] at hd
    by_cases hc : a' = a
    · subst hc; exact Or.inr (Or.inr h1)
    · rw [hne (.pent j' a' e') (by simp) (by simp) (by simp) (by simp),
        hne (.aent a' e') (by simp) (by simp) (by simp) (by intro e; simp [hc]),
        hne (.farr a') (by simpa using hc) (by simp) (by simp) (by simp)]
      exact hm.cons j' a' e' hj' ha' he' hd
  · intro j' a' e' h3
    rw [hne _ (by simp) (by simp) (by simp) (by simp)] at h3 ⊢
    exact hm.pentv j' a' e' h3
  · intro o ho
    apply hne
    · rintro rfl; simp [arrObj] at ho
    · rintro e rfl; simp [arrObj] at ho
    · rintro rfl; simp [arrObj] at ho
    · rintro e rfl; simp [arrObj] at ho

/-! ### finalise -/

/-- the state finalise starts from comes from a history without finalise, has a plan and every
    partition: then no check of finalise fails -/
def Good (c : Cfg) (s0 : S) : Prop :=
  InvA c s0 ∧ s0 .plan = .ok ∧ ∀ j, j < c.nParts → s0 (.pdir j) ≠ .absent

def finArr (c : Cfg) (s0 : S) (a : Nat) : Prog :=
  [.check fun s => s (.farr a) = .absent] ++
  (List.range c.nParts).flatMap (fun j =>
    [.check fun s => s (.pmeta j a) ≠ .absent] ++
    ((c.mvOrder j a).filter fun e => s0 (.pent j a e) ≠ .absent).map fun e => .move [(.pent j a e, .aent a e)]) ++
  [.move (arrMv c a)]

theorem finaliseArray_eq (c : Cfg) (s0 : S) (a : Nat) : finaliseArray c s0 a = finArr c s0 a := by
  unfold finaliseArray finArr
  rw [arrMv_eq]

def finTail (c : Cfg) : Prog :=
  c.rmWip.map (fun p => .set p.1 p.2) ++
  c.ridxSeq.map (fun p => .set (.ridx p.1) p.2) ++
  [.set .zmeta .ok]

theorem finaliseProg_eq (c : Cfg) (s0 : S) :
    finaliseProg c s0 =
      .check (fun s => s .plan = .ok) ::
      .check (fun s => (List.range c.nParts).all fun j => s (.pdir j) ≠ .absent) ::
      ((List.range c.nArrays).flatMap (finaliseArray c s0) ++ finTail c) := by
  simp [finaliseProg, finTail, List.append_assoc]

/-- the entries of `p<j>/<a>/` are moved into the array directory -/
theorem wpe_finPart (w : WFH c) (s0 s1 : S) (G : Prop) (a j : Nat) (hf : Fin c s1) (hm : Mid c s1)
    (hpe : ∀ e, s1 (.pent j a e) = s0 (.pent j a e)) :
    wpe (InvB c) G
      (((c.mvOrder j a).filter fun e => s0 (.pent j a e) ≠ .absent).map fun e =>
        Step.move [(Obj.pent j a e, Obj.aent a e)])
      (fun s' => Fin c s' ∧ Mid c s' ∧
        (∀ o, (∀ e, o ≠ .aent a e) → (∀ e, o ≠ .pent j a e) → s' o = s1 o) ∧
        ∀ e ∈ c.ents j a, s' (.pent j a e) = .absent) s1 := by
  have hnd : ((c.mvOrder j a).filter fun e => s0 (.pent j a e) ≠ .absent).Nodup :=
    List.Nodup.sublist List.filter_sublist (w.mv_nodup j a)
  have := wpe_map (InvB c) G (fun e => Step.move [(Obj.pent j a e, Obj.aent a e)])
    (fun pre s' => Fin c s' ∧ Mid c s' ∧
        (∀ o, (∀ e, o ≠ .aent a e) → (∀ e ∈ pre, o ≠ .pent j a e) → s' o = s1 o) ∧
        ∀ e ∈ pre, s' (.pent j a e) = .absent)
    ((c.mvOrder j a).filter fun e => s0 (.pent j a e) ≠ .absent) ?_ s1
    ⟨hf, hm, fun _ _ _ => rfl, by simp⟩
  · refine wpe_mono _ _ _ _ _ ?_ _ this
    intro s' ⟨f', m', fr', ab'⟩
    refine ⟨f', m', fun o h1 h2 => fr' o h1 (fun e _ => h2 e), ?_⟩
    intro e he
    by_cases hc : s0 (.pent j a e) = .absent
    · rw [fr' _ (by simp), hpe, hc]
      intro e' he' h
      have : e = e' := by simpa using h
      subst this
      have := (List.mem_filter.1 he').2
      simp [hc] at this
    · apply ab'
      rw [List.mem_filter]
      exact ⟨w.mv_all j a e he, by simpa using hc⟩
  · intro pre e post heq s' ⟨f', m', fr', ab'⟩
    have hemem : e ∈ (c.mvOrder j a).filter fun e => s0 (.pent j a e) ≠ .absent := by
      rw [heq]; simp
    have he0 : s0 (.pent j a e) ≠ .absent := by simpa using (List.mem_filter.1 hemem).2
    have henp : e ∉ pre := nodup_mid hnd heq
    have hcur : s' (.pent j a e) = s0 (.pent j a e) := by
      rw [fr' _ (by simp), hpe]
      intro e' he' h
      have : e = e' := by simpa using h
      exact henp (this ▸ he')
    have hok : s' (.pent j a e) = .ok := (m'.pentv j a e (by rw [hcur]; exact he0)).2.2
    obtain ⟨f2, m2⟩ := Mid.move_ent f' m' hok
    have hs := applyMove_single s' (.pent j a e) (.aent a e)
    refine ⟨⟨f', Or.inr m'⟩, f2, m2, ?_, ?_⟩
    · intro o h1 h2
      rw [hs, if_neg (Ne.symm (h1 e)), if_neg (Ne.symm (h2 e (by simp)))]
      exact fr' o h1 (fun e' he' => h2 e' (by simp [he']))
    · intro e' he'
      rw [hs, if_neg (by simp)]
      by_cases hc : e' = e
      · subst hc; rw [if_pos rfl]
      · rw [if_neg (by simpa using Ne.symm hc)]
        rcases List.mem_append.1 he' with h | h
        · exact ab' e' h
        · exact absurd (by simpa using h) hc

/-- finalising one array -/
theorem wpe_finArr (w : WFH c) (s0 s : S) (G : Prop) (a : Nat) (ha : a < c.nArrays)
    (hf : Fin c s) (hm : Mid c s) (hp : s .plan = .ok)
    (hd : ∀ j, j < c.nParts → s (.pdir j) ≠ .absent)
    (hpe : ∀ j e, s (.pent j a e) = s0 (.pent j a e))
    (hGf : G → s (.farr a) = .absent) (hGm : G → ∀ j, j < c.nParts → s (.pmeta j a) ≠ .absent) :
    wpe (InvB c) G (finArr c s0 a)
      (fun s' => Fin c s' ∧ Mid c s' ∧ s' (.farr a) = .ok ∧ ∀ o, arrObj a o = false → s' o = s o) s := by
  unfold finArr
  refine wpe_seq _ _ _ _ (fun s' => Fin c s' ∧ Mid c s' ∧
      (∀ o, (∀ e, o ≠ .aent a e) → (∀ j e, o ≠ .pent j a e) → s' o = s o) ∧
      s (.farr a) = .absent ∧
      ∀ j, j < c.nParts → ∀ e ∈ c.ents j a, s' (.pent j a e) = .absent) _ s ?_ ?_
  · refine ⟨⟨hf, Or.inr hm⟩, fun g => by simpa using hGf g, fun hc => ?_⟩
    have hfa : s (.farr a) = .absent := by simpa using hc
    have := wpe_flatMap (InvB c) G
      (fun j => [Step.check fun s => s (.pmeta j a) ≠ .absent] ++
        ((c.mvOrder j a).filter fun e => s0 (.pent j a e) ≠ .absent).map fun e =>
          Step.move [(Obj.pent j a e, Obj.aent a e)])
      (fun prej s' => Fin c s' ∧ Mid c s' ∧
        (∀ o, (∀ e, o ≠ .aent a e) → (∀ j ∈ prej, ∀ e, o ≠ .pent j a e) → s' o = s o) ∧
        ∀ j ∈ prej, ∀ e ∈ c.ents j a, s' (.pent j a e) = .absent)
      (List.range c.nParts) ?_ s ⟨hf, hm, fun _ _ _ => rfl, by simp⟩
    · refine wpe_mono _ _ _ _ _ ?_ _ this
      intro s' ⟨f', m', fr', ab'⟩
      exact ⟨f', m', fun o h1 h2 => fr' o h1 (fun j _ e => h2 j e), hfa,
        fun j hj => ab' j (List.mem_range.2 hj)⟩
    · intro prej j post heq s' ⟨f', m', fr', ab'⟩
      have hjn : j ∉ prej := nodup_mid List.nodup_range heq
      have hj : j < c.nParts := List.mem_range.1 (by rw [heq]; simp)
      refine ⟨⟨f', Or.inr m'⟩, ?_, fun _ => ?_⟩
      · intro g
        have : s' (.pmeta j a) = s (.pmeta j a) := fr' _ (by simp) (by simp)
        simpa [this] using hGm g j hj
      · have hpe' : ∀ e, s' (.pent j a e) = s0 (.pent j a e) := by
          intro e
          rw [fr' _ (by simp), hpe]
          intro j' hj' e' h
          have : j = j' := by injection h
          exact hjn (this ▸ hj')
        refine wpe_mono _ _ _ _ _ ?_ _ (wpe_finPart w s0 s' G a j f' m' hpe')
        intro s2 ⟨f2, m2, fr2, ab2⟩
        refine ⟨f2, m2, ?_, ?_⟩
        · intro o h1 h2
          rw [fr2 o h1 (fun e => h2 j (by simp) e)]
          exact fr' o h1 (fun j' hj' => h2 j' (by simp [hj']))
        · intro j' hj' e he
          rcases List.mem_append.1 hj' with h | h
          · rw [fr2 _ (by simp)]
            · exact ab' j' h e he
            · intro e' h'
              have : j' = j := by injection h'
              exact hjn (this ▸ h)
          · have : j' = j := by simpa using h
            subst this; exact ab2 e he
  · intro s' ⟨f', m', fr', hfa, ab'⟩
    have hfa' : s' (.farr a) = .absent := by rw [fr' _ (by simp) (by simp)]; exact hfa
    have hp' : s' .plan ≠ .absent := by rw [fr' _ (by simp) (by simp), hp]; simp
    have hae : ∀ j, j < c.nParts → ∀ e ∈ c.ents j a, s' (.aent a e) = .ok := by
      intro j hj e he
      have hd' : s' (.pdir j) ≠ .absent := by rw [fr' _ (by simp) (by simp)]; exact hd j hj
      rcases m'.cons j a e hj ha he hd' with h | h | h
      · rw [ab' j hj e he] at h; cases h
      · exact h
      · rw [hfa'] at h; cases h
    obtain ⟨f2, m2, h2, fr2⟩ := Mid.move_final f' m' hp' hfa' ha hae
    refine ⟨⟨f', Or.inr m'⟩, f2, m2, h2, ?_⟩
    intro o ho
    rw [fr2 o ho]
    apply fr'
    · rintro e rfl; simp [arrObj] at ho
    · rintro j e rfl; simp [arrObj] at ho

theorem Obj.wipSide_of_isFin {o : Obj} (h : o.isFin = true) : o.wipSide = false := by
  cases o <;> simp_all [Obj.isFin, Obj.wipSide]

/-- all the arrays -/
theorem wpe_arrays (w : WFH c) (s0 : S) (hI : InvB c s0) (hp : s0 .plan = .ok)
    (hd : ∀ j, j < c.nParts → s0 (.pdir j) ≠ .absent) :
    wpe (InvB c) (Good c s0) ((List.range c.nArrays).flatMap (finaliseArray c s0))
      (fun s' => Fin c s' ∧ AllDone c s') s0 := by
  rcases hI.2 with ad | m
  · -- everything is finalised already: the first check fails
    have := wpe_flatMap (InvB c) (Good c s0) (finaliseArray c s0)
      (fun pre s' => s' = s0 ∧ pre = []) (List.range c.nArrays) ?_ s0 ⟨rfl, rfl⟩
    · refine wpe_mono _ _ _ _ _ ?_ _ this
      rintro s' ⟨_, h⟩
      have h0 : 0 ∈ List.range c.nArrays := List.mem_range.2 w.arrays_pos
      rw [h] at h0; cases h0
    · rintro pre a post heq s' ⟨rfl, rfl⟩
      have ha : a < c.nArrays := List.mem_range.1 (by rw [heq]; simp)
      rw [finaliseArray_eq]
      refine ⟨hI, fun g => by simpa using g.1.farr0 a, fun hc => ?_⟩
      have : s' (.farr a) = .absent := by simpa using hc
      rw [ad a ha] at this; cases this
  · have := wpe_flatMap (InvB c) (Good c s0) (finaliseArray c s0)
      (fun pre s' => Fin c s' ∧ Mid c s' ∧
        (∀ o, (∀ a ∈ pre, arrObj a o = false) → s' o = s0 o) ∧ ∀ a ∈ pre, s' (.farr a) = .ok)
      (List.range c.nArrays) ?_ s0 ⟨hI.1, m, fun _ _ => rfl, by simp⟩
    · refine wpe_mono _ _ _ _ _ ?_ _ this
      intro s' ⟨f', _, _, h⟩
      exact ⟨f', fun a ha => h a (List.mem_range.2 ha)⟩
    · intro pre a post heq s' ⟨f', m', fr', dn'⟩
      have ha : a < c.nArrays := List.mem_range.1 (by rw [heq]; simp)
      have han : a ∉ pre := nodup_mid List.nodup_range heq
      have hne : ∀ a' ∈ pre, a ≠ a' := fun a' h e => han (e ▸ h)
      rw [finaliseArray_eq]
      refine wpe_mono _ _ _ _ _ ?_ _ (wpe_finArr w s0 s' (Good c s0) a ha f' m' ?_ ?_ ?_ ?_ ?_)
      · intro s2 ⟨f2, m2, h2, fr2⟩
        refine ⟨f2, m2, ?_, ?_⟩
        · intro o ho
          rw [fr2 o (ho a (by simp))]
          exact fr' o (fun a' ha' => ho a' (by simp [ha']))
        · intro a' ha'
          rcases List.mem_append.1 ha' with h | h
          · rw [fr2 _ (by simpa [arrObj] using Ne.symm (hne a' h))]; exact dn' a' h
          · have : a' = a := by simpa using h
            subst this; exact h2
      · rw [fr' _ (fun _ _ => rfl)]; exact hp
      · intro j hj; rw [fr' _ (fun _ _ => rfl)]; exact hd j hj
      · intro j e
        exact fr' _ (fun a' ha' => by simpa [arrObj] using hne a' ha')
      · intro g
        rw [fr' _ (fun a' ha' => by simpa [arrObj] using hne a' ha')]
        exact g.1.farr0 a
      · intro g j hj
        rw [fr' _ (fun _ _ => rfl)]
        have := g.1.whole j (g.2.2 j hj) (.hdr a) ((hdr_mem_allRefs c j a).2 ha)
        show s0 (PRef.p j (.hdr a)) ≠ .absent
        rw [this]; simp

/-- `rmtree(wip)`, the region index, `.zmetadata` -/
theorem wpe_finTail (w : WFH c) (G : Prop) (hf : Fin c s) (ha : AllDone c s) :
    wpe (InvB c) G (finTail c) (fun s' => InvB c s' ∧ s' .zmeta = .ok ∧ s' .plan = .absent) s := by
  unfold finTail
  refine wpe_seq _ _ _ _ (fun s' => Fin c s' ∧ AllDone c s' ∧ s' .plan = .absent) _ s
    (wpe_seq _ _ _ _ (fun s' => Fin c s' ∧ AllDone c s' ∧ s' .plan = .absent) _ s ?_ ?_) ?_
  · have := wpe_setSeq (fun o : Obj => o) (fun _ _ e => e) (InvB c) G c.rmWip s ?_
    · refine wpe_mono _ _ _ _ _ ?_ _ this
      intro s' ⟨fr, lt⟩
      have hfin : ∀ o : Obj, o.isFin = true → s' o = s o := by
        intro o ho
        apply fr
        rintro p hp rfl
        exact absurd (w.rmWip_side p hp) (by simp [Obj.wipSide_of_isFin ho])
      exact ⟨hf.congr hfin, ha.congr hfin, lt _ _ w.rmWip_plan⟩
    · intro s' fr
      have hfin : ∀ o : Obj, o.isFin = true → s' o = s o := by
        intro o ho
        apply fr
        rintro p hp rfl
        exact absurd (w.rmWip_side p hp) (by simp [Obj.wipSide_of_isFin ho])
      exact ⟨hf.congr hfin, Or.inl (ha.congr hfin)⟩
  · intro s1 ⟨f1, a1, p1⟩
    have := wpe_setSeq Obj.ridx (fun _ _ e => by simpa using e) (InvB c) G c.ridxSeq s1 ?_
    · refine wpe_mono _ _ _ _ _ ?_ _ this
      intro s' ⟨fr, _⟩
      have hfin : ∀ o : Obj, o.isFin = true → s' o = s1 o := by
        intro o ho
        apply fr
        rintro p _ rfl
        simp [Obj.isFin] at ho
      exact ⟨f1.congr hfin, a1.congr hfin, by rw [fr _ (by simp)]; exact p1⟩
    · intro s' fr
      have hfin : ∀ o : Obj, o.isFin = true → s' o = s1 o := by
        intro o ho
        apply fr
        rintro p _ rfl
        simp [Obj.isFin] at ho
      exact ⟨f1.congr hfin, Or.inl (a1.congr hfin)⟩
  · intro s1 ⟨f1, a1, p1⟩
    refine ⟨⟨f1, Or.inl a1⟩, ⟨⟨?_, ?_⟩, Or.inl ?_⟩, by simp [upd], by simpa [upd] using p1⟩
    · intro _ a ha'; simpa [upd] using a1 a ha'
    · intro a h1
      simp only [upd, reduceCtorEq, if_false] at h1 ⊢
      exact f1.ffin a h1
    · intro a ha'; simpa [upd] using a1 a ha'

theorem wpe_finaliseProg (w : WFH c) (s0 : S) (hI : InvB c s0) :
    wpe (InvB c) (Good c s0) (finaliseProg c s0)
      (fun s' => InvB c s' ∧ s' .zmeta = .ok ∧ s' .plan = .absent) s0 := by
  rw [finaliseProg_eq]
  refine ⟨hI, fun g => by simpa using g.2.1, fun h1 => ⟨hI, fun g => ?_, fun h2 => ?_⟩⟩
  · rw [List.all_eq_true]
    intro j hj
    simpa using g.2.2 j (List.mem_range.1 hj)
  · have hp : s0 .plan = .ok := by simpa using h1
    have hd : ∀ j, j < c.nParts → s0 (.pdir j) ≠ .absent := by
      intro j hj
      simpa using List.all_eq_true.1 h2 j (List.mem_range.2 hj)
    exact wpe_seq _ _ _ _ _ _ s0 (wpe_arrays w s0 hI hp hd)
      (fun s1 h => wpe_finTail w _ h.1 h.2)

/-! ## every command preserves its invariant, at every kill point -/

theorem InvA_step_init (w : WFH c) (h : InvA c s) (kill : Option Nat) :
    InvA c (step c s .init kill).st := by
  show InvA c (exec s (initProg c) kill).st
  rw [initProg_eq, exec_check_cons]
  split
  · exact wpe_exec_inv _ True _ (fun _ h => h) s _ kill (wpe_initBody w (InvA c) s (by
      intro s' fr pl
      have hs : ∀ o : Obj, o.isInit = false → s' o = s o := fr
      have hp : ∀ j r, s' (PRef.p j r) = s (PRef.p j r) := fun j r => fr _ (by cases r <;> rfl)
      refine ⟨?_, ?_, ?_, ?_, ?_, ?_, ?_⟩
      · intro a e; rw [fr _ rfl]; exact h.aent0 a e
      · intro a; rw [fr _ rfl]; exact h.farr0 a
      · intro a e; rw [fr _ rfl]; exact h.fent0 a e
      · rw [fr _ rfl]; exact h.zmeta0
      · rename_i hr
        have hr : s .root = .absent := by simpa using hr
        have hpl : s .plan = .absent :=
          Classical.byContradiction fun hp => by
            have := (h.planok hp).1; rw [hr] at this; cases this
        exact pl hpl
      · intro j h1 r hr'
        rw [fr _ rfl] at h1
        rw [hp]; exact h.whole j h1 r hr'
      · intro j a e h1
        rw [fr _ rfl] at h1 ⊢
        exact h.pentv j a e h1))
  · exact h

theorem InvA_step_partition (w : WFH c) (h : InvA c s) (j : Nat) (kill : Option Nat) :
    InvA c (step c s (.partition j) kill).st := by
  show InvA c (exec s (partitionProg c s j) kill).st
  rw [partitionProg_eq, exec_check_cons]
  split
  · rename_i h1
    rw [exec_check_cons]
    split
    · rename_i h2
      exact wpe_exec_inv _ True _ (fun _ h => h.1) s _ kill
        (wpe_partBody w h (by simpa using h1) (by simpa using h2))
    · exact h
  · exact h

theorem InvB_step_init (w : WFH c) (h : InvB c s) (kill : Option Nat) :
    InvB c (step c s .init kill).st := by
  show InvB c (exec s (initProg c) kill).st
  rw [initProg_eq, exec_check_cons]
  split
  · rename_i hr
    exact wpe_exec_inv _ True _ (fun _ h => h) s _ kill (InvB_init w h (by simpa using hr))
  · exact h

theorem InvB_step_finalise (w : WFH c) (h : InvB c s) (kill : Option Nat) :
    InvB c (step c s .finalise kill).st :=
  wpe_exec_inv _ _ _ (fun _ h => h.1) s _ kill (wpe_finaliseProg w s h)

theorem InvA_runHist (w : WFH c) (hist : List (Cmd × Option Nat))
    (hn : ∀ x ∈ hist, x.1 ≠ Cmd.finalise) : ∀ s, InvA c s → InvA c (runHist c s hist) := by
  induction hist with
  | nil => intro s h; exact h
  | cons x rest ih =>
    intro s h
    obtain ⟨cmd, k⟩ := x
    have ih' := ih (fun y hy => hn y (List.mem_cons_of_mem _ hy))
    cases cmd with
    | init => exact ih' _ (InvA_step_init w h k)
    | partition j => exact ih' _ (InvA_step_partition w h j k)
    | finalise => exact absurd rfl (hn _ (List.mem_cons_self ..))

theorem InvB_runHist (w : WFH c) (hist : List (Cmd × Option Nat))
    (hn : ∀ x ∈ hist, ∀ j, x.1 ≠ Cmd.partition j) : ∀ s, InvB c s → InvB c (runHist c s hist) := by
  induction hist with
  | nil => intro s h; exact h
  | cons x rest ih =>
    intro s h
    obtain ⟨cmd, k⟩ := x
    have ih' := ih (fun y hy => hn y (List.mem_cons_of_mem _ hy))
    cases cmd with
    | init => exact ih' _ (InvB_step_init w h k)
    | partition j => exact absurd rfl (hn _ (List.mem_cons_self ..) j)
    | finalise => exact ih' _ (InvB_step_finalise w h k)

theorem InvB_of_legal (w : WFH c) (hist : List (Cmd × Option Nat)) (hl : legal hist = true) :
    ∀ s, InvA c s → InvB c (runHist c s hist) := by
  induction hist with
  | nil => intro s h; exact h.toInvB
  | cons x rest ih =>
    intro s h
    obtain ⟨cmd, k⟩ := x
    cases cmd with
    | init => exact ih (by simpa [legal] using hl) _ (InvA_step_init w h k)
    | partition j => exact ih (by simpa [legal] using hl) _ (InvA_step_partition w h j k)
    | finalise =>
      simp only [legal, Bool.and_eq_true, List.all_eq_true] at hl
      apply InvB_runHist w rest ?_ _ (InvB_step_finalise w h.toInvB k)
      intro y hy j e
      have := hl.1 y hy
      rw [e] at this
      simp at this

theorem InvB_reachable (w : WFH c) (hist : List (Cmd × Option Nat)) (hl : legal hist = true) :
    InvB c (runHist c Fs.empty hist) := InvB_of_legal w hist hl _ (InvA_empty c)

/-! ## complete runs -/

theorem partition_complete (w : WFH c) (h : InvA c s) {j : Nat} (hp : s .plan = .ok)
    (hj : j < c.nParts) :
    (step c s (.partition j) none).error = false ∧
    InvA c (step c s (.partition j) none).st ∧
    (step c s (.partition j) none).st .plan = .ok ∧
    (step c s (.partition j) none).st (.pdir j) = .ok ∧
    (∀ r ∈ allRefs c j, (step c s (.partition j) none).st (r.p j) = .ok) ∧
    ∀ j', j' ≠ j → (step c s (.partition j) none).st (.pdir j') = s (.pdir j') := by
  have e : step c s (.partition j) none = exec s (partBody c s j) none := by
    show exec s (partitionProg c s j) none = _
    rw [partitionProg_eq, exec_check_pass _ _ _ _ (by simpa using hp),
      exec_check_pass _ _ _ _ (by simpa using hj)]
  rw [e]
  obtain ⟨h1, h2⟩ := wpe_exec_post _ True _ s _ (wpe_partBody w h hp hj)
  exact ⟨h1 trivial, h2 (h1 trivial)⟩

theorem finalise_complete (w : WFH c) (h : InvB c s) :
    (Good c s → (step c s .finalise none).error = false) ∧
    ((step c s .finalise none).error = false →
      finished (step c s .finalise none).st = true ∧ StoreComplete c (step c s .finalise none).st ∧
      (step c s .finalise none).st .plan = .absent) := by
  obtain ⟨h1, h2⟩ := wpe_exec_post _ _ _ s _ (wpe_finaliseProg w s h)
  refine ⟨h1, fun he => ?_⟩
  obtain ⟨i, z, p⟩ := h2 he
  have z' : (step c s .finalise none).st .zmeta = .ok := z
  exact ⟨by simpa [finished] using z', i.1.complete z, p⟩

/-- running every outstanding partition to completion (any order, repetitions) and then finalise -/
theorem rerun_complete (w : WFH c) (order : List Nat) :
    ∀ s : S, InvA c s → s .plan = .ok → (∀ j ∈ order, j < c.nParts) →
      (∀ j, j < c.nParts → j ∈ order ∨ s (.pdir j) ≠ .absent) →
      let s' := runHist c s (order.map (fun j => (Cmd.partition j, none)) ++ [(Cmd.finalise, none)])
      finished s' = true ∧ StoreComplete c s' ∧ s' .plan = .absent := by
  induction order with
  | nil =>
    intro s h hp _ hall
    show finished (step c s .finalise none).st = true ∧ _
    obtain ⟨h1, h2⟩ := finalise_complete w h.toInvB
    exact h2 (h1 ⟨h, hp, fun j hj => (hall j hj).resolve_left (by simp)⟩)
  | cons j order ih =>
    intro s h hp hrange hall
    obtain ⟨_, i', p', dj, _, dk⟩ := partition_complete w h hp (hrange j (List.mem_cons_self ..))
    refine ih (step c s (.partition j) none).st i' p'
      (fun j' hj' => hrange j' (List.mem_cons_of_mem _ hj')) ?_
    intro j' hj'
    rcases hall j' hj' with h' | h'
    · rcases List.mem_cons.1 h' with rfl | h''
      · exact Or.inr (by rw [dj]; simp)
      · exact Or.inl h''
    · by_cases e : j' = j
      · subst e; exact Or.inr (by rw [dj]; simp)
      · exact Or.inr (by rw [dk j' e]; exact h')

end B2Z.EP
