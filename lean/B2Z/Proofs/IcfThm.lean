import B2Z.Model.Icf
namespace B2Z

theorem emitRest_eq (stop rid : Nat) (xs : List α) (h : rid ≤ stop) :
    emitRest stop rid xs = xs.take (stop - rid) := by
  induction xs generalizing rid with
  | nil => simp [emitRest]
  | cons x xs ih =>
    unfold emitRest
    by_cases hr : rid = stop
    · subst hr; simp
    · have : stop - rid = (stop - (rid+1)) + 1 := by omega
      simp [hr, this, ih (rid+1) (by omega)]

theorem emitFirst_eq (start stop rid : Nat) (xs : List α) (h : rid ≤ stop) :
    (emitFirst start stop rid xs).1 = (xs.take (stop - rid)).drop (start - rid) ∧
    (emitFirst start stop rid xs).2.1 = min (rid + xs.length) stop ∧
    ((emitFirst start stop rid xs).2.2 = true ↔ stop - rid < xs.length) := by
  induction xs generalizing rid with
  | nil => simp [emitFirst]; omega
  | cons x xs ih =>
    unfold emitFirst
    by_cases hr : rid = stop
    · subst hr; simp
    · simp only [hr, if_false]
      have ih' := ih (rid+1) (by omega)
      have e : stop - rid = (stop - (rid+1)) + 1 := by omega
      by_cases hs : rid ≥ start
      · have : start - rid = 0 := by omega
        have : start - (rid+1) = 0 := by omega
        simp_all
        omega
      · have e2 : start - rid = (start - (rid+1)) + 1 := by omega
        simp [hs, e, e2, ih']
        omega

end B2Z

namespace B2Z

theorem le_of_mem_cumsumFrom (acc : Nat) (xs : List Nat) : ∀ y ∈ cumsumFrom acc xs, acc ≤ y := by
  induction xs generalizing acc with
  | nil => simp [cumsumFrom]
  | cons x xs ih =>
    intro y hy
    simp [cumsumFrom] at hy
    rcases hy with rfl | hy
    · exact Nat.le_refl _
    · have := ih (acc + x) y hy; omega

theorem searchRight_cumsumFrom (acc v : Nat) (xs : List Nat) (hpos : ∀ x ∈ xs, 0 < x)
    (h1 : acc ≤ v) (h2 : v < acc + xs.sum) :
    ∃ i, i < xs.length ∧ searchRight (cumsumFrom acc xs) v = i + 1 ∧
      (cumsumFrom acc xs).getD i 0 = acc + (xs.take i).sum ∧
      acc + (xs.take i).sum ≤ v ∧ v < acc + (xs.take (i+1)).sum := by
  induction xs generalizing acc with
  | nil => simp at h2; omega
  | cons x xs ih =>
    by_cases hv : v < acc + x
    · refine ⟨0, by simp, ?_, by simp [cumsumFrom], by simpa, by simpa⟩
      have : (cumsumFrom (acc + x) xs).filter (· ≤ v) = [] := by
        apply List.filter_eq_nil_iff.mpr
        intro y hy
        have := le_of_mem_cumsumFrom _ _ y hy
        simp; omega
      simp [searchRight, cumsumFrom, h1, this]
    · have hx : ∀ y ∈ xs, 0 < y := fun y hy => hpos y (List.mem_cons_of_mem _ hy)
      have hs : (x :: xs).sum = x + xs.sum := by simp
      obtain ⟨i, hi, hsr, hget, hle, hlt⟩ := ih (acc + x) hx (by omega) (by omega)
      refine ⟨i + 1, by simpa using hi, ?_, ?_, ?_, ?_⟩
      · simp [searchRight, cumsumFrom, h1] at hsr ⊢; exact hsr
      · simp [cumsumFrom] at hget ⊢; omega
      · simp; omega
      · simp; omega

end B2Z
