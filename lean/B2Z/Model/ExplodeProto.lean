import B2Z.Model.Fs
/-! # M-G (explode) — `dexplode-init`, `dexplode-partition j`, `dexplode-finalise` as programs

Objects: the output directory (`root`), `wip/`, the directories and `header.txt` created by init
(`shared k`, `header`), the plan `wip/metadata.json`, the private objects of partition `j`
(`data j k`: `<FIELD>/p<j>/`, its chunk files and `chunk_index`), the completion record
`wip/p<j>.json` (`summary j`) and the completion marker `metadata.json` (`final`).
-/
namespace B2Z.XP
open B2Z.Fs

inductive Obj
  | root | wipDir | header | plan | final
  | shared (k : Nat)
  | summary (j : Nat)
  | data (j k : Nat)
  deriving DecidableEq, Repr

abbrev S := St Obj
abbrev Prog := List (Step Obj S)

structure Cfg where
  nParts : Nat
  nShared : Nat
  /-- the private objects of partition `j` in the order the task touches them; `true` = a
      directory created with mkdir (one mutation), `false` = a file written (torn, then ok) -/
  dataSeq : Nat → List (Nat × Bool)
  /-- order in which `rmtree(wip)` removes `wip/p<j>.json` (`some j`) and `wip/metadata.json` (`none`) -/
  rmOrder : List (Option Nat)

inductive Cmd
  | init
  | partition (j : Nat)
  | finalise
  deriving DecidableEq, Repr

def touch (o : Obj) (isDir : Bool) : Prog := if isDir then [.set o .ok] else write o

def initProg (c : Cfg) : Prog :=
  [.check fun s => s .root = .absent,            -- "ICF path already exists"
   .set .root .ok, .set .wipDir .ok] ++
  (List.range c.nShared).map (fun k => .set (.shared k) .ok) ++
  write .header ++ write .plan

def partitionProg (c : Cfg) (s0 : S) (j : Nat) : Prog :=
  [.check fun s => s .plan = .ok,                 -- load_metadata: missing or unparsable → error
   .check fun _ => decide (j < c.nParts),         -- "Partition index not in the valid range"
   .check fun s => s .final = .absent] ++         -- repaired F7: refuse once the store is finalised
  (if s0 (.summary j) ≠ .absent then [.set (.summary j) .absent] else []) ++
  (c.dataSeq j).flatMap (fun p => touch (.data j p.1) p.2) ++
  write (.summary j)

def finaliseProg (c : Cfg) : Prog :=
  [.check fun s => s .plan = .ok,
   .check fun s => (List.range c.nParts).all fun j => s (.summary j) = .ok] ++
  write .final ++
  c.rmOrder.map (fun x => match x with
    | some j => .set (.summary j) .absent
    | none => .set .plan .absent) ++
  [.set .wipDir .absent]

def prog (c : Cfg) (s : S) : Cmd → Prog
  | .init => initProg c
  | .partition j => partitionProg c s j
  | .finalise => finaliseProg c

/-- run one command from state `s`, killed after `kill` mutations (`none` = not killed) -/
def step (c : Cfg) (s : S) (cmd : Cmd) (kill : Option Nat) : Out Obj := exec s (prog c s cmd) kill

/-- a history: commands with optional kill points -/
def runHist (c : Cfg) (s : S) : List (Cmd × Option Nat) → S
  | [] => s
  | (cmd, k) :: rest => runHist c (step c s cmd k).st rest

/-- `IntermediateColumnarFormat(path)` succeeds: it parses `metadata.json` and reads `header.txt` -/
def loads (s : S) : Bool := s .final = .ok && s .header = .ok

def dataObjs (c : Cfg) (j : Nat) : List Nat := (c.dataSeq j).map (·.1)

/-- all the data of the store is present and whole -/
def DataComplete (c : Cfg) (s : S) : Prop := ∀ j, j < c.nParts → ∀ k ∈ dataObjs c j, s (.data j k) = .ok

/-- the state an uninterrupted `init; partition 0..n-1; finalise` ends in -/
def finalState (c : Cfg) : S := fun o =>
  match o with
  | .root | .header | .final => .ok
  | .shared k => if k < c.nShared then .ok else .absent
  | .data j k => if j < c.nParts ∧ k ∈ dataObjs c j then .ok else .absent
  | _ => .absent

end B2Z.XP
