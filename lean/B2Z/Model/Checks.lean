/-! # M-L — input-set checks (`scan_vcfs`, `check_overlapping_partitions`, `check_field_clobbering`,
duplicate-array detection at encode init, filter lookup)
-/
namespace B2Z.Checks

/-- one explode partition after `finalise` filled in its end: contig index (header order), first
    record position (`region.start`, refined to the first record) and last record position -/
structure Part where
  contig : Nat
  start : Nat
  stop : Nat          -- `region.end = last_position`
  deriving DecidableEq, Repr

/-- the sort key of `scan_vcfs`: `(contig_index_map[contig], region.start)` -/
def Part.le (a b : Part) : Bool := a.contig < b.contig || (a.contig == b.contig && a.start ≤ b.start)

/-- stable sort by the key (Python's `list.sort`) -/
def sortParts (ps : List Part) : List Part := ps.foldr (fun p acc => insertBefore p acc) []
where
  insertBefore (x : Part) : List Part → List Part
    | [] => [x]
    | y :: ys => if x.le y then x :: y :: ys else y :: insertBefore x ys

/-- `check_overlapping_partitions`: adjacent partitions on one contig must satisfy
    `prev.end < cur.start`; returns `true` when the check passes -/
def noOverlap : List Part → Bool
  | [] => true
  | [_] => true
  | a :: b :: rest => (!(a.contig == b.contig) || decide (a.stop < b.start)) && noOverlap (b :: rest)

/-- explode's acceptance of a set of partitions (in any input order) -/
def accepts (ps : List Part) : Bool := noOverlap (sortParts ps)

/-- `scan_vcfs`: the same path given twice is rejected -/
def pathsOk (paths : List String) : Bool := paths.Nodup

/-- `check_field_clobbering` with the two literal name sets -/
def clobberOk (clobberInfo clobberFormat infoNames formatNames : List String) : Bool :=
  infoNames.all (fun n => !clobberInfo.contains n) && formatNames.all (fun n => !clobberFormat.contains n)

/-- array names the schema generator creates: the fixed ones plus `variant_<INFO>` / `call_<FORMAT>` -/
def arrayNames (fixed infoNames formatNames : List String) : List String :=
  fixed ++ infoNames.map ("variant_" ++ ·) ++ (formatNames.filter (· ≠ "GT")).map ("call_" ++ ·)

/-- zarr refuses to create an array that already exists: encode init fails on duplicate names -/
def namesOk (clobberInfo clobberFormat fixed infoNames formatNames : List String) : Bool :=
  clobberOk clobberInfo clobberFormat infoNames formatNames && (arrayNames fixed infoNames formatNames).Nodup

/-- `encode_filters_partition`: every filter used by a record must be declared -/
def filtersOk (declared : List String) (used : List (List String)) : Bool :=
  used.all fun fs => fs.all fun f => declared.contains f

end B2Z.Checks
