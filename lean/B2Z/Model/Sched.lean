/-! # M-H — `core.wait_on_futures`, `ParallelWorkManager.__exit__`, `SynchronousExecutor`,
and an executable model of a process pool.

A *completion event* is the result a future ends with.  `concurrent.futures` guarantees
(assumption, validated by real runs): every submitted future appears exactly once in
`as_completed`; a future's result is `ok` only if its task ran and returned; a task that raises
gives `exc`; when a worker process dies every unfinished future becomes `broken`.
-/
namespace B2Z.Sched

inductive Outcome | ok | raise (e : Nat) | die
  deriving DecidableEq, Repr

inductive Res | ok | exc (e : Nat) | broken | cancelled
  deriving DecidableEq, Repr

inductive Verdict | ok | taskError (e : Nat) | runtimeError | cancelledError
  deriving DecidableEq, Repr

/-- `wait_on_futures`: iterate `as_completed`; the first future with an exception cancels the
    rest and raises (BrokenProcessPool ↦ RuntimeError).  `future.exception()` on a cancelled
    future raises CancelledError. Returns the verdict and how many events were consumed. -/
def waitOnFutures : List Res → Verdict × Nat
  | [] => (.ok, 0)
  | .ok :: rest => let r := waitOnFutures rest; (r.1, r.2 + 1)
  | .exc e :: _ => (.taskError e, 1)
  | .broken :: _ => (.runtimeError, 1)
  | .cancelled :: _ => (.cancelledError, 1)

/-- `ParallelWorkManager.__exit__(exc_type, …)`: waits only if the body did not raise;
    returns False so a body exception propagates. -/
def managerExit (bodyExc : Option Nat) (events : List Res) : Verdict :=
  match bodyExc with
  | some e => .taskError e
  | none => (waitOnFutures events).1

/-- `SynchronousExecutor.submit` runs the task inline: the first failing task's exception leaves
    `submit` (inside the `with` body), later tasks are never submitted. Returns verdict and the
    number of tasks that ran to completion. -/
def syncRun : List Outcome → Verdict × Nat
  | [] => (.ok, 0)
  | .ok :: rest => let r := syncRun rest; (r.1, r.2 + 1)
  | .raise e :: _ => (.taskError e, 0)
  | .die :: _ => (.runtimeError, 0)    -- the driving process itself dies: no success is ever reported

/-! ## executable process-pool model -/

structure Pool where
  running : List Nat          -- task ids on workers
  pending : List Nat          -- submission order
  events : List (Nat × Res)   -- completion events so far

def resOf : Outcome → Res
  | .ok => .ok | .raise e => .exc e | .die => .broken

/-- one scheduling step: the running task at position `pick % running.length` finishes -/
def Pool.step (out : Nat → Outcome) (p : Pool) (pick : Nat) : Pool :=
  match p.running with
  | [] => p
  | _ =>
    let i := pick % p.running.length
    let t := p.running.getD i 0
    let others := p.running.eraseIdx i
    match out t with
    | .die =>
      -- the pool breaks: every unfinished future becomes broken
      { running := [], pending := [],
        events := p.events ++ [(t, .broken)] ++ (others ++ p.pending).map fun u => (u, .broken) }
    | o =>
      match p.pending with
      | [] => { running := others, pending := [], events := p.events ++ [(t, resOf o)] }
      | u :: us => { running := others ++ [u], pending := us, events := p.events ++ [(t, resOf o)] }

def Pool.start (n w : Nat) : Pool :=
  let ids := List.range n
  { running := ids.take w, pending := ids.drop w, events := [] }

/-- run the pool to completion under a schedule (list of picks; missing picks default to 0) -/
def poolRun (out : Nat → Outcome) (n w : Nat) (sched : List Nat) : List (Nat × Res) :=
  let rec go (fuel : Nat) (p : Pool) (s : List Nat) : Pool :=
    match fuel with
    | 0 => p
    | fuel + 1 =>
      if p.running.isEmpty then p
      else go fuel (p.step out (s.headD 0)) s.tail
  (go n (Pool.start n w) sched).events

/-- verdict of a pipeline command: `with ParallelWorkManager(w) as pwm: for t: pwm.submit(t)` -/
def command (out : Nat → Outcome) (n w : Nat) (sched : List Nat) : Verdict :=
  if w = 0 then (syncRun ((List.range n).map out)).1
  else managerExit none ((poolRun out n w sched).map (·.2))

/-! ## what `__exit__` does to the shared progress counter

The counter is a `multiprocessing.Value`; `update_progress` (workers) and `get_progress` (the driver's
progress thread, and `__exit__` itself once more) take its lock.  A worker killed inside
`update_progress` never releases it: from then on every step that needs the lock blocks forever. -/

inductive ExitStep
  | waitFutures | cancelFutures | setCompleted | shutdown | joinProgress | readProgress | closeBar
  deriving DecidableEq, Repr

/-- the steps `ParallelWorkManager.__exit__` performs.  `bodyRaised`: the `with` body raised (e.g.
    `results_as_completed` met a failed future); `waitRaises`: `wait_on_futures` raises and the
    exception leaves `__exit__` at once.  `repaired = false` is the code before fix F13. -/
def exitSteps (repaired bodyRaised waitRaises : Bool) : List ExitStep :=
  if bodyRaised then
    [.cancelFutures, .setCompleted, .shutdown] ++ (if repaired then [] else [.joinProgress, .readProgress]) ++ [.closeBar]
  else if waitRaises then [.waitFutures]
  else [.waitFutures, .setCompleted, .shutdown, .joinProgress, .readProgress, .closeBar]

/-- joining the progress thread waits for its `get_progress`; reading the counter takes the lock -/
def ExitStep.needsLock : ExitStep → Bool
  | .joinProgress | .readProgress => true
  | _ => false

/-- `__exit__` blocks forever iff it reaches a step that needs the lock while a dead worker holds it -/
def exitHangs (lockLost : Bool) (steps : List ExitStep) : Bool := lockLost && steps.any ExitStep.needsLock

/-- a worker's `update_progress`: with the lock lost, the unrepaired code waits forever; the repaired one
    gives up after a bounded wait and drops the update (`repaired = false` is the code before fix F14) -/
def workerUpdateBlocks (repaired lockLost : Bool) : Bool := !repaired && lockLost

end B2Z.Sched
