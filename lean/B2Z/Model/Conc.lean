import B2Z.Model.Fs
import B2Z.Model.ExplodeProto
import B2Z.Model.EncodeProto
import B2Z.Model.Buffer
/-! # M-G (concurrency) — interleavings of partition tasks

A running task is the list of mutations its program performs once its checks have passed (checks
read only objects no concurrent task writes).  A concurrent execution of several tasks is a
*merge* of their mutation lists: any interleaving that keeps each task's own order.
-/
namespace B2Z.Conc
open B2Z.Fs

/-- a mutation (a `Step` that is not a check) -/
inductive Mut (Obj : Type)
  | set (o : Obj) (v : V)
  | move (ps : List (Obj × Obj))

variable {Obj : Type} [DecidableEq Obj]

def Mut.apply (s : St Obj) : Mut Obj → St Obj
  | .set o v => upd s o v
  | .move ps => applyMove s ps

/-- objects a mutation reads or writes -/
def Mut.footprint : Mut Obj → List Obj
  | .set o _ => [o]
  | .move ps => ps.flatMap fun p => [p.1, p.2]

def run (s : St Obj) (ms : List (Mut Obj)) : St Obj := ms.foldl Mut.apply s

/-- the mutations of a program (its checks dropped) -/
def mutsOf {S : Type} : List (Step Obj S) → List (Mut Obj)
  | [] => []
  | .set o v :: rest => .set o v :: mutsOf rest
  | .move ps :: rest => .move ps :: mutsOf rest
  | .check _ :: rest => mutsOf rest

/-- `zs` is an interleaving of the lists `ts` (each list's order is kept) -/
inductive Merge {α : Type} : List (List α) → List α → Prop
  | done {ts : List (List α)} : (∀ t ∈ ts, t = []) → Merge ts []
  | pick {ts : List (List α)} {zs : List α} (i : Nat) (x : α) (rest : List α) :
      ts[i]? = some (x :: rest) → Merge (ts.set i rest) zs → Merge ts (x :: zs)

def Disjoint (a b : List Obj) : Prop := ∀ x ∈ a, x ∉ b

end B2Z.Conc
