import B2Z.Model.Icf
import B2Z.Model.Fs
import B2Z.Model.Arith
/-! # M-C with file states — which files a read of the intermediate store opens

A finished store has, per field: one `chunk_index` file per partition and one file per chunk, plus
the shared `metadata.json` (and `header.txt`).  A file is `ok`, `torn` (truncated to a strict prefix)
or `absent`.  Opening an absent file raises; decoding a torn one raises **by hypothesis**
(`CodecRejectsPrefix`: JSON / pickle / Blosc reject every strict prefix — enumerated exhaustively by
the harness, not proved).  So a read succeeds iff every file it opens is `ok`.
-/
namespace B2Z.Dmg
open B2Z.Fs

/-- file states of one field of a store with the given partition/chunk structure -/
structure Files where
  mdata : V
  index : Nat → V            -- chunk_index of partition p
  chunk : Nat → Nat → V      -- chunk k of partition p

/-- global record id of the first record of chunk `k` of partition `p` -/
def firstId (s : Store α) (p k : Nat) : Nat :=
  ((s.take p).map fun q => q.recs.length).sum + (((s[p]?.map (·.chunks)).getD []).take k |>.map List.length).sum

/-- the partition and chunk in which `iter_values(start, ·)` starts (the two `searchsorted`) -/
def startOf (s : Store α) (start : Nat) : Nat × Nat :=
  let sp := searchRight s.partIndex start - 1
  let off := s.partIndex.getD sp 0
  let sc := match s[sp]? with
    | some p => searchRight p.chunkIndex (start - off) - 1
    | none => 0
  (sp, sc)

/-- the chunk files opened by `iter_values(start, stop)`: from the start chunk onwards, every chunk
    whose first record id is `≤ stop` (the generator opens a chunk before it notices `stop`) -/
def chunksRead (s : Store α) (start stop : Nat) : List (Nat × Nat) :=
  let st := startOf s start
  (List.range s.length).flatMap fun p =>
    ((List.range ((s[p]?.map (·.chunks.length)).getD 0)).filter fun k =>
      (decide (st.1 < p) || (decide (p = st.1) && decide (st.2 ≤ k))) && decide (firstId s p k ≤ stop)).map fun k => (p, k)

/-- the `chunk_index` files opened: those of the partitions of the chunks read -/
def indexesRead (s : Store α) (start stop : Nat) : List Nat :=
  ((chunksRead s start stop).map (·.1)).eraseDups

/-- `iter_values(start, stop)` on a store whose files are in state `f` -/
def iterValuesF (s : Store α) (f : Files) (start stop : Nat) : Option (List α) :=
  if f.mdata = .ok ∧ (indexesRead s start stop).all (fun p => f.index p = .ok) ∧
     (chunksRead s start stop).all (fun pk => f.chunk pk.1 pk.2 = .ok)
  then some (iterValues s start stop) else none

/-- `.values`: every index and every chunk -/
def valuesF (s : Store α) (f : Files) : Option (List α) :=
  if f.mdata = .ok ∧ (List.range s.length).all (fun p => f.index p = .ok ∧
      (List.range ((s[p]?.map (·.chunks.length)).getD 0)).all fun k => f.chunk p k = .ok)
  then some s.all else none

/-- encoding one field: every encode partition reads its range -/
def encodeF (s : Store α) (f : Files) (parts : List (Nat × Nat)) : Option (List (List α)) :=
  parts.mapM fun ab => iterValuesF s f ab.1 ab.2

def Files.allOk (s : Store α) (f : Files) : Prop :=
  f.mdata = .ok ∧ ∀ p, p < s.length → f.index p = .ok ∧ ∀ k, k < ((s[p]?.map (·.chunks.length)).getD 0) → f.chunk p k = .ok

end B2Z.Dmg
