namespace B2Z

/-- cumulative sums with leading 0: `np.cumsum([0, *xs])` / the `chunk_index` array -/
def cumsumFrom (acc : Nat) : List Nat → List Nat
  | [] => [acc]
  | x :: xs => acc :: cumsumFrom (acc + x) xs

def cumsum (xs : List Nat) : List Nat := cumsumFrom 0 xs

/-- `np.searchsorted(a, v, side="right")` on a sorted array = number of entries `≤ v` -/
def searchRight (a : List Nat) (v : Nat) : Nat := (a.filter (· ≤ v)).length

structure Part (α : Type) where
  chunks : List (List α)
  deriving Repr

abbrev Store (α : Type) := List (Part α)

def Part.recs (p : Part α) : List α := p.chunks.flatten
def Part.chunkIndex (p : Part α) : List Nat := cumsum (p.chunks.map List.length)
def Store.all (s : Store α) : List α := (s.map Part.recs).flatten
def Store.partIndex (s : Store α) : List Nat := cumsum (s.map fun p => p.recs.length)

/-- first loop of `iter_values`: skip until `start`, stop at `stop`.  Returns emitted values,
    the record id reached and whether the generator returned. -/
def emitFirst (start stop : Nat) : Nat → List α → List α × Nat × Bool
  | rid, [] => ([], rid, false)
  | rid, x :: xs =>
    if rid = stop then ([], rid, true)
    else
      let r := emitFirst start stop (rid + 1) xs
      (if rid ≥ start then x :: r.1 else r.1, r.2.1, r.2.2)

/-- second loop: later partitions, no `start` test -/
def emitRest (stop : Nat) : Nat → List α → List α
  | _, [] => []
  | rid, x :: xs => if rid = stop then [] else x :: emitRest stop (rid + 1) xs

def iterValues (s : Store α) (start stop : Nat) : List α :=
  let pri := s.partIndex
  let sp := searchRight pri start - 1
  let offset := pri.getD sp 0
  let chunkOffset := start - offset
  match s[sp]? with
  | none => []      -- real code: FileNotFoundError (start ≥ num_records); excluded by the guard
  | some p =>
    let cri := p.chunkIndex
    let sc := searchRight cri chunkOffset - 1
    let rid := offset + cri.getD sc 0
    let first := emitFirst start stop rid (p.chunks.drop sc).flatten
    if first.2.2 then first.1
    else first.1 ++ emitRest stop first.2.1 ((s.drop (sp + 1)).map Part.recs).flatten

/-- `IntermediateColumnarFormatField.values`: every chunk of every partition, in order; with
    the per-chunk length check against the chunk index (`Corruption detected`) -/
def Store.values (s : Store α) : List α := (s.map fun p => p.chunks.flatten).flatten

/-! ## the writer: `IcfFieldWriter.append` / `flush` under an arbitrary flush schedule

`sizes k` is `sys.getsizeof` of the k-th appended value — arbitrary; a chunk is written as soon as
the buffered bytes reach `maxBytes`, and the remainder at `flush`.  Chunk files are named by the
cumulative record count, which is what `chunkIndex` recomputes. -/
structure FW (α : Type) where
  buff : List α
  bytes : Nat
  chunks : List (List α)      -- written so far, in order

def FW.append (maxBytes : Nat) (w : FW α) (x : α × Nat) : FW α :=
  let buff := w.buff ++ [x.1]
  let bytes := w.bytes + x.2
  if bytes ≥ maxBytes then { buff := [], bytes := 0, chunks := w.chunks ++ [buff] }
  else { buff := buff, bytes := bytes, chunks := w.chunks }

def FW.flush (w : FW α) : Part α :=
  { chunks := if w.buff.isEmpty then w.chunks else w.chunks ++ [w.buff] }

def writePart (maxBytes : Nat) (vals : List (α × Nat)) : Part α :=
  (vals.foldl (FW.append maxBytes) { buff := [], bytes := 0, chunks := [] }).flush

def writeStore (maxBytes : Nat) (parts : List (List (α × Nat))) : Store α :=
  parts.map (writePart maxBytes)

/-! ## per-field summaries (`VcfFieldSummary`, `IntegerValueTransformer.update_bounds`, `update`) -/

/-- an appended integer value: `none` = the VCF value was absent (`None` is stored); otherwise the
    flattened entries and the length of the last axis (`value.shape[-1]`) -/
abbrev IVal := Option (List Int × Nat)

structure Summary where
  maxNumber : Nat
  minV : Option Int      -- `none` = +inf (nothing seen)
  maxV : Option Int      -- `none` = -inf
  deriving DecidableEq, Repr

def Summary.empty : Summary := { maxNumber := 0, minV := none, maxV := none }

def optMin : Option Int → Option Int → Option Int
  | none, b => b | a, none => a | some a, some b => some (min a b)
def optMax : Option Int → Option Int → Option Int
  | none, b => b | a, none => a | some a, some b => some (max a b)

def listMin : List Int → Option Int := fun l => l.foldl (fun acc x => optMin acc (some x)) none
def listMax : List Int → Option Int := fun l => l.foldl (fun acc x => optMax acc (some x)) none

/-- `update_bounds`: sentinels (`< minInt`, i.e. VCF missing / fill) are masked out -/
def Summary.observe (minInt : Int) (s : Summary) (v : IVal) : Summary :=
  match v with
  | none => s
  | some (xs, number) =>
    let a := xs.filter (fun x => decide (minInt ≤ x))
    { maxNumber := max s.maxNumber number
      minV := optMin s.minV (listMin a)
      maxV := optMax s.maxV (listMax a) }

/-- `VcfFieldSummary.update` (merge at finalise) -/
def Summary.merge (a b : Summary) : Summary :=
  { maxNumber := max a.maxNumber b.maxNumber, minV := optMin a.minV b.minV, maxV := optMax a.maxV b.maxV }

def summarise (minInt : Int) (vals : List IVal) : Summary := vals.foldl (Summary.observe minInt) Summary.empty

/-- what finalise stores: the merge of the per-partition summaries -/
def storeSummary (minInt : Int) (parts : List (List IVal)) : Summary :=
  (parts.map (summarise minInt)).foldl Summary.merge Summary.empty

end B2Z
