import B2Z.Model.RegionIndex
/-! # M-D — schema generation (`ZarrArraySpec.from_field`, `VcfZarrSchema.generate`, `smallest_dtype`,
`core.min_int_dtype`) and the per-type row encoders (`sanitise_*`)
-/
namespace B2Z.Schema

/-- named dimensions; `field c n` renders as `"{c}_{n}_dim"` -/
inductive Dim
  | variants | samples | filters | alleles | altAlleles | genotypes | ploidy
  | field (category name : String)
  deriving DecidableEq, Repr

def Dim.render : Dim → String
  | .variants => "variants" | .samples => "samples" | .filters => "filters" | .alleles => "alleles"
  | .altAlleles => "alt_alleles" | .genotypes => "genotypes" | .ploidy => "ploidy"
  | .field c n => c ++ "_" ++ n ++ "_dim"

structure Field where
  category : String      -- "fixed" | "INFO" | "FORMAT"
  name : String
  number : String        -- VCF Number
  type : String          -- VCF Type
  maxNumber : Nat
  minV : Option Int      -- none = +inf / not numeric
  maxV : Option Int      -- none = -inf
  deriving DecidableEq, Repr

structure Spec where
  name : String
  dtype : String
  shape : List Nat
  chunks : List Nat
  dims : List Dim
  vcfField : Option (String × String)     -- (category, name) of the source field
  deriving DecidableEq, Repr

/-- ordered candidate integer dtypes with their `np.iinfo` bounds (bridged to `Gen.intDtypes`) -/
def intDtypes : List (String × Int × Int) :=
  [("i1", -128, 127), ("i2", -32768, 32767), ("i4", -2147483648, 2147483647),
   ("i8", -9223372036854775808, 9223372036854775807)]

/-- `core.min_int_dtype`; `none` = ValueError (min > max) or OverflowError -/
def minIntDtype (lo hi : Int) : Option String :=
  if lo > hi then none
  else (intDtypes.find? fun d => decide (d.2.1 ≤ lo) && decide (hi ≤ d.2.2)).map (·.1)

/-- `VcfField.smallest_dtype` -/
def smallestDtype (f : Field) : Option String :=
  if f.type = "Float" then some "f4"
  else if f.type = "Integer" then
    match f.maxV, f.minV with
    | some hi, some lo => minIntDtype lo hi
    | _, _ => some "i1"            -- nothing but missing values seen
  else if f.type = "Flag" then some "bool"
  else if f.type = "Character" then some "U1"
  else some "O"

def numberDim (f : Field) : Dim :=
  if f.number = "R" then .alleles else if f.number = "A" then .altAlleles
  else if f.number = "G" then .genotypes else .field f.category f.name

/-- `ZarrArraySpec.from_field` -/
def fromField (f : Field) (nVariants nSamples vcs scs : Nat) (arrayName : Option String) : Option Spec :=
  (smallestDtype f).map fun dt =>
    let isFmt := f.category = "FORMAT"
    let shape := [nVariants] ++ (if isFmt then [nSamples] else [])
    let chunks := [vcs] ++ (if isFmt then [scs] else [])
    let dims := [Dim.variants] ++ (if isFmt then [Dim.samples] else [])
    let extra := decide (f.maxNumber > 1) || (isFmt && f.name = "LAA")
    { name := arrayName.getD ((if isFmt then "call_" else "variant_") ++ f.name)
      dtype := dt
      shape := shape ++ (if extra then [f.maxNumber] else [])
      chunks := chunks ++ (if extra then [f.maxNumber] else [])
      dims := dims ++ (if extra then [numberDim f] else [])
      vcfField := some (f.category, f.name) }

def findField (fields : List Field) (cat name : String) : Option Field :=
  fields.find? fun f => f.category = cat && f.name = name

/-- the repair of finding F6: an array keeps a shared dimension name (alleles / alt_alleles /
    genotypes) only when its size is the canonical one; otherwise it gets its field-specific name -/
def repairDims (maxAlleles : Nat) (specs : List Spec) : List Spec :=
  let gsizes := specs.filterMap fun s => if s.dims.getLast? = some Dim.genotypes then s.shape.getLast? else none
  let canon : Dim → Option Nat := fun d =>
    match d with
    | .alleles => some maxAlleles
    | .altAlleles => some (maxAlleles - 1)
    | .genotypes => if gsizes.isEmpty then none else some (gsizes.foldl max 0)
    | _ => none
  specs.map fun s =>
    match s.vcfField, s.dims.getLast?, s.shape.getLast? with
    | some (c, n), some d, some sz =>
      match canon d with
      | some want => if sz ≠ want then { s with dims := s.dims.dropLast ++ [Dim.field c n] } else s
      | none => s
    | _, _, _ => s

/-- `VcfZarrSchema.generate` (array specs only). `repair = false` is the naming before F6. -/
def generate (repair : Bool) (fields : List Field) (m n nContigs nFilters vcs scs : Nat) : Option (List Spec) := do
  let alt ← findField fields "fixed" "ALT"
  let maxAlleles := alt.maxNumber + 1
  let contigDt ← minIntDtype 0 nContigs
  let fixedSpec : String → String → List Nat → List Dim → List Nat → Spec := fun name dt shape dims chunks =>
    { name := name, dtype := dt, shape := shape, chunks := chunks, dims := dims, vcfField := none }
  let head : List Spec := [
    fixedSpec "variant_contig" contigDt [m] [.variants] [vcs],
    fixedSpec "variant_filter" "bool" [m, nFilters] [.variants, .filters] [vcs, nFilters],
    fixedSpec "variant_allele" "O" [m, maxAlleles] [.variants, .alleles] [vcs, maxAlleles],
    fixedSpec "variant_id" "O" [m] [.variants] [vcs],
    fixedSpec "variant_id_mask" "bool" [m] [.variants] [vcs]]
  let qual ← findField fields "fixed" "QUAL"
  let pos ← findField fields "fixed" "POS"
  let rlen ← findField fields "fixed" "rlen"
  let q ← fromField qual m n vcs scs (some "variant_quality")
  let p ← fromField pos m n vcs scs (some "variant_position")
  let l ← fromField rlen m n vcs scs (some "variant_length")
  let infos ← (fields.filter fun f => f.category = "INFO").mapM fun f => fromField f m n vcs scs none
  let fmts ← (fields.filter fun f => f.category = "FORMAT" && f.name ≠ "GT").mapM fun f => fromField f m n vcs scs none
  let gt : List Spec ←
    match findField fields "FORMAT" "GT" with
    | none => pure []
    | some g => do
      let dt ← smallestDtype g
      let ploidy := max (g.maxNumber - 1) 1
      pure [fixedSpec "call_genotype_phased" "bool" [m, n] [.variants, .samples] [vcs, scs],
            fixedSpec "call_genotype" dt [m, n, ploidy] [.variants, .samples, .ploidy] [vcs, scs, ploidy],
            fixedSpec "call_genotype_mask" "bool" [m, n, ploidy] [.variants, .samples, .ploidy] [vcs, scs, ploidy]]
  let all := head ++ [q, p, l] ++ infos ++ fmts ++ gt
  pure (if repair then repairDims maxAlleles all else all)

/-! ## row encoders: what `sanitise_value_int_*` writes for one record -/

def VCF_INT_MISSING : Int := -2147483648
def VCF_INT_FILL : Int := -2147483647

def dtypeBits (dt : String) : Nat :=
  if dt = "i1" then 8 else if dt = "i2" then 16 else if dt = "i4" then 32 else 64

/-- `sanitise_int_array`: VCF sentinels become -1 / -2, then `astype(dtype)` (wraps silently) -/
def sanitiseInt (dt : String) (x : Int) : Int :=
  let y := if x = VCF_INT_MISSING then -1 else if x = VCF_INT_FILL then -2 else x
  RIdx.wrap (dtypeBits dt) y

/-- one row of an integer array of inner width `w`: missing value → all -1; otherwise the cast
    values then fill; a longer value makes numpy raise (broadcast error) -/
def intRow (dt : String) (w : Nat) (v : Option (List Int)) : Option (List Int) :=
  match v with
  | none => some (List.replicate w (-1))
  | some xs => if xs.length > w then none else some (xs.map (sanitiseInt dt) ++ List.replicate (w - xs.length) (-2))

/-- the specification of the same row: values unchanged, sentinels mapped, fill padded -/
def intRowSpec (w : Nat) (v : Option (List Int)) : List Int :=
  match v with
  | none => List.replicate w (-1)
  | some xs => xs.map (fun x => if x = VCF_INT_MISSING then -1 else if x = VCF_INT_FILL then -2 else x)
                ++ List.replicate (w - xs.length) (-2)

end B2Z.Schema
