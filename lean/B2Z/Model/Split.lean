import B2Z.Model.Checks
/-! # splitting the input into several files (C03) — explode orders the partitions of all files by
`(header contig index, first record position)`; the records of the store are the partitions'
records concatenated in that order -/
namespace B2Z.Split
open B2Z.Checks

structure Rec where
  contig : Nat
  pos : Nat
  tag : Nat          -- stands for the rest of the record
  deriving DecidableEq, Repr

/-- what `finalise` knows of a partition: contig, first and last record position -/
def metaOf (p : List Rec) : Part :=
  ⟨(p.headD ⟨0, 0, 0⟩).contig, (p.headD ⟨0, 0, 0⟩).pos, (p.getLastD ⟨0, 0, 0⟩).pos⟩

/-- stable insertion sort of the partitions by their key (the same procedure as `sortParts`) -/
def insertPiece (x : List Rec) : List (List Rec) → List (List Rec)
  | [] => [x]
  | y :: ys => if (metaOf x).le (metaOf y) then x :: y :: ys else y :: insertPiece x ys

def explodeOrder (pieces : List (List Rec)) : List (List Rec) := pieces.foldr insertPiece []

/-- the records of the store, in output order -/
def storeRecords (pieces : List (List Rec)) : List Rec := (explodeOrder pieces).flatten

end B2Z.Split
