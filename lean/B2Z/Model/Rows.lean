/-! # per-type row encoders (`sanitise_value_float_*`, `sanitise_value_string_*`, `sanitise_value_bool`)

Floats are 32-bit patterns (`Nat < 2^32`); the sentinels are NaNs with payloads 1 and 2. -/
namespace B2Z.Rows

def F_MISSING : Nat := 0x7F800001
def F_FILL : Nat := 0x7F800002

/-- IEEE-754 binary32 NaN: exponent all ones, mantissa non-zero -/
def isNaN (b : Nat) : Bool := (b / 0x800000) % 256 == 255 && b % 0x800000 != 0

/-- `sanitise_value_float_1d`: `None` → all missing; otherwise every NaN entry becomes the missing
    sentinel (`value[np.isnan(value)] = FLOAT32_MISSING`), the rest is copied bit for bit, then fill -/
def floatRow1d (w : Nat) (v : Option (List Nat)) : Option (List Nat) :=
  match v with
  | none => some (List.replicate w F_MISSING)
  | some xs => if xs.length > w then none
               else some (xs.map (fun b => if isNaN b then F_MISSING else b) ++ List.replicate (w - xs.length) F_FILL)

/-- `sanitise_value_float_2d` (FORMAT fields with an inner dimension): rows copied bit for bit
    (htslib already encodes missing / end-of-vector as the two sentinels), fill padded -/
def floatRow2d (w : Nat) (v : Option (List (List Nat))) (samples : Nat) : Option (List (List Nat)) :=
  match v with
  | none => some (List.replicate samples (List.replicate w F_MISSING))
  | some rows => if rows.any (fun r => r.length > w) then none
                 else some (rows.map fun r => r ++ List.replicate (w - r.length) F_FILL)

/-- `sanitise_value_float_scalar` -/
def floatScalar (v : Option (List Nat)) : Option Nat :=
  match v with
  | none => some F_MISSING
  | some xs => xs.head?

/-- `sanitise_value_string_1d`: `None` → all "."; otherwise the strings then "" -/
def strRow1d (w : Nat) (v : Option (List String)) : Option (List String) :=
  match v with
  | none => some (List.replicate w ".")
  | some xs => if xs.length > w then none else some (xs ++ List.replicate (w - xs.length) "")

def strScalar (v : Option (List String)) : Option String :=
  match v with
  | none => some "."
  | some xs => xs.head?

/-- `sanitise_value_bool` (Flag) -/
def boolCell (v : Option Unit) : Bool := v.isSome

end B2Z.Rows
