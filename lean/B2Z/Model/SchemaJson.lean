import B2Z.Model.Schema
/-! # schema ⇄ JSON (`JsonDataclass.asdict` / `VcfZarrSchema.fromdict`)

`asdict` turns tuples into lists and nested dataclasses into dicts; `fromdict` checks the format
version, rebuilds the nested objects and `ZarrArraySpec.__post_init__` turns lists back into tuples.
-/
namespace B2Z.SchemaJson

inductive J
  | null
  | bool (b : Bool)
  | num (n : Int)
  | str (s : String)
  | arr (l : List J)
  | obj (kv : List (String × J))
  deriving Repr

/-- a scalar setting of a codec configuration -/
inductive Scalar
  | num (n : Int)
  | str (s : String)
  deriving DecidableEq, Repr

def Scalar.toJ : Scalar → J
  | .num n => .num n
  | .str s => .str s

def J.asScalar : J → Option Scalar
  | .num n => some (.num n)
  | .str s => some (.str s)
  | _ => none

/-- a `ZarrArraySpec` as stored in the schema file -/
structure ArraySpec where
  name : String
  dtype : String
  shape : List Nat
  chunks : List Nat
  dimensions : List String
  description : String
  vcfField : Option String
  compressor : List (String × Scalar)   -- codec config (`cname`, `clevel`, `shuffle`, `blocksize`, …) …
  compressorId : String                 -- … and its id / cname
  filters : List String
  deriving DecidableEq, Repr

structure Schema where
  formatVersion : String
  samplesChunkSize : Nat
  variantsChunkSize : Nat
  samples : List String
  contigs : List (String × Option Nat)
  filters : List (String × String)
  fields : List ArraySpec
  deriving DecidableEq, Repr

def natsJ (l : List Nat) : J := .arr (l.map fun n => .num (Int.ofNat n))
def strsJ (l : List String) : J := .arr (l.map .str)

def ArraySpec.toJ (a : ArraySpec) : J :=
  .obj [("name", .str a.name), ("dtype", .str a.dtype), ("shape", natsJ a.shape), ("chunks", natsJ a.chunks),
        ("dimensions", strsJ a.dimensions), ("description", .str a.description),
        ("vcf_field", match a.vcfField with | none => .null | some s => .str s),
        ("compressor", .obj (("id", .str a.compressorId) :: a.compressor.map fun (k, v) => (k, v.toJ))),
        ("filters", strsJ a.filters)]

def Schema.toJ (s : Schema) : J :=
  .obj [("format_version", .str s.formatVersion), ("samples_chunk_size", .num (Int.ofNat s.samplesChunkSize)),
        ("variants_chunk_size", .num (Int.ofNat s.variantsChunkSize)),
        ("samples", .arr (s.samples.map fun x => .obj [("id", .str x)])),
        ("contigs", .arr (s.contigs.map fun (i, l) => .obj [("id", .str i), ("length", match l with | none => .null | some n => .num (Int.ofNat n))])),
        ("filters", .arr (s.filters.map fun (i, d) => .obj [("id", .str i), ("description", .str d)])),
        ("fields", .arr (s.fields.map ArraySpec.toJ))]

def J.get (j : J) (k : String) : Option J :=
  match j with
  | .obj kv => (kv.find? fun p => p.1 = k).map (·.2)
  | _ => none

def J.asStr : J → Option String | .str s => some s | _ => none
def J.asNat : J → Option Nat | .num n => if 0 ≤ n then some n.toNat else none | _ => none
def J.asInt : J → Option Int | .num n => some n | _ => none
def J.asArr : J → Option (List J) | .arr l => some l | _ => none
def J.asNats (j : J) : Option (List Nat) := j.asArr.bind fun l => l.mapM J.asNat
def J.asStrs (j : J) : Option (List String) := j.asArr.bind fun l => l.mapM J.asStr

def ArraySpec.ofJ (j : J) : Option ArraySpec := do
  let name ← (← j.get "name").asStr
  let dtype ← (← j.get "dtype").asStr
  let shape ← (← j.get "shape").asNats
  let chunks ← (← j.get "chunks").asNats
  let dims ← (← j.get "dimensions").asStrs
  let descr ← (← j.get "description").asStr
  let vf ← match ← j.get "vcf_field" with
    | .null => some none
    | .str s => some (some s)
    | _ => none
  let comp ← j.get "compressor"
  let cid ← (← comp.get "id").asStr
  let cfg ← match comp with
    | .obj (_ :: rest) => rest.mapM fun (k, v) => v.asScalar.map fun n => (k, n)
    | _ => none
  let filters ← (← j.get "filters").asStrs
  pure { name := name, dtype := dtype, shape := shape, chunks := chunks, dimensions := dims, description := descr,
         vcfField := vf, compressor := cfg, compressorId := cid, filters := filters }

/-- `VcfZarrSchema.fromdict`; `expected` is `ZARR_SCHEMA_FORMAT_VERSION` -/
def Schema.ofJ (expected : String) (j : J) : Except String Schema := do
  let ver ← match (j.get "format_version").bind J.asStr with
    | some v => pure v | none => throw "KeyError"
  if ver ≠ expected then throw "ValueError: format version mismatch"
  let r : Option Schema := do
    let scs ← (← j.get "samples_chunk_size").asNat
    let vcs ← (← j.get "variants_chunk_size").asNat
    let samples ← (← (← j.get "samples").asArr).mapM fun o => (o.get "id").bind J.asStr
    let contigs ← (← (← j.get "contigs").asArr).mapM fun o => do
      let i ← (o.get "id").bind J.asStr
      let l ← match ← o.get "length" with
        | .null => some none
        | x => x.asNat.map some
      pure (i, l)
    let filters ← (← (← j.get "filters").asArr).mapM fun o => do
      let i ← (o.get "id").bind J.asStr
      let d ← (o.get "description").bind J.asStr
      pure (i, d)
    let fields ← (← (← j.get "fields").asArr).mapM ArraySpec.ofJ
    pure { formatVersion := ver, samplesChunkSize := scs, variantsChunkSize := vcs, samples := samples,
           contigs := contigs, filters := filters, fields := fields }
  match r with
  | some s => pure s
  | none => throw "error"

end B2Z.SchemaJson
