import B2Z.Model.Arith
import B2Z.Model.Buffer
import B2Z.Model.Icf
/-! # The conversion pipeline for one column, end to end

`explode` appends the column's values partition by partition (any tiling of the records, any
flush schedule); `encode` cuts `[0, n)` into chunk-aligned partitions (`genPartitions`), and for
each one reads `iter_values(start, stop)`, sanitises every value into a row (`enc`) and pushes it
through a `BufferedArray` starting at `start`.  Encode partitions may run in any order.
The result is the array read back from the store.
-/
namespace B2Z.Pipe

structure Cfg where
  /-- explode: cut points of the record list into partitions (lengths), e.g. from C04's regions -/
  explodeParts : List Nat
  /-- `sys.getsizeof` of every appended value and the flush threshold: the flush schedule -/
  sizes : Nat → Nat
  maxBytes : Nat
  /-- encode: variant chunk size, requested partitions, optional chunk cap -/
  chunk : Nat
  encodeParts : Nat
  maxChunks : Option Nat

/-- split `xs` into consecutive pieces of the given lengths (the last piece takes the rest) -/
def splitBy : List Nat → List α → List (List α)
  | [], xs => if xs.isEmpty then [] else [xs]
  | n :: ns, xs => if xs.isEmpty then [] else xs.take n :: splitBy ns (xs.drop n)

/-- the ICF store of one column -/
def icfOf (c : Cfg) (vals : List α) : Store α :=
  let tagged := vals.zipIdx.map fun (v, i) => (v, c.sizes i)
  writeStore c.maxBytes ((splitBy c.explodeParts tagged).filter fun p => !p.isEmpty)

/-- one encode partition's write log -/
def encodePartition (c : Cfg) (enc : α → β) (s : Store α) (ab : Nat × Nat) : List (Nat × List β) :=
  Buf.run c.chunk ab.1 ((iterValues s ab.1 ab.2).map enc)

/-- the array after all encode partitions ran, in the order `order` -/
def pipeline (c : Cfg) (enc : α → β) (vals : List α) (order : List (Nat × Nat)) : Buf.Arr β :=
  Buf.applyWrites (fun _ => none) (order.flatMap (encodePartition c enc (icfOf c vals)))

/-- number of rows the store holds: all of them, or the first `maxChunks` chunks -/
def rowsWritten (c : Cfg) (n : Nat) : Nat := B2Z.totalWritten n c.chunk c.maxChunks

end B2Z.Pipe
