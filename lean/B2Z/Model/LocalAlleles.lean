/-! # M-K — `compute_laa_field` / `compute_lpl_field` (icf.py)

Genotype rows are lists of allele indexes (`-1` missing, `-2` fill for short ploidy), the
phasing column already removed.  `fill = -2`, `missing = -1`.
-/
namespace B2Z.LA

def FILL : Int := -2
def MISSING : Int := -1

/-- `genotypes.clip(0, None)` then `np.bincount(row, minlength=alt+1)`, `counts[0] = 0`,
    `nonzero()`: the positive alleles present, ascending. -/
def localAlleles (alt : Nat) (gt : List Int) : List Int :=
  let clipped := gt.map fun g => if g < 0 then 0 else g
  let counts : List Nat := (List.range (alt + 1)).map (fun a => clipped.count (Int.ofNat a))
  let counts := counts.set 0 0
  (List.range (alt + 1)).filterMap (fun a => if counts.getD a 0 ≠ 0 then some (Int.ofNat a) else none)

/-- width of the LAA array for one variant: `max(1, longest row)` -/
def laaWidth (alt : Nat) (gts : List (List Int)) : Nat :=
  (gts.map fun gt => (localAlleles alt gt).length).foldl max 1

def padTo (w : Nat) (xs : List Int) : List Int := (xs ++ List.replicate (w - xs.length) FILL).take w

/-- `compute_laa_field`: one row per sample -/
def laaField (alt : Nat) (gts : List (List Int)) : List (List Int) :=
  let w := laaWidth alt gts
  gts.map fun gt => padTo w (localAlleles alt gt)

/-- the `(a, b)` pairs in the order of `np.repeat` / `tril_indices`: for `j = 0..L`, `i = 0..j` -/
def pairs (la : List Int) : List (Int × Int) :=
  (List.range la.length).flatMap fun j => (List.range (j + 1)).map fun i => (la.getD i 0, la.getD j 0)

/-- numpy fancy indexing `pl[n]` with Python negative-index wrap-around; `none` = IndexError -/
def pyIndex (pl : List Int) (n : Int) : Option Int :=
  if 0 ≤ n then pl[n.toNat]? else if -(pl.length : Int) ≤ n then pl[(n + pl.length).toNat]? else none

/-- `n = (b * (b + 1) / 2 + a).astype(int)` -/
def plIndex (a b : Int) : Int := b * (b + 1) / 2 + a

/-- one sample's LPL row when PL is present. `pl` already has VCF-missing mapped to -1.
    `ploidy = 1`: `a = la, b = 0`; `ploidy = 2`: the pairs above.  `lpl[b == FILL] = FILL`.
    When `pl` has a single column (PL missing in every sample) and fewer columns than local
    genotypes it is broadcast — wide enough for every index (after the repair of finding F10),
    so every lookup returns that column.  Fewer columns otherwise: numpy raises (`none`). -/
def lplRow (ploidy : Nat) (laaRow : List Int) (pl : List Int) : Option (List Int) :=
  let la := (0 : Int) :: laaRow
  let ab : List (Int × Int) := if ploidy = 1 then la.map fun a => (a, 0) else pairs la
  if pl.length < ab.length ∧ pl.length ≠ 1 then none
  else
    let look : Int → Option Int := if pl.length < ab.length then (fun _ => pl.head?) else pyIndex pl
    ab.mapM fun (a, b) =>
      (look (plIndex a b)).map fun v => if b = FILL then FILL else v

/-- the specification: entry `k` is the likelihood of the genotype formed by the `k`-th pair of
    local alleles when both are real alleles, fill otherwise -/
def lplSpecRow (ploidy : Nat) (laaRow : List Int) (pl : List Int) : Option (List Int) :=
  let la := (0 : Int) :: laaRow
  let ab : List (Int × Int) := if ploidy = 1 then la.map fun a => (a, 0) else pairs la
  if pl.length < ab.length ∧ pl.length ≠ 1 then none
  else
    ab.mapM fun (a, b) =>
      if a = FILL ∨ b = FILL then some FILL
      else if pl.length < ab.length then pl.head? else pl[(plIndex a b).toNat]?

/-- number of local genotypes (PL absent on the record → all-missing row of this width) -/
def lplWidth (ploidy : Nat) (laaW : Nat) : Option Nat :=
  if ploidy = 1 then some (laaW + 1)
  else if ploidy = 2 then some ((laaW + 1) * (laaW + 2) / 2)
  else none

end B2Z.LA
