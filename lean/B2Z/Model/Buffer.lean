/-! # `core.BufferedArray` — chunk-buffered array writes

`next_buffer_row` flushes when the buffer holds `cs` rows; `flush` writes
`array[offset : offset + rows] = buff[:rows]` and advances `offset` by `cs`.
We log the writes; `applyWrites` replays them on an array modelled as `Nat → Option α`.
-/
namespace B2Z.Buf

structure BA (α : Type) where
  cs : Nat
  offset : Nat
  buf : List α
  writes : List (Nat × List α)

def flush (b : BA α) : BA α :=
  if b.buf.isEmpty then b
  else { b with writes := b.writes ++ [(b.offset, b.buf)], offset := b.offset + b.cs, buf := [] }

/-- `j = next_buffer_row(); buff[j] = x` -/
def push (b : BA α) (x : α) : BA α :=
  if b.buf.length = b.cs then let b' := flush b; { b' with buf := [x] }
  else { b with buf := b.buf ++ [x] }

def init (cs offset : Nat) : BA α := { cs := cs, offset := offset, buf := [], writes := [] }

/-- everything one encoder loop does to one array: push every row, final flush -/
def run (cs offset : Nat) (xs : List α) : List (Nat × List α) :=
  (flush (xs.foldl push (init cs offset))).writes

abbrev Arr (α : Type) := Nat → Option α

def writeBlock (a : Arr α) (off : Nat) (blk : List α) : Arr α :=
  fun i => if off ≤ i ∧ i < off + blk.length then blk[i - off]? else a i

def applyWrites (a : Arr α) (ws : List (Nat × List α)) : Arr α :=
  ws.foldl (fun a w => writeBlock a w.1 w.2) a

/-- the chunk keys (`offset / cs`) touched by a write log -/
def chunkKeys (cs : Nat) (ws : List (Nat × List α)) : List Nat := ws.map fun w => w.1 / cs

end B2Z.Buf
