/-! # M-G — object-level file system

State = abstract object ↦ `absent | torn | ok`.  A command is a *program*: a list of steps, each
either an atomic mutation or a check that aborts the command with an error.  A process kill after
`k` mutations is `take k` of the mutation sequence; a killed `open(..., "w")` leaves the object
`torn` (every write is the pair `set o torn; set o ok`); `os.rename` of a file or of a whole
directory is one atomic `move` of all the objects it carries.
-/
namespace B2Z.Fs

inductive V | absent | torn | ok
  deriving DecidableEq, Repr, Inhabited

inductive Step (Obj : Type) (St : Type)
  | set (o : Obj) (v : V)
  | move (ps : List (Obj × Obj))       -- atomic: every source becomes absent, every target takes its source's value
  | check (p : St → Bool)              -- raise unless `p` holds of the current state

variable {Obj : Type} [DecidableEq Obj]

abbrev St (Obj : Type) := Obj → V

def upd (s : St Obj) (o : Obj) (v : V) : St Obj := fun x => if x = o then v else s x

def applyMove (s : St Obj) (ps : List (Obj × Obj)) : St Obj := fun x =>
  match ps.find? (fun p => p.2 = x) with
  | some p => s p.1
  | none => if ps.any (fun p => p.1 = x) then V.absent else s x

/-- outcome of running a program: the state reached, whether it ended by an error, and the number
    of mutations performed -/
structure Out (Obj : Type) where
  st : St Obj
  error : Bool
  muts : Nat

/-- run a program, performing at most `fuel` mutations (`none` = run to completion) -/
def exec (s : St Obj) (prog : List (Step Obj (St Obj))) (fuel : Option Nat) : Out Obj :=
  let rec go (s : St Obj) (n : Nat) : List (Step Obj (St Obj)) → Out Obj
    | [] => ⟨s, false, n⟩
    | .check p :: rest => if p s then go s n rest else ⟨s, true, n⟩
    | .set o v :: rest =>
      if fuel = some n then ⟨s, false, n⟩ else go (upd s o v) (n + 1) rest
    | .move ps :: rest =>
      if fuel = some n then ⟨s, false, n⟩ else go (applyMove s ps) (n + 1) rest
  go s 0 prog

/-- `with open(path, "w") as f: f.write(...)` -/
def write (o : Obj) : List (Step Obj (St Obj)) := [.set o .torn, .set o .ok]

def empty : St Obj := fun _ => V.absent

end B2Z.Fs
