import B2Z.Model.Bytes
/-! # M-F (bytes) — `read_csi` / `read_tabix` (vcf_utils.py) on the gunzipped index bytes

Bytes are naturals `< 256`.  `struct` semantics: `<i` signed 32-bit, `<I` unsigned 32-bit,
`<Q` unsigned 64-bit, all little endian.  `read_bytes_as_value` returns `nodata` when the stream
is exhausted (zero bytes read) and raises `struct.error` on a short read;
`read_bytes_as_tuple` raises on any short read.
Errors: `"ValueError"` (wrong magic — what callers are promised — or a negative shift count),
`"error"` (anything else the real code raises: struct.error, TypeError, AssertionError).
-/
namespace B2Z.Idx

abbrev Bytes := List Nat

inductive Count
  | unknown            -- `RECORD_COUNT_UNKNOWN = np.inf`
  | known (n : Nat)
  deriving DecidableEq, Repr

structure CsiBin where
  bin : Nat
  loffset : Nat
  chunks : List Chunk
  deriving DecidableEq, Repr

structure Csi where
  minShift : Int
  depth : Int
  aux : Bytes
  bins : List (List CsiBin)
  counts : List Count
  nNoCoor : Nat
  deriving DecidableEq, Repr

structure TbxBin where
  bin : Nat
  chunks : List Chunk
  deriving DecidableEq, Repr

structure Tbx where
  header : List Int            -- n_ref, format, col_seq, col_beg, col_end, meta, skip, l_nm
  names : Bytes
  bins : List (List TbxBin)
  linear : List (List Nat)
  counts : List Count
  nNoCoor : Nat
  deriving DecidableEq, Repr

def toI32 (v : Nat) : Int := if v < 2147483648 then (v : Int) else (v : Int) - 4294967296
def ofI32 (v : Int) : Nat := (v % 4294967296).toNat

abbrev R (α : Type) := Bytes → Except String (α × Bytes)

/-- `read_bytes_as_tuple(f, fmt)` for one fixed-size integer: short read raises -/
def rdU (n : Nat) : R Nat := fun inp =>
  if inp.length < n then .error "error" else .ok (leVal (inp.take n), inp.drop n)

def rdI32 : R Int := fun inp => (rdU 4 inp).map fun (v, r) => (toI32 v, r)

/-- `read_bytes_as_value(f, fmt)` for one integer: `none` when the stream is exhausted -/
def rdOptU (n : Nat) : R (Option Nat) := fun inp =>
  if inp.isEmpty then .ok (none, []) else (rdU n inp).map fun (v, r) => (some v, r)

def rdChunk : R Chunk := fun inp => do
  let (b, r) ← rdU 8 inp
  let (e, r) ← rdU 8 r
  pure (⟨b, e⟩, r)

def rdN (p : R α) : Nat → R (List α)
  | 0 => fun inp => .ok ([], inp)
  | n + 1 => fun inp => do
    let (x, r) ← p inp
    let (xs, r) ← rdN p n r
    pure (x :: xs, r)

/-- `range(n)` for a signed count: negative counts loop zero times -/
def cnt (n : Int) : Nat := n.toNat

def pseudoBinOf (depth : Int) : Except String Nat :=
  -- `bin_limit(min_shift, depth) + 1 = ((1 << (depth + 1) * 3) - 1) // 7 + 1`; negative shift → ValueError
  if depth + 1 < 0 then .error "ValueError" else .ok ((8 ^ (depth + 1).toNat - 1) / 7 + 1)

def rdCsiBin : R CsiBin := fun inp => do
  let (bin, r) ← rdU 4 inp
  let (loff, r) ← rdU 8 r
  let (nchunk, r) ← rdI32 r
  let (chunks, r) ← rdN rdChunk (cnt nchunk) r
  pure (⟨bin, loff, chunks⟩, r)

/-- record count of one reference from its bins, as the reader computes it while scanning:
    0 when there are no bins, otherwise unknown unless a pseudo-bin is seen (the last one wins);
    a pseudo-bin must have exactly two chunks (assert) -/
def countOf (pseudo : Nat) (chunksOf : β → List Chunk) (binOf : β → Nat) (nBin : Int) (bs : List β) : Except String Count :=
  bs.foldlM (fun acc b =>
    if binOf b = pseudo then
      match chunksOf b with
      | [_, c] => .ok (.known (c.beg + c.fin))
      | _ => .error "error"
    else .ok acc) (if nBin = 0 then Count.known 0 else Count.unknown)

def rdCsiRef (pseudo : Nat) : R (List CsiBin × Count) := fun inp => do
  -- n_bin is read with read_bytes_as_value: exhausted stream → None → range(None) raises
  if inp.isEmpty then throw "error"
  let (nbin, r) ← rdI32 inp
  let (bs, r) ← rdN rdCsiBin (cnt nbin) r
  let c ← countOf pseudo CsiBin.chunks CsiBin.bin nbin bs
  pure ((bs, c), r)

/-- trailing part shared by both readers: optional `n_no_coor`, then nothing -/
def rdTrailer (inp : Bytes) : Except String Nat := do
  let (v, r) ← rdOptU 8 inp
  if r.isEmpty then pure (v.getD 0) else throw "error"

def csiMagic : Bytes := [67, 83, 73, 1]
def tbiMagic : Bytes := [84, 66, 73, 1]

def parseCsi (inp : Bytes) : Except String Csi := do
  -- magic = read_bytes_as_value(f, "4s"): empty → None ≠ magic → ValueError; 1–3 bytes → struct.error
  if inp.isEmpty then throw "ValueError"
  if inp.length < 4 then throw "error"
  if inp.take 4 ≠ csiMagic then throw "ValueError"
  let r := inp.drop 4
  let (minShift, r) ← rdI32 r
  let (depth, r) ← rdI32 r
  let (laux, r) ← rdI32 r
  if laux < 0 then throw "error"              -- struct format "-1s" is invalid
  -- aux = read_bytes_as_value(f, f"{l_aux}s", ""): empty read → "" ; short read → struct.error
  let n := laux.toNat
  let (aux, r) ← (if n = 0 ∨ r.isEmpty then Except.ok (([] : Bytes), r)
                  else if r.length < n then Except.error "error" else Except.ok (r.take n, r.drop n))
  if r.isEmpty then throw "error"              -- n_ref is None → `None > 0` raises
  let (nref, r) ← rdI32 r
  let pseudo ← pseudoBinOf depth
  let (refs, r) ← rdN (rdCsiRef pseudo) (cnt nref) r
  let nnc ← rdTrailer r
  pure { minShift := minShift, depth := depth, aux := aux, bins := refs.map (·.1), counts := refs.map (·.2), nNoCoor := nnc }

def rdTbxBin : R TbxBin := fun inp => do
  let (bin, r) ← rdU 4 inp
  let (nchunk, r) ← rdI32 r
  let (chunks, r) ← rdN rdChunk (cnt nchunk) r
  pure (⟨bin, chunks⟩, r)

def rdTbxRef : R (List TbxBin × List Nat × Count) := fun inp => do
  if inp.isEmpty then throw "error"
  let (nbin, r) ← rdI32 inp
  let (bs, r) ← rdN rdTbxBin (cnt nbin) r
  let c ← countOf 37450 TbxBin.chunks TbxBin.bin nbin bs
  if r.isEmpty then throw "error"              -- n_intv is None → range(None) raises
  let (nintv, r) ← rdI32 r
  -- ioff = read_bytes_as_value(f, "<Q"): exhausted stream appends None (no error), short read raises
  let (lin, r) ← rdN (rdU 8) (cnt nintv) r
  pure ((bs, lin, c), r)

def parseTbx (inp : Bytes) : Except String Tbx := do
  if inp.isEmpty then throw "ValueError"
  if inp.length < 4 then throw "error"
  if inp.take 4 ≠ tbiMagic then throw "ValueError"
  let r := inp.drop 4
  let (hdr, r) ← rdN rdI32 8 r
  let nref := hdr.getD 0 0
  let lnm := hdr.getD 7 0
  if lnm > 0 then
    if r.isEmpty then throw "error"            -- names is None → None.split raises
    if r.length < lnm.toNat then throw "error"
    let names := r.take lnm.toNat
    let r := r.drop lnm.toNat
    let (refs, r) ← rdN rdTbxRef (cnt nref) r
    let nnc ← rdTrailer r
    pure { header := hdr, names := names, bins := refs.map (·.1), linear := refs.map (·.2.1),
           counts := refs.map (·.2.2), nNoCoor := nnc }
  else
    let nnc ← rdTrailer r
    pure { header := hdr, names := [], bins := [], linear := [], counts := [], nNoCoor := nnc }

/-! ## serialisers (the inverse, used for the round-trip theorems and to synthesise indexes) -/

def encI32 (v : Int) : Bytes := leBytes 4 (ofI32 v)

def encCsiBin (b : CsiBin) : Bytes :=
  leBytes 4 b.bin ++ leBytes 8 b.loffset ++ encI32 b.chunks.length ++ (b.chunks.map encChunk).flatten

def encCsiRef (bs : List CsiBin) : Bytes := encI32 bs.length ++ (bs.map encCsiBin).flatten

/-- `tail = none`: old-style index without the trailing `n_no_coor` -/
def encodeCsi (minShift depth : Int) (aux : Bytes) (bins : List (List CsiBin)) (tail : Option Nat) : Bytes :=
  csiMagic ++ encI32 minShift ++ encI32 depth ++ encI32 aux.length ++ aux ++ encI32 bins.length ++
    (bins.map encCsiRef).flatten ++ (match tail with | none => [] | some n => leBytes 8 n)

def encTbxBin (b : TbxBin) : Bytes :=
  leBytes 4 b.bin ++ encI32 b.chunks.length ++ (b.chunks.map encChunk).flatten

def encTbxRef (x : List TbxBin × List Nat) : Bytes :=
  encI32 x.1.length ++ (x.1.map encTbxBin).flatten ++ encI32 x.2.length ++ (x.2.map (leBytes 8)).flatten

/-- `hdr7`: format, col_seq, col_beg, col_end, meta, skip (6 values) — n_ref and l_nm are derived -/
def encodeTbx (hdr6 : List Int) (names : Bytes) (refs : List (List TbxBin × List Nat)) (tail : Option Nat) : Bytes :=
  tbiMagic ++ encI32 refs.length ++ (hdr6.map encI32).flatten ++ encI32 names.length ++ names ++
    (refs.map encTbxRef).flatten ++ (match tail with | none => [] | some n => leBytes 8 n)

/-- sequence names: `names.split(b"\x00")[:-1]` -/
def splitNames (names : Bytes) : List Bytes :=
  let rec go (cur : Bytes) : Bytes → List Bytes
    | [] => []                       -- the unterminated remainder is dropped (`[:-1]`)
    | 0 :: rest => cur.reverse :: go [] rest
    | b :: rest => go (b :: cur) rest
  go [] names

/-- `CSIIndex.parse_vcf_aux`: skip the 28-byte tabix header inside `aux` -/
def csiSeqNames (aux : Bytes) : List Bytes := splitNames (aux.drop 28)

end B2Z.Idx
