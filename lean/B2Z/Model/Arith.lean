namespace B2Z

def ceilDiv (a b : Nat) : Nat := (a + b - 1) / b

/-- start index of section `i` of `np.array_split(np.arange k, s)` -/
def splitStart (k s i : Nat) : Nat := i * (k / s) + min i (k % s)

def numChunks (n c : Nat) (m : Option Nat) : Nat :=
  match m with
  | none => ceilDiv n c
  | some m => min (ceilDiv n c) m

def genPartitions (n c p : Nat) (m : Option Nat) : List (Nat × Nat) :=
  let k := numChunks n c m
  let s := min p k
  (List.range s).map fun i => (splitStart k s i * c, min (splitStart k s (i+1) * c) n)

/-- records actually written: all of them, or the first `m` chunks -/
def totalWritten (n c : Nat) (m : Option Nat) : Nat := min (numChunks n c m * c) n

/-- `VcfZarrPartition.generate_partitions` including its error branch:
    `np.array_split(…, 0)` raises when there is nothing to split or no partition was asked for. -/
def genPartitionsE (n c p : Nat) (m : Option Nat) : Option (List (Nat × Nat)) :=
  if c = 0 then none                       -- ZeroDivisionError
  else if min p (numChunks n c m) = 0 then none   -- ValueError from array_split
  else some (genPartitions n c p m)

/-- `core.chunk_aligned_slices(z, n, max_chunks)` for an array with `z.shape[0] = rows`,
    `z.chunks[0] = c`: literally the same computation (array_split over chunk indexes). -/
def chunkAlignedSlices (rows c n : Nat) (m : Option Nat) : List (Nat × Nat) :=
  let k := numChunks rows c m
  let s := min n k
  (List.range s).map fun i => (splitStart k s i * c, min (splitStart k s (i+1) * c) rows)

theorem splitStart_zero (k s : Nat) : splitStart k s 0 = 0 := by simp [splitStart]

theorem splitStart_last (k s : Nat) (hs : 0 < s) : splitStart k s s = k := by
  unfold splitStart
  have h1 : k % s < s := Nat.mod_lt _ hs
  have h2 : s * (k / s) + k % s = k := Nat.div_add_mod k s
  rw [Nat.min_eq_right (Nat.le_of_lt h1)]
  exact h2

theorem splitStart_lt_succ (k s i : Nat) (hs : 0 < s) (hsk : s ≤ k) :
    splitStart k s i < splitStart k s (i+1) := by
  unfold splitStart
  have hq : 0 < k / s := Nat.div_pos hsk hs
  have : (i+1) * (k / s) = i * (k/s) + k / s := by rw [Nat.add_mul, Nat.one_mul]
  rw [this]
  omega

theorem ceilDiv_pos (n c : Nat) (hn : 0 < n) (hc : 0 < c) : 0 < ceilDiv n c := by
  unfold ceilDiv
  apply Nat.div_pos <;> omega

theorem ceilDiv_mul_ge (n c : Nat) (hc : 0 < c) : n ≤ ceilDiv n c * c := by
  unfold ceilDiv
  have := Nat.div_add_mod (n + c - 1) c
  have := Nat.mod_lt (n + c - 1) hc
  rw [Nat.mul_comm]
  omega

theorem pred_ceilDiv_mul_lt (n c : Nat) (hn : 0 < n) (hc : 0 < c) : (ceilDiv n c - 1) * c < n := by
  unfold ceilDiv
  have h1 := Nat.div_add_mod (n + c - 1) c
  have h2 := Nat.mod_lt (n + c - 1) hc
  have h3 : 0 < (n + c - 1) / c := by apply Nat.div_pos <;> omega
  rw [Nat.sub_mul, Nat.mul_comm]
  omega

end B2Z
