import B2Z.Model.Bytes
/-! # the bytes of one chunk file of the intermediate store (C18)

A chunk file is one Blosc frame: a 16 byte header whose bytes 12–15 hold the total number of bytes of
the frame (little endian), followed by the payload.  The decompressor is **not** modelled: it is an
arbitrary function of the buffer *and of whatever follows the buffer in memory* — Blosc reads as
many bytes as the header declares, so when the buffer is shorter than declared its result depends
on memory that does not belong to the buffer (finding F12).

`readChunk` is `IntermediateColumnarFormatField.read_chunk` after the repair: the size of the file
is compared with the header before the decompressor runs.
-/
namespace B2Z.ChunkFile

/-- bytes 12–15 of the buffer as a little-endian number (`int.from_bytes(buff[12:16], "little")`) -/
def declared (buff : List Nat) : Nat := leVal ((buff.drop 12).take 4)

/-- the decompressor + unpickler: any function of the buffer and of the memory behind it -/
abbrev Codec (α : Type) := List Nat → List Nat → Option α

/-- `read_chunk` (repaired): refuse a file whose size differs from its header -/
def readChunk (c : Codec α) (mem buff : List Nat) : Option α :=
  if buff.length < 16 ∨ declared buff ≠ buff.length then none else c buff mem

/-- `read_chunk` before the repair of F12 -/
def readChunkUnrepaired (c : Codec α) (mem buff : List Nat) : Option α := c buff mem

/-- what the writer produces: the frame is as long as its header says -/
def WellFramed (file : List Nat) : Prop := 16 ≤ file.length ∧ declared file = file.length

/-- Blosc's "stored" mode (incompressible input: the payload is copied behind the header): it
    returns the `declared - 16` bytes that follow the header — from the buffer and, past its end,
    from memory -/
def storedDecode : Codec (List Nat) := fun buff mem =>
  if buff.length < 16 then none else some (((buff ++ mem).take (declared buff)).drop 16)

/-- a frame in stored mode -/
def storedFrame (payload : List Nat) : List Nat :=
  List.replicate 12 0 ++ leBytes 4 (16 + payload.length) ++ payload

end B2Z.ChunkFile
