/-! # encoders of the fixed VCF fields (C01) — `encode_alleles_partition`, `encode_id_partition`,
`encode_filters_partition`, `encode_contig_partition`, `encode_genotypes_partition` of `vcz.py`

One function per array row, from the value the intermediate store holds for the record.  `none` =
the real code raises (numpy refuses the assignment, or a `KeyError` is turned into an error). -/
namespace B2Z.Fixed

def STR_FILL : String := ""
def STR_MISSING : String := "."

/-- `buff[j, :] = ""; buff[j, 0] = ref; buff[j, 1 : 1 + len(alt)] = alt` on a row of width `w` -/
def allelesRow (w : Nat) (ref : String) (alt : List String) : Option (List String) :=
  if w = 0 then none
  else if alt.length ≤ w - 1 then some (ref :: alt ++ List.replicate (w - 1 - alt.length) STR_FILL)
  else none

/-- reading a row back: REF, then the ALT alleles up to the first fill -/
def allelesOfRow : List String → Option (String × List String)
  | [] => none
  | r :: rest => some (r, rest.takeWhile (· ≠ STR_FILL))

/-- `variant_id`, `variant_id_mask` -/
def idCell : Option String → String × Bool
  | some x => (x, false)
  | none => (STR_MISSING, true)

/-- `{x.id: index for index, x in enumerate(declared)}[name]`: the last index wins -/
def lookup (declared : List String) (name : String) : Option Nat :=
  (declared.zipIdx.filter (fun p => p.1 == name)).getLast?.map (·.2)

/-- `variant_filter`: all `False`, then `True` at the index of every filter of the record; an
    undeclared filter raises -/
def filterRow (declared : List String) (present : List String) : Option (List Bool) :=
  present.foldlM (fun row f => (lookup declared f).map fun i => row.set i true) (List.replicate declared.length false)

/-- `variant_contig` -/
def contigCell (declared : List String) (chrom : String) : Option Nat := lookup declared chrom

/-- `call_genotype` row: `value[:, :-1]` padded with `-2` to `w` alleles per call; a record without
    genotypes gives `-1` everywhere; a call wider than the array raises -/
def gtRow (w samples : Nat) (v : Option (List (List Int))) : Option (List (List Int)) :=
  match v with
  | none => some (List.replicate samples (List.replicate w (-1)))
  | some rows =>
    if rows.all (fun r => r.length - 1 ≤ w) then
      some (rows.map fun r => r.dropLast ++ List.replicate (w - (r.length - 1)) (-2))
    else none

/-- `call_genotype_phased` row (a boolean array): the last column, non-zero = `True`; a record
    without genotypes: `buff[j] = -1`, i.e. `True` -/
def phasedRow (samples : Nat) (v : Option (List (List Int))) : List Bool :=
  match v with
  | none => List.replicate samples true
  | some rows => rows.map fun r => r.getLast?.getD 0 != 0

/-- `call_genotype_mask = call_genotype < 0` -/
def maskRow (gt : List (List Int)) : List (List Bool) := gt.map fun r => r.map (· < 0)

/-- reading a call back: the alleles up to the first fill -/
def callOfRow (r : List Int) : List Int := r.takeWhile (· ≠ -2)

end B2Z.Fixed
