/-! # M-E — `VcfZarrWriter.create_index` (vcz.py)

For every variant chunk `v` the code takes the chunk's contig / position / length blocks,
computes `e = p + length - 1` **in a fixed-width integer dtype** (`bits` below; numpy wraps
silently), finds the ends of the maximal runs of equal contig with
`np.nonzero(np.diff(c, append=-1))`, and appends one row
`(v, c[start], p[start], p[end], max e[start..end], end - start + 1)` per run.
The rows are finally converted to `int32`.
-/
namespace B2Z.RIdx

structure Rec where
  contig : Int
  pos : Int
  len : Int
  deriving Repr, DecidableEq, Inhabited

structure Row where
  chunk : Int
  contig : Int
  first : Int
  last : Int
  maxEnd : Int
  count : Int
  deriving Repr, DecidableEq, Inhabited

/-- two's-complement wrap of `x` into `bits` bits (numpy integer overflow / `astype`) -/
def wrap (bits : Nat) (x : Int) : Int :=
  let m : Int := 2 ^ bits
  let r := x % m
  if r < m / 2 then r else r - m

/-- `e = p + length - 1` evaluated in a `bits`-wide signed dtype -/
def endOf (bits : Nat) (r : Rec) : Int := wrap bits (r.pos + r.len - 1)

/-- consecutive blocks of `cs` records (the variant chunks); `cs = 0` never happens (zarr) -/
def chunksOf (cs : Nat) : Nat → List Rec → List (List Rec)
  | 0, _ => []
  | _, [] => []
  | fuel + 1, xs => xs.take cs :: chunksOf cs fuel (xs.drop cs)

def chunks (cs : Nat) (xs : List Rec) : List (List Rec) := chunksOf cs xs.length xs

/-- maximal runs of equal contig inside one chunk (`np.nonzero(np.diff(c, append=-1))`) -/
def splitRuns : List Rec → List (List Rec)
  | [] => []
  | [x] => [[x]]
  | x :: y :: rest =>
    if x.contig ≠ y.contig then [x] :: splitRuns (y :: rest)
    else match splitRuns (y :: rest) with
      | r :: rs => (x :: r) :: rs
      | [] => [[x]]

def maxList : List Int → Int
  | [] => 0
  | [x] => x
  | x :: xs => max x (maxList xs)

def rowOf (bits : Nat) (v : Nat) (run : List Rec) : Row :=
  { chunk := v
    contig := (run.headD default).contig
    first := (run.headD default).pos
    last := (run.getLastD default).pos
    maxEnd := maxList (run.map (endOf bits))
    count := run.length }

/-- all (chunk number, run) pairs in output order -/
def segments (cs : Nat) (xs : List Rec) : List (Nat × List Rec) :=
  (chunks cs xs).zipIdx.flatMap fun (ch, v) => (splitRuns ch).map fun run => (v, run)

/-- the index before the final `np.array(index, dtype=np.int32)` -/
def regionIndex (bits cs : Nat) (xs : List Rec) : List Row :=
  (segments cs xs).map fun (v, run) => rowOf bits v run

/-- final conversion of each field to int32 -/
def Row.toI32 (r : Row) : Row :=
  { chunk := wrap 32 r.chunk, contig := wrap 32 r.contig, first := wrap 32 r.first,
    last := wrap 32 r.last, maxEnd := wrap 32 r.maxEnd, count := wrap 32 r.count }

def regionIndexI32 (bits cs : Nat) (xs : List Rec) : List Row :=
  (regionIndex bits cs xs).map Row.toI32

end B2Z.RIdx
