namespace B2Z.Regions

/-- positions are 1-based and below `M` (VCF: < 2^31) -/
abbrev M : Nat := 4294967296

structure Rec where
  contig : Nat
  pos : Nat
  deriving Repr, DecidableEq

structure Entry where
  contig : Nat
  pos : Nat
  deriving Repr, DecidableEq

inductive Reg
  | bounded (c s e : Nat)   -- "c:s-e"
  | openEnd (c s : Nat)     -- "c:s-"
  | whole (c : Nat)         -- "c"
  deriving Repr, DecidableEq

def key (r : Rec) : Nat := r.contig * M + r.pos
def ekey (e : Entry) : Nat := e.contig * M + e.pos

/-- what `IndexedVcf.variants(region)` yields: records of the contig whose start lies in the region -/
def Reg.matches : Reg → Rec → Bool
  | .bounded c s e, r => r.contig == c && decide (s ≤ r.pos) && decide (r.pos ≤ e)
  | .openEnd c s, r => r.contig == c && decide (s ≤ r.pos)
  | .whole c, r => r.contig == c && decide (1 ≤ r.pos)

def query (recs : List Rec) (g : Reg) : List Rec := recs.filter g.matches

def Reg.lo : Reg → Nat
  | .bounded c s _ => c * M + s
  | .openEnd c s => c * M + s
  | .whole c => c * M + 1
def Reg.hi : Reg → Nat
  | .bounded c _ e => c * M + e + 1
  | .openEnd c _ => (c + 1) * M + 1
  | .whole c => (c + 1) * M + 1

def wholes (a n : Nat) : List Reg := (List.range' a n).map Reg.whole

/-- regions emitted between two consecutive selected index entries -/
def between (e e' : Entry) : List Reg :=
  if e'.contig = e.contig then [Reg.bounded e.contig e.pos (e'.pos - 1)]
  else [Reg.openEnd e.contig e.pos] ++ wholes (e.contig + 1) (e'.contig - (e.contig + 1))
       ++ (if e'.pos - 1 ≥ 1 then [Reg.bounded e'.contig 1 (e'.pos - 1)] else [])

def body : List Entry → List Reg
  | [] => []
  | [e] => [Reg.openEnd e.contig e.pos]
  | e :: e' :: rest => between e e' ++ body (e' :: rest)

/-- trailing contigs: those after the last selected entry whose index count is positive or unknown -/
def tail (lastC nContigs : Nat) (hasRecs : Nat → Bool) : List Reg :=
  ((List.range' (lastC + 1) (nContigs - (lastC + 1))).filter hasRecs).map Reg.whole

def regions (es : List Entry) (lastC nContigs : Nat) (hasRecs : Nat → Bool) : List Reg :=
  body es ++ tail lastC nContigs hasRecs

/-- `region.start = var.POS` -/
def Reg.withStart : Reg → Nat → Reg
  | .bounded c _ e, p => .bounded c p e
  | .openEnd c _, p => .openEnd c p
  | .whole c, p => .openEnd c p

/-- `_filter_empty_and_refine` for one region -/
def refine (recs : List Rec) (g : Reg) : Option Reg :=
  match query recs g with
  | [] => none
  | r :: _ => some (g.withStart r.pos)

def finalRegions (recs : List Rec) (gs : List Reg) : List Reg := gs.filterMap (refine recs)

def Reg.start : Reg → Nat
  | .bounded _ s _ => s
  | .openEnd _ s => s
  | .whole _ => 1


/-! ## from an index to the selected entries (`partition_into_regions`, first half) -/

/-- one element of `index.offsets()`: compressed file offset, contig index, 1-based position -/
structure Off where
  off : Nat
  contig : Nat
  pos : Nat
  deriving Repr, DecidableEq

/-- `np.searchsorted(a, v)` (side = left) on a non-decreasing array: number of entries `< v` -/
def searchLeft (a : List Nat) (v : Nat) : Nat := (a.filter (· < v)).length

/-- `np.unique` of an index list: sorted, distinct -/
def insertU (x : Nat) : List Nat → List Nat
  | [] => [x]
  | y :: ys => if x < y then x :: y :: ys else if x = y then y :: ys else y :: insertU x ys

def uniqueSorted (xs : List Nat) : List Nat := xs.foldr insertU []

/-- number of parts and target part size from the request (`none` = ValueError) -/
def partsOf (fileLen : Nat) (numParts targetSize : Option Nat) : Option (Nat × Nat) :=
  match numParts, targetSize with
  | some n, none => if n < 1 then none else some (n, fileLen / n)
  | none, some t => if t < 1 then none else some ((fileLen + t - 1) / t, t)
  | _, _ => none

/-- indexes into the offsets array selected by the part boundaries -/
def selectIdx (offs : List Nat) (nParts target : Nat) : List Nat :=
  let ind := (List.range nParts).map fun k => searchLeft offs (target * k)
  uniqueSorted (ind.filter (· < offs.length))

def selectEntries (offs : List Off) (nParts target : Nat) : List Entry :=
  (selectIdx (offs.map (·.off)) nParts target).filterMap fun i =>
    (offs[i]?).map fun o => { contig := o.contig, pos := o.pos }

/-- `Region.__post_init__` asserts: start > 0, end >= start -/
def Reg.valid : Reg → Bool
  | .bounded _ s e => decide (0 < s) && decide (s ≤ e)
  | .openEnd _ s => decide (0 < s)
  | .whole _ => true

/-- the region list before `_filter_empty_and_refine`; `none` = the real code raises
    (empty offsets → IndexError, invalid request → ValueError, assertion in Region) -/
def partitionRaw (offs : List Off) (fileLen : Nat) (numParts targetSize : Option Nat)
    (nContigs : Nat) (hasRecs : Nat → Bool) : Option (List Reg) :=
  match partsOf fileLen numParts targetSize with
  | none => none
  | some (n, t) =>
    let es := selectEntries offs n t
    match es.getLast? with
    | none => none
    | some l =>
      let gs := regions es l.contig nContigs hasRecs
      if gs.all Reg.valid then some gs else none

/-- the complete `partition_into_regions` against a file's records -/
def partition (recs : List Rec) (offs : List Off) (fileLen : Nat) (numParts targetSize : Option Nat)
    (nContigs : Nat) (hasRecs : Nat → Bool) : Option (List Reg) :=
  (partitionRaw offs fileLen numParts targetSize nContigs hasRecs).map (finalRegions recs)

/-! ## `offsets()` of the two index kinds -/

/-- tabix: the stacked linear indexes; entry `k` of contig `c` is `(offset, c, k * 16384 + 1)` -/
def offsetsTbi (interval : Nat) (linear : List (List Nat)) : List Off :=
  linear.zipIdx.flatMap fun (li, c) =>
    li.zipIdx.map fun (vfp, k) => { off := vfp / 65536 % 281474976710656, contig := c, pos := k * interval + 1 }

structure Bin where
  bin : Nat
  loffset : Nat
  deriving Repr, DecidableEq

def firstBinInLevel (l : Nat) : Nat := (8 ^ l - 1) / 7

/-- `get_level_for_bin`: largest level `≤ depth` whose first bin is `≤ bin` -/
def levelForBin (depth bin : Nat) : Nat :=
  match (List.range (depth + 1)).reverse.find? (fun i => decide (firstBinInLevel i ≤ bin)) with
  | some i => i
  | none => 0

def firstLocus (minShift depth bin : Nat) : Nat :=
  let l := levelForBin depth bin
  (bin - firstBinInLevel l) * (2 ^ (minShift + 3 * depth) / 8 ^ l) + 1

/-- insertion sort by a key (stable, like Python's `sorted`) -/
def insertBy (k : Bin → Nat × Nat) (x : Bin) : List Bin → List Bin
  | [] => [x]
  | y :: ys =>
    if (k y).1 < (k x).1 ∨ ((k y).1 = (k x).1 ∧ (k y).2 < (k x).2) then y :: insertBy k x ys else x :: y :: ys

def sortBy (k : Bin → Nat × Nat) (xs : List Bin) : List Bin := xs.foldr (fun x acc => insertBy k x acc) []

/-- CSI: per contig, bins sorted by `(loffset, first locus)` (after the repair of finding F3;
    `tieBreak = false` is the unrepaired sort by `loffset` only), pseudo-bins skipped -/
def offsetsCsi (tieBreak : Bool) (minShift depth : Nat) (bins : List (List Bin)) : List Off :=
  let pseudo := firstBinInLevel (depth + 1) + 1
  bins.zipIdx.flatMap fun (bs, c) =>
    let key : Bin → Nat × Nat := fun b => (b.loffset, if tieBreak then firstLocus minShift depth b.bin else 0)
    ((sortBy key bs).filter (fun b => b.bin ≠ pseudo)).map fun b =>
      { off := b.loffset / 65536 % 281474976710656, contig := c, pos := firstLocus minShift depth b.bin }

end B2Z.Regions
