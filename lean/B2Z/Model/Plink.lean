import B2Z.Model.Arith
import B2Z.Model.Buffer
/-! # M-J — PLINK `.bed` layout and `plink.encode_genotypes_slice`

`.bed` (SNP-major): per variant `⌈n/4⌉` bytes, sample `s` in bits `2(s%4), 2(s%4)+1` of byte `s/4`
(low bit first).  Two-bit code value: 0 = homozygous first allele, 1 = missing,
2 = heterozygous, 3 = homozygous second allele.  `bed_reader` with `count_A1=False` reports
0 / -127 / 1 / 2 for these, and the code maps them to the pairs below.
-/
namespace B2Z.Plink

inductive G | hom1 | missing | het | hom2
  deriving DecidableEq, Repr, Inhabited

def G.code : G → Nat
  | .hom1 => 0 | .missing => 1 | .het => 2 | .hom2 => 3

def G.ofCode (c : Nat) : G :=
  match c % 4 with
  | 0 => .hom1 | 1 => .missing | 2 => .het | _ => .hom2

/-- what `bed_reader` (count_A1=False, int8) reports -/
def G.dosage : G → Int
  | .hom1 => 0 | .missing => -127 | .het => 1 | .hom2 => 2

/-- `g = zeros; g[values == -127] = -1; g[values == 2] = 1; g[values == 1, 0] = 1` -/
def callOfDosage (d : Int) : Int × Int :=
  let g : Int × Int := (0, 0)
  let g := if d = -127 then (-1, -1) else g
  let g := if d = 2 then (1, 1) else g
  let g := if d = 1 then (1, g.2) else g
  g

def G.call (g : G) : Int × Int := callOfDosage g.dosage

/-- one byte from up to four genotypes, low bits first; `pad` supplies the unused high bits -/
def encodeByte (pad : Nat) : List G → Nat
  | [] => pad % 256
  | [a] => a.code + 4 * (pad % 64)
  | [a, b] => a.code + 4 * b.code + 16 * (pad % 16)
  | [a, b, c] => a.code + 4 * b.code + 16 * c.code + 64 * (pad % 4)
  | a :: b :: c :: d :: _ => a.code + 4 * b.code + 16 * c.code + 64 * d.code

def encodeRow (pad : Nat) : List G → List Nat
  | [] => []
  | a :: b :: c :: d :: rest => encodeByte pad [a, b, c, d] :: encodeRow pad rest
  | gs => [encodeByte pad gs]

/-- decode `n` samples from a row of bytes -/
def decodeRow : Nat → List Nat → List G
  | _, [] => []
  | n, byte :: bytes =>
    if n = 0 then []
    else
      let take := min n 4
      ((List.range take).map fun k => G.ofCode (byte / 4 ^ k)) ++ decodeRow (n - take) bytes

/-- the stored rows for one slice `[a, b)` of the variants: genotype pairs, mask, phased -/
structure CallRow where
  gt : List (Int × Int)
  mask : List (Bool × Bool)
  phased : List Bool
  deriving DecidableEq, Repr

def rowOf (gs : List G) : CallRow :=
  { gt := gs.map G.call
    mask := gs.map fun g => (g.call.1 == -1, g.call.2 == -1)
    phased := gs.map fun _ => false }

/-- write log of one `encode_genotypes_slice(start, stop)` call -/
def sliceWrites (cs : Nat) (rows : List (List G)) (ab : Nat × Nat) : List (Nat × List CallRow) :=
  Buf.run cs ab.1 (((rows.drop ab.1).take (ab.2 - ab.1)).map rowOf)

/-- the whole conversion: every slice of `chunk_aligned_slices`, in the given order -/
def convert (cs : Nat) (rows : List (List G)) (order : List (Nat × Nat)) : Buf.Arr CallRow :=
  Buf.applyWrites (fun _ => none) (order.flatMap (sliceWrites cs rows))

end B2Z.Plink
