/-! # M-I — the command line: documented option → library-call mapping, one-based partition
numbers, the overwrite guard -/
namespace B2Z.Cli

/-- how an option value reaches the library -/
inductive Xf | id | compressor          -- `compressor`: `get_compressor(cname)` (codec with that cname, `None` stays `None`)
  deriving DecidableEq, Repr

structure Call where
  command : String                      -- python function implementing the command
  func : String                         -- library operation
  args : List String                    -- positional: CLI variables passed as they are
  kwargs : List (String × String × Xf)  -- library keyword, CLI variable, transformation
  deriving DecidableEq, Repr

/-- the documented mapping (docs/vcf2zarr/cli_ref, `--help` texts) -/
def documented : List Call := [
  ⟨"explode", "vcf2zarr.explode", ["icf_path", "vcfs"],
    [("worker_processes", "worker_processes", .id), ("column_chunk_size", "column_chunk_size", .id),
     ("compressor", "compressor", .compressor), ("show_progress", "progress", .id), ("local_alleles", "local_alleles", .id)]⟩,
  ⟨"dexplode_init", "vcf2zarr.explode_init", ["icf_path", "vcfs"],
    [("target_num_partitions", "num_partitions", .id), ("column_chunk_size", "column_chunk_size", .id),
     ("worker_processes", "worker_processes", .id), ("compressor", "compressor", .compressor),
     ("show_progress", "progress", .id), ("local_alleles", "local_alleles", .id)]⟩,
  ⟨"dexplode_partition", "vcf2zarr.explode_partition", ["icf_path", "partition"], []⟩,
  ⟨"dexplode_finalise", "vcf2zarr.explode_finalise", ["icf_path"], []⟩,
  ⟨"inspect", "vcf2zarr.inspect", ["path"], []⟩,
  ⟨"mkschema", "vcf2zarr.mkschema", ["icf_path", "stream"],
    [("variants_chunk_size", "variants_chunk_size", .id), ("samples_chunk_size", "samples_chunk_size", .id)]⟩,
  ⟨"encode", "vcf2zarr.encode", ["icf_path", "zarr_path"],
    [("schema_path", "schema", .id), ("variants_chunk_size", "variants_chunk_size", .id),
     ("samples_chunk_size", "samples_chunk_size", .id), ("max_variant_chunks", "max_variant_chunks", .id),
     ("worker_processes", "worker_processes", .id), ("max_memory", "max_memory", .id), ("show_progress", "progress", .id)]⟩,
  ⟨"dencode_init", "vcf2zarr.encode_init", ["icf_path", "zarr_path"],
    [("target_num_partitions", "num_partitions", .id), ("schema_path", "schema", .id),
     ("variants_chunk_size", "variants_chunk_size", .id), ("samples_chunk_size", "samples_chunk_size", .id),
     ("max_variant_chunks", "max_variant_chunks", .id), ("show_progress", "progress", .id)]⟩,
  ⟨"dencode_partition", "vcf2zarr.encode_partition", ["zarr_path", "partition"], []⟩,
  ⟨"dencode_finalise", "vcf2zarr.encode_finalise", ["zarr_path"], [("show_progress", "progress", .id)]⟩,
  ⟨"convert_vcf", "vcf2zarr.convert", ["vcfs", "zarr_path"],
    [("variants_chunk_size", "variants_chunk_size", .id), ("samples_chunk_size", "samples_chunk_size", .id),
     ("show_progress", "progress", .id), ("worker_processes", "worker_processes", .id), ("local_alleles", "local_alleles", .id)]⟩,
  ⟨"convert_plink", "plink.convert", ["in_path", "zarr_path"],
    [("show_progress", "progress", .id), ("worker_processes", "worker_processes", .id),
     ("samples_chunk_size", "samples_chunk_size", .id), ("variants_chunk_size", "variants_chunk_size", .id)]⟩]

/-- the source expression a mapping entry stands for -/
def render (v : String) : Xf → String
  | .id => v
  | .compressor => "get_compressor(" ++ v ++ ")"

/-- `if one_based: partition -= 1` -/
def partitionIndex (k : Int) (oneBased : Bool) : Int := if oneBased then k - 1 else k

/-- the library accepts a partition index iff `0 ≤ j < n` (`explode_partition` / `encode_partition`) -/
def accepted (n : Nat) (j : Int) : Bool := decide (0 ≤ j) && decide (j < n)

inductive Guard | proceed | abort | replace      -- replace = rename the old path aside, delete it, then proceed
  deriving DecidableEq, Repr

/-- `check_overwrite_dir(path, force)`: `confirm` is the user's answer when asked -/
def overwriteGuard (pathExists force confirm : Bool) : Guard :=
  if pathExists then (if force || confirm then .replace else .abort) else .proceed

/-- `vcfpartition`: parts per file -/
def partsPerFile (numPartitions : Option Nat) (nFiles : Nat) : Option Nat :=
  numPartitions.map fun n => max 1 (n / nFiles)

end B2Z.Cli
