namespace B2Z

/-- little-endian encoding of `v` in `n` bytes (as Nat < 256 each) -/
def leBytes : Nat → Nat → List Nat
  | 0, _ => []
  | n+1, v => (v % 256) :: leBytes n (v / 256)

def leVal : List Nat → Nat
  | [] => 0
  | b :: bs => b + 256 * leVal bs

theorem leBytes_length (n v : Nat) : (leBytes n v).length = n := by
  induction n generalizing v with
  | zero => rfl
  | succ n ih => simp [leBytes, ih]

theorem leVal_leBytes (n v : Nat) (h : v < 256 ^ n) : leVal (leBytes n v) = v := by
  induction n generalizing v with
  | zero => simp at h; simp [leBytes, leVal, h]
  | succ n ih =>
    have h' : v / 256 < 256 ^ n := by
      rw [Nat.pow_succ] at h
      exact Nat.div_lt_of_lt_mul (by omega)
    simp [leBytes, leVal, ih _ h']
    omega

/-- a tiny parser monad over a byte list -/
abbrev P (α : Type) := List Nat → Option (α × List Nat)

def readLE (n : Nat) : P Nat := fun inp =>
  if inp.length < n then none else some (leVal (inp.take n), inp.drop n)

theorem readLE_append (n v : Nat) (rest : List Nat) (h : v < 256 ^ n) :
    readLE n (leBytes n v ++ rest) = some (v, rest) := by
  have hl := leBytes_length n v
  simp [readLE, hl, List.take_append_of_le_length, List.drop_append_of_le_length,
        leVal_leBytes n v h]

structure Chunk where
  beg : Nat
  fin : Nat
  deriving DecidableEq, Repr

def encChunk (c : Chunk) : List Nat := leBytes 8 c.beg ++ leBytes 8 c.fin

def parseChunk : P Chunk := fun inp =>
  match readLE 8 inp with
  | none => none
  | some (b, r1) => match readLE 8 r1 with
    | none => none
    | some (e, r2) => some (⟨b, e⟩, r2)

def parseN (p : P α) : Nat → P (List α)
  | 0 => fun inp => some ([], inp)
  | n+1 => fun inp => match p inp with
    | none => none
    | some (x, r) => match parseN p n r with
      | none => none
      | some (xs, r') => some (x :: xs, r')


theorem parseChunk_enc (c : Chunk) (rest : List Nat) (h1 : c.beg < 256^8) (h2 : c.fin < 256^8) :
    parseChunk (encChunk c ++ rest) = some (c, rest) := by
  simp [parseChunk, encChunk, List.append_assoc, readLE_append _ _ _ h1, readLE_append _ _ _ h2]

theorem parseN_enc (p : P α) (enc : α → List Nat) (ok : α → Prop)
    (hp : ∀ x rest, ok x → p (enc x ++ rest) = some (x, rest))
    (xs : List α) (hok : ∀ x ∈ xs, ok x) (rest : List Nat) :
    parseN p xs.length ((xs.map enc).flatten ++ rest) = some (xs, rest) := by
  induction xs with
  | nil => simp [parseN]
  | cons x xs ih =>
    have hx := hp x ((xs.map enc).flatten ++ rest) (hok x (by simp))
    have ih' := ih (fun y hy => hok y (List.mem_cons_of_mem _ hy))
    simp [parseN, List.append_assoc, hx, ih']

end B2Z
