import B2Z.Model.Fs
/-! # M-G (encode) — `dencode-init`, `dencode-partition j`, `dencode-finalise` as programs

Objects (all relative to the output directory):
* `root`, `keep k` — the store root and what init leaves there for good (`.zgroup`, `.zattrs`, the id arrays);
* `wips k` — `wip/`, `wip/arrays/`, `wip/partitions/`, `wip/arrays/.zgroup` (removed by finalise);
* `tmpl a` — the empty template of array `a` (`wip/arrays/<a>/` with `.zarray`, `.zattrs`);
* `plan` — `wip/metadata.json`, written last by init;
* `wdir j`, `wmeta j a`, `went j a e` — `wip/partitions/wip_p<j>/`, its copy of array `a`'s metadata and the
  chunk entry `e` (a chunk file, or the top-level directory of nested chunks) of array `a`;
* `pdir / pmeta / pent` — the same objects after the atomic rename to `wip/partitions/p<j>/`;
* `sdir / smeta / sent` — a previous `p<j>` renamed aside (`stale_p<j>`) before it is deleted (repair of F4);
* `aent a e` — entry `e` moved into `wip/arrays/<a>/` by finalise; `farr a`, `fent a e` — the array and its
  entries at their final place; `ridx k` — the region index array; `zmeta` — `.zmetadata`, written last.

A multi-file object is `torn` between its first and its last file-system event.  The sequences of
touches inside one phase (`wseq`, `initSeq`, removal orders, …) are parameters: they come from the
traced real run and are constrained only by which objects they may mention.
-/
namespace B2Z.EP
open B2Z.Fs

inductive Obj
  | root | plan | zmeta
  | keep (k : Nat) | wips (k : Nat) | tmpl (a : Nat)
  | wdir (j : Nat) | wmeta (j a : Nat) | went (j a e : Nat)
  | pdir (j : Nat) | pmeta (j a : Nat) | pent (j a e : Nat)
  | sdir (j : Nat) | smeta (j a : Nat) | sent (j a e : Nat)
  | aent (a e : Nat) | farr (a : Nat) | fent (a e : Nat)
  | ridx (k : Nat)
  deriving DecidableEq, Repr

abbrev S := St Obj
abbrev Prog := List (Step Obj S)

/-- reference to a private object of a partition directory -/
inductive PRef
  | hdr (a : Nat)
  | ent (a e : Nat)
  deriving DecidableEq, Repr

inductive IRef
  | keep (k : Nat) | wips (k : Nat) | tmpl (a : Nat)
  deriving DecidableEq, Repr

structure Cfg where
  nParts : Nat
  nArrays : Nat
  /-- chunk entries of array `a` owned by partition `j` (disjoint between partitions: C11) -/
  ents : Nat → Nat → List Nat
  /-- init: the touches of its objects in program order, each with the value it leaves -/
  initSeq : List (IRef × V)
  /-- partition `j`: touches of its private objects in program order -/
  wseq : Nat → List (PRef × V)
  /-- partition `j`: order in which `rmtree` empties a left-over `wip_p<j>` of an interrupted attempt
      (repair of F11: the work directory is rebuilt from scratch) -/
  rmWork : Nat → List (PRef × V)
  /-- partition `j`: order in which `rmtree` empties a stale `p<j>` -/
  rmStale : Nat → List (PRef × V)
  /-- finalise: order in which the entries of `p<j>/<a>/` are listed and moved -/
  mvOrder : Nat → Nat → List Nat
  /-- finalise: `rmtree(wip)`: touches of `plan`, `wips`, `pdir`, `pmeta` (and `pent` leftovers) in order -/
  rmWip : List (Obj × V)
  /-- finalise: the region index objects -/
  ridxSeq : List (Nat × V)

inductive Cmd
  | init
  | partition (j : Nat)
  | finalise
  deriving DecidableEq, Repr

def IRef.obj : IRef → Obj
  | .keep k => .keep k | .wips k => .wips k | .tmpl a => .tmpl a

def PRef.w (j : Nat) : PRef → Obj
  | .hdr a => .wmeta j a | .ent a e => .went j a e
def PRef.p (j : Nat) : PRef → Obj
  | .hdr a => .pmeta j a | .ent a e => .pent j a e
def PRef.s (j : Nat) : PRef → Obj
  | .hdr a => .smeta j a | .ent a e => .sent j a e

/-- every private object a partition directory can hold -/
def allRefs (c : Cfg) (j : Nat) : List PRef :=
  (List.range c.nArrays).flatMap fun a => PRef.hdr a :: (c.ents j a).map (PRef.ent a)

def initProg (c : Cfg) : Prog :=
  [.check fun s => s .root = .absent, .set .root .ok] ++
  c.initSeq.map (fun p => .set p.1.obj p.2) ++ write .plan

/-- `encode_partition`: build `wip_p<j>` (needs the templates), then swap it into place -/
def partitionProg (c : Cfg) (s0 : S) (j : Nat) : Prog :=
  [.check fun s => s .plan = .ok,
   .check fun _ => decide (j < c.nParts)] ++
  -- repaired F11: leftovers of an interrupted attempt are deleted first
  (if s0 (.wdir j) ≠ .absent then
      ((c.rmWork j).filter fun p => s0 (p.1.w j) ≠ .absent).map (fun p => .set (p.1.w j) p.2) ++ [.set (.wdir j) .absent]
   else []) ++
  [.set (.wdir j) .ok] ++
  (c.wseq j).flatMap (fun p =>
    match p.1 with
    | .hdr a => [.check fun s => s (.tmpl a) = .ok, .set (.wmeta j a) p.2]     -- copytree of the template
    | .ent a e => [.set (.went j a e) p.2]) ++
  (if s0 (.pdir j) ≠ .absent then
      -- repaired F4: move the stale partition aside atomically, then delete it
      -- (a `stale_p<j>` left behind by an earlier interrupted swap is deleted first)
      (if s0 (.sdir j) ≠ .absent then
          ((c.rmStale j).filter fun p => s0 (p.1.s j) ≠ .absent).map (fun p => .set (p.1.s j) p.2) ++ [.set (.sdir j) .absent]
       else []) ++
      [.move ((.pdir j, .sdir j) :: (allRefs c j).map fun r => (r.p j, r.s j))] ++
      (c.rmStale j).map (fun p => .set (p.1.s j) p.2) ++ [.set (.sdir j) .absent]
   else []) ++
  [.move ((.wdir j, .pdir j) :: (allRefs c j).map fun r => (r.w j, r.p j))]

/-- finalise one array: move every listed entry of every partition, then move the array out of wip -/
def finaliseArray (c : Cfg) (s0 : S) (a : Nat) : Prog :=
  [.check fun s => s (.farr a) = .absent] ++                          -- "Array already exists"
  (List.range c.nParts).flatMap (fun j =>
    [.check fun s => s (.pmeta j a) ≠ .absent] ++                     -- "Partition j of a does not exist"
    ((c.mvOrder j a).filter fun e => s0 (.pent j a e) ≠ .absent).map fun e => .move [(.pent j a e, .aent a e)]) ++
  [.move ((.tmpl a, .farr a) ::
      (List.range c.nParts).flatMap fun j => (c.ents j a).map fun e => (.aent a e, .fent a e))]

def finaliseProg (c : Cfg) (s0 : S) : Prog :=
  [.check fun s => s .plan = .ok,
   .check fun s => (List.range c.nParts).all fun j => s (.pdir j) ≠ .absent] ++   -- "Partitions not encoded"
  (List.range c.nArrays).flatMap (finaliseArray c s0) ++
  c.rmWip.map (fun p => .set p.1 p.2) ++
  c.ridxSeq.map (fun p => .set (.ridx p.1) p.2) ++
  [.set .zmeta .ok]                                                    -- consolidated metadata: atomic, last

def prog (c : Cfg) (s : S) : Cmd → Prog
  | .init => initProg c
  | .partition j => partitionProg c s j
  | .finalise => finaliseProg c s

def step (c : Cfg) (s : S) (cmd : Cmd) (kill : Option Nat) : Out Obj := exec s (prog c s cmd) kill

def runHist (c : Cfg) (s : S) : List (Cmd × Option Nat) → S
  | [] => s
  | (cmd, k) :: rest => runHist c (step c s cmd k).st rest

/-- objects below `wip/` -/
def Obj.wipSide : Obj → Bool
  | .root | .zmeta | .keep _ | .farr _ | .fent _ _ | .ridx _ => false
  | _ => true

/-- the unrepaired swap of finding F4: delete the old `p<j>` in place, then rename -/
def partitionProgUnrepaired (c : Cfg) (s0 : S) (j : Nat) : Prog :=
  [.check fun s => s .plan = .ok,
   .check fun _ => decide (j < c.nParts),
   .set (.wdir j) .ok] ++
  (c.wseq j).flatMap (fun p =>
    match p.1 with
    | .hdr a => [.check fun s => s (.tmpl a) = .ok, .set (.wmeta j a) p.2]
    | .ent a e => [.set (.went j a e) p.2]) ++
  (if s0 (.pdir j) ≠ .absent then
      (c.rmStale j).map (fun p => .set (p.1.p j) p.2) ++ [.set (.pdir j) .absent]
   else []) ++
  [.move ((.wdir j, .pdir j) :: (allRefs c j).map fun r => (r.w j, r.p j))]

/-- the store presents as finished -/
def finished (s : S) : Bool := s .zmeta = .ok

/-- every array is at its final place with every chunk entry of every partition -/
def StoreComplete (c : Cfg) (s : S) : Prop :=
  ∀ a, a < c.nArrays → s (.farr a) = .ok ∧ ∀ j, j < c.nParts → ∀ e ∈ c.ents j a, s (.fent a e) = .ok

/-- the protocol order: once a finalise has been issued no partition command follows -/
def legal : List (Cmd × Option Nat) → Bool
  | [] => true
  | (.finalise, _) :: rest => rest.all (fun x => match x.1 with | .partition _ => false | _ => true) && legal rest
  | _ :: rest => legal rest

end B2Z.EP
