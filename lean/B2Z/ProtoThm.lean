import B2Z.Proto
namespace B2Z.Proto

@[simp] theorem upd_same (s : St) (o : Obj) (v : FS) : upd s o v o = v := by simp [upd]
theorem upd_other (s : St) (o o' : Obj) (v : FS) (h : o' ≠ o) : upd s o v o' = s o' := by simp [upd, h]

theorem run_append (s : St) (a b : List Op) : run s (a ++ b) = run (run s a) b := by
  simp [run, List.foldl_append]

/-- a list of ops none of which touches `o` leaves `o` unchanged -/
theorem run_untouched (s : St) (l : List Op) (o : Obj) (h : ∀ op ∈ l, op.1 ≠ o) : run s l o = s o := by
  induction l generalizing s with
  | nil => rfl
  | cons op l ih =>
    have h1 := h op (by simp)
    have := ih (step s op) (fun op' hop' => h op' (List.mem_cons_of_mem _ hop'))
    simp only [run, List.foldl_cons] at this ⊢
    rw [this]; simp [step, upd]; intro h'; exact absurd h'.symm h1

def dataOps (c : Cfg) (j : Nat) : List Op := (c.dataObjs j).flatMap (fun k => writeOps (Obj.data j k))

theorem dataOps_objs (c : Cfg) (j : Nat) : ∀ op ∈ dataOps c j, ∃ k ∈ c.dataObjs j, op.1 = Obj.data j k := by
  intro op hop
  simp [dataOps, writeOps] at hop
  obtain ⟨k, hk, h⟩ := hop
  exact ⟨k, hk, by rcases h with rfl | rfl <;> rfl⟩

/-- after all data ops of partition `j`, every data object of `j` is `ok` -/
theorem run_dataOps_ok (c : Cfg) (j : Nat) (s : St) : ∀ k ∈ c.dataObjs j, run s (dataOps c j) (.data j k) = .ok := by
  unfold dataOps
  generalize c.dataObjs j = ks
  induction ks generalizing s with
  | nil => intro k hk; simp at hk
  | cons k0 ks ih =>
    intro k hk
    simp only [List.flatMap_cons, run_append]
    by_cases hmem : k ∈ ks
    · exact ih _ k hmem
    · have hk0 : k = k0 := by simpa [hmem] using hk
      subst hk0
      rw [run_untouched]
      · simp [run, writeOps, step]
      · intro op hop
        simp [writeOps] at hop
        obtain ⟨k', hk', h⟩ := hop
        rcases h with rfl | rfl <;> (simp; intro h; exact hmem (h ▸ hk'))

/-- any prefix of a list is `take`; prefixes of an append -/
theorem take_append_cases (a b : List Op) (n : Nat) :
    (a ++ b).take n = a.take n ∨ ∃ m, (a ++ b).take n = a ++ b.take m := by
  by_cases h : n ≤ a.length
  · left; exact List.take_append_of_le_length h
  · right; exact ⟨n - a.length, by rw [List.take_append]; simp [List.take_of_length_le (by omega : a.length ≤ n)]⟩

theorem run_preserves (J : St → Prop) (P : Op → Prop)
    (hstep : ∀ s op, J s → P op → J (step s op)) :
    ∀ (l : List Op) (s : St), (∀ op ∈ l, P op) → J s → J (run s l) := by
  intro l
  induction l with
  | nil => intro s _ h; exact h
  | cons op l ih =>
    intro s hall hJ
    simp only [run, List.foldl_cons]
    exact ih (step s op) (fun o ho => hall o (List.mem_cons_of_mem _ ho)) (hstep s op hJ (hall op (by simp)))

/-- phase invariant while partition `j` is (re)writing its data -/
def Busy (c : Cfg) (j : Nat) (s : St) : Prop :=
  Inv c s ∧ s (.summary j) ≠ .ok ∧ s .finalMeta = .absent

def BusyOp (j : Nat) (op : Op) : Prop :=
  (op.1 = Obj.summary j ∧ op.2 ≠ .ok) ∨ ∃ k, op.1 = Obj.data j k

theorem busy_step (c : Cfg) (j : Nat) (s : St) (op : Op) (h : Busy c j s) (hop : BusyOp j op) :
    Busy c j (step s op) := by
  obtain ⟨⟨h1, h2⟩, hs, hf⟩ := h
  obtain ⟨o, v⟩ := op
  simp only [step]
  rcases hop with ⟨ho, hv⟩ | ⟨k0, ho⟩
  · simp only at ho hv; subst ho
    refine ⟨⟨?_, ?_⟩, by simpa using hv, by rw [upd_other _ _ _ _ (by simp)]; exact hf⟩
    · intro j' h k hk
      by_cases hj : j' = j
      · subst hj; simp at h; exact absurd h hv
      · rw [upd_other _ _ _ _ (by simp [hj])] at h
        rw [upd_other _ _ _ _ (by simp)]
        exact h1 j' h k hk
    · intro h; rw [upd_other _ _ _ _ (by simp)] at h; exact absurd hf h
  · simp only at ho; subst ho
    refine ⟨⟨?_, ?_⟩, by rw [upd_other _ _ _ _ (by simp)]; exact hs, by rw [upd_other _ _ _ _ (by simp)]; exact hf⟩
    · intro j' h k hk
      rw [upd_other _ _ _ _ (by simp)] at h
      by_cases hj : j' = j
      · subst hj; exact absurd h hs
      · rw [upd_other _ _ _ _ (by simp [hj])]
        exact h1 j' h k hk
    · intro h; rw [upd_other _ _ _ _ (by simp)] at h; exact absurd hf h

end B2Z.Proto
