namespace B2Z

/-- cumulative sums with leading 0: `np.cumsum([0, *xs])` / the `chunk_index` array -/
def cumsumFrom (acc : Nat) : List Nat → List Nat
  | [] => [acc]
  | x :: xs => acc :: cumsumFrom (acc + x) xs

def cumsum (xs : List Nat) : List Nat := cumsumFrom 0 xs

/-- `np.searchsorted(a, v, side="right")` on a sorted array = number of entries `≤ v` -/
def searchRight (a : List Nat) (v : Nat) : Nat := (a.filter (· ≤ v)).length

structure Part (α : Type) where
  chunks : List (List α)
  deriving Repr

abbrev Store (α : Type) := List (Part α)

def Part.recs (p : Part α) : List α := p.chunks.flatten
def Part.chunkIndex (p : Part α) : List Nat := cumsum (p.chunks.map List.length)
def Store.all (s : Store α) : List α := (s.map Part.recs).flatten
def Store.partIndex (s : Store α) : List Nat := cumsum (s.map fun p => p.recs.length)

/-- first loop of `iter_values`: skip until `start`, stop at `stop`.  Returns emitted values,
    the record id reached and whether the generator returned. -/
def emitFirst (start stop : Nat) : Nat → List α → List α × Nat × Bool
  | rid, [] => ([], rid, false)
  | rid, x :: xs =>
    if rid = stop then ([], rid, true)
    else
      let r := emitFirst start stop (rid + 1) xs
      (if rid ≥ start then x :: r.1 else r.1, r.2.1, r.2.2)

/-- second loop: later partitions, no `start` test -/
def emitRest (stop : Nat) : Nat → List α → List α
  | _, [] => []
  | rid, x :: xs => if rid = stop then [] else x :: emitRest stop (rid + 1) xs

def iterValues (s : Store α) (start stop : Nat) : List α :=
  let pri := s.partIndex
  let sp := searchRight pri start - 1
  let offset := pri.getD sp 0
  let chunkOffset := start - offset
  match s[sp]? with
  | none => []      -- real code: FileNotFoundError (start ≥ num_records); excluded by the guard
  | some p =>
    let cri := p.chunkIndex
    let sc := searchRight cri chunkOffset - 1
    let rid := offset + cri.getD sc 0
    let first := emitFirst start stop rid (p.chunks.drop sc).flatten
    if first.2.2 then first.1
    else first.1 ++ emitRest stop first.2.1 ((s.drop (sp + 1)).map Part.recs).flatten

end B2Z
