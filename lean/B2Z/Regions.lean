import B2Z.Chain
namespace B2Z.Regions

/-- positions are 1-based and below `M` (VCF: < 2^31) -/
abbrev M : Nat := 4294967296

structure Rec where
  contig : Nat
  pos : Nat
  deriving Repr, DecidableEq

structure Entry where
  contig : Nat
  pos : Nat
  deriving Repr, DecidableEq

inductive Reg
  | bounded (c s e : Nat)   -- "c:s-e"
  | openEnd (c s : Nat)     -- "c:s-"
  | whole (c : Nat)         -- "c"
  deriving Repr, DecidableEq

def key (r : Rec) : Nat := r.contig * M + r.pos
def ekey (e : Entry) : Nat := e.contig * M + e.pos

/-- what `IndexedVcf.variants(region)` yields: records of the contig whose start lies in the region -/
def Reg.matches : Reg → Rec → Bool
  | .bounded c s e, r => r.contig == c && decide (s ≤ r.pos) && decide (r.pos ≤ e)
  | .openEnd c s, r => r.contig == c && decide (s ≤ r.pos)
  | .whole c, r => r.contig == c && decide (1 ≤ r.pos)

def query (recs : List Rec) (g : Reg) : List Rec := recs.filter g.matches

def Reg.lo : Reg → Nat
  | .bounded c s _ => c * M + s
  | .openEnd c s => c * M + s
  | .whole c => c * M + 1
def Reg.hi : Reg → Nat
  | .bounded c _ e => c * M + e + 1
  | .openEnd c _ => (c + 1) * M + 1
  | .whole c => (c + 1) * M + 1

def wholes (a n : Nat) : List Reg := (List.range' a n).map Reg.whole

/-- regions emitted between two consecutive selected index entries -/
def between (e e' : Entry) : List Reg :=
  if e'.contig = e.contig then [Reg.bounded e.contig e.pos (e'.pos - 1)]
  else [Reg.openEnd e.contig e.pos] ++ wholes (e.contig + 1) (e'.contig - (e.contig + 1))
       ++ (if e'.pos - 1 ≥ 1 then [Reg.bounded e'.contig 1 (e'.pos - 1)] else [])

def body : List Entry → List Reg
  | [] => []
  | [e] => [Reg.openEnd e.contig e.pos]
  | e :: e' :: rest => between e e' ++ body (e' :: rest)

end B2Z.Regions
