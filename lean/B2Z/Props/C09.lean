import B2Z.Model.IndexBytes
import B2Z.Model.Regions
import B2Z.Proofs.BinThm
import B2Z.Proofs.BinLevels
import B2Z.Proofs.IndexBytes
/-! # C09 — tabix and CSI indexes are parsed faithfully

Model: `B2Z.Idx` (`Model/IndexBytes.lean`: `parseCsi`, `parseTbx`, serialisers) and the bin
arithmetic of `B2Z.Regions` (`firstBinInLevel`, `levelForBin`, `firstLocus`), bridged to the
definitions regenerated from `vcf_utils.py` (`Gen.*`, `B2Z/Gen/BinArith.lean`).
-/
namespace B2Z.Idx

def U32 (v : Nat) : Prop := v < 4294967296
def U64 (v : Nat) : Prop := v < 18446744073709551616
def I32 (v : Int) : Prop := -2147483648 ≤ v ∧ v < 2147483648
def ByteList (bs : Bytes) : Prop := ∀ b ∈ bs, b < 256

def ChunkWF (c : Chunk) : Prop := U64 c.beg ∧ U64 c.fin
def CsiBin.WF (b : CsiBin) : Prop := U32 b.bin ∧ U64 b.loffset ∧ b.chunks.length < 2147483648 ∧ ∀ c ∈ b.chunks, ChunkWF c
def TbxBin.WF (b : TbxBin) : Prop := U32 b.bin ∧ b.chunks.length < 2147483648 ∧ ∀ c ∈ b.chunks, ChunkWF c

/-- a pseudo-bin, where present, has exactly two chunks (htslib always writes two) -/
def PseudoOK (pseudo : Nat) (binOf : β → Nat) (chunksOf : β → List Chunk) (bs : List β) : Prop :=
  ∀ b ∈ bs, binOf b = pseudo → (chunksOf b).length = 2

structure CsiWF (minShift depth : Int) (aux : Bytes) (bins : List (List CsiBin)) (tail : Option Nat) : Prop where
  ms : I32 minShift
  depth_ok : I32 depth ∧ 0 ≤ depth
  aux_bytes : ByteList aux ∧ aux.length < 2147483648
  nref : bins.length < 2147483648
  nbin : ∀ bs ∈ bins, bs.length < 2147483648 ∧ ∀ b ∈ bs, b.WF
  pseudo : ∀ bs ∈ bins, PseudoOK ((8 ^ (depth + 1).toNat - 1) / 7 + 1) CsiBin.bin CsiBin.chunks bs
  tail_ok : ∀ n, tail = some n → U64 n

/-- the specification of the per-contig record count: 0 iff no bins; the pseudo-bin's
    `n_mapped + n_unmapped` when one is present (the last one, should there be several); unknown
    otherwise — never another number -/
def specCount (pseudo : Nat) (binOf : β → Nat) (chunksOf : β → List Chunk) (bs : List β) : Count :=
  if bs = [] then .known 0
  else match (bs.filter fun b => binOf b = pseudo).getLast? with
    | none => .unknown
    | some b => match chunksOf b with
      | [_, c] => .known (c.beg + c.fin)
      | _ => .unknown

/-- **round trip, CSI**: any contig layout, any min_shift/depth, bins in any order, with or without
    pseudo-bins, with or without the trailing unplaced count -/
theorem C09_csi_roundtrip (minShift depth : Int) (aux : Bytes) (bins : List (List CsiBin)) (tail : Option Nat)
    (wf : CsiWF minShift depth aux bins tail) :
    parseCsi (encodeCsi minShift depth aux bins tail) =
      .ok { minShift := minShift, depth := depth, aux := aux, bins := bins,
            counts := bins.map (specCount ((8 ^ (depth + 1).toNat - 1) / 7 + 1) CsiBin.bin CsiBin.chunks),
            nNoCoor := tail.getD 0 } := by
  have e := encodeCsi_append minShift depth aux bins tail []
  rw [List.append_nil, List.append_nil] at e
  rw [e, parseCsi_body minShift depth aux bins _ wf.ms wf.depth_ok.1 wf.depth_ok.2 wf.aux_bytes.2 wf.nref
    wf.nbin wf.pseudo, rdTrailer_tail tail wf.tail_ok]
  rfl

structure TbxWF (hdr6 : List Int) (names : Bytes) (refs : List (List TbxBin × List Nat)) (tail : Option Nat) : Prop where
  hdr : hdr6.length = 6 ∧ ∀ v ∈ hdr6, I32 v
  names_ok : ByteList names ∧ 0 < names.length ∧ names.length < 2147483648
  nref : refs.length < 2147483648
  refs_ok : ∀ x ∈ refs, x.1.length < 2147483648 ∧ (∀ b ∈ x.1, b.WF) ∧ x.2.length < 2147483648 ∧ ∀ v ∈ x.2, U64 v
  pseudo : ∀ x ∈ refs, PseudoOK 37450 TbxBin.bin TbxBin.chunks x.1
  tail_ok : ∀ n, tail = some n → U64 n

/-- **round trip, tabix** (including the linear index) -/
theorem C09_tbi_roundtrip (hdr6 : List Int) (names : Bytes) (refs : List (List TbxBin × List Nat)) (tail : Option Nat)
    (wf : TbxWF hdr6 names refs tail) :
    parseTbx (encodeTbx hdr6 names refs tail) =
      .ok { header := [(refs.length : Int)] ++ hdr6 ++ [(names.length : Int)], names := names,
            bins := refs.map (·.1), linear := refs.map (·.2),
            counts := refs.map (fun x => specCount 37450 TbxBin.bin TbxBin.chunks x.1),
            nNoCoor := tail.getD 0 } := by
  have e := encodeTbx_append hdr6 names refs tail []
  rw [List.append_nil, List.append_nil] at e
  rw [e, parseTbx_body hdr6 names refs _ wf.hdr.1 wf.hdr.2 wf.names_ok.2.1 wf.names_ok.2.2 wf.nref
    wf.refs_ok wf.pseudo, rdTrailer_tail tail wf.tail_ok]
  rfl

/-- a file that is not an index of the expected kind is rejected with ValueError -/
theorem C09_bad_magic_rejected (inp : Bytes) (h4 : 4 ≤ inp.length) :
    (inp.take 4 ≠ csiMagic → parseCsi inp = .error "ValueError") ∧
    (inp.take 4 ≠ tbiMagic → parseTbx inp = .error "ValueError") := by
  exact ⟨parseCsi_bad_magic inp h4, parseTbx_bad_magic inp h4⟩

theorem C09_cross_kind_rejected (minShift depth : Int) (aux : Bytes) (bins : List (List CsiBin)) (tail : Option Nat)
    (hdr6 : List Int) (names : Bytes) (refs : List (List TbxBin × List Nat)) :
    parseTbx (encodeCsi minShift depth aux bins tail) = .error "ValueError" ∧
    parseCsi (encodeTbx hdr6 names refs tail) = .error "ValueError" := by
  exact ⟨parseTbx_csi minShift depth aux bins tail, parseCsi_tbx hdr6 names refs tail⟩

/-- bytes after the unplaced-read count are rejected, never ignored -/
theorem C09_trailing_garbage_rejected (minShift depth : Int) (aux : Bytes) (bins : List (List CsiBin)) (n : Nat)
    (wf : CsiWF minShift depth aux bins (some n)) (g : Bytes) (hg : g ≠ []) :
    ∃ e, parseCsi (encodeCsi minShift depth aux bins (some n) ++ g) = .error e := by
  refine ⟨"error", ?_⟩
  rw [encodeCsi_append, parseCsi_body minShift depth aux bins _ wf.ms wf.depth_ok.1 wf.depth_ok.2
    wf.aux_bytes.2 wf.nref wf.nbin wf.pseudo]
  show Except.map _ (rdTrailer (leBytes 8 n ++ g)) = _
  rw [rdTrailer_garbage n g (wf.tail_ok n rfl) hg]
  rfl

/-- counts: `known 0` exactly for a contig without bins; unknown exactly when there are bins but no
    pseudo-bin -/
theorem C09_counts (pseudo : Nat) (bs : List CsiBin) (hp : PseudoOK pseudo CsiBin.bin CsiBin.chunks bs) :
    (bs = [] → specCount pseudo CsiBin.bin CsiBin.chunks bs = .known 0) ∧
    (specCount pseudo CsiBin.bin CsiBin.chunks bs = .unknown ↔ (bs ≠ [] ∧ ∀ b ∈ bs, b.bin ≠ pseudo)) ∧
    (∀ n, specCount pseudo CsiBin.bin CsiBin.chunks bs = .known n →
        (bs = [] ∧ n = 0) ∨ ∃ b ∈ bs, b.bin = pseudo ∧ ∃ c0 c, b.chunks = [c0, c] ∧ n = c.beg + c.fin) := by
  exact specCount'_props pseudo CsiBin.bin CsiBin.chunks bs hp

/-- sequence names: joining names with NUL terminators splits back (no name contains NUL) -/
theorem C09_names_roundtrip (names : List Bytes) (h : ∀ nm ∈ names, ∀ b ∈ nm, b ≠ 0) :
    splitNames (names.flatMap fun nm => nm ++ [0]) = names := by
  exact splitNames_join names h

end B2Z.Idx

namespace B2Z.Regions
/-! ## bin arithmetic, for all depths and shifts -/

theorem firstBinInLevel_eq (l : Nat) : firstBinInLevel l = B2Z.firstBin l := by
  exact firstBinInLevel_eq' l

/-- `bin_limit(depth)` is the first bin of level `depth + 1`, and the tabix pseudo-bin literal is
    `bin_limit(14, 5) + 1` -/
theorem C09_bin_limit (d : Nat) : Gen.bin_limit 0 (d : Int) = (firstBinInLevel (d + 1) : Int) := by
  rw [B2Z.gen_bin_limit, firstBinInLevel_eq' (d + 1)]

theorem C09_tabix_pseudo_bin : Gen.read_tabix_big_literals = [firstBinInLevel 6 + 1] := by
  decide

/-- `levelForBin` brackets the bin: its level's first bin is `≤ bin <` the next level's first bin -/
theorem C09_level_brackets (depth bin : Nat) (h : bin < firstBinInLevel (depth + 1)) :
    firstBinInLevel (levelForBin depth bin) ≤ bin ∧ bin < firstBinInLevel (levelForBin depth bin + 1) ∧
    levelForBin depth bin ≤ depth := by
  exact level_brackets depth bin h

/-- within one level the first locus is strictly increasing in the bin number -/
theorem C09_first_locus_strict (ms depth b b' : Nat) (hb : b < b') (hb' : b' < firstBinInLevel (depth + 1))
    (hl : levelForBin depth b = levelForBin depth b') :
    firstLocus ms depth b < firstLocus ms depth b' := by
  exact first_locus_strict ms depth b b' hb hb' hl

/-- bridging: the regenerated `get_level_for_bin` / `get_first_locus_in_bin` are the model's -/
theorem C09_gen_level (depth bin : Nat) :
    Gen.get_level_for_bin (depth : Int) (bin : Int) = some (levelForBin depth bin : Int) := by
  exact gen_level depth bin

theorem C09_gen_first_locus (ms depth bin : Nat) :
    Gen.get_first_locus_in_bin (ms : Int) (depth : Int) (bin : Int) = some (firstLocus ms depth bin : Int) := by
  exact gen_first_locus ms depth bin

/-- virtual offset → file offset -/
theorem C09_file_offset (v : Nat) : Gen.get_file_offset v = ((v / 65536 % 281474976710656 : Nat) : Int) :=
  B2Z.gen_file_offset v

theorem C09_interval : Gen.TABIX_LINEAR_INDEX_INTERVAL_SIZE = 16384 := by decide

/-- the byte layout the model parses is the layout of the `struct` format strings in the source,
    in source order -/
theorem C09_formats :
    Gen.read_csi_formats = ["4s", "<3i", "{}s", "<i", "<i", "<IQi", "<QQ", "<Q"] ∧
    Gen.read_tabix_formats = ["4s", "<8i", "<{}s", "<i", "<Ii", "<QQ", "<i", "<Q", "<Q"] ∧
    Gen.read_csi_magic = [B2Z.Idx.csiMagic] ∧ Gen.read_tabix_magic = [B2Z.Idx.tbiMagic] := by
  decide

end B2Z.Regions
