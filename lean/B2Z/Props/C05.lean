import B2Z.Model.ExplodeProto
import B2Z.Proofs.Fs
import B2Z.Proofs.ExplodeProto
/-! # C05 — distributed explode is crash-safe: never falsely complete, reruns recover

Model: `B2Z.XP` (`Model/ExplodeProto.lean`) over the object-level file system `B2Z.Fs`.
Histories are arbitrary: any commands, in any order, any number of them killed at any point
(stronger than the two kills of the statement).  Power loss is out of scope ("killed").
-/
namespace B2Z.XP
open B2Z.Fs

/-- `rmtree(wip)` removes every summary and the plan, each once, in some order -/
def Cfg.WF (c : Cfg) : Prop :=
  c.rmOrder.Perm ((List.range c.nParts).map some ++ [none])

/-- **never falsely complete**: after ANY history from the empty directory, if the store loads
    then every data object of every partition is present and whole (and the header is there) -/
theorem C05_never_falsely_complete (c : Cfg) (h : List (Cmd × Option Nat)) :
    loads (runHist c Fs.empty h) = true → DataComplete c (runHist c Fs.empty h) := by
  intro hl
  have hf : runHist c Fs.empty h .final = .ok := by
    simp only [loads, Bool.and_eq_true, decide_eq_true_eq] at hl
    exact hl.1
  exact (Inv_reachable c h).finData (by rw [hf]; simp)

/-- **finalise refuses** while any partition is unfinished, and changes nothing -/
theorem C05_finalise_refuses (c : Cfg) (s : S) (kill : Option Nat)
    (h : ∃ j, j < c.nParts ∧ s (.summary j) ≠ .ok) :
    (step c s .finalise kill).error = true ∧ (step c s .finalise kill).st = s := by
  obtain ⟨j, hj, hs⟩ := h
  show (exec s (finaliseProg c) kill).error = true ∧ (exec s (finaliseProg c) kill).st = s
  rw [finaliseProg_eq]
  by_cases hp : s .plan = .ok
  · rw [exec_check_pass _ _ _ _ (by simpa using hp)]
    apply exec_check_fail
    rw [Bool.eq_false_iff]
    intro hall
    have := List.all_eq_true.1 hall j (List.mem_range.2 hj)
    exact hs (by simpa using this)
  · exact exec_check_fail _ _ _ _ (by simpa using hp)

/-- **reruns recover**: from any state reached by any history in which the plan is readable and the
    store is not finalised, running every partition to completion — in any order, each any number
    of times — and then finalise yields exactly the state of an uninterrupted run -/
theorem C05_rerun_recovers (c : Cfg) (wf : c.WF) (h : List (Cmd × Option Nat))
    (hplan : runHist c Fs.empty h .plan = .ok) (hfin : runHist c Fs.empty h .final = .absent)
    (order : List Nat) (hall : ∀ j, j < c.nParts → j ∈ order) (hrange : ∀ j ∈ order, j < c.nParts) :
    runHist c (runHist c Fs.empty h) (order.map (fun j => (Cmd.partition j, none)) ++ [(Cmd.finalise, none)])
      = finalState c := by
  have hmem : ∀ j, j < c.nParts → some j ∈ c.rmOrder := fun j hj =>
    (List.Perm.mem_iff wf).2 (by simp [hj])
  have hnone : none ∈ c.rmOrder := (List.Perm.mem_iff wf).2 (by simp)
  exact rerun_complete hmem hnone order _ (Inv_reachable c h) hplan hfin hrange
    (fun j hj => Or.inl (hall j hj))

/-- an interrupted finalise can be rerun: if the plan and every summary are still readable it
    completes with the same final state -/
theorem C05_finalise_rerun (c : Cfg) (wf : c.WF) (h : List (Cmd × Option Nat))
    (hplan : runHist c Fs.empty h .plan = .ok)
    (hsum : ∀ j, j < c.nParts → runHist c Fs.empty h (.summary j) = .ok) :
    (step c (runHist c Fs.empty h) .finalise none).st = finalState c := by
  have hmem : ∀ j, j < c.nParts → some j ∈ c.rmOrder := fun j hj =>
    (List.Perm.mem_iff wf).2 (by simp [hj])
  have hnone : none ∈ c.rmOrder := (List.Perm.mem_iff wf).2 (by simp)
  exact finalise_complete (Inv_reachable c h) hplan hsum hmem hnone

/-- **out of protocol**: a command whose precondition fails ends in an error and leaves every
    object as it was -/
theorem C05_out_of_protocol (c : Cfg) (s : S) (kill : Option Nat) :
    (s .root ≠ .absent → (step c s .init kill).error = true ∧ (step c s .init kill).st = s) ∧
    (∀ j, (s .plan ≠ .ok ∨ ¬ j < c.nParts ∨ s .final ≠ .absent) →
        (step c s (.partition j) kill).error = true ∧ (step c s (.partition j) kill).st = s) ∧
    (s .plan ≠ .ok → (step c s .finalise kill).error = true ∧ (step c s .finalise kill).st = s) := by
  refine ⟨?_, ?_, ?_⟩
  · intro hr
    show (exec s (initProg c) kill).error = true ∧ (exec s (initProg c) kill).st = s
    rw [initProg_eq]
    exact exec_check_fail _ _ _ _ (by simpa using hr)
  · intro j hpre
    show (exec s (partitionProg c s j) kill).error = true ∧
      (exec s (partitionProg c s j) kill).st = s
    rw [partitionProg_eq]
    by_cases hp : s .plan = .ok
    · rw [exec_check_pass _ _ _ _ (by simpa using hp)]
      by_cases hj : j < c.nParts
      · rw [exec_check_pass _ _ _ _ (by simpa using hj)]
        have hf : s .final ≠ .absent := by
          rcases hpre with h' | h' | h'
          · exact absurd hp h'
          · exact absurd hj h'
          · exact h'
        exact exec_check_fail _ _ _ _ (by simpa using hf)
      · exact exec_check_fail _ _ _ _ (by simpa using hj)
    · exact exec_check_fail _ _ _ _ (by simpa using hp)
  · intro hp
    show (exec s (finaliseProg c) kill).error = true ∧ (exec s (finaliseProg c) kill).st = s
    rw [finaliseProg_eq]
    exact exec_check_fail _ _ _ _ (by simpa using hp)

/-- finding F7 (fixed): without the `final = absent` check a partition rerun after a finalise that
    was killed between writing `metadata.json` and removing `wip/metadata.json` rewrites chunks of
    a store that already loads as finished -/
theorem C05_unguarded_partition_counterexample :
    let c : Cfg := ⟨1, 0, fun _ => [(0, false)], [some 0, none]⟩
    let s := runHist c Fs.empty [(.init, none), (.partition 0, none), (.finalise, some 2)]
    loads s = true ∧ s .plan = .ok ∧
    -- the unguarded program = partitionProg without its third check
    let unguarded : Prog := (partitionProg c s 0).eraseIdx 2
    let s' := (exec s unguarded (some 2)).st
    loads s' = true ∧ s' (.data 0 0) = .torn := by
  decide

example : runHist ⟨2, 1, fun _ => [(0, true), (1, false)], [some 1, none, some 0]⟩ Fs.empty
    [(.init, none), (.partition 1, some 2), (.partition 0, none), (.partition 1, none), (.finalise, none)] .final = .ok := by
  decide

end B2Z.XP
