import B2Z.Proofs.Arith
import B2Z.Gen.Partitions
/-! # C11 — work partitions are an exact, chunk-aligned cover of the records

Model: `B2Z.genPartitions` (`VcfZarrPartition.generate_partitions`) and
`B2Z.chunkAlignedSlices` (`core.chunk_aligned_slices`), `Model/Arith.lean`.
The guards `0 < n`, `0 < c`, `0 < p`, cap `≥ 1` are exactly the inputs on which the real
code does not raise (`genPartitionsE_none_iff`).  `int(np.ceil(n / c))` is float
division in the code: exact for `n < 2^53` (assumption, see DESIGN.md §5.C11).
-/
namespace B2Z

theorem C11_encode_partitions (n c p : Nat) (m : Option Nat)
    (hn : 0 < n) (hc : 0 < c) (hp : 0 < p) (hm : ∀ x, m = some x → 0 < x) :
    ExactCover (genPartitions n c p m) c p (totalWritten n c m) := by
  have hk := numChunks_pos n c m hn hc hm
  have hkle : numChunks n c m ≤ ceilDiv n c := by
    unfold numChunks; cases m <;> simp; omega
  generalize hkdef : numChunks n c m = k at *
  have hs : 0 < min p k := by omega
  have hsk : min p k ≤ k := Nat.min_le_right _ _
  have hlen := genPartitions_length n c p m
  rw [hkdef] at hlen
  -- every start chunk index below k
  have hstart_lt : ∀ i, i < min p k → splitStart k (min p k) i < k := by
    intro i hi
    have h1 := splitStart_lt_succ k (min p k) i hs hsk
    have h2 := splitStart_mono k (min p k) (i+1) (min p k) hs hsk (by omega)
    have h3 := splitStart_last k (min p k) hs
    omega
  -- a chunk index below ceil(n/c) starts before n
  have hbelow : ∀ a, a < k → a * c < n := by
    intro a ha
    have h1 := pred_ceilDiv_mul_lt n c hn hc
    have h2 : a ≤ ceilDiv n c - 1 := by omega
    have h3 := Nat.mul_le_mul_right c h2
    omega
  refine ⟨?_, ?_, ?_, ?_, ?_, ?_, ?_⟩
  · intro h; rw [h] at hlen; simp at hlen; omega
  · omega
  · intro x hx
    obtain ⟨i, hi, rfl⟩ := List.getElem_of_mem hx
    rw [genPartitions_get, hkdef]
    have hi' : i < min p k := by omega
    have h1 := splitStart_lt_succ k (min p k) i hs hsk
    have h2 := hbelow _ (hstart_lt i hi')
    have h3 : splitStart k (min p k) i * c < splitStart k (min p k) (i+1) * c :=
      Nat.mul_lt_mul_of_pos_right h1 hc
    simp only
    omega
  · intro x hx
    obtain ⟨i, hi, rfl⟩ := List.getElem_of_mem hx
    rw [genPartitions_get]
    exact Nat.dvd_mul_left _ _
  · intro h
    rw [genPartitions_get, hkdef, splitStart_zero]; simp
  · intro h
    rw [genPartitions_get, hkdef]
    have : (genPartitions n c p m).length - 1 + 1 = min p k := by omega
    simp only [this, splitStart_last k (min p k) hs]
    unfold totalWritten; rw [hkdef]
  · intro i h
    rw [genPartitions_get, genPartitions_get, hkdef]
    have hi' : i + 1 < min p k := by omega
    have h2 := hbelow _ (hstart_lt (i+1) hi')
    simp only
    omega


/-- The PLINK slices are the same computation. -/
theorem chunkAlignedSlices_eq (rows c n : Nat) (m : Option Nat) :
    chunkAlignedSlices rows c n m = genPartitions rows c n m := rfl

theorem C11_plink_slices (rows c n : Nat) (m : Option Nat)
    (hn : 0 < rows) (hc : 0 < c) (hp : 0 < n) (hm : ∀ x, m = some x → 0 < x) :
    ExactCover (chunkAlignedSlices rows c n m) c n (totalWritten rows c m) := by
  rw [chunkAlignedSlices_eq]; exact C11_encode_partitions rows c n m hn hc hp hm

/-- the error branch: the real code raises exactly when the guards fail -/
theorem genPartitionsE_none_iff (n c p : Nat) (m : Option Nat) :
    genPartitionsE n c p m = none ↔ (c = 0 ∨ p = 0 ∨ numChunks n c m = 0) := by
  unfold genPartitionsE
  by_cases hc : c = 0
  · simp [hc]
  · simp only [hc, if_false, false_or]
    by_cases h : min p (numChunks n c m) = 0
    · simp only [h, if_true, true_iff]; omega
    · simp only [h, if_false]; constructor
      · intro h'; cases h'
      · intro h'; omega

/-! ## Consequences of `ExactCover` used by the statement: sortedness, disjointness, exact cover -/

theorem ExactCover.start_le (h : ExactCover ps c p total) (i j : Nat) (hij : i < j) (hj : j < ps.length) :
    (ps[i]'(by omega)).2 ≤ (ps[j]'hj).1 := by
  induction j with
  | zero => omega
  | succ j ih =>
    by_cases e : i = j
    · subst e; exact Nat.le_of_eq (h.contiguous i hj)
    · have h1 := ih (by omega) (by omega)
      have h2 := h.contiguous j hj
      have h3 := h.nonempty (ps[j]'(by omega)) (List.getElem_mem _)
      omega

/-- pairwise disjoint: no record belongs to two partitions -/
theorem C11_disjoint (h : ExactCover ps c p total) (i j : Nat) (hi : i < ps.length) (hj : j < ps.length)
    (r : Nat) (hri : (ps[i]'hi).1 ≤ r ∧ r < (ps[i]'hi).2) (hrj : (ps[j]'hj).1 ≤ r ∧ r < (ps[j]'hj).2) :
    i = j := by
  by_cases hlt : i < j
  · have := h.start_le i j hlt hj; omega
  · by_cases hgt : j < i
    · have := h.start_le j i hgt hi; omega
    · omega

/-- every record below `total` is in some partition, none at or beyond it -/
theorem C11_cover (h : ExactCover ps c p total) (r : Nat) :
    r < total ↔ ∃ i, ∃ hi : i < ps.length, (ps[i]'hi).1 ≤ r ∧ r < (ps[i]'hi).2 := by
  have hlen : 0 < ps.length := by
    cases ps with
    | nil => exact absurd rfl h.nonempty_list
    | cons _ _ => simp
  constructor
  · intro hr
    -- strongest induction: the largest i whose start ≤ r
    have key : ∀ k (hk0 : k < ps.length), (ps[k]'hk0).1 ≤ r →
        ∃ i, ∃ hi : i < ps.length, (ps[i]'hi).1 ≤ r ∧ r < (ps[i]'hi).2 := by
      intro k
      induction hk : ps.length - 1 - k generalizing k with
      | zero =>
        intro hk' hs
        have : k = ps.length - 1 := by omega
        subst this
        exact ⟨ps.length - 1, by omega, hs, by rw [h.last hlen]; exact hr⟩
      | succ d ih =>
        intro hk' hs
        by_cases hin : r < (ps[k]'hk').2
        · exact ⟨k, hk', hs, hin⟩
        · have hk1 : k + 1 < ps.length := by omega
          have hc := h.contiguous k hk1
          have hs' : (ps[k+1]'hk1).1 ≤ r := by rw [← hc]; omega
          exact ih (k+1) (by omega) hk1 hs'
    exact key 0 hlen (by rw [h.first hlen]; omega)
  · rintro ⟨i, hi, _, h2⟩
    by_cases e : i = ps.length - 1
    · subst e; rw [h.last hlen] at h2; exact h2
    · have := h.start_le i (ps.length - 1) (by omega) (by omega)
      have h3 := h.nonempty (ps[ps.length - 1]'(by omega)) (List.getElem_mem _)
      rw [h.last hlen] at h3
      omega

/-- no Zarr chunk is written by two tasks: chunk numbers touched by different partitions differ -/
theorem C11_chunks_disjoint (h : ExactCover ps c p total) (hc : 0 < c) (i j : Nat)
    (hi : i < ps.length) (hj : j < ps.length) (hij : i < j)
    (r r' : Nat) (hri : (ps[i]'hi).1 ≤ r ∧ r < (ps[i]'hi).2) (hrj : (ps[j]'hj).1 ≤ r' ∧ r' < (ps[j]'hj).2) :
    r / c < r' / c := by
  have h1 := h.start_le i j hij hj
  obtain ⟨q, hq⟩ := h.aligned (ps[j]'hj) (List.getElem_mem _)
  have hr : r < c * q := by omega
  have hr' : c * q ≤ r' := by omega
  have a : r / c < q := by
    rw [Nat.div_lt_iff_lt_mul hc, Nat.mul_comm]; exact hr
  have b : q ≤ r' / c := by
    rw [Nat.le_div_iff_mul_le hc, Nat.mul_comm]; exact hr'
  omega

/-- the load is balanced in chunks: every partition owns `k / s` or `k / s + 1` whole chunks
    (`np.array_split`), so in particular none is empty and no two differ by more than one chunk -/
theorem C11_balanced (k s i : Nat) :
    splitStart k s (i+1) = splitStart k s i + k / s ∨
    splitStart k s (i+1) = splitStart k s i + k / s + 1 := by
  unfold splitStart
  have e : (i+1) * (k / s) = i * (k / s) + k / s := by rw [Nat.add_mul, Nat.one_mul]
  rw [e]
  omega

/-- the partitions that own the extra chunk come first: the chunk counts are non-increasing -/
theorem C11_balanced_antitone (k s i : Nat) :
    splitStart k s (i+2) - splitStart k s (i+1) ≤ splitStart k s (i+1) - splitStart k s i := by
  unfold splitStart
  have e1 : (i+1) * (k / s) = i * (k / s) + k / s := by rw [Nat.add_mul, Nat.one_mul]
  have e2 : (i+2) * (k / s) = i * (k / s) + k / s + k / s := by
    rw [Nat.add_mul]; omega
  rw [e1, e2]
  omega

/-- exactly `min p k` partitions are produced: fewer than asked for only when there are not
    enough chunks to give every task one -/
theorem C11_count_exact (n c p : Nat) (m : Option Nat) :
    (genPartitions n c p m).length = min p (numChunks n c m) ∧
    (chunkAlignedSlices n c p m).length = min p (numChunks n c m) := by
  rw [chunkAlignedSlices_eq]; exact ⟨genPartitions_length n c p m, genPartitions_length n c p m⟩

/-! ## Tie to the current source by translation (`Gen/Partitions.lean`, regenerated on every run)

`harness/extract.py` reads `generate_partitions` (vcz.py) and `chunk_aligned_slices` (core.py) and
emits the chunk count, its cap, the number of sections and the `(start, stop)` expressions of the
loop body.  The lemmas below re-prove, against whatever the source says now, that these are the
pieces of `genPartitions` / `chunkAlignedSlices`; `np.array_split` itself stays an assumption
(`splitStart`, validated by the correspondence). -/

/-- the pieces regenerated from the current source are the pieces of the model -/
theorem C11_bridge_pieces :
    (∀ n c, Gen.encNumChunks n c = ceilDiv n c) ∧ (∀ n c, Gen.slNumChunks n c = ceilDiv n c) ∧
    (∀ k m, Gen.encCap k m = min k m) ∧ (∀ k m, Gen.slCap k m = min k m) ∧
    (∀ p k, Gen.encSplits p k = min p k) ∧ (∀ p k, Gen.slSplits p k = min p k) ∧
    (∀ f l c n, Gen.encStart f l c n = f * c) ∧ (∀ f l c n, Gen.slStart f l c n = f * c) ∧
    (∀ f l c n, Gen.encStop f l c n = min ((l + 1) * c) n) ∧
    (∀ f l c n, Gen.slStop f l c n = min ((l + 1) * c) n) := by
  refine ⟨?_, ?_, ?_, ?_, ?_, ?_, ?_, ?_, ?_, ?_⟩ <;> intros <;>
    first
      | rfl
      | (simp only [Gen.encNumChunks, Gen.slNumChunks, Gen.encCap, Gen.slCap, Gen.encSplits, Gen.slSplits,
          Gen.encStart, Gen.slStart, Gen.encStop, Gen.slStop, ceilDiv]; grind)

/-- the model's partition list, written with the regenerated pieces only: `first`/`last` are the
    first and last chunk index of section `i` of `np.array_split` -/
theorem C11_bridge_encode (n c p : Nat) (m : Option Nat) (i : Nat)
    (hn : 0 < n) (hc : 0 < c) (hp : 0 < p) (hm : ∀ x, m = some x → 0 < x)
    (h : i < (genPartitions n c p m).length) :
    let k := match m with
      | none => Gen.encNumChunks n c
      | some x => Gen.encCap (Gen.encNumChunks n c) x
    let s := Gen.encSplits p k
    (genPartitions n c p m)[i] =
      (Gen.encStart (splitStart k s i) (splitStart k s (i+1) - 1) c n,
       Gen.encStop (splitStart k s i) (splitStart k s (i+1) - 1) c n) := by
  obtain ⟨b1, _, b3, _, b5, _, b7, _, b9, _⟩ := C11_bridge_pieces
  have hk : (match m with
      | none => Gen.encNumChunks n c
      | some x => Gen.encCap (Gen.encNumChunks n c) x) = numChunks n c m := by
    cases m <;> simp [numChunks, b1, b3]
  simp only [hk, b5, b7, b9]
  rw [genPartitions_get]
  have hlen := genPartitions_length n c p m
  have hkpos := numChunks_pos n c m hn hc hm
  have hs : 0 < min p (numChunks n c m) := by omega
  have := splitStart_lt_succ (numChunks n c m) (min p (numChunks n c m)) i hs (Nat.min_le_right _ _)
  have e : splitStart (numChunks n c m) (min p (numChunks n c m)) (i+1) - 1 + 1 =
      splitStart (numChunks n c m) (min p (numChunks n c m)) (i+1) := by omega
  rw [e]

/-- the same for `core.chunk_aligned_slices` (PLINK): its list, written with the regenerated pieces -/
theorem C11_bridge_slices (rows c n : Nat) (m : Option Nat) (i : Nat)
    (hn : 0 < rows) (hc : 0 < c) (hp : 0 < n) (hm : ∀ x, m = some x → 0 < x)
    (h : i < (chunkAlignedSlices rows c n m).length) :
    let k := match m with
      | none => Gen.slNumChunks rows c
      | some x => Gen.slCap (Gen.slNumChunks rows c) x
    let s := Gen.slSplits n k
    (chunkAlignedSlices rows c n m)[i] =
      (Gen.slStart (splitStart k s i) (splitStart k s (i+1) - 1) c rows,
       Gen.slStop (splitStart k s i) (splitStart k s (i+1) - 1) c rows) := by
  obtain ⟨a1, b1, a3, b3, a5, b5, a7, b7, a9, b9⟩ := C11_bridge_pieces
  have e := C11_bridge_encode rows c n m i hn hc hp hm (by rw [← chunkAlignedSlices_eq]; exact h)
  simp only [a1, a3, a5, a7, a9] at e
  simp only [b1, b3, b5, b7, b9, chunkAlignedSlices_eq]
  exact e

/-- non-vacuity: 10 records, chunk size 3, 3 partitions asked → [(0,6),(6,9),(9,10)] -/
example : genPartitions 10 3 3 none = [(0, 6), (6, 9), (9, 10)] := by decide
example : genPartitionsE 0 3 3 none = none := by decide
example : genPartitions 20 5 3 (some 3) = [(0, 5), (5, 10), (10, 15)] := by decide

end B2Z
