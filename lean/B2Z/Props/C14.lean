import B2Z.Model.Sched
import B2Z.Proofs.Sched
/-! # C14 — a failing or dying worker always surfaces as an error, never silent success

Model: `B2Z.Sched` (`Model/Sched.lean`).  The theorems quantify over every task count, worker
count, outcome assignment and completion schedule.  "Within bounded time" is covered only as a
step bound of the decision logic (`waitOnFutures` consumes at most `n` events); hangs inside
`concurrent.futures` or the OS can only be observed (watchdog in the correspondence runs).
-/
namespace B2Z.Sched

def Res.isOk : Res → Bool
  | .ok => true | _ => false

/-- decision logic: any non-ok completion event makes the wait raise -/
theorem wait_error_of_bad (events : List Res) (h : ∃ r ∈ events, r ≠ Res.ok) :
    (waitOnFutures events).1 ≠ Verdict.ok := by
  intro hok
  obtain ⟨r, hr, hne⟩ := h
  exact hne ((wait_ok_iff_all events).mp hok r hr)

/-- … and success means every event was consumed and was ok -/
theorem wait_ok_iff (events : List Res) :
    (waitOnFutures events).1 = Verdict.ok ↔ ∀ r ∈ events, r = Res.ok := by
  exact wait_ok_iff_all events

theorem wait_steps_bounded (events : List Res) : (waitOnFutures events).2 ≤ events.length := by
  exact wait_steps_le events

/-- a broken pool is reported as RuntimeError, a task exception as itself -/
theorem wait_first_bad (pre : List Res) (r : Res) (post : List Res) (hpre : ∀ x ∈ pre, x = Res.ok) :
    (waitOnFutures (pre ++ r :: post)).1 =
      match r with
      | .ok => (waitOnFutures post).1
      | .exc e => .taskError e
      | .broken => .runtimeError
      | .cancelled => .cancelledError := by
  rw [wait_skip_ok pre (r :: post) hpre]
  cases r <;> rfl

/-- the pool model emits every submitted task exactly once, whatever the schedule -/
theorem pool_complete (out : Nat → Outcome) (n w : Nat) (hw : 0 < w) (sched : List Nat) :
    ((poolRun out n w sched).map (·.1)).Perm (List.range n) := by
  exact poolRun_perm out n w sched hw

/-- an `ok` event is only ever reported for a task whose outcome is `ok` -/
theorem pool_sound (out : Nat → Outcome) (n w : Nat) (sched : List Nat) :
    ∀ ev ∈ poolRun out n w sched, ev.2 = Res.ok → out ev.1 = Outcome.ok := by
  intro ev hev hok
  rcases poolRun_ev out n w sched ev hev with ⟨h1, _⟩ | ⟨h1, _⟩
  · rw [hok] at h1
    cases ho : out ev.1 <;> simp [ho, resOf] at h1
    rfl
  · rw [hok] at h1; cases h1

/-- the pool never reports `cancelled` by itself (only `wait_on_futures` cancels) -/
theorem pool_no_cancel (out : Nat → Outcome) (n w : Nat) (sched : List Nat) :
    ∀ ev ∈ poolRun out n w sched, ev.2 ≠ Res.cancelled := by
  intro ev hev hc
  rcases poolRun_ev out n w sched ev hev with ⟨h1, _⟩ | ⟨h1, _⟩
  · rw [hc] at h1
    cases ho : out ev.1 <;> simp [ho, resOf] at h1
  · rw [hc] at h1; cases h1

/-- **C14**: if any task raises or its process dies — at any position, with any number of
    workers, under any schedule — the command ends with an error -/
theorem C14_failure_surfaces (out : Nat → Outcome) (n w : Nat) (sched : List Nat)
    (hbad : ∃ t, t < n ∧ out t ≠ Outcome.ok) :
    command out n w sched ≠ Verdict.ok := by
  obtain ⟨t, htn, hbt⟩ := hbad
  unfold command
  split
  · intro hok
    have := (sync_ok_iff_all _).mp hok (out t) (List.mem_map.mpr ⟨t, by simpa using htn, rfl⟩)
    exact hbt this
  · rename_i hw
    have hw : 0 < w := Nat.pos_of_ne_zero hw
    have hmem : t ∈ (poolRun out n w sched).map (·.1) :=
      (pool_complete out n w hw sched).mem_iff.mpr (by simpa using htn)
    obtain ⟨ev, hev, het⟩ := List.mem_map.mp hmem
    apply wait_error_of_bad
    refine ⟨ev.2, List.mem_map.mpr ⟨ev, hev, rfl⟩, ?_⟩
    intro hok
    have := pool_sound out n w sched ev hev hok
    rw [het] at this
    exact hbt this

/-- **C14**: success is reported only if every task ran and returned -/
theorem C14_success_means_all_done (out : Nat → Outcome) (n w : Nat) (sched : List Nat)
    (h : command out n w sched = Verdict.ok) : ∀ t, t < n → out t = Outcome.ok := by
  intro t htn
  cases ho : out t with
  | ok => rfl
  | _ => exact absurd h (C14_failure_surfaces out n w sched ⟨t, htn, by simp [ho]⟩)

/-- the kind of error: RuntimeError exactly when a broken future is met first, otherwise the
    exception of a task that really raised -/
theorem C14_error_kind (out : Nat → Outcome) (n w : Nat) (hw : 0 < w) (sched : List Nat) (e : Nat)
    (h : command out n w sched = Verdict.taskError e) : ∃ t, t < n ∧ out t = Outcome.raise e := by
  have hw' : w ≠ 0 := by omega
  simp only [command, hw', if_false, managerExit] at h
  have hmem := wait_taskError_mem _ e h
  obtain ⟨ev, hev, he2⟩ := List.mem_map.mp hmem
  have hperm := pool_complete out n w hw sched
  have htn : ev.1 < n := by
    have : ev.1 ∈ List.range n := hperm.mem_iff.mp (List.mem_map.mpr ⟨ev, hev, rfl⟩)
    simpa using this
  refine ⟨ev.1, htn, ?_⟩
  rcases poolRun_ev out n w sched ev hev with ⟨h1, _⟩ | ⟨h1, _⟩
  · rw [he2] at h1
    cases ho : out ev.1 <;> simp [ho, resOf] at h1
    rw [h1]
  · rw [he2] at h1; cases h1

theorem C14_runtime_error_means_death (out : Nat → Outcome) (n w : Nat) (sched : List Nat)
    (h : command out n w sched = Verdict.runtimeError) : ∃ t, t < n ∧ out t = Outcome.die := by
  unfold command at h
  split at h
  · have hmem := sync_runtimeError_mem _ h
    obtain ⟨t, ht, hot⟩ := List.mem_map.mp hmem
    exact ⟨t, by simpa using ht, hot⟩
  · simp only [managerExit] at h
    have hmem := wait_runtimeError_mem _ h
    obtain ⟨ev, hev, he2⟩ := List.mem_map.mp hmem
    rcases poolRun_ev out n w sched ev hev with ⟨h1, _⟩ | ⟨_, h2⟩
    · rw [he2] at h1
      cases ho : out ev.1 <;> simp [ho, resOf] at h1
      -- `resOf (out ev.1) = broken` forces `die`, contradicting `out ev.1 ≠ die`
      rename_i hnd
      exact absurd ho hnd
    · exact h2

/-- an exception raised by the `with` body itself propagates, futures are not waited for -/
theorem C14_body_exception_propagates (e : Nat) (events : List Res) :
    managerExit (some e) events = Verdict.taskError e := by
  rfl

/-- worker count 0 (SynchronousExecutor): first failing task's error surfaces, nothing after it ran -/
theorem C14_sync_executor (outs : List Outcome) :
    ((syncRun outs).1 = Verdict.ok ↔ ∀ o ∈ outs, o = Outcome.ok) ∧ (syncRun outs).2 ≤ outs.length := by
  exact ⟨sync_ok_iff_all outs, sync_steps_le outs⟩

example : command (fun t => if t = 3 then .die else .ok) 6 2 [1, 0, 1, 1, 0, 0] = .runtimeError := by decide
example : command (fun t => if t = 4 then .raise 7 else .ok) 6 3 [2, 2, 0, 1, 0, 0] = .taskError 7 := by decide
example : command (fun _ => .ok) 6 3 [2, 2, 0, 1, 0, 0] = .ok := by decide

/-- **C14 (never hangs, progress counter)**: whenever a failure is being reported — the body raised
    or `wait_on_futures` raises — the repaired `__exit__` performs no step that needs the progress
    counter's lock, so it cannot block even if a killed worker took the lock with it -/
theorem C14_exit_never_blocks_on_lost_lock (bodyRaised waitRaises lockLost : Bool)
    (h : bodyRaised = true ∨ waitRaises = true) :
    exitHangs lockLost (exitSteps true bodyRaised waitRaises) = false := by
  cases bodyRaised <;> cases waitRaises <;> cases lockLost <;> simp_all [exitHangs, exitSteps, ExitStep.needsLock]

/-- a dead worker always leads to one of the two: its future is broken, so either the body met it
    (`bodyRaised`) or `wait_on_futures` raises -/
theorem C14_death_reaches_exit_as_failure (events : List Res) (h : Res.broken ∈ events) :
    (waitOnFutures events).1 ≠ Verdict.ok := by
  have := wait_error_of_bad events ⟨Res.broken, h, by decide⟩
  exact this

/-- without a failure nothing was killed holding the lock, and the full shutdown sequence runs -/
theorem C14_exit_success_path (repaired : Bool) :
    exitSteps repaired false false = [.waitFutures, .setCompleted, .shutdown, .joinProgress, .readProgress, .closeBar] := by
  cases repaired <;> rfl

/-- **F13**: before the repair a failure raised in the body (the scan of `explode` / `explode_init`)
    still joined the progress thread and read the counter: with the lock lost, `__exit__` never returns -/
theorem C14_unrepaired_exit_hangs_counterexample :
    exitHangs true (exitSteps false true false) = true ∧ exitHangs true (exitSteps true true false) = false := by decide

/-- **F14**: a worker never blocks on the progress counter, whatever happened to its lock; before the
    repair a lost lock stopped every other worker at its next progress update -/
theorem C14_worker_progress_update_bounded (lockLost : Bool) :
    workerUpdateBlocks true lockLost = false ∧ workerUpdateBlocks false true = true := by
  cases lockLost <;> decide

end B2Z.Sched
