import B2Z.Proofs.IcfWriter
/-! # C08 — the intermediate columnar store is lossless, ordered and randomly addressable

Model: `B2Z` (`Model/Icf.lean`): the field writer under an arbitrary flush schedule, the chunk /
partition indexes, `values`, `iterValues` (transcribed from the generator: two
`searchsorted(side="right")`, the skip loop, the stop test, the later-partition loop) and the
per-field summaries with their merge.
-/
namespace B2Z

/-- the writer stores exactly what was appended, in order, and never writes an empty chunk -/
theorem C08_writer (maxBytes : Nat) (vals : List (α × Nat)) :
    (writePart maxBytes vals).recs = vals.map (·.1) ∧ ∀ c ∈ (writePart maxBytes vals).chunks, 0 < c.length := by
  exact ⟨writePart_recs maxBytes vals, writePart_chunks_pos maxBytes vals⟩

/-- a store written from non-empty partitions is well formed, whatever the flush schedule -/
theorem C08_store_wf (maxBytes : Nat) (parts : List (List (α × Nat))) (hne : ∀ p ∈ parts, p ≠ []) :
    (writeStore maxBytes parts).WF := by
  exact writeStore_wf maxBytes parts hne

/-- whole-column read = the concatenation of the appended values -/
theorem C08_values (maxBytes : Nat) (parts : List (List (α × Nat))) :
    (writeStore maxBytes parts).values = (parts.map fun p => p.map (·.1)).flatten ∧
    (writeStore maxBytes parts).all = (parts.map fun p => p.map (·.1)).flatten := by
  exact ⟨(Store.values_eq_all _).trans (writeStore_all maxBytes parts), writeStore_all maxBytes parts⟩

/-- record count = number of input records; the partition index ends with it -/
theorem C08_num_records (maxBytes : Nat) (parts : List (List (α × Nat))) :
    (writeStore maxBytes parts).all.length = (parts.map List.length).sum := by
  rw [writeStore_all, length_flatten_map_map]

/-- **every range** `[a, b)` with `a < b ≤ n` reads back exactly the slice, for every partitioning
    and every flush schedule -/
theorem C08_iter_values (maxBytes : Nat) (parts : List (List (α × Nat))) (hne : ∀ p ∈ parts, p ≠ [])
    (a b : Nat) (hab : a < b) (hb : b ≤ (parts.map List.length).sum) :
    iterValues (writeStore maxBytes parts) a b =
      (((parts.map fun p => p.map (·.1)).flatten).drop a).take (b - a) := by
  rw [← writeStore_all maxBytes parts]
  apply C08_iterValues _ (writeStore_wf maxBytes parts hne) a b hab
  rw [writeStore_all, length_flatten_map_map]; exact hb

/-- the summary bounds every stored (non-sentinel) value and every vector length … -/
theorem C08_summary_bounds (minInt : Int) (vals : List IVal) :
    ∀ v ∈ vals, ∀ xs number, v = some (xs, number) →
      number ≤ (summarise minInt vals).maxNumber ∧
      ∀ x ∈ xs, minInt ≤ x →
        (∃ lo, (summarise minInt vals).minV = some lo ∧ lo ≤ x) ∧
        (∃ hi, (summarise minInt vals).maxV = some hi ∧ x ≤ hi) := by
  exact summarise_bounds minInt vals

/-- … and is attained -/
theorem C08_summary_attained (minInt : Int) (vals : List IVal) :
    (∀ lo, (summarise minInt vals).minV = some lo →
        ∃ v ∈ vals, ∃ xs number, v = some (xs, number) ∧ lo ∈ xs ∧ minInt ≤ lo) ∧
    (∀ hi, (summarise minInt vals).maxV = some hi →
        ∃ v ∈ vals, ∃ xs number, v = some (xs, number) ∧ hi ∈ xs ∧ minInt ≤ hi) ∧
    ((summarise minInt vals).maxNumber = 0 ∨
        ∃ v ∈ vals, ∃ xs, v = some (xs, (summarise minInt vals).maxNumber)) := by
  exact ⟨summarise_minV_attained minInt vals, summarise_maxV_attained minInt vals,
    summarise_maxNumber_attained minInt vals⟩

/-- the stored summary does not depend on how the records were partitioned -/
theorem C08_summary_partition_independent (minInt : Int) (parts : List (List IVal)) :
    storeSummary minInt parts = summarise minInt parts.flatten := by
  exact storeSummary_eq minInt parts

example : (writePart 10 [(1, 4), (2, 4), (3, 4), (4, 4), (5, 4)]).chunks = [[1, 2, 3], [4, 5]] := by decide
example : iterValues (writeStore 10 [[(1, 4), (2, 4), (3, 4), (4, 4)], [(5, 20), (6, 1)]]) 2 5 = [3, 4, 5] := by decide
example : storeSummary (-10) [[some ([3, -20, 7], 3)], [none, some ([1], 1)]] = ⟨3, some 1, some 7⟩ := by decide

end B2Z
