import B2Z.Proofs.IcfWriter
/-! # C08 — the intermediate columnar store is lossless, ordered and randomly addressable

Model: `B2Z` (`Model/Icf.lean`): the field writer under an arbitrary flush schedule, the chunk /
partition indexes, `values`, `iterValues` (transcribed from the generator: two
`searchsorted(side="right")`, the skip loop, the stop test, the later-partition loop) and the
per-field summaries with their merge.
-/
namespace B2Z

/-- the writer stores exactly what was appended, in order, and never writes an empty chunk -/
theorem C08_writer (maxBytes : Nat) (vals : List (α × Nat)) :
    (writePart maxBytes vals).recs = vals.map (·.1) ∧ ∀ c ∈ (writePart maxBytes vals).chunks, 0 < c.length := by
  exact ⟨writePart_recs maxBytes vals, writePart_chunks_pos maxBytes vals⟩

/-- a store written from non-empty partitions is well formed, whatever the flush schedule -/
theorem C08_store_wf (maxBytes : Nat) (parts : List (List (α × Nat))) (hne : ∀ p ∈ parts, p ≠ []) :
    (writeStore maxBytes parts).WF := by
  exact writeStore_wf maxBytes parts hne

/-- whole-column read = the concatenation of the appended values -/
theorem C08_values (maxBytes : Nat) (parts : List (List (α × Nat))) :
    (writeStore maxBytes parts).values = (parts.map fun p => p.map (·.1)).flatten ∧
    (writeStore maxBytes parts).all = (parts.map fun p => p.map (·.1)).flatten := by
  exact ⟨(Store.values_eq_all _).trans (writeStore_all maxBytes parts), writeStore_all maxBytes parts⟩

/-- record count = number of input records; the partition index ends with it -/
theorem C08_num_records (maxBytes : Nat) (parts : List (List (α × Nat))) :
    (writeStore maxBytes parts).all.length = (parts.map List.length).sum := by
  rw [writeStore_all, length_flatten_map_map]

/-- **every range** `[a, b)` with `a < b ≤ n` reads back exactly the slice, for every partitioning
    and every flush schedule -/
theorem C08_iter_values (maxBytes : Nat) (parts : List (List (α × Nat))) (hne : ∀ p ∈ parts, p ≠ [])
    (a b : Nat) (hab : a < b) (hb : b ≤ (parts.map List.length).sum) :
    iterValues (writeStore maxBytes parts) a b =
      (((parts.map fun p => p.map (·.1)).flatten).drop a).take (b - a) := by
  rw [← writeStore_all maxBytes parts]
  apply C08_iterValues _ (writeStore_wf maxBytes parts hne) a b hab
  rw [writeStore_all, length_flatten_map_map]; exact hb

/-- the summary bounds every stored (non-sentinel) value and every vector length … -/
theorem C08_summary_bounds (minInt : Int) (vals : List IVal) :
    ∀ v ∈ vals, ∀ xs number, v = some (xs, number) →
      number ≤ (summarise minInt vals).maxNumber ∧
      ∀ x ∈ xs, minInt ≤ x →
        (∃ lo, (summarise minInt vals).minV = some lo ∧ lo ≤ x) ∧
        (∃ hi, (summarise minInt vals).maxV = some hi ∧ x ≤ hi) := by
  exact summarise_bounds minInt vals

/-- … and is attained -/
theorem C08_summary_attained (minInt : Int) (vals : List IVal) :
    (∀ lo, (summarise minInt vals).minV = some lo →
        ∃ v ∈ vals, ∃ xs number, v = some (xs, number) ∧ lo ∈ xs ∧ minInt ≤ lo) ∧
    (∀ hi, (summarise minInt vals).maxV = some hi →
        ∃ v ∈ vals, ∃ xs number, v = some (xs, number) ∧ hi ∈ xs ∧ minInt ≤ hi) ∧
    ((summarise minInt vals).maxNumber = 0 ∨
        ∃ v ∈ vals, ∃ xs, v = some (xs, (summarise minInt vals).maxNumber)) := by
  exact ⟨summarise_minV_attained minInt vals, summarise_maxV_attained minInt vals,
    summarise_maxNumber_attained minInt vals⟩

/-- the stored summary does not depend on how the records were partitioned -/
theorem C08_summary_partition_independent (minInt : Int) (parts : List (List IVal)) :
    storeSummary minInt parts = summarise minInt parts.flatten := by
  exact storeSummary_eq minInt parts

theorem optMin_comm (a b : Option Int) : optMin a b = optMin b a := by
  cases a <;> cases b <;> simp [optMin, Int.min_comm]
theorem optMax_comm (a b : Option Int) : optMax a b = optMax b a := by
  cases a <;> cases b <;> simp [optMax, Int.max_comm]

/-- merging partition summaries is commutative, associative and idempotent … -/
theorem C08_merge_laws (a b c : Summary) :
    Summary.merge a b = Summary.merge b a ∧
    Summary.merge (Summary.merge a b) c = Summary.merge a (Summary.merge b c) ∧
    Summary.merge a a = a ∧ Summary.merge Summary.empty a = a := by
  refine ⟨?_, ?_, ?_, ?_⟩
  · simp [Summary.merge, optMin_comm a.minV, optMax_comm a.maxV, Nat.max_comm]
  · simp [Summary.merge, optMin_assoc, optMax_assoc, Nat.max_assoc]
  · cases a with | mk n lo hi => cases lo <;> cases hi <;> simp [Summary.merge, optMin, optMax]
  · cases a with | mk n lo hi => cases lo <;> cases hi <;> simp [Summary.merge, Summary.empty, optMin, optMax]

theorem foldl_merge_perm (l₁ l₂ : List Summary) (h : l₁.Perm l₂) (s : Summary) :
    l₁.foldl Summary.merge s = l₂.foldl Summary.merge s := by
  induction h generalizing s with
  | nil => rfl
  | cons x _ ih => exact ih _
  | swap x y l =>
    simp only [List.foldl_cons]
    rw [(C08_merge_laws s y x).2.1, (C08_merge_laws s x y).2.1, (C08_merge_laws y x s).1]
  | trans _ _ ih1 ih2 => rw [ih1, ih2]

/-- … so the stored summary does not depend on the order in which finalise loads the partition
    summaries (nor, with `C08_summary_partition_independent`, on the order of the partitions) -/
theorem C08_summary_order_independent (minInt : Int) (parts parts' : List (List IVal))
    (h : parts.Perm parts') : storeSummary minInt parts = storeSummary minInt parts' := by
  unfold storeSummary
  exact foldl_merge_perm _ _ (h.map _) _

/-- adjacent ranges read back as the range that spans them: nothing lost or repeated at the seam,
    wherever it falls relative to chunk and partition boundaries -/
theorem C08_iter_values_concat (maxBytes : Nat) (parts : List (List (α × Nat))) (hne : ∀ p ∈ parts, p ≠ [])
    (a b c : Nat) (hab : a < b) (hbc : b < c) (hc : c ≤ (parts.map List.length).sum) :
    iterValues (writeStore maxBytes parts) a b ++ iterValues (writeStore maxBytes parts) b c =
      iterValues (writeStore maxBytes parts) a c := by
  rw [C08_iter_values maxBytes parts hne a b hab (by omega), C08_iter_values maxBytes parts hne b c hbc hc,
    C08_iter_values maxBytes parts hne a c (by omega) hc]
  generalize (parts.map fun p => p.map (·.1)).flatten = l
  have e : c - a = (b - a) + (c - b) := by omega
  rw [e, List.take_add, List.drop_drop]
  congr 3
  omega

example : (writePart 10 [(1, 4), (2, 4), (3, 4), (4, 4), (5, 4)]).chunks = [[1, 2, 3], [4, 5]] := by decide
example : iterValues (writeStore 10 [[(1, 4), (2, 4), (3, 4), (4, 4)], [(5, 20), (6, 1)]]) 2 5 = [3, 4, 5] := by decide
example : storeSummary (-10) [[some ([3, -20, 7], 3)], [none, some ([1], 1)]] = ⟨3, some 1, some 7⟩ := by decide

end B2Z
