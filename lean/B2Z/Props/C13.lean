import B2Z.Model.Checks
import B2Z.Gen.Reserved
import B2Z.Gen.Checks
import B2Z.Proofs.Checks
/-! # C13 — unconvertible input sets are rejected loudly, never converted wrongly

Model: `B2Z.Checks` (`Model/Checks.lean`).  The file-level clause "files whose ranges interleave
are rejected" is NOT a theorem: only adjacent *partitions* are compared, so acceptance depends on
the partitioning (known finding K2, `C13_file_interleave_counterexample`); what is proved is that
whatever is accepted is sound.
-/
namespace B2Z.Checks

/-- position ranges of two partitions on one contig intersect -/
def Intersect (a b : Part) : Prop := a.contig = b.contig ∧ a.start ≤ b.stop ∧ b.start ≤ a.stop

def WellFormed (ps : List Part) : Prop := ∀ p ∈ ps, p.start ≤ p.stop

theorem sortParts_perm (ps : List Part) : (sortParts ps).Perm ps := by
  exact sortParts_perm' ps

theorem sortParts_sorted (ps : List Part) : (sortParts ps).Pairwise (fun a b => a.le b = true) := by
  exact sortParts_sorted' ps

/-- **overlap rejected**: if any two partitions (of any files, given in any order) have
    intersecting position ranges on a contig, the set is rejected -/
theorem C13_partition_overlap_rejected (ps : List Part) (wf : WellFormed ps)
    (i j : Nat) (hi : i < ps.length) (hj : j < ps.length) (hij : i ≠ j) (h : Intersect ps[i] ps[j]) :
    accepts ps = false := by
  apply Bool.eq_false_iff.2
  intro hacc
  have wf' : ∀ p ∈ sortParts ps, p.start ≤ p.stop :=
    fun p hp => wf p ((sortParts_perm' ps).mem_iff.1 hp)
  have hsep := sorted_noOverlap_sep (sortParts ps) (sortParts_sorted' ps) hacc wf'
  obtain ⟨hc, h1, h2⟩ := h
  rcases pairwise_perm_getElem hsep (sortParts_perm' ps) i j hi hj hij with hs | hs
  · unfold Sep at hs; omega
  · unfold Sep at hs; omega

/-- **accept sound**: if the set is accepted then, in output order, partitions of one contig are
    strictly separated: every record of an earlier partition lies strictly before every record of a
    later one — so the concatenation is sorted and nothing is duplicated across partitions -/
theorem C13_accept_sound (ps : List Part) (wf : WellFormed ps) (h : accepts ps = true) :
    (sortParts ps).Pairwise (fun a b => a.contig < b.contig ∨ (a.contig = b.contig ∧ a.stop < b.start)) := by
  have wf' : ∀ p ∈ sortParts ps, p.start ≤ p.stop :=
    fun p hp => wf p ((sortParts_perm' ps).mem_iff.1 hp)
  exact sorted_noOverlap_sep (sortParts ps) (sortParts_sorted' ps) h wf'

/-- the same file given twice is rejected -/
theorem C13_same_path_rejected (paths : List String) (p : String) (h : 2 ≤ paths.count p) : pathsOk paths = false := by
  unfold pathsOk
  exact decide_eq_false (not_nodup_of_two_le_count paths p h)

/-- **name clash rejected**: an INFO key `k` whose array name `variant_k` is one of the arrays the
    generator creates itself — or a FORMAT key whose `call_k` is — is rejected, by the clobber list
    or by duplicate-array detection.  (`fixed` = the regenerated list of generated fixed arrays.) -/
theorem C13_name_clash_rejected (infoNames formatNames : List String) (k : String)
    (h : (k ∈ infoNames ∧ ("variant_" ++ k) ∈ Gen.generatedFixedArrays) ∨
         (k ∈ formatNames ∧ k ≠ "GT" ∧ ("call_" ++ k) ∈ Gen.generatedFixedArrays)) :
    namesOk Gen.clobberInfo Gen.clobberFormat Gen.generatedFixedArrays infoNames formatNames = false := by
  apply namesOk_false_of_not_nodup
  rcases h with ⟨hk, hf⟩ | ⟨hk, hgt, hf⟩
  · exact arrayNames_not_nodup_info _ _ _ k hk hf
  · exact arrayNames_not_nodup_format _ _ _ k hk hgt hf

/-- the clobber lists cover every generated fixed array except `variant_length`, which is left to
    duplicate-array detection -/
theorem C13_clobber_lists :
    Gen.generatedFixedArrays.filter (fun n =>
      !((Gen.clobberInfo.map ("variant_" ++ ·)) ++ (Gen.clobberFormat.map ("call_" ++ ·))).contains n) = ["variant_length"] := by
  decide

/-- a filter that is used but not declared is rejected -/
theorem C13_undeclared_filter_rejected (declared : List String) (used : List (List String)) (f : String)
    (h : ∃ fs ∈ used, f ∈ fs) (hf : f ∉ declared) : filtersOk declared used = false := by
  exact filtersOk_false declared used f h hf

/-- known finding K2: two files that interleave on a contig — A holds windows 0 and 2, B window 1 —
    are rejected when each file is one partition, and accepted when A is split in two partitions
    (nothing overlaps then, the output is sorted and nothing is duplicated) -/
theorem C13_file_interleave_counterexample :
    accepts [⟨0, 100, 5000⟩, ⟨0, 2000, 3000⟩] = false ∧
    accepts [⟨0, 100, 1000⟩, ⟨0, 4000, 5000⟩, ⟨0, 2000, 3000⟩] = true := by
  decide

/-- the model's walk over adjacent pairs, written with the pair test regenerated from the source -/
def noOverlapGen : List Part → Bool
  | [] => true
  | [_] => true
  | a :: b :: rest => !(Gen.overlapRejects (a.contig == b.contig) a.stop b.start) && noOverlapGen (b :: rest)

/-- **bridging lemma**: `check_overlapping_partitions` as it stands in the source — the pair test
    (`Gen.overlapRejects`), a loop over all adjacent pairs `(i-1, i)` with no early exit, guarded by contig
    equality, called unconditionally by `finalise` — is `noOverlap`; and the partitions are sorted by
    `(header contig index, region start)` -/
theorem C13_gen_overlap_check (ps : List Part) :
    noOverlapGen ps = noOverlap ps ∧
    Gen.overlapLoop = ["i", "range(1, len(partitions))", "partitions[i - 1].region", "partitions[i].region"] ∧
    Gen.overlapLoopEscapes = [] ∧
    Gen.overlapGuard = "prev_region.contig == current_region.contig" ∧
    Gen.overlapCheckCalls = ["Expr:check_overlapping_partitions(self.metadata.partitions)"] ∧
    Gen.partitionSortKey = "lambda x: (contig_index_map[x.region.contig], x.region.start)" := by
  refine ⟨?_, by decide, by decide, by decide, by decide, by decide⟩
  induction ps with
  | nil => rfl
  | cons a rest ih =>
    cases rest with
    | nil => rfl
    | cons b rest' =>
      simp only [noOverlapGen, noOverlap, Gen.overlapRejects, ih]
      by_cases hc : (a.contig == b.contig) = true <;> by_cases hs : a.stop < b.start <;> simp [hc, hs] <;> omega

example : sortParts [⟨1, 5, 9⟩, ⟨0, 7, 8⟩, ⟨0, 1, 3⟩] = [⟨0, 1, 3⟩, ⟨0, 7, 8⟩, ⟨1, 5, 9⟩] := by decide

end B2Z.Checks
