import B2Z.Model.RegionIndex
import B2Z.Proofs.RegionIndex
import B2Z.Gen.RegionIndex
/-! # C12 — the region index exactly summarises the stored variants

Model: `B2Z.RIdx` (`Model/RegionIndex.lean`), a transcription of `VcfZarrWriter.create_index`.
`bits` is the width of the dtype in which `p + length - 1` is evaluated: after the repair of
finding F1 this is 32 (the index's own dtype) for every store; before it was the narrow dtype of
the position/length arrays (8 or 16 for small coordinates), see `C12_narrow_dtype_counterexample`.
-/
namespace B2Z.RIdx

-- some hypotheses (`hcs`, `hne`) are kept in the statements for documentation although the
-- proofs do not need them
set_option linter.unusedVariables false

/-- no record's end coordinate leaves the `bits`-wide signed range -/
def NoOverflow (bits : Nat) (xs : List Rec) : Prop :=
  ∀ r ∈ xs, -(2 : Int) ^ (bits - 1) ≤ r.pos + r.len - 1 ∧ r.pos + r.len - 1 < (2 : Int) ^ (bits - 1)

/-- the exact (unbounded) maximum end coordinate of a run -/
def exactMaxEnd (run : List Rec) : Int := maxList (run.map fun r => r.pos + r.len - 1)

/-- (1) the segments, concatenated in output order, are exactly the records: every record is
    covered once, in order -/
theorem C12_cover (cs : Nat) (hcs : 0 < cs) (xs : List Rec) :
    ((segments cs xs).map (·.2)).flatten = xs := by
  rw [segments_eq_segsOf, segsOf_flatten]
  exact chunksOf_flatten cs hcs _ xs (Nat.le_refl _)

/-- (2) no segment is empty and all its records have one contig -/
theorem C12_segment_uniform (cs : Nat) (hcs : 0 < cs) (xs : List Rec) :
    ∀ s ∈ segments cs xs, s.2 ≠ [] ∧ ∀ r ∈ s.2, r.contig = (s.2.headD default).contig := by
  intro s hs
  rw [segments_eq_segsOf] at hs
  obtain ⟨_, ch, _, hrun⟩ := segsOf_mem _ _ s hs
  exact splitRuns_uniform ch s.2 hrun

/-- (3) each segment lies inside the variant chunk it is labelled with: if the records before it
    number `off`, then all of `[off, off + len)` divide to the chunk number -/
theorem C12_segment_in_chunk (cs : Nat) (hcs : 0 < cs) (xs : List Rec) (k : Nat)
    (hk : k < (segments cs xs).length) :
    let off := (((segments cs xs).take k).map (·.2.length)).sum
    let s := (segments cs xs)[k]
    off / cs = s.1 ∧ (off + s.2.length - 1) / cs = s.1 := by
  intro off s
  have hs : (segments cs xs)[k]? = some s := List.getElem?_eq_getElem hk
  have key : s.1 * cs ≤ off ∧ off + s.2.length ≤ (s.1 + 1) * cs ∧ 0 < s.2.length := by
    have := segsOf_in_chunk cs (chunks cs xs) 0 (chunksOf_ok cs hcs _ xs) k s
      (by rw [← segments_eq_segsOf]; exact hs)
    rw [← segments_eq_segsOf] at this
    simp only [Nat.zero_mul, Nat.zero_add] at this
    exact this
  obtain ⟨h1, h2, h3⟩ := key
  constructor
  · exact Nat.div_eq_of_lt_le h1 (by omega)
  · exact Nat.div_eq_of_lt_le (by omega) (by omega)

/-- (4) maximality: two consecutive segments of the same chunk have different contigs -/
theorem C12_maximal (cs : Nat) (hcs : 0 < cs) (xs : List Rec) (k : Nat)
    (hk : k + 1 < (segments cs xs).length) :
    let s := (segments cs xs)[k]
    let t := (segments cs xs)[k + 1]
    s.1 = t.1 → (s.2.getLastD default).contig ≠ (t.2.headD default).contig := by
  intro s t hst
  have hs : (segments cs xs)[k]? = some s := List.getElem?_eq_getElem (by omega)
  have ht : (segments cs xs)[k + 1]? = some t := List.getElem?_eq_getElem hk
  rw [segments_eq_segsOf] at hs ht
  exact segsOf_adjacent _ 0 k s t hs ht hst

/-- (5) each row reports chunk, contig, first and last start position, the exact maximum end
    position and the record count of its segment — provided the end coordinate fits the dtype -/
theorem C12_row_exact (bits : Nat) (hb : 0 < bits) (v : Nat) (run : List Rec) (hne : run ≠ [])
    (hno : NoOverflow bits run) :
    rowOf bits v run =
      { chunk := v, contig := (run.headD default).contig, first := (run.headD default).pos,
        last := (run.getLastD default).pos, maxEnd := exactMaxEnd run, count := run.length } := by
  have : run.map (endOf bits) = run.map fun r => r.pos + r.len - 1 :=
    List.map_congr_left fun r hr => wrap_id' bits hb _ (hno r hr)
  simp only [rowOf, exactMaxEnd, this]

/-- (5') `wrap` is the identity on the dtype's range -/
theorem wrap_id (bits : Nat) (hb : 0 < bits) (x : Int)
    (h : -(2 : Int) ^ (bits - 1) ≤ x ∧ x < (2 : Int) ^ (bits - 1)) : wrap bits x = x := by
  exact wrap_id' bits hb x h

/-- (6) the whole index: rows correspond one-to-one, in order, to the segments -/
theorem C12_region_index_exact (cs : Nat) (xs : List Rec) (hno : NoOverflow 32 xs) :
    regionIndex 32 cs xs = (segments cs xs).map fun s =>
      { chunk := s.1, contig := (s.2.headD default).contig, first := (s.2.headD default).pos,
        last := (s.2.getLastD default).pos, maxEnd := exactMaxEnd s.2, count := s.2.length } := by
  unfold regionIndex
  apply List.map_congr_left
  intro s hs
  obtain ⟨hne, hmem⟩ := segments_mem cs xs s hs
  exact C12_row_exact 32 (by decide) s.1 s.2 hne fun r hr => hno r (hmem r hr)

theorem NoOverflow.mono (xs : List Rec) (b : Nat) (hb : 32 ≤ b) (h : NoOverflow 32 xs) : NoOverflow b xs := by
  intro r hr
  have := h r hr
  have hn : (2 : Nat) ^ (32 - 1) ≤ 2 ^ (b - 1) := Nat.pow_le_pow_right (by decide) (by omega)
  have hp : (2 : Int) ^ (32 - 1) ≤ (2 : Int) ^ (b - 1) := by exact_mod_cast hn
  omega

/-- (6') the same for every evaluation width of at least 32 bits -/
theorem C12_region_index_exact_wide (bits : Nat) (hb : 32 ≤ bits) (cs : Nat) (xs : List Rec)
    (hno : NoOverflow 32 xs) :
    regionIndex bits cs xs = (segments cs xs).map fun s =>
      { chunk := s.1, contig := (s.2.headD default).contig, first := (s.2.headD default).pos,
        last := (s.2.getLastD default).pos, maxEnd := exactMaxEnd s.2, count := s.2.length } := by
  have hno' := NoOverflow.mono xs bits hb hno
  unfold regionIndex
  apply List.map_congr_left
  intro s hs
  obtain ⟨hne, hmem⟩ := segments_mem cs xs s hs
  exact C12_row_exact bits (by omega) s.1 s.2 hne fun r hr => hno' r (hmem r hr)

/-- translator tie (`Gen/RegionIndex.lean`, regenerated from `create_index` on every run): the
    source evaluates the end coordinate, and stores the index, in a dtype at least 32 bits wide -/
theorem C12_bridge_width : 32 ≤ Gen.ridxEndBits ∧ 32 ≤ Gen.ridxIndexBits := by decide

/-- (6) for the width the current source uses -/
theorem C12_region_index_exact_src (cs : Nat) (xs : List Rec) (hno : NoOverflow 32 xs) :
    regionIndex Gen.ridxEndBits cs xs = (segments cs xs).map fun s =>
      { chunk := s.1, contig := (s.2.headD default).contig, first := (s.2.headD default).pos,
        last := (s.2.getLastD default).pos, maxEnd := exactMaxEnd s.2, count := s.2.length } :=
  C12_region_index_exact_wide _ C12_bridge_width.1 cs xs hno

/-- finding F1 (fixed): evaluated in `int8`, positions `[10,100,120]` with lengths `[1,100,1]`
    report a maximum end of 120 instead of 199 -/
theorem C12_narrow_dtype_counterexample :
    (regionIndex 8 10 [⟨0, 10, 1⟩, ⟨0, 100, 100⟩, ⟨0, 120, 1⟩]).map (·.maxEnd) = [120] ∧
    (regionIndex 32 10 [⟨0, 10, 1⟩, ⟨0, 100, 100⟩, ⟨0, 120, 1⟩]).map (·.maxEnd) = [199] := by
  decide

/-- non-vacuity: two chunks, a contig change inside the first -/
example : regionIndex 32 3 [⟨0, 5, 1⟩, ⟨0, 9, 4⟩, ⟨1, 2, 1⟩, ⟨1, 7, 2⟩] =
    [⟨0, 0, 5, 9, 12, 2⟩, ⟨0, 1, 2, 2, 2, 1⟩, ⟨1, 1, 7, 7, 8, 1⟩] := by decide

end B2Z.RIdx
