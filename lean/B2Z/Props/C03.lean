import B2Z.Props.C01
import B2Z.Proofs.Checks
import B2Z.Model.Split
import B2Z.Props.C13
import B2Z.Proofs.ChecksOrder
import B2Z.Proofs.Split
/-! # C03 — output is invariant under how the work is decomposed, scheduled or split

Corollaries of the pipeline refinement theorem (`Props/C01.lean`): the specification side does not
mention the explode tiling, the flush schedule, the number of encode partitions or their execution
order.  (Interleavings of concurrently running tasks: C07; distributed = one-shot command sequence
and crash histories: C05/C06.)
-/
namespace B2Z.Pipe

/-- the execution order of the encode partitions does not matter -/
theorem C03_order_invariant (c : Cfg) (enc : α → β) (vals : List α)
    (hn : vals ≠ []) (hc : 0 < c.chunk) (hp : 0 < c.encodeParts) (hm : ∀ x, c.maxChunks = some x → 0 < x)
    (o₁ o₂ : List (Nat × Nat))
    (h1 : o₁.Perm (B2Z.genPartitions vals.length c.chunk c.encodeParts c.maxChunks))
    (h2 : o₂.Perm (B2Z.genPartitions vals.length c.chunk c.encodeParts c.maxChunks)) :
    pipeline c enc vals o₁ = pipeline c enc vals o₂ := by
  funext i
  rw [C01_pipeline_refines_spec c enc vals hn hc hp hm o₁ h1 i, C01_pipeline_refines_spec c enc vals hn hc hp hm o₂ h2 i]

/-- explode partitioning, intermediate chunk size (flush schedule) and the number of encode
    partitions do not matter: only the variant chunk size and cap enter the result -/
theorem C03_decomposition_invariant (c₁ c₂ : Cfg) (enc : α → β) (vals : List α) (hn : vals ≠ [])
    (hchunk : c₁.chunk = c₂.chunk) (hcap : c₁.maxChunks = c₂.maxChunks)
    (hc : 0 < c₁.chunk) (hp1 : 0 < c₁.encodeParts) (hp2 : 0 < c₂.encodeParts)
    (hm : ∀ x, c₁.maxChunks = some x → 0 < x)
    (o₁ o₂ : List (Nat × Nat))
    (h1 : o₁.Perm (B2Z.genPartitions vals.length c₁.chunk c₁.encodeParts c₁.maxChunks))
    (h2 : o₂.Perm (B2Z.genPartitions vals.length c₂.chunk c₂.encodeParts c₂.maxChunks)) :
    pipeline c₁ enc vals o₁ = pipeline c₂ enc vals o₂ := by
  funext i
  rw [C01_pipeline_refines_spec c₁ enc vals hn hc hp1 hm o₁ h1 i,
      C01_pipeline_refines_spec c₂ enc vals hn (hchunk ▸ hc) hp2 (hcap ▸ hm) o₂ h2 i]
  rw [show rowsWritten c₁ vals.length = rowsWritten c₂ vals.length from by simp only [rowsWritten, hchunk, hcap]]

/-- chunk sizes change only the chunk grid: without a cap every chunk size stores the same rows -/
theorem C03_chunks_only_change_grid (c₁ c₂ : Cfg) (enc : α → β) (vals : List α) (hn : vals ≠ [])
    (h1 : 0 < c₁.chunk ∧ 0 < c₁.encodeParts) (h2 : 0 < c₂.chunk ∧ 0 < c₂.encodeParts)
    (hcap : c₁.maxChunks = none ∧ c₂.maxChunks = none)
    (o₁ o₂ : List (Nat × Nat))
    (hp1 : o₁.Perm (B2Z.genPartitions vals.length c₁.chunk c₁.encodeParts none))
    (hp2 : o₂.Perm (B2Z.genPartitions vals.length c₂.chunk c₂.encodeParts none)) :
    pipeline c₁ enc vals o₁ = pipeline c₂ enc vals o₂ :=
  C03_config_invariant c₁ c₂ enc vals hn h1 h2 hcap o₁ o₂ hp1 hp2

/-- **C03 (chunk cap, relative form of `C03_max_chunks_prefix`)**: a variant-chunk cap `m` stores exactly the first `min (m * chunk) n` rows of
    what the uncapped conversion stores — the same values at every index below the cut, nothing at
    or beyond it — for any decomposition and execution order on either side -/
theorem C03_cap_is_prefix (c₁ c₂ : Cfg) (enc : α → β) (vals : List α) (hn : vals ≠ []) (m : Nat) (hmpos : 0 < m)
    (hchunk : c₁.chunk = c₂.chunk) (hcap1 : c₁.maxChunks = some m) (hcap2 : c₂.maxChunks = none)
    (hc : 0 < c₁.chunk) (hp1 : 0 < c₁.encodeParts) (hp2 : 0 < c₂.encodeParts)
    (o₁ o₂ : List (Nat × Nat))
    (h1 : o₁.Perm (B2Z.genPartitions vals.length c₁.chunk c₁.encodeParts c₁.maxChunks))
    (h2 : o₂.Perm (B2Z.genPartitions vals.length c₂.chunk c₂.encodeParts c₂.maxChunks)) (i : Nat) :
    pipeline c₁ enc vals o₁ i =
      if i < min (m * c₁.chunk) vals.length then pipeline c₂ enc vals o₂ i else none := by
  rw [C01_pipeline_refines_spec c₁ enc vals hn hc hp1 (by intro x hx; rw [hcap1] at hx; cases hx; exact hmpos) o₁ h1 i,
    C01_pipeline_refines_spec c₂ enc vals hn (hchunk ▸ hc) hp2 (by intro x hx; rw [hcap2] at hx; cases hx) o₂ h2 i]
  have hlen : 0 < vals.length := List.length_pos_iff.mpr hn
  have r2 : rowsWritten c₂ vals.length = vals.length := by
    simp only [rowsWritten, hcap2, B2Z.totalWritten, B2Z.numChunks]
    have := B2Z.ceilDiv_mul_ge vals.length c₂.chunk (hchunk ▸ hc)
    omega
  have r1 : rowsWritten c₁ vals.length = min (m * c₁.chunk) vals.length := by
    simp only [rowsWritten, hcap1, B2Z.totalWritten, B2Z.numChunks]
    have := B2Z.ceilDiv_mul_ge vals.length c₁.chunk hc
    by_cases hle : B2Z.ceilDiv vals.length c₁.chunk ≤ m
    · rw [Nat.min_eq_left hle]
      have := Nat.mul_le_mul_right c₁.chunk hle
      omega
    · have hm' : m ≤ B2Z.ceilDiv vals.length c₁.chunk := by omega
      rw [Nat.min_eq_right hm']
  rw [r1, r2]
  by_cases h : i < min (m * c₁.chunk) vals.length
  · have : i < vals.length := by omega
    simp [h, this]
  · simp [h]

end B2Z.Pipe

namespace B2Z.Checks

/-- no two partitions have the same sort key `(contig, start)` -/
def DistinctKeys (ps : List Part) : Prop := ps.Pairwise fun a b => ¬ (a.contig = b.contig ∧ a.start = b.start)

/-- **C03 (input order)**: the order in which the input files (hence their partitions) are given does
    not matter: explode sorts the partitions by `(header contig index, start)`, and when those keys are
    distinct — as they are for any accepted input set, whose partitions are strictly separated — the
    sorted order is unique -/
theorem C03_file_order_invariant (ps ps' : List Part) (h : ps.Perm ps') (hk : DistinctKeys ps)
    (heq : ∀ a ∈ ps, ∀ b ∈ ps, a.contig = b.contig → a.start = b.start → a = b) :
    sortParts ps = sortParts ps' := by
  have _ := hk
  have hperm : (sortParts ps).Perm (sortParts ps') :=
    ((sortParts_perm' ps).trans h).trans (sortParts_perm' ps').symm
  refine sorted_perm_eq (sortParts_sorted' ps) (sortParts_sorted' ps') hperm ?_
  intro a ha b hb hab hba
  have hk' := Part.le_antisymm_key hab hba
  exact heq a ((sortParts_perm' ps).mem_iff.1 ha) b ((sortParts_perm' ps).mem_iff.1 hb) hk'.1 hk'.2

end B2Z.Checks

namespace B2Z.Split
open B2Z.Checks

/-- the meta data of the sorted pieces is the sorted meta data -/
theorem explodeOrder_meta (pieces : List (List Rec)) :
    (explodeOrder pieces).map metaOf = sortParts (pieces.map metaOf) :=
  explodeOrder_meta' pieces

/-- **C03 (split input)**: cut the record list of a file into consecutive non-empty pieces (`cut`,
    `cut.flatten` = the unsplit file's records in output order) such that the set is accepted (no two
    pieces overlap) and the pieces are in key order; hand the pieces to explode as separate files in
    ANY order (`pieces` is a permutation of `cut`): the store holds exactly the unsplit record list -/
theorem C03_split_files_any_order (cut pieces : List (List Rec)) (hperm : pieces.Perm cut)
    (hne : ∀ p ∈ cut, p ≠ [])
    (hord : sortParts (cut.map metaOf) = cut.map metaOf)
    (hacc : accepts (cut.map metaOf) = true)
    (hwf : WellFormed (cut.map metaOf)) :
    storeRecords pieces = cut.flatten := by
  have _ := hne
  have hsep : (cut.map metaOf).Pairwise B2Z.Checks.Sep := by
    have h := C13_accept_sound (cut.map metaOf) hwf hacc
    rw [hord] at h
    exact h
  unfold storeRecords
  rw [explodeOrder_eq_of_perm cut pieces hperm hord hsep hwf]

example : storeRecords [[⟨1, 5, 0⟩], [⟨0, 9, 1⟩, ⟨0, 12, 2⟩], [⟨0, 1, 3⟩, ⟨0, 3, 4⟩]] =
    [⟨0, 1, 3⟩, ⟨0, 3, 4⟩, ⟨0, 9, 1⟩, ⟨0, 12, 2⟩, ⟨1, 5, 0⟩] := by decide

end B2Z.Split
