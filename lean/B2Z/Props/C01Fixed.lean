import B2Z.Model.FixedFields
import B2Z.Proofs.FixedFields
/-! # C01 — the fixed fields are stored losslessly (row encoders of `vcz.py`)

Round trips: what the row encoders of `Model/FixedFields.lean` write determines the record's value
again; and the error branches are exactly the inputs the real code refuses. -/
namespace B2Z.Fixed

/-- REF and the ALT alleles can be read back from the `variant_allele` row (alleles are never the
    empty string), and the row has the array's width -/
theorem C01_alleles_roundtrip (w : Nat) (ref : String) (alt row : List String)
    (h : allelesRow w ref alt = some row) (hne : ∀ a ∈ alt, a ≠ STR_FILL) :
    allelesOfRow row = some (ref, alt) ∧ row.length = w := by
  unfold allelesRow at h
  split at h
  · exact absurd h (by simp)
  · rename_i hw
    split at h
    · rename_i hle
      have hrow := Option.some.inj h
      subst hrow
      refine ⟨?_, ?_⟩
      · simp only [List.cons_append, allelesOfRow]
        rw [takeWhile_append_replicate_of_all (fun x => decide (x ≠ STR_FILL)) alt _ STR_FILL
          (fun a ha => by simpa using hne a ha) (by simp)]
      · simp only [List.length_cons, List.length_append, List.length_replicate]
        omega
    · exact absurd h (by simp)

/-- the encoder refuses exactly the records with more alleles than the array is wide -/
theorem C01_alleles_error_iff (w : Nat) (ref : String) (alt : List String) :
    allelesRow w ref alt = none ↔ w < 1 + alt.length := by
  unfold allelesRow
  split
  · rename_i hw; subst hw; simp; omega
  · rename_i hw
    split
    · rename_i hle
      constructor
      · intro h; exact absurd h (by simp)
      · intro h; omega
    · rename_i hle
      constructor
      · intro _; omega
      · intro _; rfl

/-- dictionary lookup on a duplicate-free declaration list is the position -/
theorem lookup_eq_some_iff (declared : List String) (hn : declared.Nodup) (name : String) (i : Nat) :
    lookup declared name = some i ↔ declared[i]? = some name := by
  constructor
  · intro h
    by_cases hm : name ∈ declared
    · obtain ⟨j, hj⟩ := List.getElem?_of_mem hm
      have := lookup_of_getElem? declared hn name j hj
      rw [h] at this
      rw [Option.some.inj this]
      exact hj
    · rw [lookup_of_not_mem declared name hm] at h
      exact absurd h (by simp)
  · exact lookup_of_getElem? declared hn name i

theorem lookup_eq_none_iff (declared : List String) (name : String) :
    lookup declared name = none ↔ name ∉ declared := by
  constructor
  · intro h hm
    have := lookup_isSome_of_mem declared name hm
    rw [h] at this
    exact absurd this (by simp)
  · exact lookup_of_not_mem declared name

/-- `variant_filter`: the row marks exactly the record's filters … -/
theorem C01_filter_row (declared present : List String) (hn : declared.Nodup)
    (hp : ∀ f ∈ present, f ∈ declared) :
    filterRow declared present = some (declared.map fun d => present.contains d) := by
  rw [filterRow_eq, foldlM_filterStep declared hn present _ hp (by simp),
    zipWith_replicate_false]

/-- … an undeclared filter is an error, never a silently dropped value … -/
theorem C01_filter_error (declared present : List String) (h : ∃ f ∈ present, f ∉ declared) :
    filterRow declared present = none := by
  obtain ⟨f, hf, hnd⟩ := h
  rw [filterRow_eq]
  exact foldlM_filterStep_error declared f hnd present _ hf

/-- … and the set of filters can be read back from the row -/
theorem C01_filter_roundtrip (declared present : List String) (row : List Bool) (hn : declared.Nodup)
    (h : filterRow declared present = some row) (f : String) :
    f ∈ ((declared.zip row).filter (·.2)).map (·.1) ↔ f ∈ present := by
  have hp : ∀ g ∈ present, g ∈ declared := by
    intro g hg
    apply Classical.byContradiction
    intro hnd
    rw [C01_filter_error declared present ⟨g, hg, hnd⟩] at h
    exact absurd h (by simp)
  rw [C01_filter_row declared present hn hp] at h
  have hrow := Option.some.inj h
  subst hrow
  rw [zip_map_filter_mem]
  constructor
  · rintro ⟨_, h2⟩
    simpa using h2
  · intro hf
    exact ⟨hp f hf, by simpa using hf⟩

/-- `variant_contig` holds the index of the record's contig in the header -/
theorem C01_contig_roundtrip (declared : List String) (hn : declared.Nodup) (chrom : String) (i : Nat)
    (h : contigCell declared chrom = some i) : declared[i]? = some chrom := by
  exact (lookup_eq_some_iff declared hn chrom i).1 h

theorem C01_contig_declared (declared : List String) (chrom : String) (hc : chrom ∈ declared) :
    (contigCell declared chrom).isSome := by
  exact lookup_isSome_of_mem declared chrom hc

/-- `call_genotype`: every call can be read back (alleles up to the first fill), rows have the
    array's width, and padding never changes a call -/
theorem C01_genotype_roundtrip (w samples : Nat) (rows out : List (List Int))
    (h : gtRow w samples (some rows) = some out) :
    out.map callOfRow = rows.map (fun r => callOfRow r.dropLast) ∧ (∀ r ∈ out, r.length = w) ∧
    out.length = rows.length := by
  simp only [gtRow] at h
  split at h
  · rename_i hall
    have hout := Option.some.inj h
    subst hout
    rw [List.all_eq_true] at hall
    refine ⟨?_, ?_, ?_⟩
    · rw [List.map_map]
      apply List.map_congr_left
      intro r _
      simp only [Function.comp, callOfRow]
      exact takeWhile_append_replicate _ r.dropLast _ (-2) (by simp)
    · intro r hr
      obtain ⟨r0, hr0, rfl⟩ := List.mem_map.1 hr
      have := hall r0 hr0
      simp only [decide_eq_true_eq] at this
      simp only [List.length_append, List.length_dropLast, List.length_replicate]
      omega
    · simp
  · exact absurd h (by simp)

/-- the encoder refuses exactly the records with a call wider than the array -/
theorem C01_genotype_error_iff (w samples : Nat) (rows : List (List Int)) :
    gtRow w samples (some rows) = none ↔ ∃ r ∈ rows, w < r.length - 1 := by
  simp only [gtRow]
  split
  · rename_i hall
    rw [List.all_eq_true] at hall
    constructor
    · intro h; exact absurd h (by simp)
    · rintro ⟨r, hr, hlt⟩
      have := hall r hr
      simp only [decide_eq_true_eq] at this
      omega
  · rename_i hall
    constructor
    · intro _
      apply Classical.byContradiction
      intro hex
      apply hall
      rw [List.all_eq_true]
      intro r hr
      simp only [decide_eq_true_eq]
      apply Classical.byContradiction
      intro hlt
      exact hex ⟨r, hr, by omega⟩
    · intro _; rfl

/-- a record without genotypes: every allele missing, every call masked -/
theorem C01_genotype_absent (w samples : Nat) :
    gtRow w samples none = some (List.replicate samples (List.replicate w (-1))) ∧
    maskRow (List.replicate samples (List.replicate w (-1))) = List.replicate samples (List.replicate w true) := by
  refine ⟨rfl, ?_⟩
  simp [maskRow]

/-- the mask marks exactly the negative (missing or fill) entries -/
theorem C01_mask_iff (gt : List (List Int)) (i j : Nat) (x : Int) (hx : (gt[i]?.bind (·[j]?)) = some x) :
    ((maskRow gt)[i]?.bind (·[j]?)) = some (decide (x < 0)) := by
  cases hi : gt[i]? with
  | none => rw [hi] at hx; simp at hx
  | some r =>
    rw [hi] at hx
    have hj : r[j]? = some x := by simpa using hx
    simp [maskRow, hi, hj]

example : allelesRow 4 "A" ["C", "GT"] = some ["A", "C", "GT", ""] := by decide
example : filterRow ["PASS", "q10", "s50"] ["s50", "q10"] = some [false, true, true] := by decide
example : filterRow ["PASS", "q10"] ["zz"] = none := by decide
example : gtRow 2 2 (some [[0, 1, 1], [1, 0]]) = some [[0, 1], [1, -2]] := by decide
example : phasedRow 2 (some [[0, 1, 1], [1, 0]]) = [true, false] := by decide

end B2Z.Fixed
