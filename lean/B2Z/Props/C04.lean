import B2Z.Proofs.RegionsRefine
import B2Z.Proofs.RegionsPartition
import B2Z.Proofs.RegionsOffsets
/-! # C04 — index-derived region partitions cover every record exactly once

Model: `B2Z.Regions` (`Model/Regions.lean`): `offsetsTbi` / `offsetsCsi` (the `offsets()` methods),
`selectIdx` (`searchsorted` / `delete` / `unique`), `regions` (the region construction incl. contig
changes, skipped contigs and trailing contigs), `finalRegions` (`_filter_empty_and_refine`) and
`query` (what `IndexedVcf.variants(region)` yields).

Records are numbered by *index* contig order and `recs` is the file order; the covering theorem
needs the file to be sorted by `(index contig, position)` — true whenever the index's contig order
is the file's (always for tabix/CSI over `.vcf.gz`, where htslib numbers contigs by first
appearance). Known finding K1 is the other case (`C04_contig_order_counterexample`).
-/
namespace B2Z.Regions

def okey (o : Off) : Nat := o.contig * M + o.pos

/-- what the theorem needs of `index.offsets()` -/
structure OffsOK (offs : List Off) (recs : List Rec) (nContigs : Nat) (hasRecs : Nat → Bool) : Prop where
  nonempty : offs ≠ []
  entry_ok : ∀ o ∈ offs, 1 ≤ o.pos ∧ o.pos < M ∧ o.contig < nContigs
  /-- file offsets are non-decreasing (the index's contig order is the file's order) -/
  offs_mono : (offs.map (·.off)).Pairwise (· ≤ ·)
  /-- a strictly larger file offset means a strictly later (contig, position) -/
  key_mono : offs.Pairwise (fun a b => a.off < b.off → okey a < okey b)
  /-- the first entry is not after the first record -/
  first_le : ∀ o, offs.head? = some o → ∀ r ∈ recs, okey o ≤ key r
  /-- every contig holding records carries a positive or unknown count in the index -/
  counts : ∀ r ∈ recs, hasRecs r.contig = true

/-- regions are ordered and non-overlapping in `(contig, position)` space -/
def Ordered (gs : List Reg) : Prop := gs.Pairwise (fun g g' => g.hi ≤ g'.lo)

/-- the selection step: the selected entries are strictly increasing and start with entry 0 -/
theorem select_strict (offs : List Off) (n t : Nat) (hn : 1 ≤ n)
    (hmono : (offs.map (·.off)).Pairwise (· ≤ ·))
    (hkey : offs.Pairwise (fun a b => a.off < b.off → okey a < okey b)) (hne : offs ≠ [])
    (hpos : ∀ o ∈ offs, o.pos < M) :
    (selectEntries offs n t).Pairwise Entry.lt ∧
    (selectEntries offs n t).head? = (offs.head?).map (fun o => ({ contig := o.contig, pos := o.pos } : Entry)) :=
  ⟨selectEntries_strict offs n t hmono hkey hpos, selectEntries_head offs n t hn hne⟩

/-- **C04** (core): for every request that the code accepts, the emitted regions read back every
    record exactly once in file order, none is empty, and they are ordered and non-overlapping -/
theorem C04_tiling (recs : List Rec) (nContigs : Nat) (hasRecs : Nat → Bool)
    (hrecs : ∀ r ∈ recs, RecOK r ∧ r.contig < nContigs)
    (hs : recs.Pairwise (fun a b => key a ≤ key b))
    (offs : List Off) (hok : OffsOK offs recs nContigs hasRecs)
    (fileLen : Nat) (numParts targetSize : Option Nat) (gs : List Reg)
    (h : partition recs offs fileLen numParts targetSize nContigs hasRecs = some gs) :
    gs.flatMap (query recs) = recs ∧ (∀ g ∈ gs, query recs g ≠ []) ∧ Ordered gs := by
  unfold partition at h
  obtain ⟨raw, hraw, rfl⟩ := Option.map_eq_some_iff.mp h
  obtain ⟨n, t, hn, hne, rfl⟩ := partitionRaw_some offs fileLen numParts targetSize nContigs hasRecs raw hraw
  have hrecOK : ∀ r ∈ recs, RecOK r := fun r hr => (hrecs r hr).1
  have hsel := select_strict offs n t hn hok.offs_mono hok.key_mono hok.nonempty
    (fun o ho => (hok.entry_ok o ho).2.1)
  -- every selected entry is an index entry
  have hentry : ∀ e ∈ selectEntries offs n t, EntryOK e ∧ e.contig < nContigs := by
    intro e he
    obtain ⟨o, ho, rfl⟩ := mem_selectEntries offs n t e he
    have := hok.entry_ok o ho
    exact ⟨⟨this.1, this.2.1⟩, this.2.2⟩
  have hEOK : ∀ e ∈ selectEntries offs n t, EntryOK e := fun e he => (hentry e he).1
  -- the first selected entry is the first index entry
  have hfirst : ∀ r ∈ recs, ekey ((selectEntries offs n t).head hne) ≤ key r := by
    intro r hr
    have hh : (selectEntries offs n t).head? = some ((selectEntries offs n t).head hne) :=
      List.head?_eq_some_head hne
    rw [hsel.2] at hh
    cases ho : offs.head? with
    | none => rw [ho] at hh; simp at hh
    | some o =>
      rw [ho] at hh
      simp only [Option.map_some, Option.some.injEq] at hh
      have := hok.first_le o ho r hr
      rw [← hh]
      exact this
  have hcover := C04_cover recs hrecOK hs (selectEntries offs n t) hne hEOK hsel.1 nContigs hasRecs
    (hentry _ (List.getLast_mem hne)).2 hfirst (fun r hr => (hrecs r hr).2)
    (fun r hr _ => hok.counts r hr)
  have hfin := final_flatMap recs hs hrecOK
    (regions (selectEntries offs n t) ((selectEntries offs n t).getLast hne).contig nContigs hasRecs)
  refine ⟨by rw [hfin.1, hcover], hfin.2, ?_⟩
  exact finalRegions_ordered recs _ (regions_ordered _ hne hEOK hsel.1 nContigs hasRecs)

/-- the code does not raise on a valid request (`num_parts ≥ 1` or target size `≥ 1`) -/
theorem C04_no_error (recs : List Rec) (nContigs : Nat) (hasRecs : Nat → Bool)
    (offs : List Off) (hok : OffsOK offs recs nContigs hasRecs)
    (fileLen : Nat) (numParts targetSize : Option Nat)
    (hreq : (∃ n, numParts = some n ∧ targetSize = none ∧ 1 ≤ n) ∨
            (∃ t, numParts = none ∧ targetSize = some t ∧ 1 ≤ t ∧ 1 ≤ fileLen)) :
    partition recs offs fileLen numParts targetSize nContigs hasRecs ≠ none := by
  obtain ⟨n, t, hp, hn⟩ := partsOf_valid fileLen numParts targetSize hreq
  have hsel := select_strict offs n t hn hok.offs_mono hok.key_mono hok.nonempty
    (fun o ho => (hok.entry_ok o ho).2.1)
  have hne : selectEntries offs n t ≠ [] := by
    intro hnil
    have h2 := hsel.2
    rw [hnil] at h2
    cases hoffs : offs with
    | nil => exact hok.nonempty hoffs
    | cons o os => rw [hoffs] at h2; simp at h2
  have hpos : ∀ e ∈ selectEntries offs n t, 1 ≤ e.pos := by
    intro e he
    obtain ⟨o, ho, rfl⟩ := mem_selectEntries offs n t e he
    exact (hok.entry_ok o ho).1
  have hraw := partitionRaw_ne_none offs fileLen numParts targetSize nContigs hasRecs n t hp hne hpos hsel.1
  unfold partition
  intro hnone
  exact hraw (Option.map_eq_none_iff.mp hnone)

/-- tabix: the linear-index entries are strictly increasing in (contig, position) whatever the
    offsets are, so `key_mono` holds for every tabix index -/
theorem C04_tabix_key_mono (interval : Nat) (hiv : 0 < interval) (linear : List (List Nat)) :
    (offsetsTbi interval linear).Pairwise (fun a b => okey a < okey b ∨ ¬ (∀ o ∈ offsetsTbi interval linear, o.pos < M)) := by
  by_cases hall : ∀ o ∈ offsetsTbi interval linear, o.pos < M
  · exact (tbi_strict interval hiv linear hall).imp (fun h => Or.inl h)
  · exact List.pairwise_of_forall_mem_list (fun _ _ _ _ => Or.inr hall)

/-- CSI, the htslib invariant: within a contig a strictly larger `loffset` belongs to a bin that
    starts strictly later -/
def CsiBinsOK (minShift depth : Nat) (bs : List Bin) : Prop :=
  ∀ a ∈ bs, ∀ b ∈ bs, a.loffset < b.loffset → firstLocus minShift depth a.bin < firstLocus minShift depth b.bin

/-- CSI: with the `(loffset, first locus)` sort key, within every contig the offsets are
    non-decreasing and a strictly larger offset means a strictly larger position -/
theorem C04_csi_contig (minShift depth : Nat) (bs : List Bin) (c : Nat) (hok : CsiBinsOK minShift depth bs)
    (hlo : ∀ b ∈ bs, b.loffset < 18446744073709551616) :
    let offs := offsetsCsi true minShift depth (List.replicate c [] ++ [bs])
    (offs.map (·.off)).Pairwise (· ≤ ·) ∧ offs.Pairwise (fun a b => a.off < b.off → a.pos < b.pos) ∧
    (∀ o ∈ offs, o.contig = c) ∧
    -- the first entry is the earliest-starting bin among those with the smallest loffset
    (∀ o, offs.head? = some o → ∀ b ∈ bs, b.bin ≠ firstBinInLevel (depth + 1) + 1 →
        (∀ b' ∈ bs, b.loffset ≤ b'.loffset) → o.pos ≤ firstLocus minShift depth b.bin) := by
  intro offs
  have hoffs : offs = (csiSel true minShift depth bs).map (csiOff minShift depth c) :=
    offsetsCsi_single true minShift depth bs c
  have hmem := mem_csiSel true minShift depth bs
  have hsorted := csiSel_sorted true minShift depth bs
  rw [hoffs]
  refine ⟨?_, ?_, ?_, ?_⟩
  · -- offsets non-decreasing
    rw [List.map_map, List.pairwise_map]
    refine hsorted.imp_of_mem ?_
    intro a b ha hb hab
    have h1 := hlo a ((hmem a).mp ha).1
    have h2 := hlo b ((hmem b).mp hb).1
    simp only [lexLt, csiKey] at hab
    simp only [Function.comp, csiOff]
    omega
  · -- a strictly larger offset is a strictly later first locus
    apply List.pairwise_of_forall_mem_list
    intro x hx y hy hxy
    obtain ⟨a, ha, rfl⟩ := List.mem_map.mp hx
    obtain ⟨b, hb, rfl⟩ := List.mem_map.mp hy
    have ha' := ((hmem a).mp ha).1
    have hb' := ((hmem b).mp hb).1
    have h1 := hlo a ha'
    have h2 := hlo b hb'
    simp only [csiOff] at hxy ⊢
    exact hok a ha' b hb' (by omega)
  · intro o ho
    obtain ⟨a, _, rfl⟩ := List.mem_map.mp ho
    rfl
  · intro o ho b hb hbin hmin
    have hbsel : b ∈ csiSel true minShift depth bs := (hmem b).mpr ⟨hb, hbin⟩
    cases hsel : csiSel true minShift depth bs with
    | nil => rw [hsel] at ho; simp at ho
    | cons b0 rest =>
      rw [hsel] at ho hbsel hsorted
      simp only [List.map_cons, List.head?_cons, Option.some.injEq] at ho
      subst ho
      simp only [csiOff]
      rcases List.mem_cons.mp hbsel with rfl | hin
      · exact Nat.le_refl _
      · have h1 := (List.pairwise_cons.mp hsorted).1 b hin
        have hb0 : b0 ∈ bs := ((hmem b0).mp (by rw [hsel]; simp)).1
        have h2 := hmin b0 hb0
        simp only [lexLt, csiKey] at h1
        simp only [if_true] at h1
        omega

/-- finding F3 (fixed): two bins with equal `loffset`, the leaf stored before its ancestor. Sorting by
    `loffset` alone starts the first region at the leaf's first locus and loses the first record;
    with the tie-break nothing is lost. (bin 4681 = first level-5 bin, 585 = its parent) -/
theorem C04_csi_tie_counterexample :
    let recs : List Rec := [⟨0, 100⟩, ⟨0, 20000⟩]
    let bins : List (List Bin) := [[⟨4682, 65536⟩, ⟨585, 65536⟩]]
    let run := fun tie => (partition recs (offsetsCsi tie 14 5 bins) 1000 (some 1) none 1 (fun _ => true)).map
      (fun gs => gs.flatMap (query recs))
    run false = some [⟨0, 20000⟩] ∧ run true = some recs := by
  decide

/-- known finding K1: index contig order ≠ file contig order. Every record is still read exactly
    once, but grouped by index contig order, not in file order. -/
theorem C04_contig_order_counterexample :
    let recs : List Rec := [⟨0, 10⟩, ⟨2, 10⟩, ⟨1, 10⟩]        -- file order: contig 0, 2, 1
    let offs : List Off := [⟨0, 0, 1⟩, ⟨200, 1, 1⟩, ⟨100, 2, 1⟩]
    (partition recs offs 1000 (some 1) none 3 (fun _ => true)).map (fun gs => gs.flatMap (query recs))
      = some [⟨0, 10⟩, ⟨1, 10⟩, ⟨2, 10⟩] := by
  decide

/-- non-vacuity of `OffsOK` and the tiling on a concrete two-contig file -/
example :
    let recs : List Rec := [⟨0, 5⟩, ⟨0, 17000⟩, ⟨0, 40000⟩, ⟨1, 7⟩]
    let offs := offsetsTbi 16384 [[0, 65536 * 100, 65536 * 200], [65536 * 300]]
    partition recs offs 400 (some 3) none 2 (fun _ => true)
      = some [.bounded 0 5 32768, .openEnd 0 40000, .openEnd 1 7] := by
  decide

end B2Z.Regions
