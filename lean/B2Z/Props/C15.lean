import B2Z.Model.Cli
import B2Z.Gen.Cli
import B2Z.Props.C05
import B2Z.Props.C06
/-! # C15 — command-line commands have exactly the effect of the library operations

Model: `B2Z.Cli` (`Model/Cli.lean`) against the table regenerated from `cli.py` on every run
(`Gen.cliCommands`, `Gen.*_body`).  PARTIAL: click's own parsing of the command line is trusted;
the harness runs the real CLI and the library call side by side.
-/
namespace B2Z.Cli

/-- the regenerated table, reduced to (command, operation, positional arguments, keyword mapping) -/
def extracted : List (String × String × List String × List (String × String)) :=
  (Gen.cliCommands.filter fun c => c.func ≠ "").map fun c => (c.name, c.func, c.args, c.kwargs)

def documentedRendered : List (String × String × List String × List (String × String)) :=
  documented.map fun c => (c.command, c.func, c.args, c.kwargs.map fun k => (k.1, render k.2.1 k.2.2))

/-- **option passthrough**: every command calls the documented operation, and every option reaches
    the same-named (documented) library keyword as the bare parsed value — the only transformation
    anywhere is `get_compressor` on `--compressor` -/
theorem C15_option_passthrough : extracted = documentedRendered := by
  decide

/-- in particular: no keyword of any command is a computed expression other than the compressor -/
theorem C15_bare_values :
    ∀ c ∈ documented, ∀ k ∈ c.kwargs, k.2.2 = Xf.id ∨ (k.1 = "compressor" ∧ k.2.1 = "compressor") := by
  decide

/-- the statements of each command around its library call: the overwrite guard comes first,
    partition commands apply only the one-based adjustment -/
theorem C15_command_bodies :
    (Gen.cliCommands.map fun c => (c.name, c.body.take 2)) = [
      ("explode", ["check_overwrite_dir(icf_path, force)", "<CALL>"]),
      ("dexplode_init", ["check_overwrite_dir(icf_path, force)", "check_partitions(num_partitions)"]),
      ("dexplode_partition", ["if one_based:\n    partition -= 1", "<CALL>"]),
      ("dexplode_finalise", ["<CALL>"]),
      ("inspect", ["data = <CALL>", "click.echo(tabulate.tabulate(data, headers='keys'))"]),
      ("mkschema", ["stream = click.get_text_stream('stdout')", "<CALL>"]),
      ("encode", ["check_overwrite_dir(zarr_path, force)", "<CALL>"]),
      ("dencode_init", ["check_overwrite_dir(zarr_path, force)", "check_partitions(num_partitions)"]),
      ("dencode_partition", ["if one_based:\n    partition -= 1", "<CALL>"]),
      ("dencode_finalise", ["<CALL>"]),
      ("convert_vcf", ["check_overwrite_dir(zarr_path, force)", "<CALL>"]),
      ("convert_plink", ["<CALL>"]),
      ("vcfpartition", ["if num_partitions is None and partition_size is None:\n    raise click.UsageError('Either --num-partitions or --partition-size must be specified')",
                        "if num_partitions is None:\n    num_parts_per_path = None\nelse:\n    num_parts_per_path = max(1, num_partitions // len(vcfs))"])] := by
  decide +kernel

/-- the guard in the source is the modelled one: ask unless forced, abort on "no", rename aside
    before deleting -/
theorem C15_guard_source :
    Gen.check_overwrite_dir_body = ["path = pathlib.Path(path)",
      "if path.exists():\n    if not force:\n        click.confirm(f'Do you want to overwrite {path}? (use --force to skip this check)', abort=True)\n    tmp_delete_path = path.with_suffix(f'{path.suffix}.{os.getpid()}.DELETING')\n    logger.info(f'Deleting {path} (renamed to {tmp_delete_path} while in progress)')\n    os.rename(path, tmp_delete_path)\n    shutil.rmtree(tmp_delete_path)"] ∧
    Gen.get_compressor_body = ["if cname is None:\n    return None", "config = icf_mod.ICF_DEFAULT_COMPRESSOR.get_config()",
      "config['cname'] = cname", "return numcodecs.get_codec(config)"] := by
  decide +kernel

/-- **one-based**: partition number `k ≥ 1` with `--one-based` selects the partition that `k - 1`
    selects without it; `0` with `--one-based` is rejected by the library -/
theorem C15_one_based (n : Nat) (k : Int) :
    partitionIndex k true = partitionIndex (k - 1) false ∧
    (accepted n (partitionIndex k true) = true ↔ 1 ≤ k ∧ k ≤ n) ∧
    accepted n (partitionIndex 0 true) = false := by
  refine ⟨by simp [partitionIndex], ?_, by simp [partitionIndex, accepted]⟩
  simp only [partitionIndex, accepted, if_true, Bool.and_eq_true, decide_eq_true_eq]
  omega

/-- **overwrite guard**: an existing output path is never touched without `--force` or an
    affirmative answer; a fresh path needs no question -/
theorem C15_overwrite_guard (force confirm : Bool) :
    overwriteGuard true false false = .abort ∧
    (overwriteGuard true force confirm = .replace ↔ (force = true ∨ confirm = true)) ∧
    overwriteGuard false force confirm = .proceed := by
  cases force <;> cases confirm <;> simp [overwriteGuard]

/-- **partition count** (explode): the number printed by `dexplode-init` is `nParts`; finalise fails
    while any of those partitions has not completed and succeeds once all have -/
theorem C15_partition_count_explode (c : XP.Cfg) (wf : c.WF) (h : List (XP.Cmd × Option Nat))
    (hplan : XP.runHist c Fs.empty h .plan = .ok) (hfin : XP.runHist c Fs.empty h .final = .absent) :
    ((∃ j, j < c.nParts ∧ XP.runHist c Fs.empty h (.summary j) ≠ .ok) →
        (XP.step c (XP.runHist c Fs.empty h) .finalise none).error = true) ∧
    XP.runHist c (XP.runHist c Fs.empty h) ((List.range c.nParts).map (fun j => (XP.Cmd.partition j, none)) ++ [(XP.Cmd.finalise, none)])
      = XP.finalState c := by
  refine ⟨fun hj => (XP.C05_finalise_refuses c _ none hj).1, ?_⟩
  exact XP.C05_rerun_recovers c wf h hplan hfin (List.range c.nParts) (fun j hj => List.mem_range.mpr hj)
    (fun j hj => List.mem_range.mp hj)

/-- **partition count** (encode) -/
theorem C15_partition_count_encode (c : EP.Cfg) (s : EP.S) (j : Nat) (hj : j < c.nParts) (h : s (.pdir j) = .absent) :
    (EP.step c s .finalise none).error = true :=
  (EP.C06_finalise_refuses_unencoded c s none ⟨j, hj, h⟩).1

theorem C15_vcfpartition_parts (n files : Nat) :
    partsPerFile (some n) files = some (max 1 (n / files)) ∧ partsPerFile none files = none := by
  simp [partsPerFile]

end B2Z.Cli
