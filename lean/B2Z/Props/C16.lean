import B2Z.Model.Plink
import B2Z.Props.C11
import B2Z.Proofs.Buffer
import B2Z.Proofs.Plink
/-! # C16 — PLINK conversion reproduces the bed/bim/fam contents

Model: `B2Z.Plink` (`Model/Plink.lean`) — `.bed` bit layout, the dosage → genotype-pair mapping of
`encode_genotypes_slice`, and the chunk-buffered writes of every slice.
-/
namespace B2Z.Plink

/-- the `.bed` layout round-trips for every sample count and arbitrary padding bits -/
theorem C16_bed_roundtrip (pad : Nat) (gs : List G) :
    decodeRow gs.length (encodeRow pad gs) = gs := by
  exact bed_roundtrip pad gs

/-- the documented encoding -/
theorem C16_call_encoding :
    G.call .hom1 = (0, 0) ∧ G.call .het = (1, 0) ∧ G.call .hom2 = (1, 1) ∧ G.call .missing = (-1, -1) := by
  decide

/-- mask is set exactly for missing calls; phasing is always false -/
theorem C16_mask_phased (gs : List G) :
    (rowOf gs).mask = gs.map (fun g => (decide (g = .missing), decide (g = .missing))) ∧
    (rowOf gs).phased = gs.map (fun _ => false) ∧
    (rowOf gs).gt = gs.map G.call := by
  exact rowOf_spec gs

/-- the buffered writes of one run: reading the array back at `off + k` gives row `k` -/
theorem buffer_run_spec {α : Type} (cs off : Nat) (hcs : 0 < cs) (xs : List α) (a : Buf.Arr α) (i : Nat) :
    Buf.applyWrites a (Buf.run cs off xs) i =
      if off ≤ i ∧ i < off + xs.length then xs[i - off]? else a i := by
  exact Buf.run_spec cs off hcs xs a i

/-- every write of a run starting at a chunk-aligned offset starts on a chunk boundary and is
    at most one chunk long: a task only ever touches its own chunks -/
theorem buffer_run_aligned {α : Type} (cs off : Nat) (hcs : 0 < cs) (hal : cs ∣ off) (xs : List α) :
    ∀ w ∈ Buf.run cs off xs, cs ∣ w.1 ∧ 0 < w.2.length ∧ w.2.length ≤ cs ∧
      off ≤ w.1 ∧ w.1 + w.2.length ≤ off + xs.length := by
  exact Buf.run_aligned cs off hcs hal xs

/-- the whole conversion: for every fileset (`rows`), chunk size, number of slices and **any
    execution order of the slices** (`order` is a permutation of the slice list), the stored row
    `i` is the documented encoding of variant `i` -/
theorem C16_convert_refines_spec (cs nslices : Nat) (hcs : 0 < cs) (hn : 0 < nslices)
    (rows : List (List G)) (hrows : rows ≠ [])
    (order : List (Nat × Nat)) (hperm : order.Perm (B2Z.chunkAlignedSlices rows.length cs nslices none))
    (i : Nat) :
    convert cs rows order i = (rows[i]?).map rowOf := by
  exact convert_spec cs nslices hcs hn rows hrows order hperm i

/-- lossless: distinct `.bed` genotypes are stored as distinct pairs -/
theorem C16_call_injective (g h : G) (e : G.call g = G.call h) : g = h := by
  cases g <;> cases h <;> first | rfl | (exfalso; revert e; decide)

theorem map_call_inj : ∀ (gs hs : List G), gs.map G.call = hs.map G.call → gs = hs
  | [], [], _ => rfl
  | [], _ :: _, e => by simp at e
  | _ :: _, [], e => by simp at e
  | g :: gs, h :: hs, e => by
    simp only [List.map_cons, List.cons.injEq] at e
    rw [C16_call_injective g h e.1, map_call_inj gs hs e.2]

/-- … hence distinct variant rows give distinct stored rows: nothing is conflated -/
theorem C16_rows_injective (gs hs : List G) (e : rowOf gs = rowOf hs) : gs = hs :=
  map_call_inj gs hs (congrArg CallRow.gt e)

/-- shape of the `.bed` row the model reads: `⌈n/4⌉` bytes, each a byte, whatever the padding bits -/
theorem C16_encodeRow_bytes (pad : Nat) (gs : List G) :
    (encodeRow pad gs).length = ceilDiv gs.length 4 ∧ ∀ b ∈ encodeRow pad gs, b < 256 := by
  fun_induction encodeRow pad gs with
  | case1 => simp [ceilDiv]
  | case2 a b c d rest ih =>
    have ha := G.code_lt a; have hb := G.code_lt b; have hc := G.code_lt c; have hd := G.code_lt d
    refine ⟨?_, ?_⟩
    · simp only [List.length_cons, ih.1, ceilDiv]; omega
    · intro x hx
      simp only [List.mem_cons] at hx
      rcases hx with rfl | hx
      · simp only [encodeByte]; omega
      · exact ih.2 x hx
  | case3 gs h1 h2 =>
    match gs, h1, h2 with
    | [], h1, _ => exact absurd rfl h1
    | [a], _, _ =>
      have ha := G.code_lt a
      refine ⟨by simp [ceilDiv], ?_⟩
      intro x hx; simp only [List.mem_singleton] at hx; subst hx; simp only [encodeByte]; omega
    | [a, b], _, _ =>
      have ha := G.code_lt a; have hb := G.code_lt b
      refine ⟨by simp [ceilDiv], ?_⟩
      intro x hx; simp only [List.mem_singleton] at hx; subst hx; simp only [encodeByte]; omega
    | [a, b, c], _, _ =>
      have ha := G.code_lt a; have hb := G.code_lt b; have hc := G.code_lt c
      refine ⟨by simp [ceilDiv], ?_⟩
      intro x hx; simp only [List.mem_singleton] at hx; subst hx; simp only [encodeByte]; omega
    | a :: b :: c :: d :: rest, _, h2 => exact absurd rfl (h2 a b c d rest)

example : decodeRow 5 (encodeRow 0 [.hom1, .het, .hom2, .missing, .het]) = [.hom1, .het, .hom2, .missing, .het] := by
  decide

end B2Z.Plink
