import B2Z.Model.Plink
import B2Z.Props.C11
import B2Z.Proofs.Buffer
import B2Z.Proofs.Plink
/-! # C16 — PLINK conversion reproduces the bed/bim/fam contents

Model: `B2Z.Plink` (`Model/Plink.lean`) — `.bed` bit layout, the dosage → genotype-pair mapping of
`encode_genotypes_slice`, and the chunk-buffered writes of every slice.
-/
namespace B2Z.Plink

/-- the `.bed` layout round-trips for every sample count and arbitrary padding bits -/
theorem C16_bed_roundtrip (pad : Nat) (gs : List G) :
    decodeRow gs.length (encodeRow pad gs) = gs := by
  exact bed_roundtrip pad gs

/-- the documented encoding -/
theorem C16_call_encoding :
    G.call .hom1 = (0, 0) ∧ G.call .het = (1, 0) ∧ G.call .hom2 = (1, 1) ∧ G.call .missing = (-1, -1) := by
  decide

/-- mask is set exactly for missing calls; phasing is always false -/
theorem C16_mask_phased (gs : List G) :
    (rowOf gs).mask = gs.map (fun g => (decide (g = .missing), decide (g = .missing))) ∧
    (rowOf gs).phased = gs.map (fun _ => false) ∧
    (rowOf gs).gt = gs.map G.call := by
  exact rowOf_spec gs

/-- the buffered writes of one run: reading the array back at `off + k` gives row `k` -/
theorem buffer_run_spec {α : Type} (cs off : Nat) (hcs : 0 < cs) (xs : List α) (a : Buf.Arr α) (i : Nat) :
    Buf.applyWrites a (Buf.run cs off xs) i =
      if off ≤ i ∧ i < off + xs.length then xs[i - off]? else a i := by
  exact Buf.run_spec cs off hcs xs a i

/-- every write of a run starting at a chunk-aligned offset starts on a chunk boundary and is
    at most one chunk long: a task only ever touches its own chunks -/
theorem buffer_run_aligned {α : Type} (cs off : Nat) (hcs : 0 < cs) (hal : cs ∣ off) (xs : List α) :
    ∀ w ∈ Buf.run cs off xs, cs ∣ w.1 ∧ 0 < w.2.length ∧ w.2.length ≤ cs ∧
      off ≤ w.1 ∧ w.1 + w.2.length ≤ off + xs.length := by
  exact Buf.run_aligned cs off hcs hal xs

/-- the whole conversion: for every fileset (`rows`), chunk size, number of slices and **any
    execution order of the slices** (`order` is a permutation of the slice list), the stored row
    `i` is the documented encoding of variant `i` -/
theorem C16_convert_refines_spec (cs nslices : Nat) (hcs : 0 < cs) (hn : 0 < nslices)
    (rows : List (List G)) (hrows : rows ≠ [])
    (order : List (Nat × Nat)) (hperm : order.Perm (B2Z.chunkAlignedSlices rows.length cs nslices none))
    (i : Nat) :
    convert cs rows order i = (rows[i]?).map rowOf := by
  exact convert_spec cs nslices hcs hn rows hrows order hperm i

example : decodeRow 5 (encodeRow 0 [.hom1, .het, .hom2, .missing, .het]) = [.hom1, .het, .hom2, .missing, .het] := by
  decide

end B2Z.Plink
