import B2Z.Model.LocalAlleles
import B2Z.Proofs.LocalAlleles
/-! # C17 — local-allele fields are a faithful projection

Model: `B2Z.LA` (`Model/LocalAlleles.lean`), transcribing `compute_laa_field` and
`compute_lpl_field`.  The LPL statement is **false for haploid calls** on the unchanged code
(known finding K3; the one-line repair is blocked by a pinned test that asserts the wrong value):
`C17_lpl_haploid_counterexample` proves the negation on a concrete witness, which the
correspondence replays on the real code; `C17_lpl_spec_partial` covers what does hold.
-/
namespace B2Z.LA

/-- a well-formed genotype row: every allele index is `≤ alt` (or missing / fill) -/
def GtOk (alt : Nat) (gt : List Int) : Prop := ∀ g ∈ gt, g ≤ alt

/-- LAA lists exactly the ascending distinct positive alleles of the call -/
theorem C17_laa_spec (alt : Nat) (gt : List Int) :
    localAlleles alt gt = ((List.range (alt + 1)).filter fun a => 1 ≤ a ∧ (Int.ofNat a) ∈ gt).map Int.ofNat :=
  localAlleles_eq alt gt

theorem C17_laa_sorted_distinct (alt : Nat) (gt : List Int) :
    (localAlleles alt gt).Pairwise (· < ·) ∧ ∀ a ∈ localAlleles alt gt, 1 ≤ a ∧ a ≤ alt ∧ a ∈ gt :=
  ⟨localAlleles_pairwise alt gt, localAlleles_mem alt gt⟩

/-- every row has the common width `max 1 (longest)`, starts with its local alleles, then fill -/
theorem C17_laa_rows (alt : Nat) (gts : List (List Int)) :
    ∀ row ∈ laaField alt gts, row.length = laaWidth alt gts ∧ 1 ≤ laaWidth alt gts := by
  intro row hrow
  obtain ⟨gt, _, rfl⟩ := List.mem_map.mp hrow
  exact ⟨padTo_length _ _, laaWidth_pos alt gts⟩

theorem C17_laa_row_content (alt : Nat) (gts : List (List Int)) (k : Nat) (hk : k < gts.length) :
    (laaField alt gts)[k]? = some (localAlleles alt gts[k] ++
      List.replicate (laaWidth alt gts - (localAlleles alt gts[k]).length) FILL) := by
  unfold laaField
  simp only [List.getElem?_map, List.getElem?_eq_getElem hk, Option.map_some]
  rw [padTo_eq _ _ (laaWidth_ge alt gts gts[k] (List.getElem_mem hk))]

/-- the triangular enumeration: the pair `(la[i], la[j])`, `i ≤ j`, sits at index `j(j+1)/2 + i` -/
theorem C17_pair_enumeration (la : List Int) (i j : Nat) (hij : i ≤ j) (hj : j < la.length) :
    (pairs la)[j * (j + 1) / 2 + i]? = some (la.getD i 0, la.getD j 0) :=
  pairs_getElem? la i j hij hj

theorem C17_pairs_length (la : List Int) : (pairs la).length = la.length * (la.length + 1) / 2 :=
  pairs_length la

/-- a LAA row as the code produces it: positive alleles first, then only fill -/
def LaaShape (row : List Int) : Prop :=
  ∃ (als : List Int) (k : Nat), row = als ++ List.replicate k FILL ∧ ∀ a ∈ als, 1 ≤ a

/-- diploid calls: the model equals the specification, for every PL vector (the wrap-around of
    negative indexes never shows) -/
theorem C17_lpl_spec_partial_diploid (row pl : List Int) (hrow : LaaShape row) :
    lplRow 2 row pl = lplSpecRow 2 row pl :=
  lplRow_diploid row pl hrow

/-- haploid calls whose LAA row has no fill entry -/
theorem C17_lpl_spec_partial_haploid (row pl : List Int) (hrow : ∀ a ∈ row, 1 ≤ a) :
    lplRow 1 row pl = lplSpecRow 1 row pl :=
  lplRow_haploid row pl hrow

/-- K3: a haploid reference call (`GT=0`, LAA row `[fill]`) with `PL=10,20,30` gets
    `LPL=[10,20]` where the specification says `[10, fill]` -/
theorem C17_lpl_haploid_counterexample :
    lplRow 1 [FILL] [10, 20, 30] = some [10, 20] ∧ lplSpecRow 1 [FILL] [10, 20, 30] = some [10, FILL] := by
  decide

/-- ploidies that cannot be localised are rejected -/
theorem C17_ploidy_rejected (p w : Nat) (h1 : p ≠ 1) (h2 : p ≠ 2) : lplWidth p w = none := by
  simp [lplWidth, h1, h2]

example : laaField 3 [[0, 2], [3, 1], [0, 0], [-1, 2]] = [[2, FILL], [1, 3], [FILL, FILL], [2, FILL]] := by decide
example : lplRow 2 [2, FILL] [0, 1, 2, 3, 4, 5] = some [0, 3, 5, FILL, FILL, FILL] := by decide
-- why the diploid statement needs no PL-length hypothesis: when the lookup `1 + a` for a pair
-- `(a, fill)` is out of range, the pair `(a, a)` (index `a(a+1)/2 + a ≥ 1 + a`) already fails on
-- both sides (numpy: IndexError); a single-column PL is broadcast, and `(fill, fill)` wraps to `pl[-1]`
example : lplRow 2 [3, FILL] [0, 1, 2, 3, 4, 5] = none ∧ lplSpecRow 2 [3, FILL] [0, 1, 2, 3, 4, 5] = none := by decide
example : lplRow 2 [FILL] [7] = some [7, FILL, FILL] ∧ lplSpecRow 2 [FILL] [7] = some [7, FILL, FILL] := by decide

/-- LAA depends only on which alleles occur in the call, not on their order or multiplicity
    (`0/1`, `1/0`, `1|0` and `1/1/0` all give `[1]`) -/
theorem C17_laa_set_invariant (alt : Nat) (gt gt' : List Int) (h : ∀ g, g ∈ gt ↔ g ∈ gt') :
    localAlleles alt gt = localAlleles alt gt' := by
  rw [C17_laa_spec, C17_laa_spec]
  congr 1
  apply List.filter_congr
  intro a _
  simp only [h]

/-- complete: every positive allele of the call that the header declares is listed -/
theorem C17_laa_complete (alt : Nat) (gt : List Int) (a : Nat) (h1 : 1 ≤ a) (h2 : a ≤ alt)
    (hmem : (Int.ofNat a) ∈ gt) : (Int.ofNat a) ∈ localAlleles alt gt := by
  rw [C17_laa_spec]
  apply List.mem_map.mpr
  refine ⟨a, ?_, rfl⟩
  simp only [List.mem_filter, List.mem_range, decide_eq_true_eq]
  exact ⟨by omega, h1, hmem⟩

/-- a call with no alternate allele (hom-ref, missing, padded) has an empty list -/
theorem C17_laa_ref_or_missing (alt : Nat) (gt : List Int) (h : ∀ g ∈ gt, g ≤ 0) :
    localAlleles alt gt = [] := by
  rw [C17_laa_spec]
  simp only [List.map_eq_nil_iff, List.filter_eq_nil_iff, List.mem_range, decide_eq_true_eq]
  intro a _ ⟨h1, hm⟩
  have := h _ hm
  simp at this
  omega

end B2Z.LA
