import B2Z.Model.Pipeline
import B2Z.Model.Rows
import B2Z.Proofs.Pipeline
import B2Z.Props.C08
import B2Z.Props.C11
import B2Z.Props.C16
import B2Z.Props.C01Fixed
/-! # C01 / C03 — the conversion pipeline refines the one-line specification

For one column: whatever the explode tiling, the flush schedule, the encode partitioning, the chunk
size and the execution order of the encode partitions, row `i` of the stored array is the
sanitised value of record `i` — and nothing else is written.  Decomposition invariance (C03) is a
corollary: the right-hand side does not mention the configuration.
The record-level inputs of this theorem are provided by C04 (the explode partitions tile the
records), the per-type row encoders are in `Model/Encode.lean` (C10).
-/
namespace B2Z.Pipe

/-- `splitBy` loses and reorders nothing -/
theorem splitBy_flatten (ns : List Nat) (xs : List α) : (splitBy ns xs).flatten = xs := by
  exact splitBy_flatten_aux ns xs

/-- the ICF of a column holds exactly the column -/
theorem icfOf_all (c : Cfg) (vals : List α) : (icfOf c vals).all = vals ∧ (icfOf c vals).WF := by
  exact ⟨icfOf_all_eq c vals, icfOf_wf c vals⟩

/-- **C01 (per column)**: for every configuration and every execution order of the encode
    partitions, the array read back is `enc` of the records, row by row, up to the rows written -/
theorem C01_pipeline_refines_spec (c : Cfg) (enc : α → β) (vals : List α)
    (hn : vals ≠ []) (hc : 0 < c.chunk) (hp : 0 < c.encodeParts) (hm : ∀ x, c.maxChunks = some x → 0 < x)
    (order : List (Nat × Nat))
    (hperm : order.Perm (B2Z.genPartitions vals.length c.chunk c.encodeParts c.maxChunks)) (i : Nat) :
    pipeline c enc vals order i =
      if i < rowsWritten c vals.length then (vals[i]?).map enc else none := by
  exact pipeline_spec c enc vals hn hc hp hm order hperm i

/-- **C03**: two configurations with the same chunk cap give the same array -/
theorem C03_config_invariant (c₁ c₂ : Cfg) (enc : α → β) (vals : List α) (hn : vals ≠ [])
    (h1 : 0 < c₁.chunk ∧ 0 < c₁.encodeParts) (h2 : 0 < c₂.chunk ∧ 0 < c₂.encodeParts)
    (hcap : c₁.maxChunks = none ∧ c₂.maxChunks = none)
    (o₁ o₂ : List (Nat × Nat))
    (hp1 : o₁.Perm (B2Z.genPartitions vals.length c₁.chunk c₁.encodeParts none))
    (hp2 : o₂.Perm (B2Z.genPartitions vals.length c₂.chunk c₂.encodeParts none)) :
    pipeline c₁ enc vals o₁ = pipeline c₂ enc vals o₂ := by
  funext i
  rw [← hcap.1] at hp1
  rw [← hcap.2] at hp2
  rw [pipeline_spec c₁ enc vals hn h1.1 h1.2 (by intro x hx; rw [hcap.1] at hx; cases hx) o₁ hp1 i,
    pipeline_spec c₂ enc vals hn h2.1 h2.2 (by intro x hx; rw [hcap.2] at hx; cases hx) o₂ hp2 i]
  unfold rowsWritten
  rw [hcap.1, hcap.2, B2Z.Plink.totalWritten_none _ _ h1.1, B2Z.Plink.totalWritten_none _ _ h2.1]

/-- **C03**: a variant-chunk cap yields exactly the corresponding prefix -/
theorem C03_max_chunks_prefix (c : Cfg) (enc : α → β) (vals : List α) (m : Nat) (hm : 0 < m)
    (hn : vals ≠ []) (hc : 0 < c.chunk) (hp : 0 < c.encodeParts) (hcap : c.maxChunks = some m)
    (order : List (Nat × Nat))
    (hperm : order.Perm (B2Z.genPartitions vals.length c.chunk c.encodeParts (some m))) (i : Nat) :
    pipeline c enc vals order i = if i < min (m * c.chunk) vals.length then (vals[i]?).map enc else none := by
  rw [← hcap] at hperm
  rw [pipeline_spec c enc vals hn hc hp (by intro x hx; rw [hcap] at hx; cases hx; exact hm) order hperm i]
  unfold rowsWritten
  rw [hcap, totalWritten_some _ _ _ hc]

/-- C02: the chunk grid is complete and nothing lies outside it — every write of the pipeline
    starts on a chunk boundary, and the chunk keys written are exactly `0 .. ⌈rows/chunk⌉ - 1` -/
theorem C02_chunk_grid_complete (c : Cfg) (enc : α → β) (vals : List α)
    (hn : vals ≠ []) (hc : 0 < c.chunk) (hp : 0 < c.encodeParts) (hm : ∀ x, c.maxChunks = some x → 0 < x)
    (order : List (Nat × Nat))
    (hperm : order.Perm (B2Z.genPartitions vals.length c.chunk c.encodeParts c.maxChunks)) (k : Nat) :
    k ∈ Buf.chunkKeys c.chunk (order.flatMap (encodePartition c enc (icfOf c vals))) ↔
      k < B2Z.ceilDiv (rowsWritten c vals.length) c.chunk := by
  exact chunk_grid c enc vals hn hc hp hm order hperm k

example : (List.range 7).map (pipeline ⟨[2, 3], fun i => i + 1, 3, 2, 2, none⟩ (· * 10) [1, 2, 3, 4, 5]
    [(4, 5), (0, 4)]) = [some 10, some 20, some 30, some 40, some 50, none, none] := by decide

end B2Z.Pipe

namespace B2Z.Rows

theorem floatRow1d_some (w : Nat) (xs : List Nat) (hle : xs.length ≤ w) :
    floatRow1d w (some xs) =
      some (xs.map (fun b => if isNaN b then F_MISSING else b) ++ List.replicate (w - xs.length) F_FILL) := by
  have hnot : ¬ xs.length > w := by omega
  simp [floatRow1d, hnot]

theorem floatRow1d_none_of_long (w : Nat) (xs : List Nat) (h : w < xs.length) : floatRow1d w (some xs) = none := by
  simp [floatRow1d, h]

/-- **floats bit-exact**: every non-NaN input entry is stored unchanged, in place -/
theorem C01_float_bits_exact (w : Nat) (xs row : List Nat) (h : floatRow1d w (some xs) = some row)
    (i : Nat) (hi : i < xs.length) (hn : isNaN xs[i] = false) : row[i]? = some xs[i] := by
  by_cases hle : xs.length ≤ w
  · rw [floatRow1d_some w xs hle] at h
    cases h
    rw [List.getElem?_append_left (by simpa using hi)]
    simp [hi, hn]
  · rw [floatRow1d_none_of_long w xs (by omega)] at h
    cases h

/-- absent value = missing sentinel in every position; short vector = fill padding -/
theorem C01_float_missing_fill (w : Nat) (xs : List Nat) (hle : xs.length ≤ w) :
    floatRow1d w none = some (List.replicate w F_MISSING) ∧
    ∃ row, floatRow1d w (some xs) = some row ∧ row.length = w ∧ ∀ i, xs.length ≤ i → i < w → row[i]? = some F_FILL := by
  refine ⟨rfl, _, floatRow1d_some w xs hle, by simp; omega, ?_⟩
  intro i h1 h2
  rw [List.getElem?_append_right (by simpa using h1)]
  have : i - xs.length < w - xs.length := by omega
  simp [List.getElem?_replicate, this]

/-- the two sentinels are NaNs, distinct from each other -/
theorem C01_float_sentinels : isNaN F_MISSING = true ∧ isNaN F_FILL = true ∧ F_MISSING ≠ F_FILL := by decide

/-- a value longer than the inner dimension is an error, never a silent truncation -/
theorem C01_rows_no_truncation (w : Nat) (xs : List Nat) (ss : List String) :
    (w < xs.length → floatRow1d w (some xs) = none) ∧ (w < ss.length → strRow1d w (some ss) = none) := by
  constructor <;> intro h <;> simp [floatRow1d, strRow1d, h]

theorem C01_string_row (w : Nat) (ss : List String) (hle : ss.length ≤ w) :
    strRow1d w none = some (List.replicate w ".") ∧
    strRow1d w (some ss) = some (ss ++ List.replicate (w - ss.length) "") := by
  have hnot : ¬ ss.length > w := by omega
  exact ⟨rfl, by simp [strRow1d, hnot]⟩

end B2Z.Rows
