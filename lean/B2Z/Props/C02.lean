import B2Z.Model.Schema
import B2Z.Gen.Dtypes
import B2Z.Proofs.Schema
/-! # C02 — every produced store is a self-consistent, openable dataset (schema part)

Model: `B2Z.Schema` (`Model/Schema.lean`).  The chunk-grid clause is `B2Z.Pipe.C02_chunk_grid_complete`
(`Props/C01.lean`); the directory-tree clauses live in the protocol model (C06).
-/
namespace B2Z.Schema

/-- INFO / FORMAT field identifiers are unique within their category (VCF requires it) -/
def FieldsOK (fields : List Field) : Prop :=
  (fields.map fun f => (f.category, f.name)).Nodup ∧ ∀ f ∈ fields, f.category = "fixed" ∨ f.category = "INFO" ∨ f.category = "FORMAT"

/-- two array specs agree on the length of every dimension name they share -/
def Coherent (a b : Spec) : Prop :=
  ∀ (i j : Nat) (d : Dim), a.dims[i]? = some d → b.dims[j]? = some d → a.shape[i]? = b.shape[j]?

/-- **C02 (dimensions)**: in the generated schema any two arrays sharing a named dimension agree on
    its length — so the store opens as a labelled dataset -/
theorem C02_dims_coherent (fields : List Field) (hf : FieldsOK fields) (m n nc nf vcs scs : Nat) (specs : List Spec)
    (h : generate true fields m n nc nf vcs scs = some specs) :
    ∀ a ∈ specs, ∀ b ∈ specs, Coherent a b :=
  generate_coherent fields hf.1 m n nc nf vcs scs specs h

/-- every array has as many dimension names as axes -/
theorem C02_dims_rank (fields : List Field) (m n nc nf vcs scs : Nat) (specs : List Spec) (repair : Bool)
    (h : generate repair fields m n nc nf vcs scs = some specs) :
    ∀ a ∈ specs, a.dims.length = a.shape.length ∧ a.chunks.length = a.shape.length := by
  obtain ⟨M, pl, hall⟩ := generate_forms repair fields m n nc nf vcs scs specs h
  exact fun a ha => ⟨form_rank (hall a ha).1, (hall a ha).2.1⟩

/-- axis 0 is the record count; a `samples` axis has the sample count -/
theorem C02_variant_sample_axes (fields : List Field) (m n nc nf vcs scs : Nat) (specs : List Spec) (repair : Bool)
    (h : generate repair fields m n nc nf vcs scs = some specs) :
    ∀ a ∈ specs, a.dims.head? = some Dim.variants ∧ a.shape.head? = some m ∧
      (∀ i : Nat, a.dims[i]? = some Dim.samples → a.shape[i]? = some n) := by
  obtain ⟨M, pl, hall⟩ := generate_forms repair fields m n nc nf vcs scs specs h
  exact fun a ha => form_axes (hall a ha).1

/-- finding F6 (fixed): before the repair a Number=R field observed with 2 values in a file with 3
    alleles shared the name `alleles` with `variant_allele` (3) — incoherent -/
theorem C02_dims_counterexample_unrepaired :
    let fields : List Field := [
      ⟨"fixed", "ALT", ".", "String", 2, none, none⟩, ⟨"fixed", "QUAL", "1", "Float", 1, none, none⟩,
      ⟨"fixed", "POS", "1", "Integer", 1, some 1, some 9⟩, ⟨"fixed", "rlen", "1", "Integer", 1, some 1, some 1⟩,
      ⟨"INFO", "AD", "R", "Integer", 2, some 0, some 5⟩]
    (∃ specs, generate false fields 4 0 1 1 10 10 = some specs ∧ ∃ a ∈ specs, ∃ b ∈ specs, ¬ Coherent a b) ∧
    (∃ specs, generate true fields 4 0 1 1 10 10 = some specs ∧
        (specs.map fun s => (s.name, s.dims.map Dim.render, s.shape)).contains
          ("variant_AD", ["variants", "INFO_AD_dim"], [4, 2])) := by
  intro fields
  refine ⟨⟨_, rfl,
    { name := "variant_allele", dtype := "O", shape := [4, 3], chunks := [10, 3], dims := [.variants, .alleles],
      vcfField := none }, by decide,
    { name := "variant_AD", dtype := "i1", shape := [4, 2], chunks := [10, 2], dims := [.variants, .alleles],
      vcfField := some ("INFO", "AD") }, by decide, ?_⟩, ⟨_, rfl, by decide⟩⟩
  intro hc
  exact absurd (hc 1 1 .alleles rfl rfl) (by decide)

/-- every dtype the generator can emit is a signed integer type, `f4`, `bool`, `O` or `U1` -/
theorem C02_dtypes (fields : List Field) (m n nc nf vcs scs : Nat) (specs : List Spec) (repair : Bool)
    (h : generate repair fields m n nc nf vcs scs = some specs) :
    ∀ a ∈ specs, a.dtype ∈ ["i1", "i2", "i4", "i8", "f4", "bool", "O", "U1"] := by
  obtain ⟨M, pl, hall⟩ := generate_forms repair fields m n nc nf vcs scs specs h
  exact fun a ha => (hall a ha).2.2

/-- … and in every integer dtype both sentinels are representable (the cast keeps them) -/
theorem C02_sentinels_representable :
    ∀ dt ∈ ["i1", "i2", "i4", "i8"], sanitiseInt dt (-1) = -1 ∧ sanitiseInt dt (-2) = -2 ∧
      sanitiseInt dt VCF_INT_MISSING = -1 ∧ sanitiseInt dt VCF_INT_FILL = -2 := by
  decide

/-- the model's dtype table is the one regenerated from `core.min_int_dtype` -/
theorem C02_dtype_table : Gen.intDtypes = intDtypes := by decide

end B2Z.Schema
