import B2Z.Model.Schema
import B2Z.Model.SchemaJson
import B2Z.Gen.Dtypes
import B2Z.Gen.Reserved
import B2Z.Gen.Constants
import B2Z.Proofs.Schema
import B2Z.Proofs.SchemaJson
/-! # C10 — generated schemas always fit the data; user schemas are honoured exactly

Model: `B2Z.Schema` (dtype choice, row encoders) and `B2Z.SchemaJson` (schema ⇄ JSON).
-/
namespace B2Z.Schema

def dtRange (dt : String) : Int × Int :=
  ((intDtypes.find? fun d => d.1 = dt).map fun d => (d.2.1, d.2.2)).getD (0, 0)

/-- `min_int_dtype` returns the *first* (smallest) dtype whose range contains `[lo, hi]` -/
theorem C10_min_int_dtype (lo hi : Int) (dt : String) (h : minIntDtype lo hi = some dt) :
    (dtRange dt).1 ≤ lo ∧ hi ≤ (dtRange dt).2 ∧ lo ≤ hi ∧ dt ∈ ["i1", "i2", "i4", "i8"] ∧
    ∀ dt' ∈ intDtypes, dt'.2.2 < (dtRange dt).2 → ¬ (dt'.2.1 ≤ lo ∧ hi ≤ dt'.2.2) :=
  minIntDtype_spec lo hi dt h

/-- the cast is the identity on the dtype's range -/
theorem C10_cast_id (dt : String) (hdt : dt ∈ ["i1", "i2", "i4", "i8"]) (x : Int)
    (h : (dtRange dt).1 ≤ x ∧ x ≤ (dtRange dt).2) : RIdx.wrap (dtypeBits dt) x = x :=
  cast_id dt hdt x h

/-- **C10 (fit)**: with the dtype generated from the observed bounds and the inner dimension from
    the observed maximum length, encoding a stored value never clips, wraps or truncates: the row
    is the specification row.  (`lo`, `hi`, `w` come from the merged summary, which bounds every
    stored value: C08_summary_bounds.) -/
theorem C10_generated_fits (lo hi : Int) (dt : String) (hdt : minIntDtype lo hi = some dt) (w : Nat)
    (xs : List Int) (hlen : xs.length ≤ w)
    (hv : ∀ x ∈ xs, x = VCF_INT_MISSING ∨ x = VCF_INT_FILL ∨ x = -1 ∨ x = -2 ∨ (lo ≤ x ∧ x ≤ hi)) :
    intRow dt w (some xs) = some (intRowSpec w (some xs)) ∧ intRow dt w none = some (intRowSpec w none) := by
  obtain ⟨h1, h2, _, hmem, _⟩ := minIntDtype_spec lo hi dt hdt
  have hs := dtRange_sentinels dt hmem
  refine ⟨intRow_eq_spec dt hmem w xs hlen (fun x hx => ?_), rfl⟩
  rcases hv x hx with h | h | h | h | h
  · exact Or.inl h
  · exact Or.inr (Or.inl h)
  · exact Or.inr (Or.inr (by omega))
  · exact Or.inr (Or.inr (by omega))
  · exact Or.inr (Or.inr (by omega))

/-- a field in which only missing values were seen gets `i1`, which holds the sentinels -/
theorem C10_all_missing_fits (w : Nat) (xs : List Int) (hlen : xs.length ≤ w)
    (hv : ∀ x ∈ xs, x = VCF_INT_MISSING ∨ x = VCF_INT_FILL ∨ x = -1 ∨ x = -2) :
    intRow "i1" w (some xs) = some (intRowSpec w (some xs)) := by
  refine intRow_eq_spec "i1" (by decide) w xs hlen (fun x hx => ?_)
  rw [dtRange_i1]
  rcases hv x hx with h | h | h | h
  · exact Or.inl h
  · exact Or.inr (Or.inl h)
  · exact Or.inr (Or.inr (by subst h; decide))
  · exact Or.inr (Or.inr (by subst h; decide))

/-- **C10 (widening)**: replacing the dtype by a wider one changes no value -/
theorem C10_widen_preserves (dt dt' : String) (hdt : dt ∈ ["i1", "i2", "i4", "i8"]) (hdt' : dt' ∈ ["i1", "i2", "i4", "i8"])
    (hw : dtypeBits dt ≤ dtypeBits dt') (w : Nat) (v : Option (List Int))
    (hfit : ∀ xs, v = some xs → ∀ x ∈ xs, x = VCF_INT_MISSING ∨ x = VCF_INT_FILL ∨ ((dtRange dt).1 ≤ x ∧ x ≤ (dtRange dt).2)) :
    intRow dt' w v = intRow dt w v := by
  cases v with
  | none => rfl
  | some xs =>
    have hm := dtRange_mono dt dt' hdt hdt' hw
    unfold intRow
    simp only
    split
    · rfl
    · congr 2
      apply List.map_congr_left
      intro x hx
      have hx' : x = VCF_INT_MISSING ∨ x = VCF_INT_FILL ∨ ((dtRangeH dt).1 ≤ x ∧ x ≤ (dtRangeH dt).2) :=
        hfit xs rfl x hx
      rw [sanitiseInt_eq dt hdt x hx', sanitiseInt_eq dt' hdt' x ?_]
      rcases hx' with h | h | h
      · exact Or.inl h
      · exact Or.inr (Or.inl h)
      · exact Or.inr (Or.inr (by omega))

/-- a value longer than the inner dimension is an error, never a silent truncation -/
theorem C10_no_silent_truncation (dt : String) (w : Nat) (xs : List Int) (h : w < xs.length) :
    intRow dt w (some xs) = none := by
  unfold intRow
  simp only
  rw [if_pos h]

/-- encoding is per array: dropping arrays from the schema leaves the others exactly as they were
    (each array is encoded by a function of its own spec and the store only) -/
theorem C10_drop_optional {β : Type} (encodeArray : Spec → β) (specs : List Spec) (keep : Spec → Bool) :
    (specs.filter keep).map (fun s => (s.name, encodeArray s)) =
      ((specs.map fun s => (s, encodeArray s)).filter (fun p => keep p.1)).map (fun p => (p.1.name, p.2)) := by
  induction specs with
  | nil => rfl
  | cons a l ih =>
    simp only [List.filter_cons, List.map_cons]
    cases keep a
    · simpa using ih
    · simpa using ih

theorem C10_dtype_table : Gen.intDtypes = intDtypes := by decide

theorem C10_sentinel_constants :
    Gen.VCF_INT_MISSING = VCF_INT_MISSING ∧ Gen.VCF_INT_FILL = VCF_INT_FILL ∧ Gen.INT_MISSING = -1 ∧ Gen.INT_FILL = -2 ∧
    Gen.MIN_INT_VALUE = VCF_INT_FILL + 1 := by decide

end B2Z.Schema

namespace B2Z.SchemaJson

/-- **C10 (round trip)**: a schema survives `asdict` → JSON → `fromdict` unchanged -/
theorem C10_json_roundtrip (s : Schema) : Schema.ofJ s.formatVersion s.toJ = .ok s :=
  schema_roundtrip s

theorem C10_arrayspec_roundtrip (a : ArraySpec) : ArraySpec.ofJ a.toJ = some a :=
  arrayspec_roundtrip a

/-- a schema file of another format version is rejected -/
theorem C10_version_mismatch_rejected (s : Schema) (expected : String) (h : s.formatVersion ≠ expected) :
    Schema.ofJ expected s.toJ = .error "ValueError: format version mismatch" :=
  version_mismatch s expected h

theorem C10_version_constant : Gen.ZARR_SCHEMA_FORMAT_VERSION = "0.4" := by decide

end B2Z.SchemaJson
