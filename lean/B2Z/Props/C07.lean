import B2Z.Model.Conc
import B2Z.Props.C11
import B2Z.Props.C16
import B2Z.Proofs.Conc
/-! # C07 — concurrent partition tasks cannot interfere with one another

Model: `B2Z.Conc` (`Model/Conc.lean`) over the protocol models of C05 / C06 and the buffered writes
of C16.  PARTIAL: the theorem is about atomic mutations on disjoint objects; races inside one POSIX
call or inside zarr's directory creation (`makedirs(exist_ok)`) are outside the model and only
exercised by the real concurrent runs of the harness.
-/
namespace B2Z.Conc
open B2Z.Fs

variable {Obj : Type} [DecidableEq Obj]

/-- mutations with disjoint footprints commute -/
theorem mut_commute (m m' : Mut Obj) (h : Disjoint m.footprint m'.footprint) (s : St Obj) :
    m'.apply (m.apply s) = m.apply (m'.apply s) := by
  exact Mut.apply_comm m m' h s

/-- mutations of different tasks never touch a common object -/
def TasksDisjoint (ts : List (List (Mut Obj))) : Prop :=
  ∀ (i j : Nat) (hi : i < ts.length) (hj : j < ts.length), i ≠ j →
    ∀ m ∈ ts[i], ∀ m' ∈ ts[j], Disjoint (Mut.footprint m) (Mut.footprint m')

/-- **any interleaving = sequential**: if mutations of different tasks have disjoint footprints,
    every interleaving of the tasks ends in the state of running them one after the other -/
theorem C07_any_interleaving_eq_sequential (ts : List (List (Mut Obj))) (zs : List (Mut Obj)) (h : Merge ts zs)
    (hd : TasksDisjoint ts)
    (s : St Obj) : run s zs = run s ts.flatten := by
  exact merge_eq_seq h hd s

/-- … hence the same as any sequential order of the tasks -/
theorem C07_any_order (ts ts' : List (List (Mut Obj))) (hp : ts.Perm ts')
    (hd : TasksDisjoint ts)
    (s : St Obj) : run s ts.flatten = run s ts'.flatten := by
  exact perm_eq_seq hp (pairwise_of_index ts hd) s

/-- explode: the task of partition `j` touches only `wip/p<j>.json` and the private objects of `j` -/
theorem C07_explode_footprint (c : XP.Cfg) (s : XP.S) (j : Nat) :
    ∀ m ∈ mutsOf (XP.partitionProg c s j), ∀ o ∈ m.footprint, o = XP.Obj.summary j ∨ ∃ k, o = XP.Obj.data j k := by
  exact explode_footprint c s j

theorem C07_explode_tasks_disjoint (c : XP.Cfg) (s s' : XP.S) (i j : Nat) (hij : i ≠ j) :
    ∀ m ∈ mutsOf (XP.partitionProg c s i), ∀ m' ∈ mutsOf (XP.partitionProg c s' j), Disjoint m.footprint m'.footprint := by
  intro m hm m' hm' o ho ho'
  rcases explode_footprint c s i m hm o ho with rfl | ⟨k, rfl⟩ <;>
    rcases explode_footprint c s' j m' hm' _ ho' with h | ⟨k', h⟩ <;>
    first
    | (injection h with h1; exact hij h1)
    | cases h

/-- a task reads only the plan, the completion marker and its own summary — none of which another
    partition task writes: its program is the same whatever the other tasks have done meanwhile -/
theorem C07_explode_program_stable (c : XP.Cfg) (s : XP.S) (i j : Nat) (hij : i ≠ j) (ms : List (Mut XP.Obj))
    (hms : ∀ m ∈ ms, ∀ o ∈ m.footprint, o = XP.Obj.summary i ∨ ∃ k, o = XP.Obj.data i k) :
    mutsOf (XP.partitionProg c (run s ms) j) = mutsOf (XP.partitionProg c s j) ∧
    (run s ms) XP.Obj.plan = s XP.Obj.plan ∧ (run s ms) XP.Obj.final = s XP.Obj.final := by
  have hrun : ∀ o : XP.Obj, (o ≠ XP.Obj.summary i ∧ ∀ k, o ≠ XP.Obj.data i k) → run s ms o = s o := by
    intro o ho
    apply run_not_mem
    intro m hm hmem
    rcases hms m hm o hmem with h | ⟨k, h⟩
    · exact ho.1 h
    · exact ho.2 k h
  refine ⟨?_, ?_, ?_⟩
  · rw [explode_prog_congr c s (run s ms) j]
    apply hrun
    refine ⟨?_, fun k h => by cases h⟩
    intro h; injection h with h1; exact hij h1.symm
  · exact hrun _ ⟨fun h => (by cases h), fun k h => (by cases h)⟩
  · exact hrun _ ⟨fun h => (by cases h), fun k h => (by cases h)⟩

/-- the private objects of encode partition `j` -/
def EPPrivate (j : Nat) (o : EP.Obj) : Prop :=
  o = .wdir j ∨ o = .pdir j ∨ o = .sdir j ∨ (∃ a, o = .wmeta j a ∨ o = .pmeta j a ∨ o = .smeta j a) ∨
  (∃ a e, o = .went j a e ∨ o = .pent j a e ∨ o = .sent j a e)

/-- encode: the task of partition `j` touches only `wip_p<j>`, `p<j>` and `stale_p<j>` -/
theorem C07_encode_footprint (c : EP.Cfg) (s : EP.S) (j : Nat) :
    ∀ m ∈ mutsOf (EP.partitionProg c s j), ∀ o ∈ m.footprint, EPPrivate j o := by
  exact encode_footprint c s j

theorem C07_encode_tasks_disjoint (c : EP.Cfg) (s s' : EP.S) (i j : Nat) (hij : i ≠ j) :
    ∀ m ∈ mutsOf (EP.partitionProg c s i), ∀ m' ∈ mutsOf (EP.partitionProg c s' j), Disjoint m.footprint m'.footprint := by
  intro m hm m' hm' o ho ho'
  exact EPPriv.ne hij (encode_footprint c s i m hm o ho) (encode_footprint c s' j m' hm' o ho')

/-- PLINK: the buffered writes of different chunk-aligned slices touch different Zarr chunks -/
theorem C07_plink_slices_disjoint {α : Type} (rows c n : Nat) (hr : 0 < rows) (hc : 0 < c) (hn : 0 < n)
    (i j : Nat) (hij : i < j) (hj : j < (B2Z.chunkAlignedSlices rows c n none).length)
    (xs ys : List α)
    (hx : xs.length = ((B2Z.chunkAlignedSlices rows c n none)[i]'(by omega)).2 - ((B2Z.chunkAlignedSlices rows c n none)[i]'(by omega)).1)
    (hy : ys.length = ((B2Z.chunkAlignedSlices rows c n none)[j]'hj).2 - ((B2Z.chunkAlignedSlices rows c n none)[j]'hj).1) :
    ∀ k ∈ Buf.chunkKeys c (Buf.run c ((B2Z.chunkAlignedSlices rows c n none)[i]'(by omega)).1 xs),
    ∀ k' ∈ Buf.chunkKeys c (Buf.run c ((B2Z.chunkAlignedSlices rows c n none)[j]'hj).1 ys), k < k' := by
  exact cover_chunkKeys_lt (B2Z.C11_plink_slices rows c n none hr hc hn (by simp)) hc i j hij hj xs ys hx hy

example : Merge [[1, 2], [3]] [1, 3, 2] :=
  .pick 0 1 [2] rfl (.pick 1 3 [] rfl (.pick 0 2 [] rfl (.done (by simp))))

end B2Z.Conc
