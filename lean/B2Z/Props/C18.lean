import B2Z.Model.IcfDamage
import B2Z.Props.C08
import B2Z.Props.C11
import B2Z.Proofs.IcfDamage
import B2Z.Proofs.ChunkFile
import B2Z.Gen.ChunkFile
/-! # C18 — a damaged intermediate store is detected, not silently mis-read

Model: `B2Z.Dmg` (`Model/IcfDamage.lean`).  PARTIAL: that decoding a truncated file fails is the
hypothesis `CodecRejectsPrefix` built into the model (a read succeeds iff every file it opens is
`ok`); the harness enumerates it exhaustively on real stores.  What is proved is the reader logic:
every read path opens every file it depends on.
-/
namespace B2Z.Dmg
open B2Z.Fs

/-- a whole-column read fails as soon as ANY data file or the metadata is damaged … -/
theorem C18_values_detects (s : Store α) (f : Files)
    (hd : f.mdata ≠ .ok ∨ ∃ p, p < s.length ∧ (f.index p ≠ .ok ∨ ∃ k, k < ((s[p]?.map (·.chunks.length)).getD 0) ∧ f.chunk p k ≠ .ok)) :
    valuesF s f = none := by
  unfold valuesF
  rw [if_neg]
  rintro ⟨hm, hall⟩
  rw [List.all_eq_true] at hall
  rcases hd with hd | ⟨p, hp, hd⟩
  · exact hd hm
  · have h := hall p (List.mem_range.2 hp)
    simp only [decide_eq_true_eq] at h
    rcases hd with hd | ⟨k, hk, hd⟩
    · exact hd h.1
    · have h2 := h.2
      rw [List.all_eq_true] at h2
      exact hd (by simpa using h2 k (List.mem_range.2 hk))

/-- … and returns exactly the stored values when nothing of the field is damaged (damage to other
    fields is irrelevant: their files are not part of `f`) -/
theorem C18_values_undamaged (s : Store α) (f : Files) (h : f.allOk s) : valuesF s f = some s.all := by
  unfold valuesF
  rw [if_pos]
  refine ⟨h.1, ?_⟩
  rw [List.all_eq_true]
  intro p hp
  have hp' := List.mem_range.1 hp
  simp only [decide_eq_true_eq]
  refine ⟨(h.2 p hp').1, ?_⟩
  rw [List.all_eq_true]
  intro k hk
  simpa using (h.2 p hp').2 k (List.mem_range.1 hk)

/-- a range read opens every chunk holding a record of the range: if such a chunk (or its
    partition's index) is damaged, the read fails -/
theorem C18_range_detects (s : Store α) (wf : s.WF) (f : Files) (a b : Nat) (hab : a < b) (hb : b ≤ s.all.length)
    (p k : Nat) (hp : p < s.length) (hk : k < ((s[p]?.map (·.chunks.length)).getD 0))
    (hov : firstId s p k < b ∧ a < firstId s p (k + 1))          -- chunk (p,k) holds a record of [a, b)
    (hd : f.chunk p k ≠ .ok ∨ f.index p ≠ .ok) :
    iterValuesF s f a b = none := by
  exact iterValuesF_none_of_chunk s f a b p k (overlap_mem_chunksRead s wf a b hab hb p k hp hk hov) hd

/-- a successful range read returns the right values -/
theorem C18_range_sound (s : Store α) (wf : s.WF) (f : Files) (a b : Nat) (hab : a < b) (hb : b ≤ s.all.length)
    (vs : List α) (h : iterValuesF s f a b = some vs) : vs = (s.all.drop a).take (b - a) := by
  unfold iterValuesF at h
  split at h
  · cases h
    exact C08_iterValues s wf a b hab hb
  · cases h

/-- **C18 (encode)**: encoding reads every range of an exact cover of the records, hence opens every
    chunk: any damaged chunk, chunk index or metadata makes the encode fail -/
theorem C18_encode_detects (s : Store α) (wf : s.WF) (f : Files) (c nparts : Nat) (hc : 0 < c) (hn : 0 < nparts)
    (hne : s.all ≠ [])
    (hd : f.mdata ≠ .ok ∨ ∃ p, p < s.length ∧ (f.index p ≠ .ok ∨ ∃ k, k < ((s[p]?.map (·.chunks.length)).getD 0) ∧ f.chunk p k ≠ .ok)) :
    encodeF s f (B2Z.genPartitions s.all.length c nparts none) = none := by
  have hn0 : 0 < s.all.length := List.length_pos_iff.2 hne
  have hcov := encode_cover s.all.length c nparts hn0 hc hn
  unfold encodeF
  apply mapM_option_none
  -- a record id `r` of a chunk `(p, k)` which is damaged or whose index is damaged
  have key : ∀ p k, p < s.length → k < ((s[p]?.map (·.chunks.length)).getD 0) →
      (f.chunk p k ≠ .ok ∨ f.index p ≠ .ok) →
      ∃ x ∈ B2Z.genPartitions s.all.length c nparts none, iterValuesF s f x.1 x.2 = none := by
    intro p k hp hk hd'
    have h1 := firstId_lt_succ s wf p k hp hk
    have h2 := firstId_le_total s p (k + 1) hp
    obtain ⟨i, hi, hlo, hhi⟩ := (C11_cover hcov (firstId s p k)).1 (by omega)
    have hmem := List.getElem_mem hi
    have hr := ExactCover_range hcov _ hmem
    exact ⟨_, hmem, C18_range_detects s wf f _ _ hr.1 hr.2 p k hp hk ⟨hhi, by omega⟩ hd'⟩
  rcases hd with hd | ⟨p, hp, hd | ⟨k, hk, hd⟩⟩
  · obtain ⟨x, hx⟩ := List.exists_mem_of_ne_nil _ hcov.nonempty_list
    exact ⟨x, hx, iterValuesF_none_of_mdata s f _ _ hd⟩
  · exact key p 0 hp (nChunks_pos s wf p hp) (Or.inr hd)
  · exact key p k hp hk (Or.inl hd)

/-- and with nothing damaged the encode reads exactly the slices -/
theorem C18_encode_undamaged (s : Store α) (wf : s.WF) (f : Files) (h : f.allOk s) (c nparts : Nat) (hc : 0 < c) (hn : 0 < nparts)
    (hne : s.all ≠ []) :
    encodeF s f (B2Z.genPartitions s.all.length c nparts none) =
      some ((B2Z.genPartitions s.all.length c nparts none).map fun ab => (s.all.drop ab.1).take (ab.2 - ab.1)) := by
  have hn0 : 0 < s.all.length := List.length_pos_iff.2 hne
  have hcov := encode_cover s.all.length c nparts hn0 hc hn
  unfold encodeF
  apply mapM_option_some
  intro ab hm
  have hr := ExactCover_range hcov ab hm
  rw [iterValuesF_allOk s f h, C08_iterValues s wf ab.1 ab.2 hr.1 hr.2]

example : chunksRead (writeStore 10 [[(1, 4), (2, 4), (3, 4), (4, 4)], [(5, 20), (6, 1)]]) 2 4 = [(0, 0), (0, 1), (1, 0)] := by decide

end B2Z.Dmg

/-! ## chunk files at the byte level (repair of F12)

For chunk files the hypothesis `CodecRejectsPrefix` is no longer needed: `read_chunk` compares the
size of the file with the size its Blosc header declares, so every strict prefix of a chunk file is
refused **whatever the decompressor would have done with it** (the codec is an arbitrary function of
the buffer and of the memory behind it).  The hypothesis remains for `chunk_index` (pickle) and
`metadata.json` (JSON). -/
namespace B2Z.ChunkFile

/-- **C18 (chunk files)**: every strict prefix of a chunk file the writer produced is refused, for
    every decompressor and every content of the memory behind the buffer -/
theorem C18_chunk_prefix_rejected (c : Codec α) (mem file : List Nat) (k : Nat)
    (hw : WellFramed file) (hk : k < file.length) : readChunk c mem (file.take k) = none := by
  unfold readChunk
  rw [if_pos]
  by_cases h16 : k < 16
  · left; simp only [List.length_take]; omega
  · right
    rw [declared_take file k (by omega), hw.2, List.length_take]
    omega

/-- the intact file is handed to the decompressor unchanged -/
theorem C18_chunk_intact (c : Codec α) (mem file : List Nat) (hw : WellFramed file) :
    readChunk c mem file = c file mem := by
  unfold readChunk
  rw [if_neg]
  rintro (h | h)
  · exact absurd hw.1 (by omega)
  · exact h hw.2

/-- whatever `read_chunk` accepts is a complete frame -/
theorem C18_chunk_accepts_only_whole_frames (c : Codec α) (mem buff : List Nat) (v : α)
    (h : readChunk c mem buff = some v) : WellFramed buff := by
  unfold readChunk at h
  split at h
  · cases h
  · rename_i hn
    exact ⟨by omega, by omega⟩

/-- the writer's frames are well framed, and the stored-mode decompressor returns their payload
    (so the hypotheses above are met by real frames) -/
theorem storedFrame_wellFramed (payload : List Nat) (h : 16 + payload.length < 256 ^ 4) :
    WellFramed (storedFrame payload) := by
  have hl : (storedFrame payload).length = 16 + payload.length := by
    simp [storedFrame, leBytes_length]; omega
  refine ⟨by omega, ?_⟩
  rw [hl]
  unfold declared storedFrame
  have : ((List.replicate 12 0 ++ leBytes 4 (16 + payload.length) ++ payload).drop 12).take 4 = leBytes 4 (16 + payload.length) := by
    rw [List.append_assoc, List.drop_append_of_le_length (by simp)]
    simp [List.take_append_of_le_length, leBytes_length]
  rw [this, leVal_leBytes 4 _ h]

/-- **bridging lemma**: the guard of the real `read_chunk`, regenerated from the source on every run
    (`Gen.chunkRefuses`), is the guard of the model; it reads the size field little-endian, sits in front
    of the only `decode` call, and that call receives the buffer that was checked -/
theorem C18_gen_read_chunk_guard (c : Codec α) (mem buff : List Nat) :
    readChunk c mem buff =
      (if Gen.chunkRefuses buff.length (fun a b => leVal ((buff.drop a).take (b - a))) then none else c buff mem) ∧
    Gen.chunkGuardByteorder = "little" ∧ Gen.chunkDecodeCalls = ["self.compressor.decode(buff)"] ∧
    Gen.chunkGuardOnlyFor = "isinstance(self.compressor, numcodecs.Blosc)" := by
  refine ⟨?_, by decide, by decide, by decide⟩
  unfold readChunk Gen.chunkRefuses declared
  by_cases h1 : buff.length < 16 <;> by_cases h2 : leVal ((buff.drop 12).take 4) = buff.length <;> simp [h1, h2]

/-- **F12**: without the size check a truncated stored-mode chunk is completed from whatever lies
    behind the buffer — here the tail of a chunk of the same size read just before — and silently
    yields different values -/
theorem C18_unrepaired_overread_counterexample :
    let q := [1, 2, 9, 9]
    let mem := [3, 4]                               -- left behind by the frame of `[1, 2, 3, 4]`
    readChunkUnrepaired storedDecode mem ((storedFrame q).take 18) = some [1, 2, 3, 4] ∧
    readChunk storedDecode mem ((storedFrame q).take 18) = none ∧
    readChunk storedDecode mem (storedFrame q) = some q := by decide

end B2Z.ChunkFile
