import B2Z.Model.EncodeProto
/-! # C06 — distributed encode is crash-safe: never falsely finished, reruns recover

Model: `B2Z.EP` (`Model/EncodeProto.lean`).  Histories follow the protocol order (`legal`: no
partition command after a finalise command has been issued) but are otherwise arbitrary: any
number of commands, reruns and kills at any point.
-/
namespace B2Z.EP
open B2Z.Fs

/-- last touch of `x` in a touch sequence leaves value `v` -/
def LastTouch {α : Type} (seq : List (α × V)) (x : α) (v : V) : Prop :=
  ∃ pre post, seq = pre ++ [(x, v)] ++ post ∧ ∀ q ∈ post, q.1 ≠ x

structure Cfg.WF (c : Cfg) : Prop where
  arrays_pos : 0 < c.nArrays
  /-- chunk entries of different partitions are disjoint (C11) -/
  disjoint : ∀ a j j' e, j ≠ j' → e ∈ c.ents j a → e ∉ c.ents j' a
  /-- init creates every template, whole -/
  init_tmpl : ∀ a, a < c.nArrays → LastTouch c.initSeq (IRef.tmpl a) .ok
  /-- a partition task touches only its own private objects … -/
  wseq_private : ∀ j, ∀ p ∈ c.wseq j, p.1 ∈ allRefs c j
  /-- … and a complete run leaves every one of them whole -/
  wseq_complete : ∀ j, j < c.nParts → ∀ r ∈ allRefs c j, LastTouch (c.wseq j) r .ok
  /-- deleting a stale partition only touches its objects and never makes one whole -/
  rmStale_ok : ∀ j, ∀ p ∈ c.rmStale j, p.2 ≠ .ok
  /-- every entry a partition owns is listed when its directory is scanned -/
  mv_all : ∀ j a, ∀ e ∈ c.ents j a, e ∈ c.mvOrder j a
  /-- `rmtree(wip)` touches nothing outside `wip/` and never creates anything -/
  rmWip_side : ∀ p ∈ c.rmWip, p.1.wipSide = true ∧ p.2 ≠ .ok
  /-- `rmtree(wip)` removes the plan -/
  rmWip_plan : LastTouch c.rmWip Obj.plan .absent

/-- **never falsely finished**: after any legal history, if the store carries consolidated
    metadata then every array is at its final place with every chunk of every partition -/
theorem C06_never_falsely_finished (c : Cfg) (wf : c.WF) (h : List (Cmd × Option Nat)) (hl : legal h = true) :
    finished (runHist c Fs.empty h) = true → StoreComplete c (runHist c Fs.empty h) := by
  sorry

/-- **finalise refuses** while any partition is unencoded, and changes nothing -/
theorem C06_finalise_refuses_unencoded (c : Cfg) (s : S) (kill : Option Nat)
    (h : ∃ j, j < c.nParts ∧ s (.pdir j) = .absent) :
    (step c s .finalise kill).error = true ∧ (step c s .finalise kill).st = s := by
  sorry

def noFinalise (h : List (Cmd × Option Nat)) : Bool := h.all fun x => x.1 ≠ Cmd.finalise

/-- **partition rerun restores**: whatever earlier (killed) attempts left behind, a complete run
    of partition `j` puts a whole `p<j>` in place -/
theorem C06_partition_rerun_restores (c : Cfg) (wf : c.WF) (h : List (Cmd × Option Nat)) (hn : noFinalise h = true)
    (hplan : runHist c Fs.empty h .plan = .ok) (j : Nat) (hj : j < c.nParts) :
    let o := step c (runHist c Fs.empty h) (.partition j) none
    o.error = false ∧ o.st (.pdir j) = .ok ∧ ∀ r ∈ allRefs c j, o.st (r.p j) = .ok := by
  sorry

/-- **recovery**: after any history of init / partition commands (any kills), encoding every
    partition — in any order, any number of times — and finalising gives a finished, complete store -/
theorem C06_recovery (c : Cfg) (wf : c.WF) (h : List (Cmd × Option Nat)) (hn : noFinalise h = true)
    (hplan : runHist c Fs.empty h .plan = .ok)
    (order : List Nat) (hall : ∀ j, j < c.nParts → j ∈ order) (hrange : ∀ j ∈ order, j < c.nParts) :
    let s := runHist c (runHist c Fs.empty h) (order.map (fun j => (Cmd.partition j, none)) ++ [(Cmd.finalise, none)])
    finished s = true ∧ StoreComplete c s ∧ s .plan = .absent := by
  sorry

/-- **finalise rerun**: re-running an interrupted finalise either fails with an error or ends with
    a finished and complete store — never a third outcome -/
theorem C06_finalise_rerun_completes_or_errors (c : Cfg) (wf : c.WF) (h : List (Cmd × Option Nat)) (hl : legal h = true) :
    let o := step c (runHist c Fs.empty h) .finalise none
    o.error = true ∨ (finished o.st = true ∧ StoreComplete c o.st) := by
  sorry

/-- finding F4 (fixed): with the old in-place delete, a partition rerun killed inside
    `rmtree(p<j>)` leaves a partial `p<j>` that finalise accepts — a finished store with a hole.
    The repaired swap refuses to finalise in the same history. -/
theorem C06_unrepaired_swap_counterexample :
    let c : Cfg := { nParts := 1, nArrays := 1, ents := fun _ _ => [0], initSeq := [(.tmpl 0, .ok)],
                     wseq := fun _ => [(.hdr 0, .ok), (.ent 0 0, .ok)], rmStale := fun _ => [(.ent 0 0, .absent), (.hdr 0, .absent)],
                     mvOrder := fun _ _ => [0], rmWip := [(.plan, .absent)], ridxSeq := [] }
    let s1 := runHist c Fs.empty [(.init, none), (.partition 0, none)]
    -- rerun of partition 0 with the unrepaired swap, killed after 4 mutations: inside the delete of p0
    let s2 := (exec s1 (partitionProgUnrepaired c s1 0) (some 4)).st
    let s3 := (step c s2 .finalise none).st
    finished s3 = true ∧ s3 (.fent 0 0) = .absent ∧
    -- the repaired swap at every kill point: finalise afterwards either refuses or the store is complete
    (List.range 9).all (fun k =>
      let t := (step c s1 (.partition 0) (some k)).st
      let o := step c t .finalise none
      o.error || o.st (.fent 0 0) == .ok) = true := by
  decide

end B2Z.EP
