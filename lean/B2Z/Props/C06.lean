import B2Z.Model.EncodeProto
import B2Z.Proofs.Fs
import B2Z.Proofs.EncodeProto
/-! # C06 — distributed encode is crash-safe: never falsely finished, reruns recover

Model: `B2Z.EP` (`Model/EncodeProto.lean`).  Histories follow the protocol order (`legal`: no
partition command after a finalise command has been issued) but are otherwise arbitrary: any
number of commands, reruns and kills at any point.
-/
namespace B2Z.EP
open B2Z.Fs

/-- last touch of `x` in a touch sequence leaves value `v` -/
def LastTouch {α : Type} (seq : List (α × V)) (x : α) (v : V) : Prop :=
  ∃ pre post, seq = pre ++ [(x, v)] ++ post ∧ ∀ q ∈ post, q.1 ≠ x

structure Cfg.WF (c : Cfg) : Prop where
  arrays_pos : 0 < c.nArrays
  /-- chunk entries of different partitions are disjoint (C11) -/
  disjoint : ∀ a j j' e, j ≠ j' → e ∈ c.ents j a → e ∉ c.ents j' a
  /-- init creates every template, whole -/
  init_tmpl : ∀ a, a < c.nArrays → LastTouch c.initSeq (IRef.tmpl a) .ok
  /-- a partition task touches only its own private objects … -/
  wseq_private : ∀ j, ∀ p ∈ c.wseq j, p.1 ∈ allRefs c j
  /-- … and a complete run leaves every one of them whole -/
  wseq_complete : ∀ j, j < c.nParts → ∀ r ∈ allRefs c j, LastTouch (c.wseq j) r .ok
  /-- deleting a stale partition only touches its objects and never makes one whole -/
  rmStale_ok : ∀ j, ∀ p ∈ c.rmStale j, p.2 ≠ .ok
  /-- deleting a left-over work directory only touches the partition's own objects, never makes one whole -/
  rmWork_ok : ∀ j, ∀ p ∈ c.rmWork j, p.1 ∈ allRefs c j ∧ p.2 ≠ .ok
  /-- every entry a partition owns is listed when its directory is scanned -/
  mv_all : ∀ j a, ∀ e ∈ c.ents j a, e ∈ c.mvOrder j a
  /-- … and no entry is listed twice (a directory listing has no duplicates): a second
      `os.rename` of the same entry would replace the moved entry by nothing -/
  mv_nodup : ∀ j a, (c.mvOrder j a).Nodup
  /-- `rmtree(wip)` touches nothing outside `wip/` and never creates anything -/
  rmWip_side : ∀ p ∈ c.rmWip, p.1.wipSide = true ∧ p.2 ≠ .ok
  /-- `rmtree(wip)` removes the plan -/
  rmWip_plan : LastTouch c.rmWip Obj.plan .absent

/-- **never falsely finished**: after any legal history, if the store carries consolidated
    metadata then every array is at its final place with every chunk of every partition -/
theorem C06_never_falsely_finished (c : Cfg) (wf : c.WF) (h : List (Cmd × Option Nat)) (hl : legal h = true) :
    finished (runHist c Fs.empty h) = true → StoreComplete c (runHist c Fs.empty h) := by
  intro hf
  have w : WFH c := ⟨wf.arrays_pos, wf.init_tmpl, wf.wseq_private, wf.wseq_complete, wf.mv_all,
    wf.mv_nodup, fun p hp => (wf.rmWip_side p hp).1, wf.rmWip_plan⟩
  exact (InvB_reachable w h hl).1.complete (by simpa [finished] using hf)

/-- **finalise refuses** while any partition is unencoded, and changes nothing -/
theorem C06_finalise_refuses_unencoded (c : Cfg) (s : S) (kill : Option Nat)
    (h : ∃ j, j < c.nParts ∧ s (.pdir j) = .absent) :
    (step c s .finalise kill).error = true ∧ (step c s .finalise kill).st = s := by
  obtain ⟨j, hj, hs⟩ := h
  show (exec s (finaliseProg c s) kill).error = true ∧ (exec s (finaliseProg c s) kill).st = s
  rw [finaliseProg_eq]
  by_cases hp : s .plan = .ok
  · rw [exec_check_pass _ _ _ _ (by simpa using hp)]
    apply exec_check_fail
    rw [Bool.eq_false_iff]
    intro hall
    have := List.all_eq_true.1 hall j (List.mem_range.2 hj)
    simp [hs] at this
  · exact exec_check_fail _ _ _ _ (by simpa using hp)

def noFinalise (h : List (Cmd × Option Nat)) : Bool := h.all fun x => x.1 ≠ Cmd.finalise

/-- **partition rerun restores**: whatever earlier (killed) attempts left behind, a complete run
    of partition `j` puts a whole `p<j>` in place -/
theorem C06_partition_rerun_restores (c : Cfg) (wf : c.WF) (h : List (Cmd × Option Nat)) (hn : noFinalise h = true)
    (hplan : runHist c Fs.empty h .plan = .ok) (j : Nat) (hj : j < c.nParts) :
    let o := step c (runHist c Fs.empty h) (.partition j) none
    o.error = false ∧ o.st (.pdir j) = .ok ∧ ∀ r ∈ allRefs c j, o.st (r.p j) = .ok := by
  have w : WFH c := ⟨wf.arrays_pos, wf.init_tmpl, wf.wseq_private, wf.wseq_complete, wf.mv_all,
    wf.mv_nodup, fun p hp => (wf.rmWip_side p hp).1, wf.rmWip_plan⟩
  have hA : InvA c (runHist c Fs.empty h) :=
    InvA_runHist w h (by simpa [noFinalise] using hn) _ (InvA_empty c)
  obtain ⟨h1, _, _, h2, h3, _⟩ := partition_complete w hA hplan hj
  exact ⟨h1, h2, h3⟩

/-- **recovery**: after any history of init / partition commands (any kills), encoding every
    partition — in any order, any number of times — and finalising gives a finished, complete store -/
theorem C06_recovery (c : Cfg) (wf : c.WF) (h : List (Cmd × Option Nat)) (hn : noFinalise h = true)
    (hplan : runHist c Fs.empty h .plan = .ok)
    (order : List Nat) (hall : ∀ j, j < c.nParts → j ∈ order) (hrange : ∀ j ∈ order, j < c.nParts) :
    let s := runHist c (runHist c Fs.empty h) (order.map (fun j => (Cmd.partition j, none)) ++ [(Cmd.finalise, none)])
    finished s = true ∧ StoreComplete c s ∧ s .plan = .absent := by
  have w : WFH c := ⟨wf.arrays_pos, wf.init_tmpl, wf.wseq_private, wf.wseq_complete, wf.mv_all,
    wf.mv_nodup, fun p hp => (wf.rmWip_side p hp).1, wf.rmWip_plan⟩
  have hA : InvA c (runHist c Fs.empty h) :=
    InvA_runHist w h (by simpa [noFinalise] using hn) _ (InvA_empty c)
  exact rerun_complete w order _ hA hplan hrange (fun j hj => Or.inl (hall j hj))

/-- **finalise rerun**: re-running an interrupted finalise either fails with an error or ends with
    a finished and complete store — never a third outcome -/
theorem C06_finalise_rerun_completes_or_errors (c : Cfg) (wf : c.WF) (h : List (Cmd × Option Nat)) (hl : legal h = true) :
    let o := step c (runHist c Fs.empty h) .finalise none
    o.error = true ∨ (finished o.st = true ∧ StoreComplete c o.st) := by
  have w : WFH c := ⟨wf.arrays_pos, wf.init_tmpl, wf.wseq_private, wf.wseq_complete, wf.mv_all,
    wf.mv_nodup, fun p hp => (wf.rmWip_side p hp).1, wf.rmWip_plan⟩
  obtain ⟨_, h2⟩ := finalise_complete w (InvB_reachable w h hl)
  intro o
  cases he : o.error with
  | true => exact Or.inl rfl
  | false => exact Or.inr ⟨(h2 he).1, (h2 he).2.1⟩

/-- finding F4 (fixed): with the old in-place delete, a partition rerun killed inside
    `rmtree(p<j>)` leaves a partial `p<j>` that finalise accepts — a finished store with a hole.
    The repaired swap refuses to finalise in the same history. -/
theorem C06_unrepaired_swap_counterexample :
    let c : Cfg := { nParts := 1, nArrays := 1, ents := fun _ _ => [0], initSeq := [(.tmpl 0, .ok)],
                     wseq := fun _ => [(.hdr 0, .ok), (.ent 0 0, .ok)], rmWork := fun _ => [(.ent 0 0, .absent), (.hdr 0, .absent)], rmStale := fun _ => [(.ent 0 0, .absent), (.hdr 0, .absent)],
                     mvOrder := fun _ _ => [0], rmWip := [(.plan, .absent)], ridxSeq := [] }
    let s1 := runHist c Fs.empty [(.init, none), (.partition 0, none)]
    -- rerun of partition 0 with the unrepaired swap, killed after 4 mutations: inside the delete of p0
    let s2 := (exec s1 (partitionProgUnrepaired c s1 0) (some 4)).st
    let s3 := (step c s2 .finalise none).st
    finished s3 = true ∧ s3 (.fent 0 0) = .absent ∧
    -- the repaired swap at every kill point: finalise afterwards either refuses or the store is complete
    (List.range 9).all (fun k =>
      let t := (step c s1 (.partition 0) (some k)).st
      let o := step c t .finalise none
      o.error || o.st (.fent 0 0) == .ok) = true := by
  decide

end B2Z.EP
