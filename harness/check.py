"""Entry point:  check.py Cxx [--tier quick|thorough] [--replay file]

exit 0  property held on everything explored (KNOWN-FINDING lines allowed)
exit 1  VIOLATION property=<id> replay=<path> [... no-failing-input-found]
exit 2  infrastructure problem / timeout
"""
import argparse
import importlib
import json
import os
import sys
import time
import traceback

sys.path.insert(0, os.path.dirname(os.path.abspath(__file__)))
import common  # noqa: E402
from common import Ctx, Infra  # noqa: E402


def main():
    ap = argparse.ArgumentParser()
    ap.add_argument("prop")
    ap.add_argument("--tier", default=os.environ.get("VERIF_TIER", "quick"))
    ap.add_argument("--replay", default=None)
    ap.add_argument("--no-lean", action="store_true", help="debug: skip the Lean build/audit")
    args = ap.parse_args()
    tier = args.tier if args.tier in ("quick", "thorough") else "quick"
    try:
        seed = int(os.environ.get("VERIF_SEED", "0"))
    except ValueError:
        seed = 0
    prop = args.prop.upper()
    ctx = Ctx(prop, tier, seed)
    try:
        mod = importlib.import_module(f"props.{prop.lower()}")
    except ModuleNotFoundError as e:
        print(f"no check for {prop}: {e}")
        return 2
    ctx.assumptions = list(getattr(mod, "ASSUMPTIONS", []))
    ctx.notes["rule"] = getattr(mod, "RULE", "")
    ctx.obligations = list(mod.THEOREMS)
    checker_cmd = (
        f"cd lean && lake build {' '.join(mod.LEAN_MODULES)} && lake env lean <#print axioms of {len(mod.THEOREMS)} theorems>"
        + (" && lake env leanchecker " + " ".join(mod.LEAN_MODULES) if tier == "thorough" else "")
    )

    # ---- 1. regenerate Gen/*.lean from the current source, 2. build + audit
    driver_ok = True
    if not args.no_lean:
        import extract
        with common.lean_lock():
            try:
                report = extract.generate(common.REPO, common.LEAN / "B2Z" / "Gen")
            except Exception as e:  # extractor cannot read the source at all
                report = {"unsupported": [f"extractor failed: {e!r}"]}
            ctx.notes["extract"] = report
            for u in report.get("unsupported", []):
                if any(u.startswith(g) or u.startswith(g.rstrip(".") + ": generator failed") for g in getattr(mod, "GEN_DEPENDS", [])) \
                        or u.startswith("extractor failed"):
                    ctx.broken.append(f"extract: {u}")
            ok, log = common.lake_build(["b2zdriver"])
            if not ok:
                driver_ok = False
                ctx.broken.append("build b2zdriver (model no longer compiles): " + log[-1500:])
            ok, log = common.lake_build(mod.LEAN_MODULES)
            if not ok:
                errs = [l for l in log.splitlines() if l.startswith("error:")][:6]
                ctx.broken.append(f"lake build {' '.join(mod.LEAN_MODULES)} failed: " + " | ".join(errs))
            else:
                axioms, missing, out = common.audit_axioms(mod.THEOREMS, mod.LEAN_MODULES)
                ctx.notes["axioms"] = axioms
                for t in mod.THEOREMS:
                    if t not in axioms:
                        ctx.broken.append(f"theorem {t} not found in build")
                    elif not set(axioms[t]) <= common.ALLOWED_AXIOMS:
                        ctx.broken.append(f"theorem {t} uses axioms {axioms[t]}")
                    else:
                        ctx.discharged.append(t)
                bad = common.forbidden_words(mod.LEAN_MODULES)
                if bad:
                    ctx.broken.append("forbidden words in Lean sources: " + "; ".join(bad[:5]))
                    ctx.discharged = []
                if tier == "thorough" and not ctx.broken:
                    rc, out = common.run(["lake", "env", "leanchecker", *mod.LEAN_MODULES], cwd=common.LEAN, timeout=3000)
                    ctx.notes["leanchecker"] = "ok" if rc == 0 else out[-500:]
                    if rc != 0:
                        ctx.broken.append("leanchecker rejected the compiled modules: " + out[-300:])
    ctx.driver_ok = driver_ok and common.DRIVER_BIN.exists()
    ctx.search_mode = bool(ctx.broken)

    # ---- 3. correspondence + direct oracle on the real code
    try:
        if args.replay:
            payload = json.loads(open(os.path.join(common.ROOT, args.replay) if not os.path.isabs(args.replay) else args.replay).read())
            mod.replay(ctx, payload)
        else:
            mod.run(ctx)
    finally:
        if ctx._driver is not None:
            ctx._driver.close()

    # ---- 4. verdict
    known = common.load_known()
    classify = getattr(mod, "classify", lambda v: None)
    fresh = []
    seen_known = {}
    for v in ctx.violations:
        kid = classify(v)
        entry = next((k for k in known["known"] if k["property"] == prop and k["id"] == kid), None) if kid else None
        if entry is not None:
            seen_known.setdefault(kid, entry)
            ctx.known_hits.append((kid, v["what"]))
        else:
            fresh.append(v)
    for kid, entry in seen_known.items():
        print(f"KNOWN-FINDING: property={prop} {entry['id']}: {entry['what']}")
    rc = 0
    if fresh:
        rp = common.write_replay(ctx, "failing-input", {"violation": fresh[0], "others": fresh[1:5],
                                                        "broken_obligations": ctx.broken})
        print(f"VIOLATION property={prop} replay={rp}")
        print("  " + str(fresh[0]["what"])[:300])
        rc = 1
    elif ctx.broken or ctx.disagreements:
        rp = common.write_replay(ctx, "obligation-or-correspondence-broken", {
            "broken_obligations": ctx.broken,
            "disagreements": ctx.disagreements[:5],
            "searched": {"evaluations": ctx.evaluations, "counters": ctx.counters},
        })
        print(f"VIOLATION property={prop} replay={rp} no-failing-input-found")
        for b in ctx.broken[:3]:
            print("  broken: " + b[:300])
        for d in ctx.disagreements[:3]:
            print("  disagreement: " + str(d["what"])[:300])
        rc = 1
    if args.no_lean:
        print("(debug run without the Lean build: evidence file not written)")
    else:
        common.write_evidence(ctx, "proof", checker_cmd, getattr(mod, "extra_coverage", lambda c: None)(ctx),
                          violations=len(fresh) + (1 if rc and not fresh else 0))
    print(f"{prop} {tier} seed={seed}: obligations {len(ctx.discharged)}/{len(ctx.obligations)} "
          f"evaluations={ctx.evaluations} distinct={len(ctx.nontrivial)} disagreements={len(ctx.disagreements)} "
          f"violations={len(fresh)} known={len(seen_known)} wall={time.time() - ctx.t0:.1f}s")
    return rc


if __name__ == "__main__":
    try:
        import faulthandler
        import signal
        faulthandler.register(signal.SIGUSR1, all_threads=True)      # `kill -USR1 <pid>` shows where a wedged check is
    except Exception:  # noqa: BLE001
        pass
    try:
        sys.exit(main())
    except Infra as e:
        print(f"INFRA: {e}")
        sys.exit(2)
    except Exception:
        traceback.print_exc()
        sys.exit(2)
