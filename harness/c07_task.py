"""one partition task as its own OS process (C07 concurrent runs)"""
import sys


def main():
    what, path, j = sys.argv[1], sys.argv[2], int(sys.argv[3])
    from bio2zarr import vcf2zarr
    if what == "explode":
        vcf2zarr.explode_partition(path, j)
    elif what == "encode":
        vcf2zarr.encode_partition(path, j)
    elif what == "plink":
        from bio2zarr import plink
        plink.encode_genotypes_slice(sys.argv[4], path, j, int(sys.argv[5]))


if __name__ == "__main__":
    main()
