"""Direct oracle for C01 & friends: the VCF Zarr arrays a spec (vcfgen) must convert to, computed
from the abstract records only — no parsing, no bio2zarr code, no Lean.

Arrays are returned as {name: {"dtype": str, "shape": [...], "data": nested lists, "dims": [...]}}.
Floats are given as uint32 bit patterns.  `None` inside data = don't-care (convention not fixed by
the property).
"""
import struct

INT_MISSING, INT_FILL = -1, -2
F_MISSING, F_FILL = 0x7F800001, 0x7F800002
MIN_INT_VALUE = -(2**31) + 2


def f32_bits(text):
    return struct.unpack("<I", struct.pack("<f", float(text)))[0]


def min_int_dtype(lo, hi):
    for dt, b in (("i1", 7), ("i2", 15), ("i4", 31), ("i8", 63)):
        if -(1 << b) <= lo and hi <= (1 << b) - 1:
            return dt
    raise OverflowError


def int_dtype(values):
    vals = [v for v in values if v is not None and v >= MIN_INT_VALUE]
    return min_int_dtype(min(vals), max(vals)) if vals else "i1"


def rlen_of(rec):
    end = (rec.get("info") or {}).get("END")
    if end:
        return end[0] - rec["pos"] + 1
    return len(rec["ref"])


def sorted_records(spec):
    return sorted(spec["records"], key=lambda r: r["contig"])      # stable: file order inside a contig


def filters_of(spec):
    fl = [f[0] for f in spec["filters"]]
    if "PASS" in fl:
        fl.remove("PASS")
        fl.insert(0, "PASS")
    return fl


def pad(row, w, fill):
    return list(row) + [fill] * (w - len(row))


def info_array(spec, recs, f):
    typ, key = f["type"], f["id"]
    vals = [(r.get("info") or {}).get(key) for r in recs]
    if typ == "Flag":
        return {"dtype": "bool", "shape": [len(recs)], "dims": ["variants"], "data": [v is True for v in vals]}
    w = max([len(v) for v in vals if v is not None] + [0])
    two_d = w > 1
    if typ == "Integer":
        conv = lambda x: INT_MISSING if x is None else x  # noqa: E731
        miss, fill = INT_MISSING, INT_FILL
        # bounds are taken over the transformed tuple, where a '.' entry already is -1
        dtype = int_dtype([conv(x) for v in vals if v is not None for x in v])
    elif typ == "Float":
        conv = lambda x: F_MISSING if x is None else f32_bits(x)  # noqa: E731
        miss, fill, dtype = F_MISSING, F_FILL, "f4"
    else:
        conv = lambda x: x  # noqa: E731
        miss, fill, dtype = ".", "", ("U1" if typ == "Character" else "O")
    data = []
    for v in vals:
        if v is None and typ in ("String", "Character") and key in (recs[len(data)].get("info") or {}):
            # KEY=. of a string field is kept as the one-element value "." (then fill), not an all-missing row
            data.append(pad(["."], w, fill) if two_d else ".")
        elif v is None:
            data.append([miss] * w if two_d else miss)
        else:
            row = [conv(x) for x in v]
            if typ == "Float":
                # documented exception: a NaN entry of an INFO float becomes the missing sentinel
                row = [F_MISSING if (b & 0x7F800000) == 0x7F800000 and (b & 0x007FFFFF) else b for b in row]
            data.append(pad(row, w, fill) if two_d else row[0])
    dims = ["variants"]
    if two_d:
        dims.append({"R": "alleles", "A": "alt_alleles", "G": "genotypes"}.get(f["number"], f"INFO_{key}_dim"))
    return {"dtype": dtype, "shape": [len(recs)] + ([w] if two_d else []), "dims": dims, "data": data}


def format_array(spec, recs, f):
    typ, key = f["type"], f["id"]
    ns = len(spec["samples"])
    per = []
    for r in recs:
        if key not in (r.get("format") or []):
            per.append(None)
        else:
            per.append([s.get(key) for s in r["samples"]])
    # a record where every sample is '.' is indistinguishable from one value of length 1
    w = max([len(v) for p in per if p is not None for v in p if v is not None] + [1 if any(p is not None for p in per) else 0])
    three_d = w > 1
    if typ == "Integer":
        conv = lambda x: INT_MISSING if x is None else x  # noqa: E731
        miss, fill = INT_MISSING, INT_FILL
        dtype = int_dtype([x for p in per if p is not None for v in p if v is not None for x in v])
    elif typ == "Float":
        conv = lambda x: F_MISSING if x is None else f32_bits(x)  # noqa: E731
        miss, fill, dtype = F_MISSING, F_FILL, "f4"
    else:
        conv = lambda x: x  # noqa: E731
        miss, fill, dtype = ".", "", ("U1" if typ == "Character" else "O")
    data = []
    for p in per:
        if p is None:
            data.append([[miss] * w if three_d else miss for _ in range(ns)])
            continue
        rows = []
        for v in p:
            if v is None:
                row = [miss] + [fill] * (w - 1)
            else:
                row = pad([conv(x) for x in v], w, fill)
            rows.append(row if three_d else row[0])
        data.append(rows)
    dims = ["variants", "samples"]
    if three_d:
        dims.append({"R": "alleles", "A": "alt_alleles", "G": "genotypes"}.get(f["number"], f"FORMAT_{key}_dim"))
    return {"dtype": dtype, "shape": [len(recs), ns] + ([w] if three_d else []), "dims": dims, "data": data}


def genotype_arrays(spec, recs):
    ns = len(spec["samples"])
    rows = []
    for r in recs:
        if "GT" not in (r.get("format") or []):
            rows.append(None)
        else:
            rows.append([(s["_alleles"], s.get("_seps", [])) for s in r["samples"]])
    rec_ploidy = [max(len(a) for a, _ in row) if row else 0 for row in rows]
    ploidy = max([1] + rec_ploidy)
    gt, mask, phased = [], [], []
    for row, rp in zip(rows, rec_ploidy):
        if row is None:
            gt.append([[INT_MISSING] * ploidy for _ in range(ns)])
            mask.append([[True] * ploidy for _ in range(ns)])
            phased.append([None] * ns)         # no genotype: phasing is a don't-care
            continue
        g, m, p = [], [], []
        for alleles, seps in row:
            a = pad([INT_MISSING if x is None else x for x in alleles], ploidy, INT_FILL)
            g.append(a)
            m.append([x < 0 for x in a])
            if rp == 1:
                p.append(False)                # haploid record: unphased (after the F9 repair)
            elif len(alleles) == 1:
                p.append(None)                 # haploid call inside a polyploid row: cyvcf2 convention, don't-care
            else:
                p.append(seps[0] == "|" if len(alleles) == 2 else None)
        gt.append(g)
        mask.append(m)
        phased.append(p)
    flat = [x for row in rows if row for alleles, _ in row for x in alleles if x is not None]
    n = len(recs)
    return {
        "call_genotype": {"dtype": "i1", "shape": [n, ns, ploidy], "dims": ["variants", "samples", "ploidy"], "data": gt},
        "call_genotype_mask": {"dtype": "bool", "shape": [n, ns, ploidy], "dims": ["variants", "samples", "ploidy"], "data": mask},
        "call_genotype_phased": {"dtype": "bool", "shape": [n, ns], "dims": ["variants", "samples"], "data": phased},
    }, max([0] + flat)


def expected_store(spec, local_alleles=False):
    recs = sorted_records(spec)
    n = len(recs)
    out = {}
    ncontig = len(spec["contigs"])
    out["variant_contig"] = {"dtype": min_int_dtype(0, ncontig), "shape": [n], "dims": ["variants"],
                             "data": [r["contig"] for r in recs]}
    fl = filters_of(spec)
    frows = []
    for r in recs:
        f = r.get("filter")
        # FILTER '.' = no filter applied at all (no column set); PASS = the PASS column
        names = [] if f is None else (["PASS"] if len(f) == 0 else f)
        frows.append([x in names for x in fl])
    out["variant_filter"] = {"dtype": "bool", "shape": [n, len(fl)], "dims": ["variants", "filters"], "data": frows,
                             "_dot_rows": [i for i, r in enumerate(recs) if r.get("filter") is None]}
    max_alleles = max(len(r["alt"]) for r in recs) + 1
    out["variant_allele"] = {"dtype": "O", "shape": [n, max_alleles], "dims": ["variants", "alleles"],
                             "data": [pad([r["ref"]] + r["alt"], max_alleles, "") for r in recs]}
    out["variant_id"] = {"dtype": "O", "shape": [n], "dims": ["variants"], "data": [r.get("id") or "." for r in recs]}
    out["variant_id_mask"] = {"dtype": "bool", "shape": [n], "dims": ["variants"], "data": [r.get("id") is None for r in recs]}
    out["variant_quality"] = {"dtype": "f4", "shape": [n], "dims": ["variants"],
                              "data": [F_MISSING if r.get("qual") is None else f32_bits(r["qual"]) for r in recs]}
    pos = [r["pos"] for r in recs]
    out["variant_position"] = {"dtype": min_int_dtype(min(pos), max(pos)), "shape": [n], "dims": ["variants"], "data": pos}
    lens = [rlen_of(r) for r in recs]
    out["variant_length"] = {"dtype": min_int_dtype(min(lens), max(lens)), "shape": [n], "dims": ["variants"], "data": lens}
    for f in spec.get("infos", []):
        out[f"variant_{f['id']}"] = info_array(spec, recs, f)
    has_gt = False
    for f in spec.get("formats", []):
        if f["id"] == "GT":
            has_gt = True
            continue
        out[f"call_{f['id']}"] = format_array(spec, recs, f)
    if has_gt:
        g, _ = genotype_arrays(spec, recs)
        out.update(g)
    out["sample_id"] = {"dtype": "O", "shape": [len(spec["samples"])], "dims": ["samples"], "data": list(spec["samples"])}
    out["contig_id"] = {"dtype": "O", "shape": [ncontig], "dims": ["contigs"], "data": [c[0] for c in spec["contigs"]]}
    if any(c[1] is not None for c in spec["contigs"]):
        # htslib/cyvcf2 convention: once any contig declares a length, the undeclared ones are reported as -1
        out["contig_length"] = {"dtype": "i8", "shape": [ncontig], "dims": ["contigs"],
                                "data": [-1 if c[1] is None else c[1] for c in spec["contigs"]]}
    out["filter_id"] = {"dtype": "O", "shape": [len(fl)], "dims": ["filters"], "data": fl}
    return out


def read_store(path):
    """the real store in the same representation"""
    import numpy as np
    import zarr
    root = zarr.open(str(path), mode="r")
    out = {}
    for name, a in root.arrays():
        v = a[:]
        if a.dtype.kind == "f":
            data = v.view(np.uint32).tolist()
        elif a.dtype.kind in "OU":
            data = v.astype(object).tolist()
            data = _strs(data)
        else:
            data = v.tolist()
        dt = a.dtype.str.lstrip("<|=")
        dt = {"b1": "bool", "O": "O"}.get(dt, dt)
        out[name] = {"dtype": dt, "shape": list(a.shape), "dims": list(a.attrs.get("_ARRAY_DIMENSIONS", [])), "data": data,
                     "chunks": list(a.chunks)}
    return out, dict(root.attrs)


def _strs(x):
    if isinstance(x, list):
        return [_strs(y) for y in x]
    return str(x)


def data_equal(exp, got):
    """exp may contain None = don't-care"""
    if exp is None:
        return True
    if isinstance(exp, list):
        return isinstance(got, list) and len(exp) == len(got) and all(data_equal(e, g) for e, g in zip(exp, got))
    return exp == got


def first_diff(exp, got, path=()):
    if exp is None:
        return None
    if isinstance(exp, list):
        if not isinstance(got, list) or len(exp) != len(got):
            return path, exp if not isinstance(exp, list) else f"len {len(exp)}", got if not isinstance(got, list) else f"len {len(got)}"
        for i, (e, g) in enumerate(zip(exp, got)):
            d = first_diff(e, g, path + (i,))
            if d:
                return d
        return None
    return None if exp == got else (path, exp, got)


def compare_store(expected, got, check_dtype=True, check_dims=False, ignore=("region_index",)):
    """returns a list of (array, what, expected, observed)"""
    diffs = []
    for name in expected:
        if name not in got:
            diffs.append((name, "missing array", "present", "absent"))
    for name in got:
        if name not in expected and name not in ignore:
            diffs.append((name, "unexpected array", "absent", "present"))
    for name, e in expected.items():
        g = got.get(name)
        if g is None:
            continue
        if e["shape"] != g["shape"]:
            diffs.append((name, "shape", e["shape"], g["shape"]))
            continue
        if check_dtype and e["dtype"] != g["dtype"]:
            diffs.append((name, "dtype", e["dtype"], g["dtype"]))
        if check_dims and e["dims"] != g["dims"]:
            diffs.append((name, "dims", e["dims"], g["dims"]))
        d = first_diff(e["data"], g["data"])
        if d:
            diffs.append((name, f"value at {list(d[0])}", d[1], d[2]))
    return diffs
