"""Regenerate MANIFEST.json from the per-property modules (keeps claims and code in sync)."""
import importlib
import json
import os
import pathlib
import sys

HERE = pathlib.Path(__file__).resolve().parent
sys.path.insert(0, str(HERE))
ROOT = HERE.parent
ALL = [f"C{i:02d}" for i in range(1, 19)]

NOT_YET = "check not built yet in this round; design in DESIGN.md §5 — will be claimed when its model, theorems and tie exist"


def main():
    checks, na = [], []
    for pid in ALL:
        try:
            mod = importlib.import_module(f"props.{pid.lower()}")
        except ModuleNotFoundError as e:
            if e.name != f"props.{pid.lower()}":
                raise SystemExit(f"{pid}: {e} — run with PYTHONPATH=/repo /venv/bin/python")
            na.append({"property_id": pid, "reason": NOT_YET})
            continue
        checks.append({
            "property_id": pid,
            "quick_cmd": f"./check {pid} --tier quick",
            "thorough_cmd": f"./check {pid} --tier thorough",
            "evidence_file": f"evidence/{pid}.json",
            "replay_cmd_template": f"./check {pid} --replay {{path}}",
            "engine": "lean4-proof+correspondence",
            "level_claimed": {"category": "proof", "text": mod.LEVEL_TEXT, "design_ref": f"DESIGN.md §5 {pid}"},
            "level_note": mod.LEVEL_NOTE,
            "technique": mod.TECHNIQUE,
        })
    man = {
        "version": 1,
        "setup_cmd": "./setup.sh",
        "hooks": {
            "guard": "SGKIT_DEV_BIO2ZARR_VERIF",
            "enable": "no source hooks are needed: observation uses sys.addaudithook / fork / PYTHONPATH=/repo from outside; the checks export SGKIT_DEV_BIO2ZARR_VERIF=1 for uniformity",
            "baseline_off_cmd": "cd /repo && env -u SGKIT_DEV_BIO2ZARR_VERIF /venv/bin/python -m pytest -q -p no:cacheprovider --timeout=900 --continue-on-collection-errors -n 12",
            "source_commits": [],
            "add_only": True,
        },
        "engines": [{
            "name": "lean4-proof+correspondence",
            "path": "lean/ (lake project B2Z: Gen regenerated from /repo, Model, Proofs, Props, native driver) + harness/ (extractor, correspondence, oracles)",
            "serves_properties": [c["property_id"] for c in checks],
            "kind_free_text": "machine-checked Lean 4 theorems over executable models; models tied to /repo on every run by (a) a source->Lean extractor with bridging lemmas and (b) differential correspondence of the model's executable definitions against the real Python on generated inputs/histories; direct statement oracles search for the failing input when either breaks",
        }],
        "checks": checks,
        "not_applicable": na,
        "notes": "See DESIGN.md. Every check: regenerate Gen/*.lean from /repo, lake build of the property's theorems, #print axioms audit, forbidden-word grep, then correspondence + statement oracle against the working tree. exit 2 = infrastructure.",
    }
    (ROOT / "MANIFEST.json").write_text(json.dumps(man, indent=1) + "\n")
    print(f"{len(checks)} checks, {len(na)} not yet claimed")


if __name__ == "__main__":
    main()
