"""Helpers shared by the conversion properties (C01 C02 C03 C10 C13): run the real pipeline in its
various decompositions, fingerprint stores, structural checks of a finished store."""
import hashlib
import json
import math
import os
import pathlib
import shutil

import numpy as np


def explode(icf_path, vcfs, *, partitions=None, column_chunk_size=16, workers=0, order=None, local_alleles=None):
    """explode through the distributed API so the partition count and execution order are ours"""
    from bio2zarr import vcf2zarr
    shutil.rmtree(icf_path, ignore_errors=True)
    if partitions is None:
        return vcf2zarr.explode(icf_path, vcfs, worker_processes=workers, column_chunk_size=column_chunk_size,
                                local_alleles=local_alleles)
    s = vcf2zarr.explode_init(icf_path, vcfs, target_num_partitions=partitions, column_chunk_size=column_chunk_size,
                              worker_processes=0, local_alleles=local_alleles)
    idx = list(range(s.num_partitions))
    if order is not None:
        order.shuffle(idx)
    for j in idx:
        vcf2zarr.explode_partition(icf_path, j)
    vcf2zarr.explode_finalise(icf_path)
    return s


def encode(icf_path, zarr_path, *, partitions=None, workers=0, order=None, **kw):
    from bio2zarr import vcf2zarr
    shutil.rmtree(zarr_path, ignore_errors=True)
    if partitions is None:
        vcf2zarr.encode(icf_path, zarr_path, worker_processes=workers, **kw)
        return None
    s = vcf2zarr.encode_init(icf_path, zarr_path, target_num_partitions=partitions, **kw)
    idx = list(range(s.num_partitions))
    if order is not None:
        order.shuffle(idx)
    for j in idx:
        vcf2zarr.encode_partition(zarr_path, j)
    vcf2zarr.encode_finalise(zarr_path)
    return s


def file_hashes(path):
    path = pathlib.Path(path)
    out = {}
    for root, _dirs, files in os.walk(path):
        for f in files:
            p = pathlib.Path(root) / f
            out[str(p.relative_to(path))] = hashlib.sha1(p.read_bytes()).hexdigest()
    return out


def chunk_grid(shape, chunks):
    grid = [range(max(1, math.ceil(s / c))) if s > 0 else range(0) for s, c in zip(shape, chunks)]
    keys = [()]
    for g in grid:
        keys = [k + (i,) for k in keys for i in g]
    return keys


def structure_problems(path):
    """C02, directly on the directory tree; returns a list of (what, detail)"""
    import zarr
    path = pathlib.Path(path)
    probs = []
    zmeta_path = path / ".zmetadata"
    if not zmeta_path.exists():
        return [("no consolidated metadata", str(path))]
    zmeta = json.loads(zmeta_path.read_text())["metadata"]
    root = zarr.open(str(path), mode="r")
    on_disk = {}
    for p in path.rglob(".z*"):
        if p.name in (".zarray", ".zattrs", ".zgroup"):
            on_disk[str(p.relative_to(path))] = json.loads(p.read_text())
    if on_disk != zmeta:
        only_disk = sorted(set(on_disk) - set(zmeta))
        only_meta = sorted(set(zmeta) - set(on_disk))
        differ = sorted(k for k in set(on_disk) & set(zmeta) if on_disk[k] != zmeta[k])
        probs.append(("consolidated metadata differs from the metadata on disk",
                      {"only_on_disk": only_disk, "only_in_zmetadata": only_meta, "differ": differ}))
    dims = {}
    expected_files = {".zmetadata", ".zgroup", ".zattrs"}
    for name, a in root.arrays():
        ad = a.attrs.get("_ARRAY_DIMENSIONS")
        if ad is None or len(ad) != a.ndim:
            probs.append(("array without matching _ARRAY_DIMENSIONS", name))
            continue
        for d, n in zip(ad, a.shape):
            dims.setdefault(d, {}).setdefault(n, []).append(name)
        expected_files |= {f"{name}/.zarray", f"{name}/.zattrs"}
        sep = a._dimension_separator if hasattr(a, "_dimension_separator") else "."
        for key in chunk_grid(a.shape, a.chunks):
            expected_files.add(f"{name}/" + sep.join(str(i) for i in key))
        if a.dtype.kind == "i":
            pass
        elif a.dtype.kind == "u":
            probs.append(("unsigned integer array cannot hold the -1/-2 sentinels", name))
    for d, sizes in dims.items():
        if len(sizes) > 1:
            probs.append((f"dimension '{d}' has conflicting lengths", {str(k): v for k, v in sizes.items()}))
    present = set(file_hashes(path))
    missing = sorted(expected_files - present)
    stray = sorted(present - expected_files)
    if missing:
        probs.append(("missing chunk/metadata files", missing[:10]))
    if stray:
        probs.append(("stray files", stray[:10]))
    return probs


def open_problems(path):
    try:
        import xarray
        ds = xarray.open_zarr(str(path), consolidated=True)
        ds.close()
    except Exception as e:  # noqa: BLE001
        return f"xarray.open_zarr failed: {type(e).__name__}: {str(e)[:200]}"
    return None
