"""Independent generators / writers for VCF inputs (nothing here imports bio2zarr).

A *spec* is a JSON-serialisable description of a VCF file (header + abstract records); the text
writer, the BGZF writer and the index builders below turn it into files.  Keeping the spec
abstract lets the oracles recompute the expected arrays without parsing anything.
"""
import gzip
import os
import pathlib
import struct
import zlib

BGZF_EOF = bytes.fromhex("1f8b08040000000000ff0600424302001b0003000000000000000000")


def bgzf_block(data):
    assert len(data) <= 0xFF00
    comp = zlib.compressobj(6, zlib.DEFLATED, -15)
    cdata = comp.compress(data) + comp.flush()
    bsize = len(cdata) + 25
    hdr = struct.pack("<BBBBIBBHBBHH", 0x1F, 0x8B, 8, 4, 0, 0, 0xFF, 6, 0x42, 0x43, 2, bsize)
    return hdr + cdata + struct.pack("<II", zlib.crc32(data) & 0xFFFFFFFF, len(data))


def bgzf_write(path, data, block_size=0xFF00, line_aligned=True):
    """own BGZF writer; small block sizes give small files many virtual-offset steps.
    Returns a list of (compressed offset, uncompressed offset) per block."""
    out = bytearray()
    blocks = []
    i = 0
    n = len(data)
    while i < n:
        j = min(n, i + block_size)
        if line_aligned and j < n:
            k = data.rfind(b"\n", i, j)
            if k > i:
                j = k + 1
        blocks.append((len(out), i))
        out += bgzf_block(data[i:j])
        i = j
    out += BGZF_EOF
    pathlib.Path(path).write_bytes(bytes(out))
    return blocks


# ----------------------------------------------------------------------------- text


def fmt_value(v):
    if v is None:
        return "."
    if isinstance(v, (list, tuple)):
        return ",".join("." if x is None else str(x) for x in v)
    return str(v)


def header_text(spec):
    lines = ["##fileformat=VCFv4.3"]
    for fid, desc in spec.get("filters", []):
        lines.append(f'##FILTER=<ID={fid},Description="{desc}">')
    for c in spec["contigs"]:
        name, length = c
        lines.append(f"##contig=<ID={name}" + (f",length={length}" if length is not None else "") + ">")
    for f in spec.get("infos", []):
        lines.append(f'##INFO=<ID={f["id"]},Number={f["number"]},Type={f["type"]},Description="{f.get("desc", f["id"])}">')
    for f in spec.get("formats", []):
        lines.append(f'##FORMAT=<ID={f["id"]},Number={f["number"]},Type={f["type"]},Description="{f.get("desc", f["id"])}">')
    for extra in spec.get("extra_header", []):
        lines.append(extra)
    cols = "#CHROM\tPOS\tID\tREF\tALT\tQUAL\tFILTER\tINFO"
    if spec.get("samples"):
        cols += "\tFORMAT\t" + "\t".join(spec["samples"])
    lines.append(cols)
    return "\n".join(lines) + "\n"


def record_text(spec, r):
    contig = spec["contigs"][r["contig"]][0]
    alt = ",".join(r["alt"]) if r.get("alt") else "."
    filt = r.get("filter")
    if filt is None:
        ftxt = "."
    elif len(filt) == 0:
        ftxt = "PASS"
    else:
        ftxt = ";".join(filt)
    info = r.get("info") or {}
    parts = []
    for k, v in info.items():
        if v is True:
            parts.append(k)
        else:
            parts.append(f"{k}={fmt_value(v)}")
    itxt = ";".join(parts) if parts else "."
    cols = [contig, str(r["pos"]), r.get("id") or ".", r["ref"], alt,
            "." if r.get("qual") is None else str(r["qual"]), ftxt, itxt]
    if spec.get("samples"):
        keys = r.get("format") or []
        cols.append(":".join(keys) if keys else ".")
        for s in r.get("samples", []):
            vals = [fmt_value(s.get(k)) for k in keys]
            # trailing missing FORMAT values may be dropped (s["_drop"] = how many)
            drop = s.get("_drop", 0)
            if drop:
                vals = vals[: max(1, len(vals) - drop)]
            cols.append(":".join(vals) if vals else ".")
    return "\t".join(cols) + "\n"


def to_text(spec, records=None):
    recs = spec["records"] if records is None else records
    return header_text(spec) + "".join(record_text(spec, r) for r in recs)


def layout(spec, records=None):
    """(text bytes, uncompressed start offset of every record, offset of the end)"""
    recs = spec["records"] if records is None else records
    head = header_text(spec).encode()
    offs, parts, n = [], [head], len(head)
    for r in recs:
        t = record_text(spec, r).encode()
        offs.append(n)
        parts.append(t)
        n += len(t)
    return b"".join(parts), offs, n


def virtual_offsets(blocks, uoffsets, total_clen):
    """BGZF virtual offset of each uncompressed offset; blocks = [(coffset, uoffset)] from bgzf_write"""
    out = []
    for u in uoffsets:
        k = max(i for i, (_, bu) in enumerate(blocks) if bu <= u)
        nxt = blocks[k + 1][1] if k + 1 < len(blocks) else None
        if nxt is not None and u >= nxt:
            raise AssertionError
        out.append((blocks[k][0] << 16) | (u - blocks[k][1]))
    return out


# ----------------------------------------------------------------------------- files


def materialise(spec, prefix, kind="vcf.gz+tbi", block_size=0xFF00, records=None, min_shift=14):
    """write the file + index; returns the path of the VCF/BCF"""
    import pysam
    import pysam.bcftools
    prefix = pathlib.Path(prefix)
    prefix.parent.mkdir(parents=True, exist_ok=True)
    text = to_text(spec, records).encode()
    if kind.startswith("vcf.gz"):
        path = prefix.with_suffix(".vcf.gz")
        for ext in (".tbi", ".csi"):
            p = pathlib.Path(str(path) + ext)
            if p.exists():
                p.unlink()
        bgzf_write(path, text, block_size)
        if kind.endswith("tbi") or kind.endswith("tbi0"):
            pysam.tabix_index(str(path), preset="vcf", force=True)
            if kind.endswith("tbi0"):
                import indexlib          # old-style tabix index: no per-contig record counts
                indexlib.strip_tbi_counts(path)
        else:
            pysam.tabix_index(str(path), preset="vcf", force=True, csi=True, min_shift=min_shift)
        return path
    if kind == "bcf+csi":
        import cyvcf2
        tmp = prefix.with_suffix(".tmp.vcf")
        tmp.write_bytes(text)
        path = prefix.with_suffix(".bcf")
        p = pathlib.Path(str(path) + ".csi")
        if p.exists():
            p.unlink()
        rd = cyvcf2.VCF(str(tmp))
        w = cyvcf2.Writer(str(path), rd, mode="wb")
        for v in rd:
            w.write_record(v)
        w.close()
        rd.close()
        tmp.unlink()
        try:
            pysam.bcftools.index(str(path), "-f", "-m", str(min_shift), catch_stdout=False)
        except Exception:  # noqa: BLE001
            # bcftools refuses some min_shift values for large / unknown contig lengths: fall back to the default
            pysam.bcftools.index(str(path), "-f", catch_stdout=False)
        return path
    raise ValueError(kind)


# ----------------------------------------------------------------------------- generators


BASES = "ACGT"


def rand_seq(rng, n):
    return "".join(rng.choice(BASES) for _ in range(n))


def positions(rng, n, lo, hi, dup=0.1):
    """n sorted positions in [lo, hi], some duplicated"""
    out = []
    p = lo + rng.randrange(0, max(1, (hi - lo) // (2 * n + 1)))
    step = max(1, (hi - p) // (n + 1))
    for _ in range(n):
        out.append(min(hi, p))
        if rng.random() >= dup:
            p += rng.choice([1, 1, 2, step, rng.randrange(1, 2 * step + 1)])
    return out


def simple_file(rng, nrec=20, ncontig=2, small_coords=False, long_refs=False, samples=0, unused_contigs=True,
                span=None, align=None):
    """fixed fields only (plus optional trivially-genotyped samples): for index / partition / region-index work"""
    names = [f"c{i}" for i in range(ncontig)]
    contigs = [[nm, rng.choice([None, 10**7, 2**31 - 1]) if not small_coords else 200] for nm in names]
    used = [i for i in range(ncontig) if not unused_contigs or rng.random() < 0.8] or [0]
    counts = [0] * ncontig
    for _ in range(nrec):
        counts[rng.choice(used)] += 1
    records = []
    hi = 110 if small_coords else (span or rng.choice([3000, 200_000, 5_000_000]))
    for ci in range(ncontig):
        if counts[ci] == 0:
            continue
        ps = positions(rng, counts[ci], 1, hi)
        if align:
            # records exactly on index window starts (w*k + 1) and right next to them: region boundaries fall there
            ps = sorted((q // align) * align + rng.choice([1, 1, 1, 0, 2]) if rng.random() < 0.6 else q for q in ps)
            ps = [max(1, q) for q in ps]
        for p in ps:
            reflen = 1
            if long_refs and rng.random() < 0.3:
                reflen = rng.choice([2, 5, 20, 90] if small_coords else [2, 30, 1000, 20_000])
            ref = rand_seq(rng, min(reflen, 50))
            rec = {"contig": ci, "pos": p, "id": None, "ref": ref, "alt": [rng.choice([b for b in BASES if b != ref[0]])],
                   "qual": None, "filter": None, "info": {}}
            if reflen > 50:
                # long deletion expressed with END so the text stays small
                rec["ref"] = ref[0]
                rec["alt"] = ["<DEL>"]
                rec["info"] = {"END": [p + reflen - 1]}
            records.append(rec)
    spec = {"contigs": contigs, "filters": [["PASS", "All filters passed"]],
            "infos": [{"id": "END", "number": "1", "type": "Integer"}], "formats": [], "samples": [], "records": records}
    if samples:
        spec["formats"] = [{"id": "GT", "number": "1", "type": "String"}]
        spec["samples"] = [f"s{j}" for j in range(samples)]
        for r in records:
            r["format"] = ["GT"]
            r["samples"] = [{"GT": rng.choice(["0/0", "0/1", "1/1", "0|1", "./."])} for _ in range(samples)]
    return spec


def rlen_of(rec):
    """variant.end - variant.start as htslib computes it: END if given, else len(REF)"""
    end = (rec.get("info") or {}).get("END")
    if end:
        return end[0] - rec["pos"] + 1
    return len(rec["ref"])


# ----------------------------------------------------------------------------- rich files (C01 & friends)

# float32-exact values; the text is the shortest repr of the float32 value as a double, which parses back exactly
FLOAT_POOL = ["0", "-0.0", "1", "-1", "0.5", "0.25", "1.5", "3.140625", "100", "1e+10", "-2.5e-05",
              "1.17549435e-38", "3.40282347e+38", "-3.40282347e+38", "1.40129846e-45", "65504", "0.333251953125",
              "123456.7890625", "1e-20"]
INT_EDGES = [0, 1, -1, 127, 128, -128, -129, 32767, 32768, -32768, -32769, 2**31 - 1, -(2**31) + 8]
STR_POOL = ["a", "bc", "xyz", "T", "foo_bar", "Q9", "longer-string-value", "z"]
NUMBERS = ["1", "2", "A", "R", "G", "."]


def _count(number, nalt, ploidy, rng):
    if number == "A":
        return nalt
    if number == "R":
        return nalt + 1
    if number == "G":
        n = nalt + 1
        return n if ploidy == 1 else n * (n + 1) // 2
    if number == ".":
        return rng.choice([1, 1, 2, 3])
    return int(number)


def _value(rng, typ, k, allow_missing_entries=True, small=False):
    if typ == "Integer":
        def one():
            if allow_missing_entries and rng.random() < 0.08:
                return None
            if small or rng.random() < 0.8:
                return rng.randrange(-20, 120)
            return rng.choice(INT_EDGES)
        return [one() for _ in range(k)]
    if typ == "Float":
        return [None if (allow_missing_entries and rng.random() < 0.08) else rng.choice(FLOAT_POOL) for _ in range(k)]
    if typ == "Character":
        return [rng.choice("ABCxyz") for _ in range(k)]
    return [rng.choice(STR_POOL) for _ in range(k)]


def rich_file(rng, nrec=None, nsamples=None, ncontig=None, fields="all", gt=True, ploidies=(2,), max_alt=3,
              small_ints=False, records_lack_gt=False, shuffle_contig_blocks=False, must_formats=()):
    nrec = nrec if nrec is not None else rng.choice([1, 3, 8, 20, 60])
    nsamples = nsamples if nsamples is not None else rng.choice([0, 1, 2, 3, 6])
    ncontig = ncontig or rng.choice([1, 2, 3, 5])
    with_len = rng.random() < 0.6
    contigs = [[f"chr{i}", (10**6 + i) if with_len else None] for i in range(ncontig)]
    filters = [["PASS", "All filters passed"]] + [[f, f"desc {f}"] for f in rng.sample(["q10", "s50", "LowQual"], rng.choice([0, 1, 2, 3]))]
    if rng.random() < 0.3:
        rng.shuffle(filters)      # PASS need not be declared first
    infos, formats = [], []
    types = ["Integer", "Float", "String", "Character"]
    if fields == "all":
        for typ in types:
            for num in rng.sample(NUMBERS, rng.choice([1, 2, 3])):
                infos.append({"id": f"I{typ[0]}{num.replace('.', 'v')}", "number": num, "type": typ})
        if rng.random() < 0.7:
            infos.append({"id": "FLG", "number": "0", "type": "Flag"})
        if nsamples:
            for typ in types:
                for num in rng.sample(NUMBERS, rng.choice([0, 1, 2])):
                    formats.append({"id": f"F{typ[0]}{num.replace('.', 'v')}", "number": num, "type": typ})
    if nsamples:
        for typ, num in must_formats:      # fields the caller insists on (e.g. ragged integer vectors)
            fid = f"F{typ[0]}{num.replace('.', 'v')}"
            if all(f["id"] != fid for f in formats):
                formats.append({"id": fid, "number": num, "type": typ})
    rng.shuffle(infos)
    rng.shuffle(formats)
    if nsamples and gt:
        formats.insert(rng.randrange(len(formats) + 1) if rng.random() < 0.3 else 0, {"id": "GT", "number": "1", "type": "String"})
    use_end = rng.random() < 0.4
    if use_end:
        infos.append({"id": "END", "number": "1", "type": "Integer"})
    used = [i for i in range(ncontig) if rng.random() < 0.8] or [0]
    counts = [0] * ncontig
    for _ in range(nrec):
        counts[rng.choice(used)] += 1
    records = []
    for ci in range(ncontig):
        for p in positions(rng, counts[ci], 1, rng.choice([200, 40000, 900000])) if counts[ci] else []:
            nalt = rng.choice([0, 1, 1, 1, 2, max_alt])
            ref = rand_seq(rng, rng.choice([1, 1, 1, 2, 4]))
            alts = [rand_seq(rng, rng.choice([1, 1, 2, 3])) for _ in range(nalt)]
            rec = {"contig": ci, "pos": p, "id": rng.choice([None, None, f"rs{p}", f"rs{p};x{ci}", f"c{ci}:{p}:A:C,T", f"x{p},y;z,w"]), "ref": ref, "alt": alts,
                   "qual": rng.choice([None, None] + FLOAT_POOL[:8]),
                   "filter": rng.choice([None, [], []] + [[f[0]] for f in filters if f[0] != "PASS"] +
                                        ([[f[0] for f in filters if f[0] != "PASS"][:2]] if len(filters) > 2 else [])),
                   "info": {}}
            if use_end and nalt and rng.random() < 0.3:
                rec["alt"] = ["<DEL>"] + alts[1:]
                rec["info"]["END"] = [p + rng.choice([0, 5, 300])]
            ploidy = rng.choice(ploidies)
            for f in infos:
                if f["id"] == "END":
                    continue
                r = rng.random()
                if r < 0.25:
                    continue                        # key absent
                if f["type"] == "Flag":
                    rec["info"][f["id"]] = True
                    continue
                if r < 0.32:
                    rec["info"][f["id"]] = None     # KEY=.
                    continue
                k = _count(f["number"], nalt, 2, rng)
                if k == 0:
                    continue
                rec["info"][f["id"]] = _value(rng, f["type"], k, allow_missing_entries=f["type"] in ("Integer", "Float") and k > 1,
                                              small=small_ints)
            if nsamples:
                keys = [f["id"] for f in formats if f["id"] == "GT" or rng.random() < 0.8]
                if records_lack_gt and rng.random() < 0.2:
                    keys = [k_ for k_ in keys if k_ != "GT"]
                if "GT" in keys:                    # GT must be first when present
                    keys = ["GT"] + [k_ for k_ in keys if k_ != "GT"]
                rec["format"] = keys
                rec["samples"] = []
                for _s in range(nsamples):
                    s = {}
                    sp = rng.choice(ploidies) if rng.random() < 0.15 else ploidy
                    for key in keys:
                        f = next(x for x in formats if x["id"] == key)
                        if key == "GT":
                            alleles = [None if rng.random() < 0.1 else rng.randrange(0, nalt + 1) for _ in range(sp)]
                            seps = [rng.choice("/|") for _ in range(sp - 1)]
                            txt = "." if alleles[0] is None else str(alleles[0])
                            for a, sep in zip(alleles[1:], seps):
                                txt += sep + ("." if a is None else str(a))
                            s["GT"] = txt
                            s["_alleles"] = alleles
                            s["_seps"] = seps
                            continue
                        r = rng.random()
                        if r < 0.12:
                            s[key] = None
                            continue
                        k = _count(f["number"], nalt, sp, rng)
                        if k == 0:
                            s[key] = None
                            continue
                        s[key] = _value(rng, f["type"], k, allow_missing_entries=f["type"] in ("Integer", "Float") and k > 1,
                                        small=small_ints)
                    rec["samples"].append(s)
            records.append(rec)
    if shuffle_contig_blocks and ncontig > 1:
        # a file may list its contig blocks in another order than the header (e.g. lexicographic vs karyotypic):
        # tabix/CSI accept that; the converted store must still be in header contig order
        order = list(range(ncontig))
        rng.shuffle(order)
        records = [r for ci in order for r in records if r["contig"] == ci]
    return {"contigs": contigs, "filters": filters, "infos": infos, "formats": formats,
            "samples": [f"s{j}" for j in range(nsamples)], "records": records}
