"""Independent generators / writers for VCF inputs (nothing here imports bio2zarr).

A *spec* is a JSON-serialisable description of a VCF file (header + abstract records); the text
writer, the BGZF writer and the index builders below turn it into files.  Keeping the spec
abstract lets the oracles recompute the expected arrays without parsing anything.
"""
import gzip
import os
import pathlib
import struct
import zlib

BGZF_EOF = bytes.fromhex("1f8b08040000000000ff0600424302001b0003000000000000000000")


def bgzf_block(data):
    assert len(data) <= 0xFF00
    comp = zlib.compressobj(6, zlib.DEFLATED, -15)
    cdata = comp.compress(data) + comp.flush()
    bsize = len(cdata) + 25
    hdr = struct.pack("<BBBBIBBHBBHH", 0x1F, 0x8B, 8, 4, 0, 0, 0xFF, 6, 0x42, 0x43, 2, bsize)
    return hdr + cdata + struct.pack("<II", zlib.crc32(data) & 0xFFFFFFFF, len(data))


def bgzf_write(path, data, block_size=0xFF00, line_aligned=True):
    """own BGZF writer; small block sizes give small files many virtual-offset steps.
    Returns a list of (compressed offset, uncompressed offset) per block."""
    out = bytearray()
    blocks = []
    i = 0
    n = len(data)
    while i < n:
        j = min(n, i + block_size)
        if line_aligned and j < n:
            k = data.rfind(b"\n", i, j)
            if k > i:
                j = k + 1
        blocks.append((len(out), i))
        out += bgzf_block(data[i:j])
        i = j
    out += BGZF_EOF
    pathlib.Path(path).write_bytes(bytes(out))
    return blocks


# ----------------------------------------------------------------------------- text


def fmt_value(v):
    if v is None:
        return "."
    if isinstance(v, (list, tuple)):
        return ",".join("." if x is None else str(x) for x in v)
    return str(v)


def header_text(spec):
    lines = ["##fileformat=VCFv4.3"]
    for fid, desc in spec.get("filters", []):
        lines.append(f'##FILTER=<ID={fid},Description="{desc}">')
    for c in spec["contigs"]:
        name, length = c
        lines.append(f"##contig=<ID={name}" + (f",length={length}" if length is not None else "") + ">")
    for f in spec.get("infos", []):
        lines.append(f'##INFO=<ID={f["id"]},Number={f["number"]},Type={f["type"]},Description="{f.get("desc", f["id"])}">')
    for f in spec.get("formats", []):
        lines.append(f'##FORMAT=<ID={f["id"]},Number={f["number"]},Type={f["type"]},Description="{f.get("desc", f["id"])}">')
    for extra in spec.get("extra_header", []):
        lines.append(extra)
    cols = "#CHROM\tPOS\tID\tREF\tALT\tQUAL\tFILTER\tINFO"
    if spec.get("samples"):
        cols += "\tFORMAT\t" + "\t".join(spec["samples"])
    lines.append(cols)
    return "\n".join(lines) + "\n"


def record_text(spec, r):
    contig = spec["contigs"][r["contig"]][0]
    alt = ",".join(r["alt"]) if r.get("alt") else "."
    filt = r.get("filter")
    if filt is None:
        ftxt = "."
    elif len(filt) == 0:
        ftxt = "PASS"
    else:
        ftxt = ";".join(filt)
    info = r.get("info") or {}
    parts = []
    for k, v in info.items():
        if v is True:
            parts.append(k)
        else:
            parts.append(f"{k}={fmt_value(v)}")
    itxt = ";".join(parts) if parts else "."
    cols = [contig, str(r["pos"]), r.get("id") or ".", r["ref"], alt,
            "." if r.get("qual") is None else str(r["qual"]), ftxt, itxt]
    if spec.get("samples"):
        keys = r.get("format") or []
        cols.append(":".join(keys) if keys else ".")
        for s in r.get("samples", []):
            vals = [fmt_value(s.get(k)) for k in keys]
            # trailing missing FORMAT values may be dropped (s["_drop"] = how many)
            drop = s.get("_drop", 0)
            if drop:
                vals = vals[: max(1, len(vals) - drop)]
            cols.append(":".join(vals) if vals else ".")
    return "\t".join(cols) + "\n"


def to_text(spec, records=None):
    recs = spec["records"] if records is None else records
    return header_text(spec) + "".join(record_text(spec, r) for r in recs)


def layout(spec, records=None):
    """(text bytes, uncompressed start offset of every record, offset of the end)"""
    recs = spec["records"] if records is None else records
    head = header_text(spec).encode()
    offs, parts, n = [], [head], len(head)
    for r in recs:
        t = record_text(spec, r).encode()
        offs.append(n)
        parts.append(t)
        n += len(t)
    return b"".join(parts), offs, n


def virtual_offsets(blocks, uoffsets, total_clen):
    """BGZF virtual offset of each uncompressed offset; blocks = [(coffset, uoffset)] from bgzf_write"""
    out = []
    for u in uoffsets:
        k = max(i for i, (_, bu) in enumerate(blocks) if bu <= u)
        nxt = blocks[k + 1][1] if k + 1 < len(blocks) else None
        if nxt is not None and u >= nxt:
            raise AssertionError
        out.append((blocks[k][0] << 16) | (u - blocks[k][1]))
    return out


# ----------------------------------------------------------------------------- files


def materialise(spec, prefix, kind="vcf.gz+tbi", block_size=0xFF00, records=None, min_shift=14):
    """write the file + index; returns the path of the VCF/BCF"""
    import pysam
    import pysam.bcftools
    prefix = pathlib.Path(prefix)
    prefix.parent.mkdir(parents=True, exist_ok=True)
    text = to_text(spec, records).encode()
    if kind.startswith("vcf.gz"):
        path = prefix.with_suffix(".vcf.gz")
        for ext in (".tbi", ".csi"):
            p = pathlib.Path(str(path) + ext)
            if p.exists():
                p.unlink()
        bgzf_write(path, text, block_size)
        if kind.endswith("tbi"):
            pysam.tabix_index(str(path), preset="vcf", force=True)
        else:
            pysam.tabix_index(str(path), preset="vcf", force=True, csi=True, min_shift=min_shift)
        return path
    if kind == "bcf+csi":
        import cyvcf2
        tmp = prefix.with_suffix(".tmp.vcf")
        tmp.write_bytes(text)
        path = prefix.with_suffix(".bcf")
        p = pathlib.Path(str(path) + ".csi")
        if p.exists():
            p.unlink()
        rd = cyvcf2.VCF(str(tmp))
        w = cyvcf2.Writer(str(path), rd, mode="wb")
        for v in rd:
            w.write_record(v)
        w.close()
        rd.close()
        tmp.unlink()
        pysam.bcftools.index(str(path), "-f", "-m", str(min_shift), catch_stdout=False)
        return path
    raise ValueError(kind)


# ----------------------------------------------------------------------------- generators


BASES = "ACGT"


def rand_seq(rng, n):
    return "".join(rng.choice(BASES) for _ in range(n))


def positions(rng, n, lo, hi, dup=0.1):
    """n sorted positions in [lo, hi], some duplicated"""
    out = []
    p = lo + rng.randrange(0, max(1, (hi - lo) // (2 * n + 1)))
    step = max(1, (hi - p) // (n + 1))
    for _ in range(n):
        out.append(min(hi, p))
        if rng.random() >= dup:
            p += rng.choice([1, 1, 2, step, rng.randrange(1, 2 * step + 1)])
    return out


def simple_file(rng, nrec=20, ncontig=2, small_coords=False, long_refs=False, samples=0, unused_contigs=True,
                span=None):
    """fixed fields only (plus optional trivially-genotyped samples): for index / partition / region-index work"""
    names = [f"c{i}" for i in range(ncontig)]
    contigs = [[nm, rng.choice([None, 10**6, 2**31 - 1]) if not small_coords else 200] for nm in names]
    used = [i for i in range(ncontig) if not unused_contigs or rng.random() < 0.8] or [0]
    counts = [0] * ncontig
    for _ in range(nrec):
        counts[rng.choice(used)] += 1
    records = []
    hi = 110 if small_coords else (span or rng.choice([3000, 200_000, 5_000_000]))
    for ci in range(ncontig):
        if counts[ci] == 0:
            continue
        for p in positions(rng, counts[ci], 1, hi):
            reflen = 1
            if long_refs and rng.random() < 0.3:
                reflen = rng.choice([2, 5, 20, 90] if small_coords else [2, 30, 1000, 20_000])
            ref = rand_seq(rng, min(reflen, 50))
            rec = {"contig": ci, "pos": p, "id": None, "ref": ref, "alt": [rng.choice([b for b in BASES if b != ref[0]])],
                   "qual": None, "filter": None, "info": {}}
            if reflen > 50:
                # long deletion expressed with END so the text stays small
                rec["ref"] = ref[0]
                rec["alt"] = ["<DEL>"]
                rec["info"] = {"END": [p + reflen - 1]}
            records.append(rec)
    spec = {"contigs": contigs, "filters": [["PASS", "All filters passed"]],
            "infos": [{"id": "END", "number": "1", "type": "Integer"}], "formats": [], "samples": [], "records": records}
    if samples:
        spec["formats"] = [{"id": "GT", "number": "1", "type": "String"}]
        spec["samples"] = [f"s{j}" for j in range(samples)]
        for r in records:
            r["format"] = ["GT"]
            r["samples"] = [{"GT": rng.choice(["0/0", "0/1", "1/1", "0|1", "./."])} for _ in range(samples)]
    return spec


def rlen_of(rec):
    """variant.end - variant.start as htslib computes it: END if given, else len(REF)"""
    end = (rec.get("info") or {}).get("END")
    if end:
        return end[0] - rec["pos"] + 1
    return len(rec["ref"])
