#!/bin/sh
# seedwave.sh <suffix> <pid> [<pid> ...] : for each /tmp/mut/out_<pid><suffix> run seedconfirm + seedtest (own property), one summary block each
SFX="$1"; shift
HERE="$(cd "$(dirname "$0")/.." && pwd)"
for p in "$@"; do
  d="/tmp/mut/out_${p}${SFX}"
  P="$(echo "$p" | tr c C)"
  echo "== ${p}${SFX}"
  [ -f "$d/patch.diff" ] || { echo "no patch"; continue; }
  "$HERE/harness/seedconfirm.sh" "$d" 2>&1 | grep -v "warn\|leaked" | cut -c1-300
  "$HERE/harness/seedtest.sh" "$d/patch.diff" quick "$P" 2>&1 | grep -v "warn\|leaked\|KNOWN-FINDING: prop\|^  File\|^    " | cut -c1-400
done
