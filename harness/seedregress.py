"""re-run every stored seeded change against the check(s) recorded as detecting it; prints one line per change.
usage: /venv/bin/python harness/seedregress.py [ids...]   (needs a clean /repo)"""
import json
import pathlib
import subprocess
import sys

ROOT = pathlib.Path(__file__).resolve().parent.parent


def main():
    ids = sys.argv[1:] or sorted(p.name for p in (ROOT / "seeded").iterdir())
    rows = []
    for sid in ids:
        d = ROOT / "seeded" / sid
        meta = json.loads((d / "meta.json").read_text())
        patch = d / ("patch_rebased.diff" if (d / "patch_rebased.diff").exists() else "patch.diff")
        checks = sorted({k.split()[0] for k, v in meta["detected_by"].items() if not v.startswith("not detected")})
        if subprocess.run(["git", "-C", "/repo", "apply", "--check", str(patch)], capture_output=True).returncode != 0:
            rows.append((sid, "-", "patch no longer applies (code changed by a later fix)"))
            print(*rows[-1], flush=True)
            continue
        for c in checks:
            subprocess.run(["git", "-C", "/repo", "apply", str(patch)], check=True)
            try:
                p = subprocess.run([str(ROOT / "check"), c, "--no-lean"] if "--fast" in sys.argv else [str(ROOT / "check"), c],
                                   cwd=ROOT, capture_output=True, text=True, timeout=3000)
                rc = p.returncode
                line = next((l for l in p.stdout.splitlines() if l.startswith("VIOLATION")), "")
            except subprocess.TimeoutExpired:
                rc, line = 124, "timeout"
            finally:
                subprocess.run(["git", "-C", "/repo", "checkout", "--", "."], check=True)
            kind = "concrete" if rc == 1 and "no-failing-input-found" not in line else ("obligation-only" if rc == 1 else f"NOT DETECTED rc={rc}")
            rows.append((sid, c, kind))
            print(*rows[-1], flush=True)
    subprocess.run(["git", "-C", str(ROOT), "checkout", "--", "evidence"], check=False)
    bad = [r for r in rows if r[2].startswith("NOT")]
    print(f"SUMMARY: {len(rows)} runs, {len(bad)} not detected: {bad}")


if __name__ == "__main__":
    main()
