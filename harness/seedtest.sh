#!/bin/sh
# seedtest.sh <patch.diff> <tier> Cxx [Cyy ...] : apply a seeded change to /repo, run the checks, undo it.
# Prints one line per check: <id> exit=<rc> <first VIOLATION / summary line>
PATCH="$1"; TIER="$2"; shift 2
HERE="$(cd "$(dirname "$0")/.." && pwd)"
cd /repo || exit 2
if [ -n "$(git status --porcelain --untracked-files=no)" ]; then echo "repo not clean"; exit 2; fi
git apply "$PATCH" || { echo "patch does not apply"; exit 2; }
for c in "$@"; do
  out="$(cd "$HERE" && VERIF_SEED="${VERIF_SEED:-0}" timeout 3000 ./check "$c" --tier "$TIER" 2>&1)"; rc=$?
  echo "$c exit=$rc $(echo "$out" | grep -E '^VIOLATION|^KNOWN' | head -2 | tr '\n' ' ')"
  echo "$out" | grep -E "^  " | head -3
  echo "$out" | grep -E "^$c " | tail -1
done
git checkout -- . 
# restore the evidence files of the clean tree afterwards by rerunning or via git
cd "$HERE" && git checkout -- evidence 2>/dev/null
