"""Shared helpers for the index properties (C04, C09): canonical views of real parses, an
independent Python decoder, record offsets of BGZF files."""
import gzip
import math
import pathlib
import struct


def gunzip(path):
    with gzip.open(path, "rb") as f:
        return f.read()


def canon_count(c):
    if isinstance(c, float) and math.isinf(c):
        return "unknown"
    return int(c)


def exc_kind(e):
    return "ValueError" if isinstance(e, ValueError) else "error"


def real_csi(path):
    from bio2zarr import vcf_utils
    try:
        x = vcf_utils.read_csi(path)
    except Exception as e:  # noqa: BLE001
        return {"error": exc_kind(e)}
    aux = x.aux if isinstance(x.aux, bytes) else b""
    try:
        names = [n.encode().hex() for n in x.parse_vcf_aux()] if len(aux) > 0 else []
    except Exception:  # noqa: BLE001
        names = "error"
    return {
        "min_shift": x.min_shift, "depth": x.depth, "aux": aux.hex(),
        "bins": [[[b.bin, b.loffset, [[c.cnk_beg, c.cnk_end] for c in b.chunks]] for b in ref] for ref in x.bins],
        "record_counts": [canon_count(c) for c in x.record_counts],
        "n_no_coor": x.n_no_coor, "seq_names": names,
    }


def real_tbi(path):
    from bio2zarr import vcf_utils
    try:
        x = vcf_utils.read_tabix(path)
    except Exception as e:  # noqa: BLE001
        return {"error": exc_kind(e)}
    if any(v is None for li in x.linear_indexes for v in li):
        return {"error": "error"}          # truncated inside the linear index: None entries
    h = x.header
    return {
        "header": [h.n_ref, h.format, h.col_seq, h.col_beg, h.col_end, h.meta, h.skip, h.l_nm],
        "names": [n.encode().hex() for n in x.sequence_names],
        "bins": [[[b.bin, [[c.cnk_beg, c.cnk_end] for c in b.chunks]] for b in ref] for ref in x.bins],
        "linear": [list(li) for li in x.linear_indexes],
        "record_counts": [canon_count(c) for c in x.record_counts],
        "n_no_coor": x.n_no_coor,
    }


# ---------------------------------------------------------------- independent decoder (SAM/tabix spec)

class Cur:
    def __init__(self, data):
        self.d, self.i = data, 0

    def take(self, fmt):
        n = struct.calcsize(fmt)
        if self.i + n > len(self.d):
            raise EOFError
        v = struct.unpack_from(fmt, self.d, self.i)
        self.i += n
        return v

    def raw(self, n):
        if self.i + n > len(self.d):
            raise EOFError
        v = self.d[self.i:self.i + n]
        self.i += n
        return v


def spec_decode_csi(data):
    """well-formed CSI only: follows the CSIv1 spec, independent of the code under test"""
    c = Cur(data)
    assert c.raw(4) == b"CSI\x01"
    min_shift, depth, l_aux = c.take("<iii")
    aux = c.raw(l_aux)
    (n_ref,) = c.take("<i")
    pseudo = ((1 << ((depth + 1) * 3)) - 1) // 7 + 1
    refs, counts = [], []
    for _ in range(n_ref):
        (n_bin,) = c.take("<i")
        bins, count = [], 0 if n_bin == 0 else "unknown"
        for _ in range(n_bin):
            b, loff, n_chunk = c.take("<IQi")
            chunks = [list(c.take("<QQ")) for _ in range(n_chunk)]
            bins.append([b, loff, chunks])
            if b == pseudo and len(chunks) == 2:
                count = chunks[1][0] + chunks[1][1]
        refs.append(bins)
        counts.append(count)
    n_no_coor = c.take("<Q")[0] if c.i < len(data) else 0
    names = [n.hex() for n in aux[28:].split(b"\x00")[:-1]] if l_aux > 0 else []
    return {"min_shift": min_shift, "depth": depth, "aux": aux.hex(), "bins": refs, "record_counts": counts,
            "n_no_coor": n_no_coor, "seq_names": names}


def spec_decode_tbi(data):
    c = Cur(data)
    assert c.raw(4) == b"TBI\x01"
    hdr = list(c.take("<8i"))
    names = c.raw(hdr[7])
    refs, lins, counts = [], [], []
    for _ in range(hdr[0]):
        (n_bin,) = c.take("<i")
        bins, count = [], 0 if n_bin == 0 else "unknown"
        for _ in range(n_bin):
            b, n_chunk = c.take("<Ii")
            chunks = [list(c.take("<QQ")) for _ in range(n_chunk)]
            bins.append([b, chunks])
            if b == 37450 and len(chunks) == 2:
                count = chunks[1][0] + chunks[1][1]
        (n_intv,) = c.take("<i")
        lins.append([c.take("<Q")[0] for _ in range(n_intv)])
        refs.append(bins)
        counts.append(count)
    n_no_coor = c.take("<Q")[0] if c.i < len(data) else 0
    return {"header": hdr, "names": [n.hex() for n in names.split(b"\x00")[:-1]], "bins": refs, "linear": lins,
            "record_counts": counts, "n_no_coor": n_no_coor}


def write_gz(path, data, bgzf=False):
    if bgzf:
        import vcfgen
        vcfgen.bgzf_write(path, data, line_aligned=False)
        return path
    with gzip.open(path, "wb") as f:
        f.write(data)
    return path


def reg2bin(beg, end, min_shift, depth):
    """CSI spec: bin of the 0-based half-open interval [beg, end)"""
    end -= 1
    s, t = min_shift, ((1 << depth * 3) - 1) // 7
    level = depth
    while level > 0:
        if beg >> s == end >> s:
            return t + (beg >> s)
        level -= 1
        s += 3
        t -= 1 << level * 3
    return 0


def encode_tbi(d, with_tail=True):
    """own serialiser of a decoded tabix index (spec_decode_tbi layout)"""
    names = b"".join(bytes.fromhex(h) + b"\0" for h in d["names"])
    out = bytearray(b"TBI\x01")
    hdr = list(d["header"])
    hdr[0], hdr[7] = len(d["bins"]), len(names)
    out += struct.pack("<8i", *hdr)
    out += names
    for bins, lin in zip(d["bins"], d["linear"]):
        out += struct.pack("<i", len(bins))
        for b, chunks in bins:
            out += struct.pack("<Ii", b, len(chunks))
            for beg, end in chunks:
                out += struct.pack("<QQ", beg, end)
        out += struct.pack("<i", len(lin))
        for v in lin:
            out += struct.pack("<Q", v)
    if with_tail:
        out += struct.pack("<Q", d.get("n_no_coor", 0))
    return bytes(out)


def strip_tbi_counts(vcf_path):
    """rewrite <vcf>.tbi as an old-style index: no pseudo-bins (no per-contig record counts), no trailing n_no_coor"""
    ipath = str(vcf_path) + ".tbi"
    d = spec_decode_tbi(gunzip(ipath))
    d["bins"] = [[b for b in ref if b[0] != 37450] for ref in d["bins"]]
    write_gz(ipath, encode_tbi(d, with_tail=False), bgzf=True)
    return ipath
