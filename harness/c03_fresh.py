"""convert one VCF in a fresh interpreter (no conversion history in the process): C03 reference for history independence"""
import json
import sys


def main():
    vcf, out, opts = sys.argv[1], sys.argv[2], json.loads(sys.argv[3])
    from bio2zarr import vcf2zarr
    vcf2zarr.convert([vcf], out, worker_processes=0, **opts)


if __name__ == "__main__":
    main()
