#!/bin/sh
# seedconfirm.sh <mutant dir containing patch.diff demo.py> : demo on clean repo, apply, demo, pinned suite, undo
D="$1"
cd /repo || exit 2
[ -z "$(git status --porcelain --untracked-files=no)" ] || { echo "repo not clean"; exit 2; }
PYTHONPATH=/repo /venv/bin/python "$D/demo.py" >/tmp/demo_clean.txt 2>&1; echo "demo clean exit=$?"
git apply "$D/patch.diff" || { echo "patch does not apply"; exit 2; }
PYTHONPATH=/repo /venv/bin/python "$D/demo.py" >/tmp/demo_mut.txt 2>&1; echo "demo mutant exit=$?"; tail -2 /tmp/demo_mut.txt | cut -c1-300
/venv/bin/python -m pytest -q -p no:cacheprovider --no-cov -n 12 --deselect tests/test_cli.py 2>&1 | tail -1
git checkout -- .
