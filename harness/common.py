"""Shared machinery of the bio2zarr verification checks.

Runs under /venv/bin/python with PYTHONPATH=/repo (the working tree, nothing installed).
"""
import contextlib
import fcntl
import hashlib
import json
import os
import pathlib
import random
import re
import shutil
import subprocess
import sys
import tempfile
import time

ROOT = pathlib.Path(__file__).resolve().parent.parent
REPO = pathlib.Path(os.environ.get("B2Z_REPO", "/repo"))
LEAN = ROOT / "lean"
EVIDENCE = ROOT / "evidence"
REPLAYS = ROOT / "replays"
CORPUS = ROOT / "corpus"
DRIVER_BIN = LEAN / ".lake" / "build" / "bin" / "b2zdriver"
ALLOWED_AXIOMS = {"propext", "Classical.choice", "Quot.sound"}
FORBIDDEN = re.compile(r"\b(sorry|admit|native_decide|bv_decide|implemented_by|unsafe)\b|^\s*axiom\s|maxHeartbeats 0")

TRUSTED_BASE = [
    "Lean 4.33.0 kernel (lake build; thorough tier re-checks the .olean with leanchecker)",
    "axioms: subset of {propext, Classical.choice, Quot.sound}, audited with #print axioms on every run; no native_decide/bv_decide/sorry/axiom",
    "harness/extract.py (source -> lean/B2Z/Gen/*.lean translator), cross-checked on a value grid every run",
    "the correspondence harness and its independent generators/writers (harness/*.py)",
]


class Infra(Exception):
    """infrastructure failure: exit 2, never a violation"""


def scratch_dir(prefix="b2zv-"):
    base = os.environ.get("B2Z_SCRATCH") or tempfile.gettempdir()
    return pathlib.Path(tempfile.mkdtemp(prefix=prefix, dir=base))


@contextlib.contextmanager
def lean_lock():
    LEAN.mkdir(exist_ok=True)
    with open(LEAN / ".verif.lock", "w") as f:
        fcntl.flock(f, fcntl.LOCK_EX)
        try:
            yield
        finally:
            fcntl.flock(f, fcntl.LOCK_UN)


def run(cmd, cwd=None, timeout=None, env=None, input=None):
    p = subprocess.run(
        cmd, cwd=cwd, timeout=timeout, env=env, input=input,
        stdout=subprocess.PIPE, stderr=subprocess.STDOUT, text=True,
    )
    return p.returncode, p.stdout


def lean_sources():
    for p in sorted((LEAN / "B2Z").rglob("*.lean")):
        yield p
    yield LEAN / "Main.lean"


def strip_comments(text):
    # remove /- ... -/ (nested not handled beyond one level, enough for our files) and -- comments
    out = []
    i = 0
    depth = 0
    while i < len(text):
        if text.startswith("/-", i):
            depth += 1
            i += 2
        elif text.startswith("-/", i) and depth > 0:
            depth -= 1
            i += 2
        elif depth > 0:
            if text[i] == "\n":
                out.append("\n")
            i += 1
        elif text.startswith("--", i):
            while i < len(text) and text[i] != "\n":
                i += 1
        else:
            out.append(text[i])
            i += 1
    return "".join(out)


def import_closure(modules):
    """source files in the import closure of the given B2Z modules (plus the driver)"""
    seen, todo = set(), list(modules) + ["B2Z.Driver"]
    while todo:
        m = todo.pop()
        if m in seen or not m.startswith("B2Z"):
            continue
        seen.add(m)
        f = LEAN / (m.replace(".", "/") + ".lean")
        if not f.exists():
            continue
        for line in f.read_text().splitlines():
            if line.startswith("import "):
                todo.append(line.split()[1])
    return [LEAN / (m.replace(".", "/") + ".lean") for m in sorted(seen)] + [LEAN / "Main.lean"]


def forbidden_words(modules=None):
    hits = []
    for p in (lean_sources() if modules is None else import_closure(modules)):
        if not p.exists():
            continue
        code = strip_comments(p.read_text())
        for n, line in enumerate(code.splitlines(), 1):
            if FORBIDDEN.search(line):
                hits.append(f"{p.relative_to(LEAN)}:{n}: {line.strip()[:100]}")
    return hits


def lake_build(targets, timeout=1500):
    """returns (ok, log).  Build failure is a *broken obligation*, not an infra error."""
    rc, out = run(["lake", "build", *targets], cwd=LEAN, timeout=timeout)
    return rc == 0, out


def audit_axioms(theorems, imports):
    """#print axioms for every theorem; returns {theorem: [axioms]} or raises on failure"""
    src = "".join(f"import {m}\n" for m in imports)
    src += "".join(f"#print axioms {t}\n" for t in theorems)
    d = scratch_dir("b2zaudit-")
    try:
        f = d / "AuditRun.lean"
        f.write_text(src)
        rc, out = run(["lake", "env", "lean", str(f)], cwd=LEAN, timeout=900)
    finally:
        shutil.rmtree(d, ignore_errors=True)
    res = {}
    # outputs: "'X' depends on axioms: [a, b]" or "'X' does not depend on any axioms"
    for m in re.finditer(r"'([^']+)' depends on axioms: \[([^\]]*)\]", out):
        res[m.group(1)] = [a.strip() for a in m.group(2).replace("\n", " ").split(",") if a.strip()]
    for m in re.finditer(r"'([^']+)' does not depend on any axioms", out):
        res[m.group(1)] = []
    missing = [t for t in theorems if t not in res and t.split(".", 0)[0] not in res]
    return res, missing, out


class Driver:
    """persistent native Lean driver process (line protocol)"""

    def __init__(self):
        if not DRIVER_BIN.exists():
            raise Infra(f"driver binary missing: {DRIVER_BIN}")
        self.p = subprocess.Popen(
            [str(DRIVER_BIN)], stdin=subprocess.PIPE, stdout=subprocess.PIPE, text=True, bufsize=1
        )
        self.n = 0

    def ask(self, obj):
        self.p.stdin.write(json.dumps(obj) + "\n")
        self.p.stdin.flush()
        line = self.p.stdout.readline()
        if not line:
            raise Infra("lean driver died")
        self.n += 1
        r = json.loads(line)
        if isinstance(r, dict) and "driver_error" in r:
            raise Infra(f"driver error on {obj}: {r['driver_error']}")
        return r

    def ask_many(self, objs):
        """batch: write everything, then read everything (driver is line-synchronous)"""
        objs = list(objs)
        data = "".join(json.dumps(o) + "\n" for o in objs)
        rc = subprocess.run([str(DRIVER_BIN)], input=data, stdout=subprocess.PIPE, text=True)
        lines = rc.stdout.splitlines()
        if len(lines) != len(objs):
            raise Infra(f"driver returned {len(lines)} lines for {len(objs)} requests")
        self.n += len(objs)
        out = []
        for o, l in zip(objs, lines):
            r = json.loads(l)
            if isinstance(r, dict) and "driver_error" in r:
                raise Infra(f"driver error on {o}: {r['driver_error']}")
            out.append(r)
        return out

    def close(self):
        try:
            self.p.stdin.close()
            self.p.wait(timeout=10)
        except Exception:
            self.p.kill()


class Ctx:
    def __init__(self, prop, tier, seed):
        self.prop = prop
        self.tier = tier
        self.seed = seed
        self.rng = random.Random(f"{prop}-{seed}")
        self.t0 = time.time()
        self.evaluations = 0
        self.nontrivial = set()
        self.samples = []
        self.counters = {}
        self.disagreements = []   # model vs implementation
        self.violations = []      # implementation fails the statement (concrete input)
        self.known_hits = []      # (finding id, description)
        self.broken = []          # proof obligations / bridging that no longer check
        self.obligations = []
        self.discharged = []
        self.traces = 0
        self.assumptions = []
        self.notes = {}
        self._driver = None
        self.deadline = None

    @property
    def thorough(self):
        return self.tier == "thorough"

    @property
    def driver(self):
        if self._driver is None:
            self._driver = Driver()
        return self._driver

    def count(self, key, n=1):
        self.counters[key] = self.counters.get(key, 0) + n

    def case(self, key, nontrivial=True):
        """register one explored case; key identifies it for the distinct count"""
        self.evaluations += 1
        if nontrivial:
            h = hashlib.blake2b(repr(key).encode(), digest_size=8).hexdigest()
            self.nontrivial.add(h)

    def sample(self, obj, limit=6):
        if len(self.samples) < limit:
            self.samples.append(obj)

    def disagree(self, what, inp, model, impl):
        self.disagreements.append({"what": what, "input": inp, "model": model, "impl": impl})

    def violate(self, what, inp, expected=None, observed=None, **extra):
        self.violations.append({"what": what, "input": inp, "expected": expected, "observed": observed, **extra})

    def time_left(self):
        if self.deadline is None:
            return 1e9
        return self.deadline - time.time()


def load_known():
    p = ROOT / "known_findings.json"
    if not p.exists():
        return {"known": [], "fixed": []}
    return json.loads(p.read_text())


def jsonable(x):
    try:
        import numpy as np
    except Exception:
        np = None
    if isinstance(x, dict):
        return {str(k): jsonable(v) for k, v in x.items()}
    if isinstance(x, (list, tuple, set)):
        return [jsonable(v) for v in x]
    if np is not None:
        if isinstance(x, np.ndarray):
            return jsonable(x.tolist())
        if isinstance(x, np.generic):
            return jsonable(x.item())
    if isinstance(x, bytes):
        return x.hex()
    if isinstance(x, float):
        if x != x or x in (float("inf"), float("-inf")):
            return repr(x)
        return x
    if isinstance(x, (str, int, bool)) or x is None:
        return x
    if isinstance(x, pathlib.PurePath):
        return str(x)
    return repr(x)


def write_replay(ctx, kind, payload):
    REPLAYS.mkdir(exist_ok=True)
    n = len(list(REPLAYS.glob(f"{ctx.prop}-*.json")))
    p = REPLAYS / f"{ctx.prop}-{ctx.tier}-{ctx.seed}-{n}.json"
    payload = {"property": ctx.prop, "kind": kind, "seed": ctx.seed, "tier": ctx.tier, **payload,
               "replay_cmd": f"./check {ctx.prop} --replay {p.relative_to(ROOT)}"}
    p.write_text(json.dumps(jsonable(payload), indent=1))
    return p.relative_to(ROOT)


def write_evidence(ctx, level, checker_cmd, extra_cov=None, violations=0):
    EVIDENCE.mkdir(exist_ok=True)
    cov = {
        "obligations": len(ctx.obligations),
        "discharged": len(ctx.discharged),
        "checker_cmd": checker_cmd,
        "trusted_base": TRUSTED_BASE,
        "evaluations": ctx.evaluations,
        "distinct_nontrivial": len(ctx.nontrivial),
        "rule": ctx.notes.get("rule", ""),
        "samples": jsonable(ctx.samples) or [{"obligation": o} for o in ctx.obligations[:3]],
        "traces_validated_against_impl": ctx.traces,
        "theorems": ctx.obligations,
        "axioms": ctx.notes.get("axioms", {}),
        "counters": ctx.counters,
        "model_impl_disagreements": len(ctx.disagreements),
        "known_findings_reproduced": [k for k, _ in ctx.known_hits],
        "broken_obligations": ctx.broken,
    }
    if extra_cov:
        cov.update(extra_cov)
    ev = {
        "property_id": ctx.prop,
        "tier": ctx.tier,
        "seed": ctx.seed,
        "level": level,
        "coverage": cov,
        "assumptions": ctx.assumptions,
        "wall_s": round(time.time() - ctx.t0, 2),
        "violations": violations,
    }
    p = EVIDENCE / f"{ctx.prop}.json"
    tmp = p.with_suffix(".json.tmp")
    tmp.write_text(json.dumps(jsonable(ev), indent=1))
    os.replace(tmp, p)
    return p


def zarr_like(shape, chunks):
    """a real (in-memory, lazily allocated) zarr array of the given geometry: stand-in objects would turn any harmless
    use of another zarr attribute by the code under test into a harness failure"""
    import zarr
    return zarr.empty(shape=tuple(shape), chunks=tuple(chunks), dtype="i1", store=zarr.MemoryStore() if hasattr(zarr, "MemoryStore") else None)
