"""C10 — generated schemas always fit the data; user schemas are honoured exactly."""
import io
import json
import pathlib
import shutil

import numpy as np

import common
import convlib
import vcfgen
import vczspec

ID = "C10"
LEAN_MODULES = ["B2Z.Props.C10"]
THEOREMS = [
    "B2Z.Schema.C10_min_int_dtype", "B2Z.Schema.C10_cast_id", "B2Z.Schema.C10_generated_fits", "B2Z.Schema.C10_all_missing_fits",
    "B2Z.Schema.C10_widen_preserves", "B2Z.Schema.C10_no_silent_truncation", "B2Z.Schema.C10_drop_optional",
    "B2Z.Schema.C10_dtype_table", "B2Z.Schema.C10_sentinel_constants", "B2Z.SchemaJson.C10_json_roundtrip",
    "B2Z.SchemaJson.C10_arrayspec_roundtrip", "B2Z.SchemaJson.C10_version_mismatch_rejected", "B2Z.SchemaJson.C10_version_constant",
]
GEN_DEPENDS = ["Dtypes.", "Constants.", "Reserved."]
ASSUMPTIONS = [
    "numpy astype between integer dtypes wraps (modelled by `wrap`); assigning a longer vector into a buffer row raises (modelled by `none`)",
    "the JSON layer is modelled on an abstract JSON tree with numeric compressor settings; json.dumps/loads themselves are trusted; the real round trip is checked directly on every generated schema",
    "the summary bounds every stored value (C08_summary_bounds) — this is what makes the generated dtype fit",
]
RULE = ("generated rich VCFs with integer edge values (+-2^7, +-2^15, 2^31-1, -2^31+8); mkschema vs model; the integer row encoder vs "
        "the real sanitise functions on a grid of dtypes / widths / values; encodes with edited schemas: random subsets of optional "
        "arrays dropped, every widening, compressor and chunk edits, wrong format version; non-trivial = an edited schema or an "
        "encoder case with sentinels or out-of-range values")
LEVEL_TEXT = ("Lean: min_int_dtype returns the first dtype containing the observed bounds (C10_min_int_dtype); with that dtype and the "
              "observed inner dimension every stored value encodes to the specification row — no clipping, wrapping or truncation "
              "(C10_generated_fits, C10_all_missing_fits, C10_cast_id), longer values raise (C10_no_silent_truncation), widening "
              "changes no value (C10_widen_preserves), arrays are encoded independently so dropping some leaves the rest "
              "(C10_drop_optional), the schema survives the JSON round trip and a wrong version is rejected (C10_json_*), constants "
              "and the dtype table are those regenerated from the source. Tied to the code by comparing the real sanitise "
              "functions with the row-encoder model, mkschema with the schema model, and by encoding with edited schemas and "
              "reading dtype/chunks/compressor/values back.")
LEVEL_NOTE = "Trusted: Lean kernel + standard axioms; numpy cast semantics modelled (validated by correspondence); JSON library trusted."
TECHNIQUE = "Lean 4 theorems over dtype-choice / row-encoder / JSON models + extractor-bridged tables + differential runs with edited schemas"

VCF_MISSING, VCF_FILL = -(2**31), -(2**31) + 1


def encoder_grid(ctx):
    """real sanitise_value_int_1d / int_scalar vs Model.Schema.intRow"""
    from bio2zarr.vcf2zarr import icf
    rng = ctx.rng
    reqs, reals, inps = [], [], []
    pool = [0, 1, -1, -2, 127, 128, -128, -129, 32767, 32768, -32769, 2**31 - 1, -(2**31) + 8, VCF_MISSING, VCF_FILL, 70000, -70000]
    for _ in range(600 if ctx.thorough else 200):
        dt = rng.choice(["i1", "i2", "i4", "i8"])
        w = rng.choice([1, 2, 3, 5])
        n = rng.choice([0, 1, 1, 2, 3, 5, 6]) if rng.random() < 0.9 else None
        val = None if n is None else [rng.choice(pool) if rng.random() < 0.5 else rng.randrange(-100, 100) for _ in range(n)]
        buff = np.full((2, w), 99, dtype=dt)
        try:
            if val is None:
                icf.sanitise_value_int_1d(buff, 0, None)
            elif n == 0:
                continue
            else:
                icf.sanitise_value_int_1d(buff, 0, np.array(val, dtype=np.int32 if all(-(2**31) <= x < 2**31 for x in val) else np.int64))
            real = [int(x) for x in buff[0]]
        except Exception:  # noqa: BLE001
            real = "error"
        reqs.append({"op": "schema.introw", "dtype": dt, "w": w, "value": val})
        reals.append(real)
        inps.append({"dtype": dt, "width": w, "value": val})
    models = ctx.driver.ask_many(reqs) if ctx.driver_ok else [None] * len(reqs)
    for inp, real, m in zip(inps, reals, models):
        v = inp["value"]
        nontrivial = v is not None and any(x in (VCF_MISSING, VCF_FILL) or abs(x) > 127 for x in v)
        ctx.case(("enc", inp["dtype"], inp["width"], tuple(v) if v else None), nontrivial)
        ctx.count("encoder_grid")
        if m is not None and m != real:
            ctx.disagree("sanitise_value_int_1d differs from Model.Schema.intRow", inp, m, real)
        # statement: when the value fits dtype and width, the row is the value with sentinels mapped and fill padded
        if v is not None and len(v) <= inp["width"]:
            info = np.iinfo(inp["dtype"])
            mapped = [-1 if x == VCF_MISSING else -2 if x == VCF_FILL else x for x in v]
            if all(info.min <= x <= info.max for x in mapped):
                want = mapped + [-2] * (inp["width"] - len(v))
                if real != want:
                    ctx.violate(f"encoding {v} into {inp['dtype']}[{inp['width']}] gave {real}, expected {want}", inp, want, real)
        if v is not None and len(v) > inp["width"] and real != "error":
            ctx.violate(f"value {v} longer than the inner dimension {inp['width']} was silently truncated to {real}", inp, "error", real)


def edited_schema_cases(ctx, work):
    from bio2zarr import vcf2zarr
    from bio2zarr.vcf2zarr import vcz
    import zarr
    rng = ctx.rng
    for k in range(10 if ctx.thorough else 3):
        # k == 0: several hundred contigs with records on late ones (contig indexes beyond one byte, few filters)
        spec = vcfgen.rich_file(rng, nrec=30, ploidies=(2,), ncontig=rng.choice([200, 300])) if k == 0 else \
            vcfgen.rich_file(rng, nrec=rng.choice([4, 12, 30]), ploidies=(2,))
        if not spec["records"]:
            continue
        if k == 1:
            # INFO keys spelled like the fixed columns (POS, QUAL, rlen are legal INFO ids): they must not be mistaken for them
            for fid, typ in (("POS", "Integer"), ("QUAL", "Integer"), ("rlen", "Integer")):
                spec["infos"].append({"id": fid, "number": "1", "type": typ})
                for r in spec["records"]:
                    if rng.random() < 0.7:
                        r["info"][fid] = [rng.randrange(0, 9)]
            ctx.count("inputs_info_named_like_fixed_columns")
            # a field declared Number=1 of which one record nevertheless carries two values (htslib accepts it): the schema
            # must be sized from what the store holds, not from the declaration
            for fid, typ, vals in (("ONE", "Integer", [7, 300]), ("ONS", "String", ["x", "y"])):
                spec["infos"].append({"id": fid, "number": "1", "type": typ})
                for i_, r in enumerate(spec["records"]):
                    r["info"][fid] = vals if i_ == len(spec["records"]) // 2 else vals[:1]
        ctx.count("inputs_many_contigs" if k == 0 else "inputs")
        path = vcfgen.materialise(spec, pathlib.Path(work) / f"e{k}", "vcf.gz+tbi")
        icf = pathlib.Path(work) / f"e{k}.icf"
        convlib.explode(icf, [path])
        buf = io.StringIO()
        vcf2zarr.mkschema(icf, buf)
        text = buf.getvalue()
        schema = json.loads(text)
        inp0 = {"vcf_spec": spec}
        # JSON round trip, directly
        s1 = vcz.VcfZarrSchema.fromjson(text)
        s2 = vcz.VcfZarrSchema.fromjson(s1.asjson())
        ctx.case(("roundtrip", k, len(text)), True)
        if s1 != s2 or json.loads(s1.asjson()) != schema:
            ctx.violate("schema does not survive the JSON round trip", inp0, "equal", "differs")
        if ctx.driver_ok:
            # the Lean model of asdict/fromdict on the real document: ofJ then toJ must reproduce it, and reject another version
            m = ctx.driver.ask({"op": "schema.json_roundtrip", "doc": schema, "expected_version": schema["format_version"]})
            ctx.count("json_model_roundtrip")
            if m.get("doc") != schema:
                bad = "error" if "error" in m else next((k for k in schema if m["doc"].get(k) != schema[k]), "?")
                ctx.disagree(f"Model.SchemaJson round trip of the real schema document differs at '{bad}'", inp0, str(m)[:300], "document")
            m2 = ctx.driver.ask({"op": "schema.json_roundtrip", "doc": schema, "expected_version": "9.9"})
            if "error" not in m2:
                ctx.disagree("Model.SchemaJson accepts a schema of another format version", inp0, m2.get("n_fields"), "ValueError")
        ref = pathlib.Path(work) / f"e{k}_ref.zarr"
        shutil.rmtree(ref, ignore_errors=True)
        try:
            vcf2zarr.encode(icf, ref, worker_processes=0)
        except Exception as e:  # noqa: BLE001
            ctx.violate(f"encoding with the generated schema failed (the schema does not fit the store): {type(e).__name__}: {str(e)[:200]}",
                        inp0, "store", repr(e)[:200])
            continue
        ref_store, _ = vczspec.read_store(ref)
        # generated schema fits: encode result equals the oracle (no clipping) — values with edges
        exp = vczspec.expected_store(spec)
        for name, what, e, g in vczspec.compare_store(exp, ref_store)[:2]:
            ctx.violate(f"encoding with the generated schema changed data: {name}: {what}", {**inp0, "array": name}, e, g)
        for rep in range(4 if ctx.thorough else 2):
            ed = json.loads(text)
            edits = []
            optional = [f["name"] for f in ed["fields"] if f["vcf_field"] and f["vcf_field"].split("/")[0] in ("INFO", "FORMAT")]
            drop = set(rng.sample(optional, rng.randrange(0, len(optional) + 1))) if optional else set()
            if rng.random() < 0.3:
                drop |= {n for n in ("call_genotype", "call_genotype_mask", "call_genotype_phased") if any(f["name"] == n for f in ed["fields"])}
            ed["fields"] = [f for f in ed["fields"] if f["name"] not in drop]
            for f in ed["fields"]:
                if f["dtype"] in ("i1", "i2") and rng.random() < 0.5:
                    new = rng.choice({"i1": ["i2", "i4", "i8"], "i2": ["i4", "i8"]}[f["dtype"]])
                    edits.append((f["name"], "dtype", new))
                    f["dtype"] = new
                if rng.random() < 0.3:
                    f["compressor"] = {"id": "blosc", "cname": rng.choice(["lz4", "zstd", "zlib"]), "clevel": rng.choice([1, 5, 9]),
                                       "shuffle": rng.choice([0, 1, 2]), "blocksize": 0}
                    edits.append((f["name"], "compressor", f["compressor"]))
            if rng.random() < 0.6:
                # chunking is requested coherently, the way `mkschema -l/-w` writes it: one variants / samples chunk size
                vcs, scs = rng.choice([1, 2, 5, 1000]), rng.choice([1, 2, 1000])
                ed["variants_chunk_size"], ed["samples_chunk_size"] = vcs, scs
                for f in ed["fields"]:
                    f["chunks"][0] = vcs
                    if len(f["dimensions"]) > 1 and f["dimensions"][1] == "samples":
                        f["chunks"][1] = scs
                edits.append(("*", "chunks", [vcs, scs]))
            if rng.random() < 0.6:
                # a finer variants (and samples) chunk for single INFO/FORMAT arrays, the top-level sizes untouched.  Only
                # divisors of the top-level size: partitions are aligned to it.  (The fixed-field groups and the genotype
                # arrays advance in lockstep and are left alone.)
                top = ed["variants_chunk_size"]
                divs = [d for d in (1, 2, 3, 4, 5, 8, 10) if top % d == 0 and d != top]
                for f in ed["fields"]:
                    vf = f["vcf_field"] or ""
                    if divs and vf.split("/")[0] in ("INFO", "FORMAT") and vf != "FORMAT/GT" and rng.random() < 0.5:
                        f["chunks"][0] = rng.choice(divs)
                        if len(f["dimensions"]) > 1 and f["dimensions"][1] == "samples" and rng.random() < 0.5:
                            f["chunks"][1] = rng.choice([1, 2])
                        edits.append((f["name"], "chunks", list(f["chunks"])))
                        ctx.count("per_array_chunk_edits")
            sp = pathlib.Path(work) / f"e{k}_{rep}.schema.json"
            sp.write_text(json.dumps(ed))
            out = pathlib.Path(work) / f"e{k}_{rep}.zarr"
            shutil.rmtree(out, ignore_errors=True)
            inp = {**inp0, "dropped": sorted(drop), "edits": edits}
            ctx.case(("edit", k, rep, repr(sorted(drop)), repr(edits)), True)
            ctx.count("edited_schema")
            try:
                vcf2zarr.encode(icf, out, schema_path=sp, worker_processes=0)
            except Exception as e:  # noqa: BLE001
                ctx.violate(f"encode with an edited schema failed: {type(e).__name__}: {str(e)[:200]}", inp, "store", repr(e)[:200])
                continue
            got, _ = vczspec.read_store(out)
            root = zarr.open(str(out), mode="r")
            for name in drop:
                if name in got:
                    ctx.violate(f"array {name} was removed from the schema but is present in the store", inp, "absent", "present")
            for f in ed["fields"]:
                a = root[f["name"]] if f["name"] in root else None
                if a is None:
                    ctx.violate(f"array {f['name']} listed in the schema is missing", inp, "present", "absent")
                    continue
                dt = a.dtype.str.lstrip("<|=")
                dt = {"b1": "bool"}.get(dt, dt)
                if dt != f["dtype"] and not (f["dtype"] == "O" and dt == "O"):
                    ctx.violate(f"{f['name']}: dtype {dt} instead of the requested {f['dtype']}", inp, f["dtype"], dt)
                if list(a.chunks) != f["chunks"]:
                    ctx.violate(f"{f['name']}: chunks {list(a.chunks)} instead of the requested {f['chunks']}", inp, f["chunks"], list(a.chunks))
                cfg = a.compressor.get_config() if a.compressor else None
                if cfg != f["compressor"]:
                    ctx.violate(f"{f['name']}: compressor {cfg} instead of the requested {f['compressor']}", inp, f["compressor"], cfg)
                r = ref_store[f["name"]]
                if got[f["name"]]["data"] != r["data"]:
                    d = vczspec.first_diff(r["data"], got[f["name"]]["data"])
                    ctx.violate(f"{f['name']}: retained values changed under the edited schema at {d[0] if d else '?'}", inp,
                                d[1] if d else None, d[2] if d else None)
            ctx.traces += 1
            shutil.rmtree(out, ignore_errors=True)
        # wrong format version
        bad = json.loads(text)
        bad["format_version"] = "0.0-wrong"
        sp = pathlib.Path(work) / f"e{k}_bad.schema.json"
        sp.write_text(json.dumps(bad))
        out = pathlib.Path(work) / f"e{k}_bad.zarr"
        ctx.case(("badversion", k), True)
        try:
            vcf2zarr.encode(icf, out, schema_path=sp, worker_processes=0)
            ctx.violate("a schema with another format version was accepted", inp0, "ValueError", "accepted")
        except ValueError:
            pass
        except Exception as e:  # noqa: BLE001
            ctx.violate(f"schema version mismatch raised {type(e).__name__} instead of ValueError", inp0, "ValueError", type(e).__name__)
        if (out / ".zmetadata").exists():
            ctx.violate("rejected schema still produced a finished-looking store", inp0, "no store", "store")
        ctx.sample({"records": len(spec["records"]), "optional_arrays": len(optional), "schema_fields": len(schema["fields"])}, limit=3)
        shutil.rmtree(ref, ignore_errors=True)
        shutil.rmtree(icf, ignore_errors=True)


def dtype_choice_grid(ctx):
    from bio2zarr import core
    cases = [(0, 0), (-1, 1), (-128, 127), (-129, 127), (-128, 128), (0, 32767), (0, 32768), (-32769, 0), (0, 2**31 - 1), (0, 2**31),
             (-(2**31), 0), (-(2**31) - 1, 0), (5, 3), (0, 2**63 - 1), (0, 2**63)]
    cases += [(ctx.rng.randrange(-2**40, 0), ctx.rng.randrange(0, 2**40)) for _ in range(30)]
    for lo, hi in cases:
        try:
            real = core.min_int_dtype(lo, hi)
        except (ValueError, OverflowError):
            real = "error"
        want = "error"
        if lo <= hi:
            for dt in ("i1", "i2", "i4", "i8"):
                info = np.iinfo(dt)
                if info.min <= lo and hi <= info.max:
                    want = dt
                    break
        ctx.case(("dtype", lo, hi), True)
        if real != want:
            ctx.violate(f"min_int_dtype({lo}, {hi}) = {real}, the smallest fitting dtype is {want}", {"lo": lo, "hi": hi}, want, real)


def run(ctx):
    work = common.scratch_dir("c10-")
    try:
        dtype_choice_grid(ctx)
        encoder_grid(ctx)
        edited_schema_cases(ctx, work)
        from props import c02
        c02.schema_correspondence(ctx, work)
    finally:
        shutil.rmtree(work, ignore_errors=True)


def replay(ctx, payload):
    v = payload.get("violation") or (payload.get("disagreements") or [{}])[0]
    i = v["input"]
    if "dtype" in i and "width" in i:
        print("encoder case:", i)
    print("replay: rerun `./check C10` with VERIF_SEED =", payload.get("seed"), "(schema edits are drawn from the PRNG)")
