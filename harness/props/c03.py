"""C03 — output is invariant under how the work is decomposed, scheduled or split."""
import copy
import json
import os
import pathlib
import shutil

import common
import convlib
import vcfgen
import vczspec

ID = "C03"
LEAN_MODULES = ["B2Z.Props.C03"]
THEOREMS = [
    "B2Z.Pipe.C03_order_invariant", "B2Z.Pipe.C03_decomposition_invariant", "B2Z.Pipe.C03_chunks_only_change_grid",
    "B2Z.Pipe.C03_config_invariant", "B2Z.Pipe.C03_max_chunks_prefix", "B2Z.Pipe.C01_pipeline_refines_spec",
    "B2Z.Checks.C03_file_order_invariant", "B2Z.Split.explodeOrder_meta", "B2Z.Split.C03_split_files_any_order", "B2Z.Pipe.C03_cap_is_prefix",
]
GEN_DEPENDS = ["Checks."]
ASSUMPTIONS = [
    "PARTIAL: byte determinism of Blosc/zarr and the OS scheduler are outside the model: byte identity of repeated runs is observed, not proved",
    "records enter the pipeline in header-contig order then file order (partition sort key; explode tiling from C04)",
    "concurrent partition tasks do not interfere (C07); worker pools run every task (C14)",
]
RULE = ("one generated rich VCF per case, converted by a synchronous 1-partition reference and by variants: explode partitions "
        "1..16, column chunk sizes from a few hundred bytes to MiB, encode partitions 1..8 in shuffled order through the distributed "
        "commands, worker processes 0..4, Zarr chunk sizes, chunk cap, the input split into several files passed in random order; "
        "every variant is compared with the reference (values + dtypes + attributes, and chunk bytes where the grid is the same)")
LEVEL_TEXT = ("Lean: corollaries of the pipeline refinement theorem — the stored rows do not depend on the explode tiling, the flush "
              "schedule, the number of encode partitions or their execution order (C03_order_invariant, "
              "C03_decomposition_invariant), chunk sizes change only the grid (C03_chunks_only_change_grid) and a chunk cap "
              "yields the prefix (C03_max_chunks_prefix); the partition order does not depend on the order files are passed "
              "(C03_file_order_invariant) and a file cut into non-overlapping pieces passed in any permutation yields the "
              "unsplit record list (Split.C03_split_files_any_order). PARTIAL: byte determinism and OS scheduling are observed only. Tied to "
              "the code by real runs of every decomposition against one synchronous reference, comparing values, metadata and "
              "chunk bytes, including one-shot vs distributed commands and split inputs in any order.")
LEVEL_NOTE = "Trusted: Lean kernel + standard axioms; Blosc/zarr byte determinism and the scheduler observed only; relies on C04, C07, C14."
TECHNIQUE = "Lean 4 corollaries of the pipeline refinement theorem + differential runs of real decompositions against a synchronous reference"


def compare(ctx, ref, ref_hashes, out, inp, what, same_grid=True, prefix=None, ignore_header=False):
    got, attrs = vczspec.read_store(out)
    if ignore_header:      # the pieces carry their own header lines: which text is kept is compared between orders instead
        ref = (ref[0], {k: v for k, v in ref[1].items() if k != "vcf_header"})
        attrs = {k: v for k, v in attrs.items() if k != "vcf_header"}
        ref_hashes = None
    exp = ref[0]
    if not same_grid and prefix is None:
        # the region index summarises per variant chunk: it legitimately follows the chunk grid
        exp = {k: v for k, v in exp.items() if k != "region_index"}
        got = {k: v for k, v in got.items() if k != "region_index"}
    if prefix is not None:
        exp = {}
        for name, a in ref[0].items():
            if a["dims"] and a["dims"][0] == "variants":
                b = dict(a)
                b["data"] = a["data"][:prefix]
                b["shape"] = [prefix] + a["shape"][1:]
                exp[name] = b
            elif name != "region_index":
                exp[name] = a
        got = {k: v for k, v in got.items() if k != "region_index"}
    diffs = vczspec.compare_store(exp, got, check_dims=True, ignore=())
    for name, w, e, g in diffs[:2]:
        ctx.violate(f"{what}: array {name} differs from the 1-partition synchronous reference: {w}: {str(g)[:100]} vs {str(e)[:100]}",
                    {**inp, "array": name}, e, g)
    if prefix is None and attrs != ref[1]:
        ctx.violate(f"{what}: root attributes differ from the reference", inp, str(ref[1])[:200], str(attrs)[:200])
    if same_grid and prefix is None and not diffs and ref_hashes is not None:
        h = convlib.file_hashes(out)
        if h != ref_hashes:
            bad = sorted(k for k in set(h) | set(ref_hashes) if h.get(k) != ref_hashes.get(k))[:5]
            ctx.violate(f"{what}: store bytes differ from the reference in {bad}", inp, "identical bytes", bad)
    ctx.traces += 1


def split_spec(spec, rng, nfiles):
    """cut the file-ordered records into contiguous pieces whose position ranges are disjoint per contig"""
    recs = spec["records"]
    cuts = [i for i in range(1, len(recs)) if (recs[i - 1]["contig"], recs[i - 1]["pos"]) < (recs[i]["contig"], recs[i]["pos"])]
    if not cuts:
        return None
    # prefer cut points where the record before the cut spans (multi-base REF / END=) up to or beyond the next record's
    # position: the pieces' POS ranges are disjoint, their reference spans are not
    spanning = [i for i in cuts if recs[i - 1]["contig"] == recs[i]["contig"]
                and recs[i - 1]["pos"] + vcfgen.rlen_of(recs[i - 1]) - 1 >= recs[i]["pos"]]
    k = min(len(cuts), nfiles - 1)
    first = rng.sample(spanning, min(len(spanning), max(1, k // 2))) if spanning else []
    rest = [c for c in cuts if c not in first]
    chosen = sorted(first + rng.sample(rest, min(len(rest), k - len(first))))
    pieces, a = [], 0
    for c in chosen + [len(recs)]:
        pieces.append(recs[a:c])
        a = c
    return pieces


def one_input(ctx, spec, work, tag):
    from bio2zarr import vcf2zarr
    rng = ctx.rng
    n = len(spec["records"])
    kind = rng.choice(["vcf.gz+tbi", "vcf.gz+csi"])
    path = vcfgen.materialise(spec, pathlib.Path(work) / tag, kind, block_size=rng.choice([300, 800, 0xFF00]))
    inp0 = {"vcf_spec": spec, "kind": kind}
    icf_ref = pathlib.Path(work) / f"{tag}_ref.icf"
    ref_path = pathlib.Path(work) / f"{tag}_ref.zarr"
    try:
        convlib.explode(icf_ref, [path], partitions=1, column_chunk_size=16)
        shutil.rmtree(ref_path, ignore_errors=True)
        vcf2zarr.encode(icf_ref, ref_path, worker_processes=0)
    except Exception as e:  # noqa: BLE001
        ctx.violate(f"reference conversion failed: {type(e).__name__}: {str(e)[:200]}", inp0, "store", repr(e)[:200])
        return
    ref = vczspec.read_store(ref_path)
    ref_hashes = convlib.file_hashes(ref_path)
    variants = []
    for _ in range(5 if ctx.thorough else 2):
        variants.append(("explode", {"partitions": rng.choice([2, 3, 5, 8, 16]), "column_chunk_size": rng.choice([0.0002, 0.001, 0.05, 16])}))
    for _ in range(4 if ctx.thorough else 2):
        variants.append(("dencode", {"partitions": rng.choice([1, 2, 3, 8])}))
    variants.append(("workers", {"workers": rng.choice([1, 2, 4]) if ctx.thorough else 2}))
    variants.append(("repeat", {}))
    variants.append(("chunks", {"variants_chunk_size": rng.choice([1, 2, 3, max(1, n // 2), n + 1]), "samples_chunk_size": rng.choice([1, 2, 7])}))
    variants.append(("cap", {"variants_chunk_size": rng.choice([1, 2, 3]), "max_variant_chunks": rng.choice([1, 2, 3])}))
    variants.append(("split", {"files": rng.choice([3, 4, 5])}))
    for what, opt in variants:
        out = pathlib.Path(work) / f"{tag}_{what}.zarr"
        icf = pathlib.Path(work) / f"{tag}_{what}.icf"
        inp = {**inp0, "variant": what, "options": opt}
        ctx.case((tag, what, repr(opt), repr(spec["records"])[:1500]), True)
        ctx.count(what)
        try:
            if what == "explode":
                convlib.explode(icf, [path], partitions=opt["partitions"], column_chunk_size=opt["column_chunk_size"], order=rng)
                shutil.rmtree(out, ignore_errors=True)
                vcf2zarr.encode(icf, out, worker_processes=0)
                compare(ctx, ref, ref_hashes, out, inp, f"explode with {opt}")
            elif what == "dencode":
                convlib.encode(icf_ref, out, partitions=opt["partitions"], order=rng)
                compare(ctx, ref, ref_hashes, out, inp, f"distributed encode with {opt}, shuffled partition order")
            elif what == "workers":
                shutil.rmtree(out, ignore_errors=True)
                vcf2zarr.convert([path], out, worker_processes=opt["workers"])
                compare(ctx, ref, ref_hashes, out, inp, f"convert with {opt['workers']} worker processes")
            elif what == "repeat":
                shutil.rmtree(out, ignore_errors=True)
                vcf2zarr.convert([path], out, worker_processes=0)
                compare(ctx, ref, ref_hashes, out, inp, "repeated one-shot conversion")
            elif what == "chunks":
                shutil.rmtree(out, ignore_errors=True)
                vcf2zarr.encode(icf_ref, out, worker_processes=0, **opt)
                compare(ctx, ref, ref_hashes, out, inp, f"chunk sizes {opt}", same_grid=False)
                got, _ = vczspec.read_store(out)
                for name, a in got.items():
                    if a["dims"] and a["dims"][0] == "variants" and a["chunks"][0] != opt["variants_chunk_size"]:
                        ctx.violate(f"chunk size option not applied to {name}: {a['chunks']}", inp, opt, a["chunks"])
            elif what == "cap":
                shutil.rmtree(out, ignore_errors=True)
                vcf2zarr.encode(icf_ref, out, worker_processes=0, **opt)
                k = min(n, opt["variants_chunk_size"] * opt["max_variant_chunks"])
                compare(ctx, ref, ref_hashes, out, inp, f"chunk cap {opt}", same_grid=False, prefix=k)
            elif what == "split":
                pieces = split_spec(spec, rng, opt["files"])
                if not pieces or len(pieces) < 2:
                    continue
                paths = []
                names = rng.sample(["9", "10", "11", "1", "2", "a", "B", "c", "07", "100"], len(pieces))
                own_headers = rng.random() < 0.85
                for i, recs in enumerate(pieces):
                    # file names must not encode the genomic order (results are sorted by path internally); like the pieces
                    # `bcftools view -r` cuts, each may carry a header line of its own (same parsed metadata, different text)
                    pspec = {**spec, "extra_header": spec.get("extra_header", []) + [f"##pieceCommand=view -r piece{i}"]} if own_headers else spec
                    paths.append(vcfgen.materialise(pspec, pathlib.Path(work) / f"{tag}_part{names[i]}", kind, records=recs,
                                                    block_size=rng.choice([300, 0xFF00])))
                inp_s = {**inp, "pieces": [len(p) for p in pieces], "own_header_lines": own_headers}
                # Model/Split: the store's record order for these pieces (each piece inside one contig: one sort key per piece)
                model_order = None
                if ctx.driver_ok and all(len({r["contig"] for r in recs}) == 1 for recs in pieces):
                    ids = {id(r): t for t, r in enumerate(spec["records"])}
                    mp = [[[r["contig"], r["pos"], ids[id(r)]] for r in recs] for recs in pieces]
                    rng.shuffle(mp)
                    tags = ctx.driver.ask({"op": "split.store", "pieces": mp})["tags"]
                    model_order = [(spec["records"][t]["contig"], spec["records"][t]["pos"]) for t in tags]
                    ctx.count("split_model_orders")
                seen = []
                for rnd in range(3):
                    order = list(paths)
                    rng.shuffle(order)
                    if rnd == 1:
                        order = order[::-1] if order[::-1] != seen[0][0] else order[1:] + order[:1]
                    shutil.rmtree(icf, ignore_errors=True)
                    if rnd == 1:      # the one-shot command with a real worker pool: scan results arrive in completion order
                        convlib.explode(icf, order, workers=2, column_chunk_size=16)
                    else:
                        convlib.explode(icf, order, partitions=rng.choice([len(paths), 2 * len(paths), 7]), column_chunk_size=16)
                    shutil.rmtree(out, ignore_errors=True)
                    vcf2zarr.encode(icf, out, worker_processes=0)
                    compare(ctx, ref, ref_hashes, out, inp_s, f"input split into {len(paths)} files passed in shuffled order",
                            ignore_header=own_headers)
                    if model_order is not None:
                        got_s = vczspec.read_store(out)[0]
                        real_order = list(zip(got_s["variant_contig"]["data"], got_s["variant_position"]["data"]))
                        if real_order != model_order:
                            ctx.disagree("record order of the store built from split files differs from Model.Split.storeRecords",
                                         inp_s, model_order[:10], real_order[:10])
                    seen.append((order, vczspec.read_store(out)[1], convlib.file_hashes(out)))
                    ctx.count("split_orders")
                for order, attrs, hashes in seen[1:]:
                    if attrs != seen[0][1] or hashes != seen[0][2]:
                        bad = sorted(k for k in set(hashes) | set(seen[0][2]) if hashes.get(k) != seen[0][2].get(k))[:4]
                        ka = sorted(k for k in set(attrs) | set(seen[0][1]) if attrs.get(k) != seen[0][1].get(k))
                        ctx.violate(f"the same {len(paths)} files passed in two orders ({[p.name for p in seen[0][0]]} / "
                                    f"{[p.name for p in order]}) give different stores: root attributes {ka}, files {bad}",
                                    inp_s, "identical stores", {"attrs": ka, "files": bad})
                        break
        except Exception as e:  # noqa: BLE001
            ctx.violate(f"variant {what} {opt} failed while the reference succeeded: {type(e).__name__}: {str(e)[:200]}", inp,
                        "same store as the reference", repr(e)[:200])
        shutil.rmtree(out, ignore_errors=True)
        shutil.rmtree(icf, ignore_errors=True)
    ctx.sample({"records": n, "kind": kind, "variants": [f"{w}:{o}" for w, o in variants][:6]}, limit=3)
    shutil.rmtree(ref_path, ignore_errors=True)
    shutil.rmtree(icf_ref, ignore_errors=True)


def history_case(ctx, work, k):
    """the store must not depend on what the process converted before: a file converted after other (wider) files in this
    process equals the same file converted by a fresh interpreter"""
    import subprocess
    import sys
    from bio2zarr import vcf2zarr
    from props import c17
    rng = ctx.rng
    la = k % 2 == 0
    if la:
        # local alleles: first a file with many alleles and large likelihoods, then a narrow one
        while True:
            a = c17.gen_spec(rng, big=True)
            if any(len(r["alt"]) >= 3 and "PL" in r["format"] and r["_ploidy"] == 2 for r in a["records"]):
                break
        while True:
            b = c17.gen_spec(rng)
            if all(r["_ploidy"] == 2 for r in b["records"]):
                break
        for r in b["records"]:
            r["alt"] = r["alt"][:1]
            for s_ in r["samples"]:
                s_["_alleles"] = [None if x is None else min(x, len(r["alt"])) for x in s_["_alleles"]]
                s_["GT"] = "/".join("." if x is None else str(x) for x in s_["_alleles"])
                if s_.get("PL") is not None:
                    g = (len(r["alt"]) + 1) * (len(r["alt"]) + 2) // 2
                    s_["PL"] = [None if v is None else v % 100 for v in s_["PL"][:g]]
        opts = {"local_alleles": True}
    else:
        a = vcfgen.rich_file(rng, nrec=30, nsamples=3, ploidies=(2,), max_alt=4)
        b = vcfgen.rich_file(rng, nrec=6, nsamples=3, ploidies=(2,), max_alt=1, small_ints=True)
        opts = {}
    if not a["records"] or not b["records"]:
        return
    pa = vcfgen.materialise(a, pathlib.Path(work) / f"h{k}a", "vcf.gz+tbi")
    pb = vcfgen.materialise(b, pathlib.Path(work) / f"h{k}b", "vcf.gz+tbi")
    inp = {"first": {"vcf_spec": a}, "vcf_spec": b, "options": opts}
    ctx.case(("history", k, la, repr(b["records"])[:500]), True)
    ctx.count("history_cases_local_alleles" if la else "history_cases")
    out_a, out_b, out_f = (pathlib.Path(work) / f"h{k}{x}.zarr" for x in "abf")
    try:
        vcf2zarr.convert([pa], out_a, worker_processes=0, **opts)
        vcf2zarr.convert([pb], out_b, worker_processes=0, **opts)
        env = dict(os.environ)
        env["PYTHONPATH"] = f"{common.REPO}:{common.ROOT / 'harness'}"
        p = subprocess.run([sys.executable, str(common.ROOT / "harness" / "c03_fresh.py"), str(pb), str(out_f), json.dumps(opts)],
                           env=env, capture_output=True, text=True, timeout=300)
        if p.returncode != 0:
            ctx.violate(f"conversion in a fresh interpreter failed while the in-process one succeeded: {p.stderr[-200:]}", inp, "store", p.stderr[-200:])
            return
    except Exception as e:  # noqa: BLE001
        ctx.violate(f"conversion failed: {type(e).__name__}: {str(e)[:200]}", inp, "store", repr(e)[:200])
        return
    ref = vczspec.read_store(out_f)
    compare(ctx, ref, convlib.file_hashes(out_f), out_b, inp, "file converted after another one in the same process vs a fresh interpreter")
    for p_ in (out_a, out_b, out_f):
        shutil.rmtree(p_, ignore_errors=True)


def run(ctx):
    work = common.scratch_dir("c03-")
    try:
        n = 14 if ctx.thorough else 2
        if ctx.search_mode:
            n *= 2
        for k in range(n):
            spec = vcfgen.rich_file(ctx.rng, nrec=ctx.rng.choice([6, 15, 40, 90]), ploidies=(2,) if k % 2 else (1, 2),
                                    shuffle_contig_blocks=(k % 2 == 0), ncontig=(ctx.rng.choice([2, 3]) if k % 2 == 0 else None))
            if len(spec["records"]) >= 2:
                one_input(ctx, spec, work, f"i{k}")
            for p in pathlib.Path(work).glob(f"i{k}*"):
                if p.is_file():
                    p.unlink()
        for k in range(4 if ctx.thorough else 2):
            history_case(ctx, work, k)
    finally:
        shutil.rmtree(work, ignore_errors=True)


def replay(ctx, payload):
    v = payload.get("violation") or (payload.get("disagreements") or [{}])[0]
    work = common.scratch_dir("c03-")
    try:
        one_input(ctx, v["input"]["vcf_spec"], work, "replay")
    finally:
        shutil.rmtree(work, ignore_errors=True)
    print("replay:", f"{len(ctx.violations)} violation(s) (variant options are redrawn from VERIF_SEED)" if ctx.violations else "statement holds")
