"""C11 — work partitions are an exact, chunk-aligned cover of the records."""
import itertools
import types

import common

ID = "C11"
LEAN_MODULES = ["B2Z.Props.C11"]
THEOREMS = [
    "B2Z.C11_encode_partitions", "B2Z.C11_plink_slices", "B2Z.genPartitionsE_none_iff",
    "B2Z.C11_disjoint", "B2Z.C11_cover", "B2Z.C11_chunks_disjoint", "B2Z.chunkAlignedSlices_eq",
    "B2Z.C11_balanced", "B2Z.C11_balanced_antitone", "B2Z.C11_count_exact", "B2Z.C11_bridge_pieces", "B2Z.C11_bridge_encode", "B2Z.C11_bridge_slices",
]
GEN_DEPENDS = ["Partitions."]
ASSUMPTIONS = [
    "int(np.ceil(n / c)) is float division in the code: exact for n < 2^53 (pen-and-paper; the theorem is over Nat)",
    "np.array_split(np.arange(k), s) boundaries = i*(k//s) + min(i, k%s): validated by the correspondence on every run",
]
RULE = ("box enumeration of (n, c, p, cap) plus random large cases from the seeded PRNG; a case is non-trivial when "
        "more than one partition results or a cap truncates; distinct = distinct (fn, n, c, p, cap)")


def impl_encode(n, c, p, m):
    from bio2zarr.vcf2zarr import vcz
    try:
        ps = vcz.VcfZarrPartition.generate_partitions(n, c, p, max_chunks=m)
    except (ValueError, ZeroDivisionError):
        return "error"
    return [[int(x.start), int(x.stop)] for x in ps]


def impl_slices(n, c, p, m):
    from bio2zarr import core
    try:
        # the PLINK path passes the 3-D genotype mask: vary the geometry of the other axes, they must not matter
        extra = [(), (3, 2), (7, 2)][(n + c + p) % 3] if n >= 1 and c >= 1 else ()
        z = common.zarr_like((n,) + extra, (c,) + tuple(max(1, e - 1) for e in extra))
    except Exception:  # noqa: BLE001  (zarr refuses the geometry: n = 0 or c = 0)
        z = types.SimpleNamespace(chunks=(c,), shape=(n,), nchunks=(-(-n // c) if c else 0))
    try:
        ps = core.chunk_aligned_slices(z, p, max_chunks=m)
    except (ValueError, ZeroDivisionError):
        return "error"
    return [[int(a), int(b)] for a, b in ps]


def statement_fails(n, c, p, m, ps):
    """the property's own words, on the implementation's output; returns a reason or None"""
    if n < 1 or c < 1 or p < 1 or (m is not None and m < 1):
        return None if ps == "error" else None   # outside the quantifier (no records / no partitions)
    if ps == "error":
        return "raised on a valid request"
    k = -(-n // c)
    if m is not None:
        k = min(k, m)
    total = min(k * c, n)
    if not ps:
        return "empty partition list"
    if len(ps) > p:
        return f"{len(ps)} partitions > requested {p}"
    if ps[0][0] != 0:
        return "first partition does not start at 0"
    if ps[-1][1] != total:
        return f"last stop {ps[-1][1]} != records to write {total}"
    for i, (a, b) in enumerate(ps):
        if not a < b:
            return f"partition {i} empty"
        if a % c:
            return f"partition {i} start {a} not chunk aligned"
        if i and ps[i - 1][1] != a:
            return f"gap/overlap between partitions {i-1} and {i}"
    return None


def cases(ctx):
    r = ctx.rng
    if ctx.thorough or ctx.search_mode:
        box = itertools.product(range(0, 49), range(1, 17), range(0, 17), [None, 0, 1, 2, 3, 5, 8])
    else:
        box = itertools.product(range(0, 33), range(1, 11), range(0, 11), [None, 1, 2, 5])
    for n, c, p, m in box:
        yield n, c, p, m
    for _ in range(4000 if ctx.thorough else 1500):
        c = r.choice([1, 2, 3, 7, 10, 64, 1000, 10_000, r.randrange(1, 10**6)])
        # the real code allocates np.arange(num_chunks): keep the chunk count below 2e5
        n = r.choice([r.randrange(1, 10**4), max(1, c * r.randrange(1, 200_000) - r.randrange(0, c)),
                      c * r.randrange(1, 5000), c * r.randrange(1, 5000) + 1])
        p = r.choice([1, 2, 3, r.randrange(1, 200), r.randrange(1, 600)])
        m = r.choice([None, None, 1, r.randrange(1, 50), r.randrange(1, 10**6)])
        yield n, c, p, m


def run(ctx):
    cs = list(cases(ctx))
    reqs = []
    for n, c, p, m in cs:
        for op in ("part.encode", "part.slices"):
            q = {"op": op, "n": n, "c": c, "p": p}
            if m is not None:
                q["m"] = m
            reqs.append(q)
    model = ctx.driver.ask_many(reqs) if ctx.driver_ok else [None] * len(reqs)
    k = 0
    for n, c, p, m in cs:
        for fn, impl in (("encode", impl_encode), ("slices", impl_slices)):
            try:
                got = impl(n, c, p, m)
            except Exception as e:  # noqa: BLE001
                got = f"exception {type(e).__name__}: {e}"
            exp = model[k]
            k += 1
            nontrivial = isinstance(got, list) and (len(got) > 1 or m is not None)
            ctx.case((fn, n, c, p, m), nontrivial)
            ctx.count("error_branch" if got == "error" else f"parts_{min(len(got), 5) if isinstance(got, list) else 'exc'}")
            inp = {"fn": fn, "n": n, "c": c, "p": p, "max_chunks": m}
            if exp is not None and got != exp:
                ctx.disagree(f"{fn} partitions differ from the model", inp, exp, got)
            why = statement_fails(n, c, p, m, got) if not isinstance(got, str) or got == "error" else got
            if why:
                ctx.violate(f"{fn}(n={n}, chunk={c}, parts={p}, cap={m}) -> {got}: {why}", inp, exp, got)
            if nontrivial:
                ctx.sample({**inp, "partitions": got}, limit=4)
    ctx.traces = len(cs) * 2
    pipeline_cases(ctx)


def pipeline_cases(ctx):
    """the partitions as the encode commands really use them: what encode_init records must tile exactly the records of the
    store being encoded — also when the schema file was prepared on another (smaller or larger) store with the same header"""
    import io
    import json
    import pathlib
    import shutil
    import convlib
    import vcfgen
    from bio2zarr import vcf2zarr
    rng = ctx.rng
    work = common.scratch_dir("c11-")
    try:
        for k in range(6 if ctx.thorough else 2):
            spec = vcfgen.simple_file(rng, nrec=rng.choice([17, 23, 40]), ncontig=rng.choice([1, 2]), samples=2, unused_contigs=False)
            n = len(spec["records"])
            sub = dict(spec, records=spec["records"][: rng.randrange(3, n - 2)])
            full = vcfgen.materialise(spec, pathlib.Path(work) / f"full{k}", "vcf.gz+tbi")
            part = vcfgen.materialise(sub, pathlib.Path(work) / f"part{k}", "vcf.gz+tbi")
            icf_full, icf_part = pathlib.Path(work) / f"full{k}.icf", pathlib.Path(work) / f"part{k}.icf"
            convlib.explode(icf_full, [full])
            convlib.explode(icf_part, [part])
            c = rng.choice([2, 3, 4, 7])
            for which, src in (("own schema", icf_full), ("schema prepared on a subset", icf_part), ("schema prepared on a superset", icf_full)):
                target = icf_part if which.endswith("superset") else icf_full
                n_t = len(sub["records"]) if target is icf_part else n
                buf = io.StringIO()
                vcf2zarr.mkschema(src, buf, variants_chunk_size=c)
                sp = pathlib.Path(work) / f"schema{k}.json"
                sp.write_text(buf.getvalue())
                out = pathlib.Path(work) / f"out{k}.zarr"
                shutil.rmtree(out, ignore_errors=True)
                p = rng.choice([1, 2, 3, 5])
                cap = rng.choice([None, None, 2])
                inp = {"vcf_spec": spec, "records_in_store": n_t, "schema": which, "variants_chunk_size": c, "partitions": p, "max_variant_chunks": cap}
                ctx.case(("pipeline", k, which, c, p, cap), True)
                ctx.count("pipeline_" + which.replace(" ", "_"))
                try:
                    vcf2zarr.encode_init(target, out, schema_path=sp, target_num_partitions=p, max_variant_chunks=cap)
                    meta = json.loads((out / "wip" / "metadata.json").read_text())
                    ps = [[q["start"], q["stop"]] for q in meta["partitions"]]
                except Exception as e:  # noqa: BLE001
                    ctx.violate(f"encode_init with {which} failed: {type(e).__name__}: {str(e)[:150]}", inp, "partitions", repr(e)[:150])
                    continue
                why = statement_fails(n_t, c, p, cap, ps)
                if why:
                    ctx.violate(f"encode_init ({which}: {n_t} records, chunk={c}, parts={p}, cap={cap}) recorded partitions {ps}: {why}", inp,
                                "exact tiling", ps)
                shutil.rmtree(out, ignore_errors=True)
            shutil.rmtree(icf_full, ignore_errors=True)
            shutil.rmtree(icf_part, ignore_errors=True)
    finally:
        shutil.rmtree(work, ignore_errors=True)


def replay(ctx, payload):
    v = payload.get("violation") or (payload.get("disagreements") or [{}])[0]
    i = v["input"]
    impl = impl_encode if i["fn"] == "encode" else impl_slices
    got = impl(i["n"], i["c"], i["p"], i["max_chunks"])
    why = statement_fails(i["n"], i["c"], i["p"], i["max_chunks"], got)
    ctx.case(tuple(i.values()))
    print("replay:", i, "->", got, "|", why or "statement holds")
    if why:
        ctx.violate(f"{i} -> {got}: {why}", i, None, got)

LEVEL_TEXT = ("Lean theorems C11_encode_partitions / C11_plink_slices prove, for every record count, chunk size, "
              "partition count and optional cap >= 1, that the partition list is non-empty, has at most the requested "
              "entries, each non-empty and chunk aligned, contiguous from 0 to min(n, cap*chunk); C11_disjoint, C11_cover "
              "and C11_chunks_disjoint derive pairwise disjointness, exact cover and chunk-disjointness. The model is tied "
              "to generate_partitions / chunk_aligned_slices by exhaustive-box + random correspondence on every run, and the "
              "statement itself is evaluated on the implementation's output.")
LEVEL_NOTE = ("Trusted: Lean kernel + {propext, Quot.sound, Classical.choice}; the hand model of np.array_split "
              "(validated by correspondence, not proved); float ceil exact below 2^53.")
TECHNIQUE = "Lean 4 theorem (induction/omega) over a hand model whose pieces are regenerated from the source (Gen.Partitions) and bridged by lemmas + differential correspondence with the real functions"
