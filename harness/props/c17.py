"""C17 — local-allele fields are a faithful projection and change nothing else."""
import pathlib
import shutil

import numpy as np

import common
import vcfgen

ID = "C17"
LEAN_MODULES = ["B2Z.Props.C17"]
THEOREMS = [
    "B2Z.LA.C17_laa_spec", "B2Z.LA.C17_laa_sorted_distinct", "B2Z.LA.C17_laa_rows", "B2Z.LA.C17_laa_row_content",
    "B2Z.LA.C17_pair_enumeration", "B2Z.LA.C17_pairs_length", "B2Z.LA.C17_lpl_spec_partial_diploid",
    "B2Z.LA.C17_lpl_spec_partial_haploid", "B2Z.LA.C17_lpl_haploid_counterexample", "B2Z.LA.C17_ploidy_rejected",
    "B2Z.LA.C17_laa_set_invariant", "B2Z.LA.C17_laa_complete", "B2Z.LA.C17_laa_ref_or_missing",
]
ASSUMPTIONS = [
    "cyvcf2 value conventions (genotype.array(): -1 missing allele, -2 ploidy padding; format('PL'): int32 min = missing, min+1 = fill) as stated in Model/LocalAlleles.lean; validated by correspondence",
    "numpy fancy indexing with negative indexes wraps (modelled by pyIndex)",
    "full LPL statement is FALSE for haploid calls whose LAA row contains fill (known finding K3, proved as C17_lpl_haploid_counterexample); the proved theorems are the …_partial ones",
]
RULE = ("generated VCFs with GT and PL: ploidy 1/2 per record, 0..4 ALT alleles, arbitrary genotypes incl. missing alleles, PL "
        "present / absent / '.' per record and sample; converted with and without local alleles; non-trivial = a record with "
        ">= 2 ALT alleles and a called non-reference genotype")
LEVEL_TEXT = ("Lean: LAA is exactly the ascending distinct positive alleles, fill padded, common width max(1,·) (C17_laa_spec, "
              "C17_laa_sorted_distinct, C17_laa_rows, C17_laa_row_content); the pair enumeration is the triangular bijection "
              "(C17_pair_enumeration); LPL equals the specification for every diploid call and every haploid call without "
              "fill in its LAA row (…_partial); the haploid deviation K3 is a proved counterexample replayed on the real code; "
              "unsupported ploidies are rejected. Tied to the code by converting generated VCFs with the real pipeline and "
              "comparing call_LAA / call_LPL with the model and with a direct oracle, and all other arrays with the "
              "conversion without the option.")
LEVEL_NOTE = "Trusted: Lean kernel + standard axioms; cyvcf2/numpy conventions modelled, validated by correspondence; K3 is a recorded known finding."
TECHNIQUE = "Lean 4 theorems over a transcription of compute_laa_field/compute_lpl_field + differential correspondence through the real conversion"

FILL, MISSING = -2, -1


def tri(a, b):
    return b * (b + 1) // 2 + a


def gen_spec(rng, big=False, with_existing=False, ploidy3=False):
    nsamples = rng.choice([1, 2, 3, 5])
    nrec = rng.choice([1, 3, 6, 12] + ([40] if big else []))
    spec = {
        "contigs": [["c0", 10**6]], "filters": [["PASS", "All filters passed"]],
        "infos": [{"id": "DP", "number": "1", "type": "Integer"}],
        "formats": [{"id": "GT", "number": "1", "type": "String"}, {"id": "DP", "number": "1", "type": "Integer"},
                    {"id": "PL", "number": "G", "type": "Integer"}],
        "samples": [f"s{j}" for j in range(nsamples)], "records": [],
    }
    if with_existing:
        spec["formats"] += [{"id": "LAA", "number": ".", "type": "Integer"}, {"id": "LPL", "number": ".", "type": "Integer"}]
    pos = 100
    for _ in range(nrec):
        pos += rng.randrange(1, 50)
        nalt = rng.choice([0, 1, 1, 2, 2, 3, 4])
        ploidy = 3 if ploidy3 and rng.random() < 0.5 else rng.choice([1, 2, 2, 2])
        alts = rng.sample(["C", "G", "T", "AT", "ACC", "AG"], nalt)
        has_pl = rng.random() < 0.8
        keys = ["GT", "DP"] + (["PL"] if has_pl else [])
        samples = []
        for _s in range(nsamples):
            alleles = [rng.choice([None] + list(range(nalt + 1)) * 3) for _ in range(ploidy)]
            sep = rng.choice(["/", "|"])
            gt = sep.join("." if a is None else str(a) for a in alleles)
            s = {"GT": gt, "DP": rng.choice([None, rng.randrange(100)])}
            if has_pl:
                n_all = nalt + 1
                g = n_all if ploidy == 1 else (n_all * (n_all + 1) // 2 if ploidy == 2 else
                                               n_all * (n_all + 1) * (n_all + 2) // 6)
                r = rng.random()
                if r < 0.15:
                    s["PL"] = None
                else:
                    s["PL"] = [None if rng.random() < 0.1 else rng.randrange(0, 256) for _ in range(g)]
            s["_alleles"] = alleles
            samples.append(s)
        rec = {"contig": 0, "pos": pos, "id": None, "ref": "A", "alt": alts, "qual": None, "filter": None,
               "info": {"DP": [rng.randrange(100)]} if rng.random() < 0.5 else {}, "format": keys, "samples": samples,
               "_ploidy": ploidy}
        spec["records"].append(rec)
    return spec


def record_model_inputs(rec, nsamples):
    """(alt count, genotype rows as cyvcf2 reports them, PL rows or None)"""
    ploidy = rec["_ploidy"]
    gts = [[MISSING if a is None else a for a in s["_alleles"]] for s in rec["samples"]]
    if "PL" not in rec["format"]:
        return len(rec["alt"]), gts, None
    rows = []
    width = max([len(s["PL"]) for s in rec["samples"] if s["PL"] is not None] + [1])
    for s in rec["samples"]:
        if s["PL"] is None:
            rows.append([MISSING] + [FILL] * (width - 1))
        else:
            rows.append([MISSING if x is None else x for x in s["PL"]] + [FILL] * (width - len(s["PL"])))
    return len(rec["alt"]), gts, rows


def oracle_record(rec):
    """the statement, directly: per sample (laa list, expected lpl entries or None when PL absent).
    lpl entry: exact int, or a set of acceptable ints"""
    out = []
    ploidy = rec["_ploidy"]
    for s in rec["samples"]:
        als = sorted({a for a in s["_alleles"] if a is not None and a > 0})
        la = [0] + als
        if "PL" not in rec["format"]:
            out.append((als, None))
            continue
        pairs = [(a, 0) for a in la] if ploidy == 1 else [(la[i], la[j]) for j in range(len(la)) for i in range(j + 1)]
        ent = []
        for a, b in pairs:
            idx = a if ploidy == 1 else tri(a, b)
            if s["PL"] is None:
                ent.append({MISSING} if idx == 0 else {MISSING, FILL})
            else:
                v = s["PL"][idx]
                ent.append(MISSING if v is None else v)
        out.append((als, ent))
    return out


def matches(entry, value):
    return value in entry if isinstance(entry, set) else value == entry


def convert(path, out, local_alleles):
    from bio2zarr import vcf2zarr
    shutil.rmtree(out, ignore_errors=True)
    vcf2zarr.convert([path], out, local_alleles=local_alleles, worker_processes=0)
    import zarr
    return zarr.open(str(out), mode="r")


def one_case(ctx, spec, work, label="generated", kind="vcf.gz+tbi"):
    inp = {"vcf_spec": spec, "kind": kind}
    nrec = len(spec["records"])
    nsamples = len(spec["samples"])
    path = vcfgen.materialise(spec, pathlib.Path(work) / "la", kind)
    try:
        with_la = convert(path, pathlib.Path(work) / "with.zarr", True)
        laa = with_la["call_LAA"][:]
        lpl = with_la["call_LPL"][:]
    except Exception as e:  # noqa: BLE001
        ctx.violate(f"conversion with local alleles failed ({label}): {type(e).__name__}: {e}", inp, "arrays", repr(e))
        ctx.case(("fail", label), False)
        return
    without = convert(path, pathlib.Path(work) / "without.zarr", False)
    nontrivial = any(len(r["alt"]) >= 2 and any(any((a or 0) > 0 for a in s["_alleles"]) for s in r["samples"])
                     for r in spec["records"])
    ctx.case(("la", repr(spec["records"])), nontrivial)
    # (1) everything else unchanged
    names_with = sorted(k for k in with_la.array_keys() if k not in ("call_LAA", "call_LPL"))
    names_without = sorted(without.array_keys())
    if names_with != names_without:
        ctx.violate("array set differs with/without local alleles", inp, names_without, names_with)
    for name in names_without:
        a, b = with_la[name], without[name]
        same = a.dtype == b.dtype and a.shape == b.shape and np.array_equal(a[:], b[:], equal_nan=(a.dtype.kind == "f"))
        if same and a.dtype.kind == "f":
            same = np.array_equal(a[:].view(np.int32), b[:].view(np.int32))
        if not same or dict(a.attrs) != dict(b.attrs):
            ctx.violate(f"array {name} changed by the local-alleles option", inp, "identical", name)
    # (2) LAA / LPL per record: model and oracle
    for ri, rec in enumerate(spec["records"]):
        alt, gts, pls = record_model_inputs(rec, nsamples)
        ploidy = rec["_ploidy"]
        real_laa = [[int(x) for x in row] for row in laa[ri]]
        real_lpl = [[int(x) for x in row] for row in lpl[ri]]
        ctx.count(f"ploidy{ploidy}_{'pl' if pls is not None else 'nopl'}")
        if ctx.driver_ok:
            m_laa = ctx.driver.ask({"op": "la.laa", "alt": alt, "gts": gts})
            q = {"op": "la.lpl", "ploidy": ploidy, "laa": m_laa}
            if pls is not None:
                q["pl"] = pls
            m_lpl = ctx.driver.ask(q)
            pad = lambda rows, w: [r + [FILL] * (w - len(r)) for r in rows]  # noqa: E731
            if pad(m_laa, laa.shape[2]) != real_laa:
                ctx.disagree("call_LAA differs from Model.LA.laaField", {"record": ri, **inp}, m_laa, real_laa)
            if m_lpl == "error" or pad(m_lpl, lpl.shape[2]) != real_lpl:
                ctx.disagree("call_LPL differs from Model.LA.lplRow", {"record": ri, **inp}, m_lpl, real_lpl)
        orc = oracle_record(rec)
        wrec = max([1] + [len(als) for als, _ in orc])   # width of this record's LAA value
        for si, (als, ent) in enumerate(orc):
            exp_laa = als + [FILL] * (laa.shape[2] - len(als))
            if real_laa[si] != exp_laa:
                ctx.violate(f"call_LAA[{ri},{si}] = {real_laa[si]} but the call's distinct ALT alleles are {als}",
                            {"record": ri, "sample": si, **inp}, exp_laa, real_laa[si])
            row = real_lpl[si]
            if ent is None:
                # PL absent on the record: missing for the local genotypes, then fill
                w = (laa.shape[2] + 1) if ploidy == 1 else (laa.shape[2] + 1) * (laa.shape[2] + 2) // 2
                ok = all(v in (MISSING, FILL) for v in row) and row[0] == MISSING
                if not ok:
                    ctx.violate(f"call_LPL[{ri},{si}] = {row} for a record without PL", {"record": ri, "sample": si, **inp},
                                "missing/fill", row)
                continue
            bad = None
            for k, v in enumerate(row):
                if k < len(ent):
                    if not matches(ent[k], v):
                        bad = (k, ent[k], v)
                        break
                elif v != FILL:
                    bad = (k, FILL, v)
                    break
            if bad:
                k, e, v = bad
                gt = rec["samples"][si]["GT"]
                ctx.violate(
                    f"call_LPL[{ri},{si},{k}] = {v}, expected {e} (GT={gt}, PL={rec['samples'][si]['PL']}, ploidy {ploidy})",
                    {"record": ri, "sample": si, "entry": k, **inp}, e, v,
                    k3={"ploidy": ploidy, "laa_row": real_laa[si][:wrec], "pl": pls[si] if pls else None, "lpl": row,
                        "n_local": len(ent)})
    if nontrivial:
        r0 = next(r for r in spec["records"] if len(r["alt"]) >= 2)
        ctx.sample({"alt": r0["alt"], "GT": [s["GT"] for s in r0["samples"]],
                    "PL": [s.get("PL") for s in r0["samples"]]}, limit=3)
    ctx.traces += 1


def classify(v):
    """K3: haploid call whose LAA row ends in fill; entries beyond the local genotypes equal PL indexed
    from the end by the fill sentinel (pl[-2]) instead of fill; everything before is right."""
    k3 = v.get("k3")
    if not k3 or k3["ploidy"] != 1 or k3["pl"] is None:
        return None
    laa, pl, lpl, nloc = k3["laa_row"], k3["pl"], k3["lpl"], k3["n_local"]
    if FILL not in laa:
        return None
    la = [0] + laa
    if len(pl) == 1 and len(pl) < len(la):
        pl = pl * len(la)          # numpy broadcast of an all-missing / single-column PL
    # exactly the recorded deviation, and nothing else
    for k, a in enumerate(la):
        if k >= len(lpl):
            return None
        if a == FILL:
            if len(pl) < 2 or lpl[k] != pl[-2]:
                return None
    if any(x != FILL for x in lpl[len(la):]):
        return None
    if v["input"].get("entry", 0) < nloc:
        return None
    return "K3"


def ploidy3_case(ctx, work):
    spec = gen_spec(ctx.rng, ploidy3=True)
    if not any(r["_ploidy"] == 3 and "PL" in r["format"] for r in spec["records"]):
        spec["records"][0]["_ploidy"] = 3
        for s in spec["records"][0]["samples"]:
            s["_alleles"] = [0, 0, 0]
            s["GT"] = "0/0/0"
        if "PL" not in spec["records"][0]["format"]:
            return
    path = vcfgen.materialise(spec, pathlib.Path(work) / "p3", "vcf.gz+tbi")
    ctx.case(("ploidy3", repr(spec["records"])[:200]), True)
    ctx.count("ploidy3")
    try:
        convert(path, pathlib.Path(work) / "p3.zarr", True)
    except ValueError:
        return
    except Exception as e:  # noqa: BLE001
        if "ploidy" in str(e).lower():
            return
        ctx.violate(f"triploid input with local alleles: unexpected {type(e).__name__}: {e}", {"vcf_spec": spec}, "ValueError", repr(e))
        return
    ctx.violate("triploid input with local alleles was accepted", {"vcf_spec": spec}, "ValueError", "success")


def existing_fields_case(ctx, work, mixed=False):
    """files that already carry LAA/LPL: the stored arrays are the file's own values.  `mixed`: the header declares both,
    but single records carry both, only LPL (LAA is then derived from the genotype) or neither (both derived)"""
    rng = ctx.rng
    spec = gen_spec(rng, with_existing=True)
    modes = []
    for ri, rec in enumerate(spec["records"]):
        mode = "both" if not mixed else (["lpl_only", "both", "neither"][ri] if ri < 3 else rng.choice(["both", "lpl_only", "neither"]))
        if rec["_ploidy"] == 1 and mode == "neither":
            mode = "both"               # (haploid derived LPL: known finding K3, exercised elsewhere)
        modes.append(mode)
        if mode in ("both", "lpl_only"):
            rec["format"] = rec["format"] + (["LAA"] if mode == "both" else []) + ["LPL"]
            for s_ in rec["samples"]:
                if mode == "both":
                    s_["LAA"] = [rng.randrange(1, 5) for _ in range(rng.choice([1, 2]))]
                s_["LPL"] = [rng.randrange(0, 99) for _ in range(rng.choice([1, 3]))]
    tag = "exm" if mixed else "ex"
    path = vcfgen.materialise(spec, pathlib.Path(work) / tag, "vcf.gz+tbi")
    ctx.case(("existing", mixed, repr(spec["records"])[:200]), True)
    ctx.count("existing_fields_mixed" if mixed else "existing_fields")
    inp = {"vcf_spec": spec, "record_carries": modes}
    try:
        root = convert(path, pathlib.Path(work) / f"{tag}.zarr", True)
        laa, lpl = root["call_LAA"][:], root["call_LPL"][:]
    except Exception as e:  # noqa: BLE001
        ctx.violate(f"file carrying LAA/LPL ({'mixed records' if mixed else 'every record'}) failed to convert: {type(e).__name__}: {e}",
                    inp, "arrays", repr(e))
        return
    laa = laa if laa.ndim == 3 else laa[:, :, None]       # every value has one element: no inner dimension
    lpl = lpl if lpl.ndim == 3 else lpl[:, :, None]
    for ri, rec in enumerate(spec["records"]):
        orc = oracle_record(rec)
        for si, s_ in enumerate(rec["samples"]):
            got_laa = [int(x) for x in laa[ri, si]]
            got_lpl = [int(x) for x in lpl[ri, si]]
            exp_laa = (s_["LAA"] if modes[ri] == "both" else orc[si][0])
            exp_laa = exp_laa + [FILL] * (laa.shape[2] - len(exp_laa))
            if got_laa != exp_laa:
                what = "existing LAA not respected" if modes[ri] == "both" else \
                    f"record carries {'LPL only' if modes[ri] == 'lpl_only' else 'neither field'}: LAA is not the call's distinct ALT alleles"
                ctx.violate(f"{what} at [{ri},{si}] (GT={s_['GT']}): {got_laa} != {exp_laa}", inp, exp_laa, got_laa)
                return
            if modes[ri] in ("both", "lpl_only"):
                exp = s_["LPL"] + [FILL] * (lpl.shape[2] - len(s_["LPL"]))
                if got_lpl != exp:
                    ctx.violate(f"existing LPL not respected at [{ri},{si}]: {got_lpl} != {exp}", inp, exp, got_lpl)
                    return
            else:
                ent = orc[si][1]
                if ent is None:
                    ok = all(v in (MISSING, FILL) for v in got_lpl) and got_lpl[0] == MISSING
                else:
                    ok = all(matches(ent[k], v) if k < len(ent) else v == FILL for k, v in enumerate(got_lpl))
                if not ok:
                    ctx.violate(f"record carrying neither field: derived LPL at [{ri},{si}] = {got_lpl} (GT={s_['GT']}, PL={s_.get('PL')})",
                                inp, str(ent), got_lpl)
                    return


def k3_witness(ctx, work):
    """the Lean counterexample replayed on the real code: GT=0, PL=10,20,30 (haploid, 2 ALT)"""
    spec = {"contigs": [["c0", 1000]], "filters": [["PASS", "p"]], "infos": [],
            "formats": [{"id": "GT", "number": "1", "type": "String"}, {"id": "PL", "number": "G", "type": "Integer"}],
            "samples": ["s0"], "records": [
                {"contig": 0, "pos": 10, "id": None, "ref": "A", "alt": ["C", "G"], "qual": None, "filter": None, "info": {},
                 "format": ["GT", "PL"], "_ploidy": 1,
                 "samples": [{"GT": "0", "PL": [10, 20, 30], "_alleles": [0]}]}]}
    one_case(ctx, spec, work, "K3 witness (Lean C17_lpl_haploid_counterexample)")


def run(ctx):
    work = common.scratch_dir("c17-")
    try:
        k3_witness(ctx, work)
        n = 120 if ctx.thorough else 24
        if ctx.search_mode:
            n *= 2
        for k in range(n):
            spec = gen_spec(ctx.rng, big=ctx.thorough)
            kind = ctx.rng.choice(["vcf.gz+tbi", "vcf.gz+tbi", "bcf+csi"])
            one_case(ctx, spec, work, kind=kind)
        for _ in range(6 if ctx.thorough else 2):
            ploidy3_case(ctx, work)
            existing_fields_case(ctx, work)
            existing_fields_case(ctx, work, mixed=True)
    finally:
        shutil.rmtree(work, ignore_errors=True)


def replay(ctx, payload):
    v = payload.get("violation") or (payload.get("disagreements") or [{}])[0]
    work = common.scratch_dir("c17-")
    try:
        one_case(ctx, v["input"]["vcf_spec"], work, "replay", v["input"].get("kind", "vcf.gz+tbi"))
    finally:
        shutil.rmtree(work, ignore_errors=True)
    print("replay:", f"{len(ctx.violations)} violation(s) reproduced" if ctx.violations else "statement holds")
