"""C18 — a damaged intermediate store is detected, not silently mis-read."""
import pathlib
import pickle
import re
import shutil

import numpy as np

import common
import convlib
import vcfgen

ID = "C18"
LEAN_MODULES = ["B2Z.Props.C18"]
THEOREMS = [
    "B2Z.Dmg.C18_values_detects", "B2Z.Dmg.C18_values_undamaged", "B2Z.Dmg.C18_range_detects", "B2Z.Dmg.C18_range_sound",
    "B2Z.Dmg.C18_encode_detects", "B2Z.Dmg.C18_encode_undamaged",
    "B2Z.ChunkFile.C18_chunk_prefix_rejected", "B2Z.ChunkFile.C18_chunk_intact", "B2Z.ChunkFile.C18_chunk_accepts_only_whole_frames",
    "B2Z.ChunkFile.storedFrame_wellFramed", "B2Z.ChunkFile.C18_unrepaired_overread_counterexample",
    "B2Z.ChunkFile.C18_gen_read_chunk_guard",
]
GEN_DEPENDS = ["ChunkFile."]
ASSUMPTIONS = [
    "PARTIAL — hypothesis CodecRejectsPrefix for chunk_index (pickle) and metadata.json (JSON): decoding a strict prefix raises. It is a property of pickle/json, not proved; the harness enumerates it (every truncation length of every file of small stores). For chunk files it is no longer a hypothesis (repair F12): read_chunk refuses a file whose size differs from its Blosc header, proved for every decompressor (C18_chunk_prefix_rejected)",
    "chunk files are written as one Blosc frame whose header bytes 12-15 hold the frame length (Blosc 1 format; checked on every real chunk file by the frame correspondence)",
    "opening a deleted file raises (OS)",
]
RULE = ("finished ICF stores of generated inputs (several partitions and chunks per field); every data-bearing file x {deleted, truncated "
        "to EVERY shorter length} with a read of the affected field, and x {deleted, sampled truncations} with a full encode; range "
        "reads compared with the model's set of opened files; every truncation (and header-size edit) of every chunk file read through "
        "read_chunk right after an intact chunk of the same size, verdict compared with Model.ChunkFile.readChunk; "
        "non-trivial = a truncation to a non-zero length")
LEVEL_TEXT = ("Lean (PARTIAL): every strict prefix of a chunk file is refused by read_chunk's size check whatever the decompressor "
              "would do (C18_chunk_prefix_rejected, for all codecs and memory contents; F12 counterexample for the unrepaired reader); "
              "under the explicit hypothesis that decoding a strict prefix of a chunk_index or metadata.json fails, every whole-column read opens every "
              "file of the field (C18_values_detects), every range read opens every chunk holding a record of the range and its "
              "partition index (C18_range_detects), and an encode — reading an exact cover of the records (C11) — opens every chunk, "
              "so any damaged chunk, chunk index or metadata file makes it fail (C18_encode_detects); undamaged reads return exactly "
              "the stored values. The decisive codec behaviour is enumerated, not proved: every truncation length of every file of "
              "small real stores must raise on read, sampled ones on encode; range reads of real damaged stores are compared with "
              "the model's opened-file set.")
LEVEL_NOTE = "Trusted: Lean kernel + standard axioms; CodecRejectsPrefix is a hypothesis about numcodecs/pickle/json, enumerated exhaustively on small stores."
TECHNIQUE = "Lean 4 theorems over the reader's opened-file sets (partial: codec hypothesis) + exhaustive deletion/truncation enumeration on real stores"


def field_of(rel):
    parts = rel.split("/")
    if parts[0] in ("INFO", "FORMAT"):
        return "/".join(parts[:2]), parts[2:]
    return parts[0], parts[1:]


def structure(icf_store, name):
    fld = icf_store.fields[name]
    parts = []
    for j in range(icf_store.num_partitions):
        # through the code's own accessor: the on-disk encoding of the index is the implementation's business
        parts.append([int(x) for x in np.diff(fld.chunk_record_index(j))])
    return parts


def canon(v):
    return None if v is None else (np.asarray(v).dtype.kind, np.asarray(v).shape, np.asarray(v).tolist() if np.asarray(v).dtype.kind != "f"
                                   else np.asarray(v, dtype=np.float32).view(np.uint32).tolist())


def one_store(ctx, spec, work, tag, need_partitions=1, light=False):
    from bio2zarr import vcf2zarr
    rng = ctx.rng
    path = vcfgen.materialise(spec, pathlib.Path(work) / tag, "vcf.gz+tbi", block_size=rng.choice([120, 300]))
    icf = pathlib.Path(work) / f"{tag}.icf"
    # built through the distributed commands; one partition is run twice before finalise (a retried job), which must leave
    # the same finished store
    shutil.rmtree(icf, ignore_errors=True)
    s_ = vcf2zarr.explode_init(icf, [path], target_num_partitions=rng.choice([2, 3, 4]), column_chunk_size=rng.choice([0.0002, 0.0005]),
                               worker_processes=0)
    order = list(range(s_.num_partitions))
    rng.shuffle(order)
    retried = rng.choice(order)
    for j in order + [retried]:
        vcf2zarr.explode_partition(icf, j)
    vcf2zarr.explode_finalise(icf)
    ctx.count("stores_with_a_retried_partition")
    store = vcf2zarr.IntermediateColumnarFormat(icf)
    if store.num_partitions < need_partitions:
        shutil.rmtree(icf, ignore_errors=True)
        return False
    ctx.count(f"stores_with_{min(store.num_partitions, 3)}{'+' if store.num_partitions >= 3 else ''}_partitions")
    orig = {name: [canon(v) for v in f.values] for name, f in store.fields.items()}
    n = store.num_records
    inp0 = {"vcf_spec": spec}
    files = sorted(p for p in icf.rglob("*") if p.is_file())
    data_files = [p for p in files if p.name not in ("header.txt",)]
    exhaustive = ctx.thorough or len(data_files) <= 80
    remnant = pathlib.Path(work) / f"{tag}.remnant"
    for p in data_files:
        rel = str(p.relative_to(icf))
        content = p.read_bytes()
        if rel == "metadata.json":
            affected = list(store.fields)[:2]
        else:
            fname, _rest = field_of(rel)
            affected = [fname]
        if light:        # many fields of every type: every deletion, a few truncations per file
            lengths = sorted({0, len(content) // 2, len(content) - 1})
        else:
            lengths = list(range(len(content))) if (exhaustive and len(content) <= 4000) else sorted(
                {0, 1, len(content) // 2, len(content) - 1} | {rng.randrange(len(content)) for _ in range(6)})
        damages = [("deleted", None)] + [("truncated", k) for k in lengths]
        enc_done = 0
        for kind, k in damages:
            if kind == "deleted":
                p.unlink()
            else:
                p.write_bytes(content[:k])
            inp = {**inp0, "file": rel, "damage": kind, "length": k, "original_length": len(content)}
            ctx.case((tag, rel, kind, k), kind == "truncated" and (k or 0) > 0)
            ctx.count(kind)
            # (0) chunk files: the framing check of read_chunk against Model/ChunkFile.readChunk.  A chunk of the same
            # size (the intact content) is read just before, so that a decoder running past the end of a truncated buffer
            # finds plausible bytes there (F12)
            if kind == "truncated" and p.name not in ("chunk_index", "metadata.json"):
                fld0 = store.fields[affected[0]]
                variants = [("prefix", content[:k])]
                if k == len(content) - 1 and len(content) >= 16:
                    # whole file with a header declaring another size
                    for d in (1, -1, 256):
                        cb = int.from_bytes(content[12:16], "little") + d
                        variants.append((f"header size {d:+d}", content[:12] + cb.to_bytes(4, "little") + content[16:]))
                    variants.append(("whole file", content))
                for vname, buff in variants:
                    p.write_bytes(buff)
                    remnant.write_bytes(content)
                    try:
                        fld0.read_chunk(remnant)
                        got = fld0.read_chunk(p)
                        real_accepts = True
                    except Exception:  # noqa: BLE001
                        real_accepts = False
                    ctx.count("frame_checked")
                    if ctx.driver_ok:
                        m = ctx.driver.ask({"op": "chunk.read", "buff": list(buff)})
                        if m["accept"] != real_accepts:
                            ctx.disagree(f"read_chunk of {rel} ({vname}, {len(buff)} of {len(content)} bytes): real "
                                         f"{'accepts' if real_accepts else 'raises'}, Model.ChunkFile.readChunk "
                                         f"{'accepts' if m['accept'] else 'refuses'}", {**inp, "variant": vname}, m, real_accepts)
                    if real_accepts and vname == "prefix":      # (a changed header is not a truncation: correspondence only)
                        same = [canon(v) for v in got] == [canon(v) for v in fld0.read_chunk(remnant)]
                        ctx.violate(f"{rel}: read_chunk of a damaged chunk file ({vname}, {len(buff)} of {len(content)} bytes) did not raise "
                                    f"after a chunk of the same size had been read (returned {'the original' if same else 'different'} values)",
                                    {**inp, "variant": vname}, "error", "values")
                p.write_bytes(content[:k])
            # (1) reading the affected field
            for fname in affected:
                # both read paths: the whole-column property and the (range) iterator that encode uses
                for how in ("values", "iter_values"):
                    try:
                        st = vcf2zarr.IntermediateColumnarFormat(icf)
                        fld_ = st.fields[fname]
                        vals = [canon(v) for v in (fld_.values if how == "values" else fld_.iter_values())]
                        silent = True
                    except Exception:  # noqa: BLE001
                        silent = False
                    if silent:
                        what = "different" if vals != orig[fname] else "the original"
                        ctx.violate(f"{rel} {kind}{'' if k is None else f' to {k} of {len(content)} bytes'}: reading {fname} through "
                                    f"{how} did not raise (returned {what} values, {len(vals)} of {n})", inp, "error", what)
            # (2) encoding the store (sampled: it is slow)
            aimed = p.name == "chunk_index" and k in (16, 24, len(content) - 8, len(content) - 16, len(content) - 1)
            if (kind == "deleted" and (not light or rng.random() < 0.3 or "FLG" in rel)) or aimed or \
                    enc_done < (3 if not ctx.thorough else 8) and rng.random() < (0.05 if light else 0.3):
                enc_done += kind != "deleted"
                out = pathlib.Path(work) / f"{tag}.enc.zarr"
                shutil.rmtree(out, ignore_errors=True)
                try:
                    vcf2zarr.encode(icf, out, worker_processes=0, variants_chunk_size=rng.choice([2, 5, 1000]))
                    ctx.violate(f"{rel} {kind}{'' if k is None else f' to {k} bytes'}: encode of the damaged store did not raise", inp, "error", "encoded")
                except Exception:  # noqa: BLE001
                    pass
                ctx.count("encode_checked")
                if (out / ".zmetadata").exists():
                    ctx.violate(f"{rel} {kind}: failed encode left a finished-looking store", inp, "no .zmetadata", "present")
                shutil.rmtree(out, ignore_errors=True)
            # (3) range reads vs the model's opened-file set (chunk files and chunk indexes only)
            if ctx.driver_ok and rel != "metadata.json" and kind == "deleted":
                fname = affected[0]
                parts = structure(store, fname) if p.name != "chunk_index" else None
                if parts is not None:
                    m = re.match(r"p(\d+)$", p.parent.name)
                    pj = int(m.group(1))
                    cum = np.cumsum(parts[pj]).tolist()
                    ck = cum.index(int(p.name))
                    for _ in range(6):
                        a, b = sorted(rng.sample(range(n + 1), 2))
                        if a == b:
                            continue
                        opened = ctx.driver.ask({"op": "dmg.read", "parts": parts, "a": a, "b": b})
                        model_fails = [pj, ck] in opened["chunks"]
                        try:
                            st = vcf2zarr.IntermediateColumnarFormat(icf)
                            got = [canon(v) for v in st.fields[fname].iter_values(a, b)]
                            real_fails = False
                        except Exception:  # noqa: BLE001
                            real_fails = True
                        ctx.count("range_read")
                        if model_fails != real_fails:
                            ctx.disagree(f"iter_values({a},{b}) with chunk {pj}/{ck} deleted: real {'raises' if real_fails else 'returns'}, "
                                         f"model opens {opened['chunks']}", {**inp, "range": [a, b], "structure": parts}, model_fails, real_fails)
                        if not real_fails and got != orig[fname][a:b]:
                            ctx.violate(f"iter_values({a},{b}) of {fname} silently returned wrong values with {rel} deleted", inp,
                                        "original slice or error", "different values")
            p.write_bytes(content)
        ctx.traces += 1
    ctx.sample({"records": n, "partitions": store.num_partitions, "files": len(data_files),
                "exhaustive_truncation": exhaustive, "POS_chunks": structure(store, "POS")}, limit=3)
    shutil.rmtree(icf, ignore_errors=True)
    return True


def run(ctx):
    # a decompressor let loose on a damaged frame may try to allocate whatever the garbage header says: cap the address space
    # so that this surfaces as MemoryError (an error, which is what the property asks for) instead of the OOM killer
    try:
        import resource
        soft, hard = resource.getrlimit(resource.RLIMIT_AS)
        cap = 12 * 2**30
        if soft == resource.RLIM_INFINITY or soft > cap:
            resource.setrlimit(resource.RLIMIT_AS, (cap, hard))
    except Exception:  # noqa: BLE001
        pass
    work = common.scratch_dir("c18-")
    try:
        for k in range(4 if ctx.thorough else 1):
            if k % 2 == 0:
                # several partitions (records spread over index windows and BGZF blocks), several chunks per partition
                for _try in range(12):
                    spec = vcfgen.simple_file(ctx.rng, nrec=ctx.rng.choice([8, 10]), ncontig=ctx.rng.choice([1, 2]), samples=ctx.rng.choice([0, 2]),
                                              unused_contigs=False, span=ctx.rng.choice([200_000, 2_000_000]), long_refs=True)
                    if one_store(ctx, spec, work, f"d{k}", need_partitions=2):
                        break
                else:
                    raise common.Infra("generator produced no multi-partition store in 12 attempts")
            else:
                spec = vcfgen.rich_file(ctx.rng, nrec=8, nsamples=2, ncontig=1)
                if spec["records"]:
                    one_store(ctx, spec, work, f"d{k}")
        if not ctx.thorough:
            # every field type (Flag, String, Float, ... INFO and FORMAT) with a lighter damage set
            for _try in range(20):
                spec = vcfgen.rich_file(ctx.rng, nrec=8, nsamples=2, ncontig=1)
                if len(spec["records"]) >= 6 and any(f["id"] == "FLG" for f in spec["infos"]) and \
                        sum("FLG" in (r.get("info") or {}) for r in spec["records"]) >= 2:
                    one_store(ctx, spec, work, "rich", light=True)
                    ctx.count("rich_store_light")
                    break
    finally:
        shutil.rmtree(work, ignore_errors=True)


def replay(ctx, payload):
    v = payload.get("violation") or (payload.get("disagreements") or [{}])[0]
    i = v["input"]
    print("replay: rerun `./check C18` with VERIF_SEED =", payload.get("seed"), "; damaged file:", i.get("file"), i.get("damage"), i.get("length"))
