"""C05 — distributed explode is crash-safe: never falsely complete, reruns recover."""
import os
import pathlib
import re
import shutil

import common
import fstrace
import protolib
import vcfgen

ID = "C05"
LEAN_MODULES = ["B2Z.Props.C05"]
THEOREMS = [
    "B2Z.XP.C05_never_falsely_complete", "B2Z.XP.C05_finalise_refuses", "B2Z.XP.C05_rerun_recovers",
    "B2Z.XP.C05_finalise_rerun", "B2Z.XP.C05_out_of_protocol", "B2Z.XP.C05_unguarded_partition_counterexample",
]
ASSUMPTIONS = [
    "single file-system operations (mkdir, rename, unlink, open-for-write) are atomic; a kill leaves a prefix of the command's mutations, the last write possibly torn; power loss / page-cache loss is out of scope",
    "a partition task touches only its private objects and rewrites all of them (footprint checked on every traced run, C07)",
    "JSON / pickle / Blosc reject truncated data (C18)",
]
RULE = ("small generated inputs, 1..4 partitions, several chunks per field; every kill point of init / one partition / finalise "
        "(quick: sampled) incl. torn-last-write variants, and random histories over {init, partition j, finalise} with up to 3 "
        "kills, each executed for real (forked child killed before the k-th mutation) and in the model; non-trivial = a history "
        "containing at least one kill")
LEVEL_TEXT = ("Lean: over the object-level protocol model, for EVERY history (any commands, any order, any number of kills at any "
              "point): if the store loads then all data is present and whole (C05_never_falsely_complete); finalise refuses and "
              "changes nothing while a partition is unfinished (C05_finalise_refuses); from any reachable unfinalised state, "
              "rerunning every partition in any order any number of times and finalising yields exactly the uninterrupted final "
              "state (C05_rerun_recovers, C05_finalise_rerun); commands out of protocol fail without touching anything "
              "(C05_out_of_protocol); the unrepaired F7 history is a proved counterexample. Tied to the code by (a) exact "
              "correspondence of every traced command's mutation sequence with the model program and (b) real kill histories "
              "whose outcome, resulting tree and loadability are compared with the model state; plus a direct oracle "
              "(loads => values equal the reference; recovered tree == reference tree).")
LEVEL_NOTE = "Trusted: Lean kernel + standard axioms; POSIX single-operation atomicity; kills modelled as mutation prefixes (no power-loss model)."
TECHNIQUE = "Lean 4 invariant proof over a protocol state machine (all histories, all kill points) + trace/state correspondence with real killed runs"


class Setup:
    """one input, its reference run and the classification tables"""

    def __init__(self, ctx, work, nparts, seed_tag):
        from bio2zarr import vcf2zarr
        self.vcf2zarr = vcf2zarr
        rng = ctx.rng
        self.work = pathlib.Path(work)
        spec = vcfgen.simple_file(rng, nrec=rng.choice([6, 9, 14]), ncontig=1, samples=rng.choice([0, 2]), unused_contigs=False,
                                  span=rng.choice([3000, 200_000]), long_refs=True)
        self.spec = spec
        self.vcf = vcfgen.materialise(spec, self.work / f"in{seed_tag}", "vcf.gz+tbi", block_size=200)
        self.icf = self.work / f"icf{seed_tag}"
        self.ccs = rng.choice([0.0001, 0.0003, 16])
        self.target = nparts
        # reference run, traced
        shutil.rmtree(self.icf, ignore_errors=True)
        self.traces = {}
        ev, exc = fstrace.traced(self.icf, self.cmd_fn(("init",)))
        assert exc is None, exc
        self.traces["init"] = ev
        self.init_snapshot = protolib.snapshot(self.icf)
        import json
        self.nparts = len(json.loads((self.icf / "wip" / "metadata.json").read_text())["partitions"])
        for j in range(self.nparts):
            ev, exc = fstrace.traced(self.icf, self.cmd_fn(("partition", j)))
            assert exc is None, exc
            self.traces[("partition", j)] = ev
        ev, exc = fstrace.traced(self.icf, self.cmd_fn(("finalise",)))
        assert exc is None, exc
        self.traces["finalise"] = ev
        self.reference = protolib.snapshot(self.icf)
        self.ref_bytes = {p: (self.icf / p).read_bytes() for p, h in self.reference.items() if h != "dir"}
        # contents of files that exist only during the protocol (wip): take them from a second reference pass
        self.wip_bytes = {}
        self.vcf2zarr = vcf2zarr
        self.ref_values = try_load(self)[1]
        # classification tables
        self.shared = []        # k-th effective mkdir of init after '.' and 'wip'
        for ev_, eff in protolib.effective_events(self.traces["init"], set()):
            if eff and ev_[0] == "mkdir" and ev_[1] not in (".", "wip"):
                self.shared.append(ev_[1])
        self.data = []
        for j in range(self.nparts):
            seen = []
            for ev_ in self.traces[("partition", j)]:
                if ev_[0] in ("mkdir", "write") and self.part_of(ev_[1]) == j and ev_[1] not in seen:
                    seen.append(ev_[1])
            self.data.append(seen)

    def cmd_fn(self, cmd):
        v = self.vcf2zarr
        if cmd[0] == "init":
            return lambda: v.explode_init(self.icf, [self.vcf], target_num_partitions=self.target, column_chunk_size=self.ccs,
                                          worker_processes=0)
        if cmd[0] == "partition":
            return lambda: v.explode_partition(self.icf, cmd[1])
        return lambda: v.explode_finalise(self.icf)

    @staticmethod
    def part_of(path):
        m = re.match(r"^(?!wip/).*?/p(\d+)(/[^/]+)?$", path)
        return int(m.group(1)) if m else None

    def obj(self, path):
        if path == ".":
            return "root"
        if path == "wip":
            return "wipDir"
        if path == "header.txt":
            return "header"
        if path == "wip/metadata.json":
            return "plan"
        if path == "metadata.json":
            return "final"
        m = re.match(r"^wip/p(\d+)\.json$", path)
        if m:
            return f"summary:{m.group(1)}"
        j = self.part_of(path)
        if j is not None and j < self.nparts and path in self.data[j]:
            return f"data:{j}:{self.data[j].index(path)}"
        if path in self.shared:
            return f"shared:{self.shared.index(path)}"
        return f"unclassified:{path}"

    def cfg(self):
        seqs = []
        for j in range(self.nparts):
            seq = []
            for ev_ in self.traces[("partition", j)]:
                if ev_[0] in ("mkdir", "write") and self.part_of(ev_[1]) == j:
                    seq.append([self.data[j].index(ev_[1]), ev_[0] == "mkdir"])
            seqs.append(seq)
        rm = []
        for ev_ in self.traces["finalise"]:
            if ev_[0] == "unlink":
                o = self.obj(ev_[1])
                rm.append(None if o == "plan" else int(o.split(":")[1]))
        return {"n_parts": self.nparts, "n_shared": len(self.shared), "data_seq": seqs, "rm_order": rm}

    def classify_tree(self):
        """current real tree as {object: 'ok' | 'torn'}"""
        snap = protolib.snapshot(self.icf)
        out = {}
        for path, h in snap.items():
            o = self.obj(path)
            if h == "dir":
                out[o] = "ok"
                continue
            ref = self.reference.get(path) or self.transient.get(path)
            out[o] = "ok" if ref == h else "torn"
        return out

    def model_events(self, events, pre_tree):
        """real trace -> list of model mutations [kind, obj, value] and, per real event, the number of
        model mutations before it"""
        muts, before = [], []
        for ev_, eff in protolib.effective_events(events, pre_tree):
            before.append(len(muts))
            if not eff:
                continue
            o = self.obj(ev_[1])
            if ev_[0] == "mkdir":
                muts.append(["set", o, "ok"])
            elif ev_[0] == "write":
                muts += [["set", o, "torn"], ["set", o, "ok"]]
            elif ev_[0] in ("unlink", "rmdir"):
                muts.append(["set", o, "absent"])
            else:
                muts.append(["?", str(ev_)])
        before.append(len(muts))
        return muts, before


def run_history(ctx, su, history, label):
    """history: list of (cmd, kill_event_index | None, torn: bool).  Executes for real and in the model."""
    rng = ctx.rng
    shutil.rmtree(su.icf, ignore_errors=True)
    cfg = su.cfg()
    model_hist = []
    inp = {"vcf_spec": su.spec, "target_partitions": su.target, "column_chunk_size": su.ccs,
           "history": [[list(c) if isinstance(c, tuple) else c, k, t] for c, k, t in history]}
    any_kill = any(k is not None for _, k, _ in history)
    ctx.case((label, repr(inp["history"]), su.nparts), any_kill)
    diverged = False
    su.results = []
    init_ok, done, finalised = False, set(), False       # protocol bookkeeping for the recovery clause
    for idx, (cmd, kill, torn) in enumerate(history):
        pre = set(protolib.snapshot(su.icf))
        # dry trace of this command from the current state to map the real kill index to model mutations:
        # run it for real in a forked child without kill on a copy? too slow — instead compute the mapping from
        # the trace of the killed/complete child, which we get by re-running traced in a fork when needed.
        # the command's full event sequence from the current state (probe run in a fork, tree restored afterwards):
        # maps the real kill index to a number of model mutations
        evs = trace_from(su, cmd, pre, idx, history)
        res = fstrace.run_killed(su.icf, su.cmd_fn(cmd), kill)
        su.results.append(res)
        muts, before = su.model_events(evs, pre)
        if res == "killed":
            fuel = before[kill] if kill < len(before) else len(muts)
            last = evs[kill - 1] if kill and kill - 1 < len(evs) else None
            if torn and last is not None and last[0] == "write":
                p = su.icf / last[1]
                ref = su.ref_bytes.get(last[1]) or su.transient_bytes.get(last[1]) or b"xxxxxxxx"
                if p.exists():
                    protolib.truncate_to_prefix(p, ref, rng)
                    fuel = before[kill] - 1          # between the torn and the ok mutation of that write
            ctx.count("kill_torn" if torn else "kill")
        else:
            fuel = None
        mc = {"cmd": cmd[0]}
        if cmd[0] == "partition":
            mc["j"] = cmd[1]
        if fuel is not None:
            mc["kill"] = fuel
        model_hist.append(mc)
        if ctx.driver_ok and not diverged:
            m = ctx.driver.ask({"op": "xp.hist", **cfg, "history": model_hist})
            st = m["steps"][-1]
            m_out = "raised" if st["error"] else ("killed" if fuel is not None and st["muts"] == fuel and fuel < st["total_muts"] else "completed")
            r_out = "raised" if res.startswith("raised") else res
            real_state = su.classify_tree()
            if m_out != r_out and not (r_out == "killed" and m_out == "completed" and fuel >= st["total_muts"]):
                ctx.disagree(f"outcome of step {idx} ({cmd}, kill={kill}) differs from the model: {res} vs {m_out}", inp, m_out, res)
                diverged = True
            if real_state != m["state"]:
                diff = {k: (m["state"].get(k), real_state.get(k)) for k in set(m["state"]) | set(real_state)
                        if m["state"].get(k) != real_state.get(k)}
                if not diverged:
                    ctx.disagree(f"tree after step {idx} ({cmd}, kill={kill}, torn={torn}) differs from the model state", inp,
                                 dict(list(diff.items())[:6]), "…")
                diverged = True
            # trace tie for completed commands
            if res == "completed" and not diverged:
                prog = m["steps"][-1]["prog"]
                if prog != muts:
                    ctx.disagree(f"mutation sequence of {cmd} differs from the model program", inp, prog[:8], muts[:8])
                    diverged = True
        ctx.traces += 1
        # ---- the statement, directly
        loads, values = try_load(su)
        if loads and values != su.ref_values:
            ctx.violate(f"after {inp['history'][:idx+1]} the store loads as finished but its data differs from an uninterrupted run",
                        inp, "reference values", "different / unreadable")
            return False
        # ---- the recovery clause: once init and every partition have completed, an uninterrupted finalise must complete,
        # however many earlier finalise attempts were killed
        if cmd[0] == "init":
            if res == "completed":
                init_ok, done, finalised = True, set(), False
        elif cmd[0] == "partition" and init_ok and cmd[1] < su.nparts:
            if res == "completed":
                done.add(cmd[1])
            elif res == "killed":
                done.discard(cmd[1])
        elif (cmd[0] == "finalise" and init_ok and not finalised and kill is None and len(done) == su.nparts
              and "metadata.json" not in pre):      # (a store that already loads as finished needs no recovery)
            if res != "completed":
                ctx.violate(f"after {inp['history'][:idx+1]}: init and all {su.nparts} partitions completed, yet an uninterrupted finalise "
                            f"does not complete ({res[:120]}) - the interrupted run cannot be recovered", inp, "finalise completes", res[:200])
                return False
        if cmd[0] == "finalise" and res == "completed":
            finalised = True
        if cmd[0] == "finalise" and res == "completed":
            # a finalise that reports completion must leave exactly the store of an uninterrupted run
            snap = protolib.snapshot(su.icf)
            if snap != su.reference:
                bad = sorted(k for k in set(snap) | set(su.reference) if snap.get(k) != su.reference.get(k))[:6]
                ctx.violate(f"after {inp['history'][:idx+1]} finalise reported completion but the store differs from an "
                            f"uninterrupted run in {bad}" + ("" if loads else " (and does not load)"), inp, "identical tree", bad)
                return False
    return not diverged


def try_load(su):
    try:
        store = su.vcf2zarr.IntermediateColumnarFormat(su.icf)
    except Exception:  # noqa: BLE001
        return False, None
    vals = {}
    try:
        vals["<vcf_header>"] = store.vcf_header
        vals["<samples>"] = [x.id for x in store.metadata.samples]
        vals["<contigs>"] = [(x.id, x.length) for x in store.metadata.contigs]
        vals["<num_records>"] = store.num_records
        for name, f in store.fields.items():
            vals[name] = [repr(v) for v in f.values]
    except Exception as e:  # noqa: BLE001
        return True, f"unreadable: {type(e).__name__}"
    return True, vals


_trace_cache = {}


def trace_from(su, cmd, pre, idx, history):
    """the real event sequence of `cmd` from the current state: run it traced in a fork on a copy of the tree"""
    src = su.icf
    tmp = su.work / "probe"
    shutil.rmtree(tmp, ignore_errors=True)
    if src.exists():
        shutil.copytree(src, tmp, symlinks=True)
    # the command operates on su.icf: temporarily swap directories
    hold = su.work / "hold"
    shutil.rmtree(hold, ignore_errors=True)
    had = src.exists()
    # run on the original location in a child, then restore the pre-state from the copy
    r, w = os.pipe()
    pid = os.fork()
    if pid == 0:
        os.close(r)
        import pickle
        ev, exc = fstrace.traced(src, su.cmd_fn(cmd))
        os.write(w, pickle.dumps(ev))
        os._exit(0)
    os.close(w)
    data = b""
    while True:
        c = os.read(r, 65536)
        if not c:
            break
        data += c
    os.close(r)
    os.waitpid(pid, 0)
    import pickle
    ev = pickle.loads(data) if data else []
    # restore
    shutil.rmtree(src, ignore_errors=True)
    if tmp.exists():
        shutil.copytree(tmp, src, symlinks=True)
        shutil.rmtree(tmp, ignore_errors=True)
    return ev


def collect_transients(su):
    """contents of wip files (summaries, plan) as an uninterrupted run writes them"""
    shutil.rmtree(su.icf, ignore_errors=True)
    su.transient, su.transient_bytes = {}, {}
    su.cmd_fn(("init",))()
    for j in range(su.nparts):
        su.cmd_fn(("partition", j))()
    snap = protolib.snapshot(su.icf)
    for p, h in snap.items():
        if h != "dir" and p not in su.reference:
            su.transient[p] = h
            su.transient_bytes[p] = (su.icf / p).read_bytes()
    shutil.rmtree(su.icf, ignore_errors=True)


def recovery_check(ctx, su, history, label):
    """after any history in which init completed: the protocol commands must still be able to reach a store that loads and
    equals an uninterrupted run — finalise again; if that is not enough, every partition (random order, one twice) and
    finalise.  The statement's recovery clause, directly."""
    rng = ctx.rng
    init_done = False
    for (c, k, _t), r in zip(history, su.results):
        if c[0] == "init" and r == "completed":
            init_done = True
    if not init_done:
        return
    loads, values = try_load(su)
    if loads:
        return          # (its content was compared with the reference after every step)
    order = list(range(su.nparts)) + [rng.randrange(su.nparts)]
    rng.shuffle(order)
    inp = {"vcf_spec": su.spec, "history": [[list(c), k, t] for c, k, t in history], "recovery_order": order}
    errors = []
    for cmd in [("finalise",)] + [("partition", j) for j in order] + [("finalise",)]:
        try:
            su.cmd_fn(cmd)()
        except Exception as e:  # noqa: BLE001
            errors.append(f"{cmd}: {type(e).__name__}")
        if cmd[0] == "finalise" and try_load(su)[0]:
            break
    loads, values = try_load(su)
    ctx.count("recovery_checked")
    if not loads:
        ctx.violate(f"after {inp['history']} no protocol command recovers a store that loads (finalise; partitions {order}; finalise -> "
                    f"{errors[:4]})", inp, "recovers", errors[:6])
        return
    if values != su.ref_values:
        ctx.violate(f"store recovered after {inp['history']} differs from an uninterrupted run", inp, "reference values", "different")
        return
    snap = {k: v for k, v in protolib.snapshot(su.icf).items() if not k.startswith("wip")}
    if snap != su.reference:
        bad = sorted(k for k in set(snap) | set(su.reference) if snap.get(k) != su.reference.get(k))[:6]
        ctx.violate(f"store recovered after {inp['history']} differs from an uninterrupted run in {bad}", inp, "identical tree", bad)


def many_partitions_case(ctx, work):
    """more than ten partitions (two-digit partition numbers): partitions re-run, one of them after a kill, in an order in
    which low numbers follow high ones; the finalised store must equal the uninterrupted one"""
    from bio2zarr import vcf2zarr
    rng = ctx.rng
    for _try in range(6):
        spec = vcfgen.simple_file(rng, nrec=70, ncontig=14, samples=0, unused_contigs=False, span=50_000)
        vcf = vcfgen.materialise(spec, pathlib.Path(work) / "many", "vcf.gz+tbi", block_size=200)
        ref, icf = pathlib.Path(work) / "many_ref.icf", pathlib.Path(work) / "many.icf"
        shutil.rmtree(ref, ignore_errors=True)
        vcf2zarr.explode(ref, [vcf], worker_processes=0)
        shutil.rmtree(icf, ignore_errors=True)
        n = vcf2zarr.explode_init(icf, [vcf], target_num_partitions=14, worker_processes=0).num_partitions
        if n >= 12:
            break
    else:
        return
    ref_store = vcf2zarr.IntermediateColumnarFormat(ref)
    want = {name: [repr(v) for v in f.values] for name, f in ref_store.fields.items()}
    order = list(range(n))
    rng.shuffle(order)
    reruns = [1, rng.choice([0, 2]), rng.randrange(n)]
    killed = rng.choice([1, 2])
    inp = {"vcf_spec": spec, "partitions": n, "first_order": order, "reruns": reruns, "rerun_killed_first": killed}
    ctx.case(("many partitions", n, tuple(order), tuple(reruns), killed), True)
    ctx.count("many_partitions_cases")
    try:
        for j in order:
            vcf2zarr.explode_partition(icf, j)
        probe = fstrace.traced(icf, lambda: vcf2zarr.explode_partition(icf, killed))[0]
        fstrace.run_killed(icf, lambda: vcf2zarr.explode_partition(icf, killed), max(1, len(probe) // 2))
        for j in [killed] + reruns:
            vcf2zarr.explode_partition(icf, j)
        vcf2zarr.explode_finalise(icf)
        got_store = vcf2zarr.IntermediateColumnarFormat(icf)
        got = {name: [repr(v) for v in f.values] for name, f in got_store.fields.items()}
    except Exception as e:  # noqa: BLE001
        ctx.violate(f"{n} partitions, re-runs {reruns} (partition {killed} killed once before): {type(e).__name__}: {str(e)[:200]}", inp,
                    "the uninterrupted store", repr(e)[:200])
        return
    if got != want:
        bad = sorted(k for k in set(got) | set(want) if got.get(k) != want.get(k))[:4]
        ctx.violate(f"{n} partitions, re-runs {reruns}: the finalised store differs from an uninterrupted run in fields {bad}", inp, "identical", bad)
    shutil.rmtree(ref, ignore_errors=True)
    shutil.rmtree(icf, ignore_errors=True)


def run(ctx):
    work = common.scratch_dir("c05-")
    rng = ctx.rng
    try:
        many_partitions_case(ctx, work)
        nsetups = 4 if ctx.thorough else 2
        for si in range(nsetups):
            su = Setup(ctx, work, rng.choice([1, 2, 3, 4]), si)
            collect_transients(su)
            n_init = len(su.traces["init"])
            n_fin = len(su.traces["finalise"])
            n_p = [len(su.traces[("partition", j)]) for j in range(su.nparts)]
            P = lambda j: ("partition", j)  # noqa: E731
            full = [(("init",), None, False)] + [(P(j), None, False) for j in range(su.nparts)]
            hists = []
            # every / sampled kill point of each step (with torn variants)
            pts = range(n_init + 1) if ctx.thorough else sorted(set(rng.sample(range(n_init + 1), min(6, n_init + 1))) |
                                                                   {n_init - 1, n_init - 2})
            for k in pts:
                hists.append(("kill init", [(("init",), k, rng.random() < 0.4)] + [(P(j), None, False) for j in range(su.nparts)] +
                              [(("finalise",), None, False)]))
            j0 = rng.randrange(su.nparts)
            pts = range(n_p[j0] + 1) if ctx.thorough else sorted(rng.sample(range(n_p[j0] + 1), min(10, n_p[j0] + 1)))
            for k in pts:
                hists.append(("kill partition", [(("init",), None, False)] + [(P(j), None, False) for j in range(su.nparts) if j != j0] +
                              [(P(j0), k, rng.random() < 0.5), (("finalise",), None, False)]))
            # a partition that already completed is run again and killed (torn last write), then finalise is issued
            pts = range(1, n_p[j0] + 2) if ctx.thorough else sorted(rng.sample(range(1, n_p[j0] + 2), min(8, n_p[j0] + 1)))
            for k in pts:
                hists.append(("kill partition rerun", full + [(P(j0), k, True), (("finalise",), None, False)]))
            for k in range(n_fin + 1):
                for torn in (False, True):
                    hists.append(("kill finalise", full + [(("finalise",), k, torn), (P(j0), None, False), (("finalise",), None, False)]))
            # F7 regression: finalise killed after writing metadata.json, then a partition rerun killed midway
            hists.append(("F7 regression", full + [(("finalise",), 1, False), (P(0), min(15, n_p[0] - 1), True), (("finalise",), None, False)]))
            # out of protocol
            hists.append(("out of protocol", [(P(0), None, False), (("finalise",), None, False), (("init",), None, False),
                                             (("init",), None, False), (("finalise",), None, False), (P(su.nparts), None, False)]))
            # random histories
            for _ in range(60 if ctx.thorough else 12):
                h = [(("init",), rng.choice([None, None, None, rng.randrange(n_init + 1)]), rng.random() < 0.3)]
                for _s in range(rng.randrange(2, 7)):
                    c = rng.choice([P(rng.randrange(su.nparts)), P(rng.randrange(su.nparts)), ("finalise",), ("init",)])
                    n = n_init if c[0] == "init" else (n_fin if c[0] == "finalise" else n_p[c[1]])
                    h.append((c, rng.choice([None, None, rng.randrange(n + 1)]), rng.random() < 0.4))
                hists.append(("random", h))
            for label, h in hists:
                nv = len(ctx.violations)
                run_history(ctx, su, h, label)
                ctx.count(label.replace(" ", "_"))
                if len(ctx.violations) == nv:
                    recovery_check(ctx, su, h, label)
            ctx.sample({"partitions": su.nparts, "events": {"init": n_init, "partition": n_p, "finalise": n_fin},
                        "example_history": [[list(c), k, t] for c, k, t in hists[len(hists) // 2][1]]}, limit=3)
            shutil.rmtree(su.icf, ignore_errors=True)
    finally:
        shutil.rmtree(work, ignore_errors=True)


def replay(ctx, payload):
    v = payload.get("violation") or (payload.get("disagreements") or [{}])[0]
    print("replay of a kill history needs the same generated input: rerun `./check C05` with VERIF_SEED =", payload.get("seed"))
    print("history:", v.get("input", {}).get("history"))
