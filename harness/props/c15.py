"""C15 — command-line commands have exactly the effect of the library operations."""
import io
import json
import os
import pathlib
import shutil
import subprocess
import sys
from unittest import mock

import common
import convlib
import protolib
import vcfgen

ID = "C15"
LEAN_MODULES = ["B2Z.Props.C15"]
THEOREMS = [
    "B2Z.Cli.C15_option_passthrough", "B2Z.Cli.C15_bare_values", "B2Z.Cli.C15_command_bodies", "B2Z.Cli.C15_guard_source",
    "B2Z.Cli.C15_one_based", "B2Z.Cli.C15_overwrite_guard", "B2Z.Cli.C15_partition_count_explode",
    "B2Z.Cli.C15_partition_count_encode", "B2Z.Cli.C15_vcfpartition_parts",
]
GEN_DEPENDS = ["Cli."]
ASSUMPTIONS = [
    "PARTIAL: click's parsing of the command line (types, defaults, flags) is trusted; it is exercised, not modelled",
    "the documented mapping (Model/Cli.lean `documented`) is the specification of 'options reach the operation unchanged'",
    "partition-count clause relies on the protocol theorems of C05 / C06",
]
RULE = ("every vcf2zarr / plink2zarr / vcfpartition command invoked through click's runner with random option values against (a) a "
        "recorder standing in for the library operation — keyword values compared with the documented mapping — and (b) the real "
        "library call, comparing stdout and resulting directory trees; overwrite prompt y/n/--force; --one-based for every "
        "partition number incl. 0 and N+1; printed partition counts vs the number of partition commands finalise needs; "
        "non-trivial = an invocation with at least one non-default option")
LEVEL_TEXT = ("Lean: the table regenerated from cli.py on every run equals the documented mapping — every option reaches the "
              "same-named library keyword as the bare parsed value, the only transformation being get_compressor "
              "(C15_option_passthrough, C15_bare_values); the statements around each call are the overwrite guard / partition-count "
              "check / one-based decrement only (C15_command_bodies, C15_guard_source); k with --one-based = k-1 without, 0 is "
              "rejected (C15_one_based); an existing path is untouched without --force or a yes (C15_overwrite_guard); finalise "
              "succeeds iff exactly the printed number of partitions completed (C15_partition_count_*, from C05/C06). PARTIAL: "
              "click's parsing is trusted. Tied to the code by running the real CLI against recorders and against the library "
              "calls, comparing keyword values, stdout and directory trees.")
LEVEL_NOTE = "Trusted: Lean kernel + standard axioms; extractor; click's option parsing."
TECHNIQUE = "decide over the CLI table regenerated from source vs the documented mapping + protocol corollaries + differential CLI/library runs"

DEFAULTS = {"worker_processes": 1, "column_chunk_size": 64, "compressor": None, "progress": True, "local_alleles": False,
            "variants_chunk_size": None, "samples_chunk_size": None, "max_variant_chunks": None, "max_memory": None, "schema": None,
            "num_partitions": None}
FLAGS = {"worker_processes": "-p", "column_chunk_size": "-c", "compressor": "-C", "variants_chunk_size": "-l", "samples_chunk_size": "-w",
         "max_variant_chunks": "-V", "max_memory": "-M", "schema": "-s", "num_partitions": "-n"}
CMDNAME = {"explode": "explode", "dexplode_init": "dexplode-init", "dexplode_partition": "dexplode-partition",
           "dexplode_finalise": "dexplode-finalise", "inspect": "inspect", "mkschema": "mkschema", "encode": "encode",
           "dencode_init": "dencode-init", "dencode_partition": "dencode-partition", "dencode_finalise": "dencode-finalise",
           "convert_vcf": "convert"}


def runner():
    from click.testing import CliRunner
    return CliRunner()


def invoke(args, input=None, main="vcf2zarr"):
    from bio2zarr import cli
    cmd = {"vcf2zarr": cli.vcf2zarr_main, "plink2zarr": cli.plink2zarr, "vcfpartition": cli.vcfpartition}[main]
    r = runner().invoke(cmd, [str(a) for a in args], input=input, catch_exceptions=True)
    return r


def mapping_cases(ctx, work, vcf, icf):
    """options -> keywords, with the library operation replaced by a recorder"""
    import numcodecs
    from bio2zarr import cli
    rng = ctx.rng
    table = ctx.driver.ask({"op": "cli.documented"}) if ctx.driver_ok else None
    if table is None:
        return
    schema_file = pathlib.Path(work) / "some_schema.json"
    schema_file.write_text("{}")
    for entry in table:
        pyname = entry["command"]
        if pyname in ("dexplode_partition", "dencode_partition", "dexplode_finalise", "inspect", "convert_plink"):
            continue
        for rep in range(6 if ctx.thorough else 2):
            vals = dict(DEFAULTS)
            args = []
            chosen = {}
            for kw, var, xf in entry["kwargs"]:
                if var == "progress":
                    if rng.random() < 0.5:
                        vals["progress"] = False
                        args.append("-Q")
                    continue
                if var == "local_alleles":
                    if rng.random() < 0.5:
                        vals[var] = True
                        args.append("--local-alleles")
                    continue
                if var == "num_partitions":
                    vals[var] = rng.randrange(1, 50)
                    args += ["-n", vals[var]]
                    continue
                if rng.random() < 0.6:
                    v = {"worker_processes": rng.randrange(0, 9), "column_chunk_size": rng.randrange(1, 500),
                         "compressor": rng.choice(["lz4", "zstd"]), "variants_chunk_size": rng.randrange(1, 10**5),
                         "samples_chunk_size": rng.randrange(1, 10**4), "max_variant_chunks": rng.randrange(1, 99),
                         "max_memory": rng.choice(["10G", "512M", "123456"]), "schema": str(schema_file)}[var]
                    vals[var] = v
                    chosen[var] = v
                    args += [FLAGS[var], v]
            out_path = pathlib.Path(work) / "map_out"
            shutil.rmtree(out_path, ignore_errors=True)
            pos = {"icf_path": str(icf), "vcfs": (str(vcf),), "zarr_path": str(out_path)}
            if pyname in ("explode", "dexplode_init"):
                pos["icf_path"] = str(out_path)
                cli_args = [str(vcf), str(out_path)]
            elif pyname == "convert_vcf":
                cli_args = [str(vcf), str(out_path)]
            elif pyname == "mkschema":
                cli_args = [str(icf)]
            elif pyname == "dencode_finalise":
                cli_args = [str(icf)]
                pos["zarr_path"] = str(icf)
            else:
                cli_args = [str(icf), str(out_path)]
            target = entry["func"].split(".")[1]
            rec = mock.MagicMock()
            rec.return_value = mock.MagicMock(asjson=lambda: "{}", asdict=lambda: {})
            with mock.patch(f"bio2zarr.cli.vcf2zarr.{target}", rec):
                r = invoke([CMDNAME[pyname], *cli_args, *args])
            inp = {"command": CMDNAME[pyname], "args": [str(a) for a in args]}
            ctx.case(("map", pyname, tuple(map(str, args))), bool(chosen))
            ctx.count("mapping_" + pyname)
            if r.exit_code != 0 or rec.call_count != 1:
                ctx.violate(f"{CMDNAME[pyname]} {args}: exit {r.exit_code}, library operation called {rec.call_count} times: {r.output[-200:]}",
                            inp, "one call", r.output[-200:])
                continue
            got_args, got_kw = rec.call_args
            exp_kw = {}
            for kw, var, xf in entry["kwargs"]:
                v = vals[var]
                if xf == "compressor" and v is not None:
                    v = numcodecs.Blosc(cname=v, clevel=7, shuffle=numcodecs.Blosc.NOSHUFFLE)
                exp_kw[kw] = v
            norm = lambda d: {k: (v.get_config() if hasattr(v, "get_config") else v) for k, v in d.items()}  # noqa: E731
            if norm(got_kw) != norm(exp_kw):
                bad = {k: (norm(exp_kw).get(k), norm(got_kw).get(k)) for k in set(exp_kw) | set(got_kw) if norm(exp_kw).get(k) != norm(got_kw).get(k)}
                ctx.violate(f"{CMDNAME[pyname]} {' '.join(map(str, args))}: keywords reaching {entry['func']} differ from the documented mapping: "
                            f"{bad} (expected, got)", inp, norm(exp_kw), norm(got_kw))
            exp_pos = [pos[a] if a in pos else a for a in entry["args"]]
            gp = [a if not hasattr(a, "name") else "stream" for a in got_args]
            gp = [tuple(x) if isinstance(x, (list, tuple)) else x for x in gp]
            if pyname != "mkschema" and [str(x) if not isinstance(x, tuple) else x for x in gp] != exp_pos:
                ctx.violate(f"{CMDNAME[pyname]}: positional arguments {gp} != {exp_pos}", inp, exp_pos, gp)
            if chosen:
                ctx.sample({"command": CMDNAME[pyname], "argv": [str(a) for a in args], "library_call": entry["func"],
                            "keywords": {k: str(v) for k, v in norm(got_kw).items()}}, limit=4)


def end_to_end(ctx, work, spec, vcf):
    from bio2zarr import vcf2zarr
    rng = ctx.rng
    inp = {"vcf_spec": spec}
    # ---- explode / encode: CLI vs library
    ccs = rng.choice([1, 64])
    a, b = pathlib.Path(work) / "cli.icf", pathlib.Path(work) / "lib.icf"
    for p in (a, b):
        shutil.rmtree(p, ignore_errors=True)
    r = invoke(["explode", vcf, a, "-Q", "-p", 0, "-c", ccs, "-C", "lz4"])
    vcf2zarr.explode(b, [vcf], worker_processes=0, column_chunk_size=ccs, compressor=__import__("numcodecs").Blosc(cname="lz4", clevel=7, shuffle=0))
    ctx.case(("e2e explode", ccs), True)
    if r.exit_code != 0 or protolib.snapshot(a) != _rebase(protolib.snapshot(b)):
        ctx.violate(f"`explode -c {ccs} -C lz4` differs from the library call (exit {r.exit_code}): {r.output[-150:]}", inp, "identical trees", "differ")
    vcs, cap = rng.choice([2, 3, 1000]), rng.choice([None, 1, 2])
    za, zb = pathlib.Path(work) / "cli.zarr", pathlib.Path(work) / "lib.zarr"
    for p in (za, zb):
        shutil.rmtree(p, ignore_errors=True)
    args = ["encode", b, za, "-Q", "-p", 0, "-l", vcs, "-w", 2] + (["-V", cap] if cap else [])
    r = invoke(args)
    vcf2zarr.encode(b, zb, worker_processes=0, variants_chunk_size=vcs, samples_chunk_size=2, max_variant_chunks=cap)
    ctx.case(("e2e encode", vcs, cap), True)
    if r.exit_code != 0 or protolib.snapshot(za) != protolib.snapshot(zb):
        ctx.violate(f"`{' '.join(map(str, args[:1] + args[3:]))}` differs from the library call (exit {r.exit_code}): {r.output[-150:]}", inp,
                    "identical trees", "differ")
    # ---- mkschema
    r = invoke(["mkschema", b, "-l", 7])
    buf = io.StringIO()
    vcf2zarr.mkschema(b, buf, variants_chunk_size=7)
    ctx.case(("e2e mkschema",), True)
    if r.exit_code != 0 or json.loads(r.output) != json.loads(buf.getvalue()):
        ctx.violate("`mkschema -l 7` output differs from the library call", inp, "same schema", r.output[:100])
    # ---- overwrite guard
    for answer, force in (("n\n", False), ("y\n", False), (None, True)):
        before = protolib.snapshot(za)
        marker = za / "MARKER"
        marker.write_text("x")
        args = ["encode", b, za, "-Q", "-p", 0] + (["-f"] if force else [])
        r = invoke(args, input=answer)
        ctx.case(("guard", answer, force), True)
        ctx.count("guard")
        want = ctx.driver.ask({"op": "cli.guard", "exists": True, "force": force, "confirm": answer == "y\n"}) if ctx.driver_ok else None
        if answer == "n\n" and not force:
            if r.exit_code == 0 or not marker.exists() or {k: v for k, v in protolib.snapshot(za).items() if k != "MARKER"} != before:
                ctx.violate("existing output path was modified although the overwrite question was answered 'n'", inp, "untouched, non-zero exit",
                            f"exit {r.exit_code}, marker {'kept' if marker.exists() else 'gone'}")
            if want not in (None, "abort"):
                ctx.disagree("overwrite guard differs from the model", {"answer": answer, "force": force}, want, "abort")
        else:
            if r.exit_code != 0 or marker.exists():
                ctx.violate(f"overwrite with {'--force' if force else 'answer y'} failed (exit {r.exit_code}) or kept old content", inp, "replaced",
                            r.output[-150:])
            if force and "overwrite" in r.output.lower():
                ctx.violate("--force still asked for confirmation", inp, "no prompt", r.output[:100])
            if want not in (None, "replace"):
                ctx.disagree("overwrite guard differs from the model", {"answer": answer, "force": force}, want, "replace")
    # ---- the guard for EVERY command that takes an output path, with the option combinations that change what the command
    # prints (e.g. --json): a negative or empty answer leaves the existing path untouched
    victim = pathlib.Path(work) / "victim"
    cmds = [("explode", [vcf, victim, "-Q", "-p", 0]), ("encode", [b, victim, "-Q", "-p", 0]), ("convert", [vcf, victim, "-Q", "-p", 0]),
            ("dexplode-init", [vcf, victim, "-n", 2, "-Q"]), ("dexplode-init", [vcf, victim, "-n", 2, "-Q", "--json"]),
            ("dencode-init", [b, victim, "-n", 2, "-Q"]), ("dencode-init", [b, victim, "-n", 2, "-Q", "--json"]),
            ("dencode-init", [b, victim, "-n", 2, "--json", "-l", 3])]
    for cmd, args in cmds:
        for answer in ("n\n", ""):
            shutil.rmtree(victim, ignore_errors=True)
            victim.mkdir()
            (victim / "KEEP_ME").write_text("x")
            (victim / "sub").mkdir()
            (victim / "sub" / "data").write_text("y")
            before = protolib.snapshot(victim)
            r = invoke([cmd, *args], input=answer)
            ctx.case(("guard-all", cmd, tuple(map(str, args[2:])), answer), True)
            ctx.count("guard_all_commands")
            if r.exit_code == 0 or protolib.snapshot(victim) != before:
                ctx.violate(f"`{cmd} {' '.join(map(str, args[2:]))}` on an existing path, confirmation answered {answer!r}, no --force: "
                            f"exit {r.exit_code}, path {'modified' if protolib.snapshot(victim) != before else 'untouched'}",
                            {**inp, "command": cmd, "args": [str(x) for x in args[2:]], "answer": answer}, "untouched, non-zero exit",
                            f"exit {r.exit_code}")
    shutil.rmtree(victim, ignore_errors=True)
    fresh = pathlib.Path(work) / "fresh.zarr"
    shutil.rmtree(fresh, ignore_errors=True)
    r = invoke(["encode", b, fresh, "-Q", "-p", 0])
    if r.exit_code != 0 or "overwrite" in r.output.lower():
        ctx.violate("a fresh output path triggered the overwrite prompt or failed", inp, "no prompt", r.output[:100])
    # ---- distributed commands, one-based numbering, printed partition counts
    for kind in ("dexplode", "dencode"):
        for use_json, one_based in ((True, True), (False, False)):
            tgt = pathlib.Path(work) / f"{kind}_cli"
            ref = pathlib.Path(work) / f"{kind}_lib"
            for p in (tgt, ref):
                shutil.rmtree(p, ignore_errors=True)
            n_req = rng.choice([2, 3, 5])
            src = [vcf] if kind == "dexplode" else [b]
            extra = ["-c", 1] if kind == "dexplode" else ["-l", 2]
            r = invoke([f"{kind}-init", *src, tgt, "-n", n_req, "-Q", *extra] + (["--json"] if use_json else []))
            if r.exit_code != 0:
                ctx.violate(f"{kind}-init failed: {r.output[-200:]}", inp, "ok", r.output[-200:])
                continue
            if use_json:
                n = json.loads(r.output[r.output.index("{"):])["num_partitions"]
            else:
                n = int(next(line.split()[1] for line in r.output.splitlines() if line.startswith("num_partitions")))
            if kind == "dexplode":
                s = vcf2zarr.explode_init(ref, [vcf], target_num_partitions=n_req, column_chunk_size=1, worker_processes=0)
            else:
                s = vcf2zarr.encode_init(b, ref, target_num_partitions=n_req, variants_chunk_size=2)
            ctx.case((kind, "count", n_req, use_json, one_based), True)
            ctx.count(f"{kind}_protocol")
            if n != s.num_partitions:
                ctx.violate(f"{kind}-init printed {n} partitions, the library reports {s.num_partitions}", inp, s.num_partitions, n)
            # all but the last partition: finalise must fail
            nums = list(range(1, n + 1)) if one_based else list(range(n))
            for k in nums[:-1]:
                rr = invoke([f"{kind}-partition", tgt, k] + (["--one-based"] if one_based else []))
                if rr.exit_code != 0:
                    ctx.violate(f"{kind}-partition {k} ({'one' if one_based else 'zero'}-based) failed: {rr.output[-150:]}", inp, "ok", rr.output[-150:])
            rr = invoke([f"{kind}-finalise", tgt] + (["-Q"] if kind == "dencode" else []))
            if rr.exit_code == 0:
                ctx.violate(f"{kind}-finalise succeeded after {n - 1} of the {n} printed partitions", inp, "error", "success")
            # out-of-range numbers
            for k, ob in ((0, True), (n + 1, True), (n, False)):
                rr = invoke([f"{kind}-partition", tgt, k] + (["--one-based"] if ob else []))
                m = ctx.driver.ask({"op": "cli.partition", "k": k, "n": n, "one_based": ob}) if ctx.driver_ok else {"accepted": False}
                if (rr.exit_code == 0) != m["accepted"]:
                    ctx.violate(f"{kind}-partition {k} {'--one-based' if ob else ''} with {n} partitions: exit {rr.exit_code}", inp,
                                "accepted" if m["accepted"] else "rejected", rr.exit_code)
            rr = invoke([f"{kind}-partition", tgt, nums[-1]] + (["--one-based"] if one_based else []))
            rr2 = invoke([f"{kind}-finalise", tgt] + (["-Q"] if kind == "dencode" else []))
            if rr.exit_code != 0 or rr2.exit_code != 0:
                ctx.violate(f"{kind}: after all {n} printed partitions finalise failed: {rr2.output[-200:]}", inp, "success", rr2.output[-200:])
                continue
            # library-driven reference with zero-based numbers
            for j in range(s.num_partitions):
                (vcf2zarr.explode_partition if kind == "dexplode" else vcf2zarr.encode_partition)(ref, j)
            (vcf2zarr.explode_finalise if kind == "dexplode" else vcf2zarr.encode_finalise)(ref)
            if protolib.snapshot(tgt) != _rebase(protolib.snapshot(ref)):
                ctx.violate(f"{kind}-* through the CLI ({'one' if one_based else 'zero'}-based) gives a different store than the library calls", inp,
                            "identical trees", "differ")
    ctx.traces += 1


def _rebase(snap):
    return snap


def vcfpartition_cases(ctx, work, vcfs):
    from bio2zarr import vcf_utils
    rng = ctx.rng
    # -n is the total over all files: fewer parts than files, exactly as many, and more
    cases = [("-n", v) for v in sorted({1, max(1, len(vcfs) - 1), len(vcfs), rng.choice([3, 7])})] + [("-s", rng.choice(["200", "1KB", "5MiB"]))]
    for kind, val in cases:
        r = invoke([*vcfs, kind, val], main="vcfpartition")
        exp = []
        for p in vcfs:
            iv = vcf_utils.IndexedVcf(p)
            if kind == "-n":
                regs = iv.partition_into_regions(num_parts=max(1, val // len(vcfs)))
            else:
                regs = iv.partition_into_regions(target_part_size=val)
            exp += [f"{reg}\t{p}" for reg in regs]
            iv.vcf.close()
        ctx.case(("vcfpartition", kind, val, len(vcfs)), True)
        ctx.count("vcfpartition")
        if r.exit_code != 0 or r.output.strip().splitlines() != exp:
            ctx.violate(f"vcfpartition {kind} {val} over {len(vcfs)} files prints {r.output.strip().splitlines()[:4]}, the library gives {exp[:4]}",
                        {"option": kind, "value": val}, exp[:6], r.output.strip().splitlines()[:6])
    r = invoke([*vcfs], main="vcfpartition")
    if r.exit_code == 0:
        ctx.violate("vcfpartition without -n/-s succeeded", {}, "usage error", r.output[:80])


def plink_case(ctx, work):
    import zarr
    from bio2zarr import plink
    from props import c16
    rng = ctx.rng
    codes, pos, alleles, samples = c16.gen_fileset(rng)
    prefix = pathlib.Path(work) / "pl"
    c16.write_fileset(prefix, codes, rng, pos, alleles, samples)
    a, b = pathlib.Path(work) / "pl_cli.zarr", pathlib.Path(work) / "pl_lib.zarr"
    for p in (a, b):
        shutil.rmtree(p, ignore_errors=True)
    vcs = rng.choice([1, 3, 1000])
    r = invoke(["convert", str(prefix) + ".bed", a, "-Q", "-p", 0, "-l", vcs, "-w", 2], main="plink2zarr")
    plink.convert(str(prefix) + ".bed", b, worker_processes=0, variants_chunk_size=vcs, samples_chunk_size=2)
    ctx.case(("plink cli", vcs), True)
    ctx.count("plink_cli")
    if r.exit_code != 0 or protolib.snapshot(a) != protolib.snapshot(b):
        ctx.violate(f"plink2zarr convert -l {vcs} -w 2 differs from plink.convert (exit {r.exit_code}): {r.output[-150:]}", {"codes": codes},
                    "identical trees", "differ")


def run(ctx):
    work = common.scratch_dir("c15-")
    rng = ctx.rng
    try:
        from bio2zarr import vcf2zarr
        for k in range(3 if ctx.thorough else 1):
            spec = vcfgen.simple_file(rng, nrec=rng.choice([9, 14]), ncontig=rng.choice([1, 2]), samples=2, unused_contigs=False,
                                      span=200_000, long_refs=True)
            vcf = vcfgen.materialise(spec, pathlib.Path(work) / f"in{k}", "vcf.gz+tbi", block_size=200)
            vcf2 = vcfgen.materialise(spec, pathlib.Path(work) / f"inb{k}", "vcf.gz+csi", block_size=300)
            icf = pathlib.Path(work) / f"base{k}.icf"
            vcf2zarr.explode(icf, [vcf], worker_processes=0)
            mapping_cases(ctx, work, vcf, icf)
            end_to_end(ctx, work, spec, vcf)
            vcf3 = vcfgen.materialise(spec, pathlib.Path(work) / f"inc{k}", "vcf.gz+tbi", block_size=500)
            vcfpartition_cases(ctx, work, [vcf, vcf2, vcf3] if k % 2 == 0 else [vcf])
            plink_case(ctx, work)
        if ctx.thorough:
            env = dict(os.environ)
            env["PYTHONPATH"] = str(common.REPO)
            p = subprocess.run([sys.executable, "-m", "bio2zarr", "vcf2zarr", "inspect", str(icf)], env=env, capture_output=True, text=True, timeout=120)
            ctx.case(("python -m bio2zarr",), True)
            if p.returncode != 0 or "POS" not in p.stdout:
                ctx.violate("`python -m bio2zarr vcf2zarr inspect` failed", {}, "table", p.stderr[-200:])
    finally:
        shutil.rmtree(work, ignore_errors=True)


def replay(ctx, payload):
    print("replay: rerun `./check C15` with VERIF_SEED =", payload.get("seed"))
