"""C13 — unconvertible input sets are rejected loudly, never converted wrongly."""
import copy
import json
import pathlib
import shutil

import common
import convlib
import indexlib
import vcfgen
import vczspec

ID = "C13"
LEAN_MODULES = ["B2Z.Props.C13"]
THEOREMS = [
    "B2Z.Checks.sortParts_perm", "B2Z.Checks.sortParts_sorted", "B2Z.Checks.C13_partition_overlap_rejected",
    "B2Z.Checks.C13_accept_sound", "B2Z.Checks.C13_same_path_rejected", "B2Z.Checks.C13_name_clash_rejected",
    "B2Z.Checks.C13_clobber_lists", "B2Z.Checks.C13_undeclared_filter_rejected", "B2Z.Checks.C13_file_interleave_counterexample",
    "B2Z.Checks.C13_gen_overlap_check",
]
GEN_DEPENDS = ["Reserved.", "Checks."]
ASSUMPTIONS = [
    "each explode partition reports its true first and last record position (C04 refinement, C08 summaries)",
    "zarr refuses to create an array that already exists (duplicate-array detection at encode init)",
    "the file-level clause 'interleaving files are rejected' is FALSE in general (known finding K2): only adjacent partitions are compared; what is proved is soundness of whatever is accepted (C13_accept_sound) and rejection of every partition-level overlap",
]
RULE = ("file sets cut from one generated record set — disjoint, overlapping, touching, nested, identical, interleaved — in every "
        "order and with several partition targets; header perturbations; every reserved array name as INFO and FORMAT key; "
        "undeclared filters; the same path twice; non-trivial = a set that must be rejected")
LEVEL_TEXT = ("Lean: whatever partition set is accepted is strictly separated per contig in output order, so the concatenation is "
              "sorted and nothing is duplicated (C13_accept_sound); any two partitions with intersecting ranges, in any input "
              "order, cause rejection (C13_partition_overlap_rejected); duplicate paths, name clashes (clobber lists regenerated from "
              "the source plus duplicate-array detection, C13_name_clash_rejected, C13_clobber_lists) and undeclared filters are "
              "rejected; the partition-dependent acceptance of interleaving files is a proved counterexample (K2). Tied to the code "
              "by feeding the real partitions' (contig, start, end) to the model and comparing acceptance, and by a direct oracle on "
              "generated file sets (must-reject classes raise and leave no finished output; accepted sets are sorted and duplicate free).")
LEVEL_NOTE = "Trusted: Lean kernel + standard axioms; extractor for the name lists; K2 is a recorded known finding."
TECHNIQUE = "Lean 4 theorems over the sort-and-adjacent-check model + extractor-bridged name lists + differential runs on adversarial file sets"


def base_spec(rng):
    while True:
        spec = vcfgen.simple_file(rng, nrec=rng.choice([20, 30, 40]), ncontig=rng.choice([1, 2, 3]), samples=rng.choice([0, 2]),
                                  unused_contigs=False, span=rng.choice([200_000, 2_000_000]), long_refs=False)
        recs = spec["records"]
        # strictly increasing positions inside a contig make the cut classes unambiguous
        ok = all((a["contig"], a["pos"]) < (b["contig"], b["pos"]) for a, b in zip(recs, recs[1:]))
        if ok and len(recs) >= 10:
            return spec


def file_ranges(pieces):
    out = []
    for recs in pieces:
        r = {}
        for x in recs:
            lo, hi = r.get(x["contig"], (x["pos"], x["pos"]))
            r[x["contig"]] = (min(lo, x["pos"]), max(hi, x["pos"]))
        out.append(r)
    return out


def ranges_intersect(ranges):
    for i in range(len(ranges)):
        for j in range(i + 1, len(ranges)):
            for c, (lo, hi) in ranges[i].items():
                if c in ranges[j] and lo <= ranges[j][c][1] and ranges[j][c][0] <= hi:
                    return True
    return False


def attempt(ctx, spec, pieces, work, tag, label, must_reject, target=None, old_index=None):
    """explode (distributed API, so we can feed the partitions to the model) + encode"""
    from bio2zarr import vcf2zarr
    from bio2zarr.vcf2zarr import icf as icf_mod
    rng = ctx.rng
    paths = [vcfgen.materialise(spec, pathlib.Path(work) / f"{tag}_{i}", "vcf.gz+tbi", records=recs, block_size=120)
             for i, recs in enumerate(pieces)]
    # index flavour: some inputs carry an old-style tabix index without per-contig record counts
    stripped = []
    if old_index is None:
        old_index = rng.random() < 0.5
    if old_index:
        for i, pth in enumerate(paths):
            if i == 0 or rng.random() < 0.5:
                indexlib.strip_tbi_counts(pth)
                stripped.append(i)
    order = list(range(len(paths)))
    rng.shuffle(order)
    paths = [paths[i] for i in order]
    icf = pathlib.Path(work) / f"{tag}.icf"
    out = pathlib.Path(work) / f"{tag}.zarr"
    shutil.rmtree(icf, ignore_errors=True)
    shutil.rmtree(out, ignore_errors=True)
    target = target or rng.choice([len(paths), 2 * len(paths), 8])
    inp = {"vcf_spec": spec, "pieces": [[(r["contig"], r["pos"]) for r in recs] for recs in pieces], "file_order": order,
           "target_partitions": target, "class": label, "files_with_old_style_index": stripped}
    ctx.case((tag, label, target, repr(inp["pieces"])[:1500]), must_reject)
    ctx.count(label)
    parts_for_model = None
    err = None
    try:
        vcf2zarr.explode_init(icf, paths, target_num_partitions=target, worker_processes=0)
        w = icf_mod.IntermediateColumnarFormatWriter(icf)
        w.load_metadata()
        for j in range(w.num_partitions):
            w.process_partition(j)
        cmap = {c.id: k for k, c in enumerate(w.metadata.contigs)}
        parts_for_model = []
        for j, p in enumerate(w.metadata.partitions):
            summ = json.loads((icf / "wip" / f"p{j}.json").read_text())
            parts_for_model.append([cmap[p.region.contig], int(p.region.start), int(summ["last_position"])])
        w.finalise()
        vcf2zarr.encode(icf, out, worker_processes=0)
    except Exception as e:  # noqa: BLE001
        err = e
    accepted = err is None
    if ctx.driver_ok and parts_for_model is not None:
        m = ctx.driver.ask({"op": "checks.accepts", "parts": parts_for_model})
        real_finalise_ok = accepted or not isinstance(err, ValueError) or "Overlapping" not in str(err)
        if m["accepts"] != real_finalise_ok:
            ctx.disagree(f"acceptance of partitions {parts_for_model} differs from Model.Checks.accepts ({label})", inp, m["accepts"], repr(err))
    if not accepted:
        # "rejected with an error before any output presents as complete": the intermediate store must not load as finished
        try:
            vcf2zarr.IntermediateColumnarFormat(icf)
            loads = True
        except Exception:  # noqa: BLE001
            loads = False
        if loads:
            ctx.violate(f"{label}: rejected with {type(err).__name__} ({str(err)[:80]}) but the intermediate store loads as a finished store",
                        inp, "no complete-looking output", "ICF loads")
    if not accepted and (out / ".zmetadata").exists():
        ctx.violate(f"{label}: rejected with {type(err).__name__} but a finished Zarr store exists", inp, "no output", "finished store")
    if must_reject and accepted:
        k2 = None
        if label == "interleaved" and parts_for_model is not None:
            pm = sorted(parts_for_model)
            no_part_overlap = all(not (a[0] == b[0] and a[2] >= b[1]) for a, b in zip(pm, pm[1:]))
            got, _ = vczspec.read_store(out)
            pos = list(zip(got["variant_contig"]["data"], got["variant_position"]["data"]))
            truth = sorted((r["contig"], r["pos"]) for recs in pieces for r in recs)
            k2 = {"no_partition_overlap": no_part_overlap, "output_sorted_complete": pos == truth and len(set(pos)) == len(pos)}
        ctx.violate(f"{label}: file set {inp['pieces'] if len(str(inp['pieces'])) < 300 else str(inp['pieces'])[:300]} was accepted "
                    f"with {target} target partitions", inp, "rejected", "accepted", k2=k2)
    if not must_reject and not accepted:
        ctx.violate(f"{label}: a convertible file set was rejected: {type(err).__name__}: {str(err)[:150]}", inp, "accepted", repr(err)[:150])
    if accepted:
        got, _ = vczspec.read_store(out)
        pos = list(zip(got["variant_contig"]["data"], got["variant_position"]["data"]))
        if pos != sorted(pos) or (label != "same position twice" and len(set(pos)) != len(pos)):
            ctx.violate(f"{label}: accepted set produced out-of-order or duplicated records {pos[:8]}", inp, "sorted, no duplicates", pos[:12])
    if must_reject:
        ctx.sample({"class": label, "files": len(pieces), "target_partitions": target,
                    "outcome": "accepted" if accepted else f"{type(err).__name__}: {str(err)[:80]}"}, limit=6)
    ctx.traces += 1
    shutil.rmtree(icf, ignore_errors=True)
    shutil.rmtree(out, ignore_errors=True)


def classify(v):
    k2 = v.get("k2")
    if k2 and v["input"].get("class") == "interleaved" and k2["no_partition_overlap"] and k2["output_sorted_complete"]:
        return "K2"
    return None


def cut_classes(ctx, work, k):
    rng = ctx.rng
    while True:
        spec = base_spec(rng)
        recs = spec["records"]
        later = [c for c in {r["contig"] for r in recs} if c > recs[0]["contig"] and sum(x["contig"] == c for x in recs) >= 8]
        if k % 2 == 0 or later:
            break
    # the overlap classes are built inside one contig — not necessarily the first: the files then also hold whole
    # other contigs before and/or after it
    by_contig = {}
    for r in recs:
        by_contig.setdefault(r["contig"], []).append(r)
    cands = [c for c, rs in by_contig.items() if len(rs) >= 8]
    if not cands:
        return
    ci = cands[0] if k % 2 == 0 else rng.choice(later)
    c0 = by_contig[ci]
    before = [r for r in recs if r["contig"] < ci]
    rest = [r for r in recs if r["contig"] > ci]
    ctx.count("overlap_on_first_contig" if not before else "overlap_after_a_contig_change")
    m = len(c0)
    a, b = m // 3, 2 * m // 3
    tag = f"c{k}"
    attempt(ctx, spec, [before + c0[:a], c0[a:b], c0[b:] + rest], work, tag + "d", "disjoint", False)
    for oi in (False, True):
        sfx = "O" if oi else ""
        attempt(ctx, spec, [before + c0[:b], c0[a:] + rest], work, tag + "o" + sfx, "overlapping", True, old_index=oi)
        attempt(ctx, spec, [before + c0[:a + 1], c0[a:] + rest], work, tag + "t" + sfx, "touching (shared position)", True, old_index=oi)
        attempt(ctx, spec, [before + c0 + rest, c0[a:b]], work, tag + "n" + sfx, "nested", True, old_index=oi)
        attempt(ctx, spec, [before + c0[:b], c0[:b]], work, tag + "i" + sfx, "identical ranges", True, old_index=oi)
    for target in ((2, 4, 8, 16) if ctx.thorough else (2, 8)):
        attempt(ctx, spec, [before + c0[:a] + c0[b:] + rest, c0[a:b]], work, tag + f"x{target}", "interleaved", True, target=target)


def k2_witness(ctx, work):
    """K2: file A holds tabix windows 0 and 2 of a contig, file B window 1"""
    # long IDs so that every record sits in its own BGZF block and the index can split file A between its windows
    mk = lambda p: {"contig": 0, "pos": p, "id": "x" * 400 + str(p), "ref": "A", "alt": ["T"], "qual": None, "filter": None, "info": {}}  # noqa: E731
    spec = {"contigs": [["c0", 100000]], "filters": [["PASS", "p"]], "infos": [], "formats": [], "samples": [], "records": []}
    a = [mk(p) for p in (100, 200, 300, 40000, 40100, 40200)]
    b = [mk(p) for p in (20000, 20100, 20200)]
    spec["records"] = sorted(a + b, key=lambda r: r["pos"])
    for target in (2, 4, 8, 16):
        attempt(ctx, spec, [a, b], work, f"k2_{target}", "interleaved", True, target=target)


def same_path(ctx, work, k):
    from bio2zarr import vcf2zarr
    spec = base_spec(ctx.rng)
    p = vcfgen.materialise(spec, pathlib.Path(work) / f"same{k}", "vcf.gz+tbi")
    out = pathlib.Path(work) / f"same{k}.zarr"
    ctx.case(("same path", k), True)
    ctx.count("same path twice")
    try:
        vcf2zarr.convert([p, p], out, worker_processes=0)
        ctx.violate("the same file given twice was accepted", {"vcf_spec": spec}, "ValueError", "accepted")
    except ValueError:
        pass
    except Exception as e:  # noqa: BLE001
        ctx.violate(f"the same file given twice raised {type(e).__name__} instead of ValueError", {"vcf_spec": spec}, "ValueError", repr(e)[:100])
    if (out / ".zmetadata").exists():
        ctx.violate("duplicate path: a finished store was left behind", {"vcf_spec": spec}, "no output", "store")


def header_mismatch(ctx, work, k):
    from bio2zarr import vcf2zarr
    rng = ctx.rng
    while True:
        spec = base_spec(rng)
        if len(spec["samples"]) >= 2:
            break
    recs = spec["records"]
    half = len(recs) // 2
    kinds = ["samples renamed", "samples reordered", "samples one renamed", "samples extra", "info extra", "info type",
             "contigs extra", "contigs reordered", "filters extra"]
    for kind in (kinds if ctx.thorough or k == 0 else rng.sample(kinds, 3)):
        other = copy.deepcopy(spec)
        if kind == "samples renamed":
            other["samples"] = [s + "x" for s in other["samples"]]
        elif kind == "samples reordered":          # same names, same number: the call columns would be filed under the wrong sample
            other["samples"] = other["samples"][::-1]
        elif kind == "samples one renamed":
            other["samples"] = other["samples"][:-1] + ["zz"]
        elif kind == "samples extra":
            other["samples"] = other["samples"] + ["extra"]
            for r in other["records"]:
                r["samples"] = r["samples"] + [dict(r["samples"][0])]
        elif kind == "info extra":
            other["infos"] = other["infos"] + [{"id": "XTRA", "number": "1", "type": "Integer"}]
        elif kind == "info type":
            other["infos"] = [dict(f, type="Float") if f["id"] == "END" else f for f in other["infos"]]
        elif kind == "contigs extra":
            other["contigs"] = other["contigs"] + [["zzz", 5]]
        elif kind == "contigs reordered":
            if len(other["contigs"]) < 2:
                continue
            perm = list(range(len(other["contigs"])))[::-1]
            other["contigs"] = [other["contigs"][i] for i in perm]
            for r in other["records"]:
                r["contig"] = perm.index(r["contig"])
        else:
            other["filters"] = other["filters"] + [["q99", "x"]]
        tag = f"hm{k}{kinds.index(kind)}"
        # two or three files; the deviating one first, in the middle or last in path order (the scan results are sorted by path)
        nfiles = rng.choice([2, 3, 3])
        odd = rng.randrange(nfiles) if kinds.index(kind) % 2 else (1 if nfiles == 3 else rng.randrange(2))
        cuts = [0, half, len(recs)] if nfiles == 2 else [0, len(recs) // 3, 2 * len(recs) // 3, len(recs)]
        paths = []
        for i in range(nfiles):
            src_spec = other if i == odd else spec
            paths.append(vcfgen.materialise(src_spec, pathlib.Path(work) / f"{tag}{'abc'[i]}", "vcf.gz+tbi",
                                            records=src_spec["records"][cuts[i]:cuts[i + 1]]))
        out = pathlib.Path(work) / f"{tag}.zarr"
        inp = {"vcf_spec": spec, "perturbation": kind, "files": nfiles, "deviating_file_in_path_order": odd}
        ctx.case(("header", k, kind, nfiles, odd), True)
        ctx.count("header_" + kind.replace(" ", "_"))
        ctx.count(f"header_{nfiles}_files_odd_{['first', 'middle', 'last'][0 if odd == 0 else (2 if odd == nfiles - 1 else 1)]}")
        rng.shuffle(paths)
        try:
            vcf2zarr.convert(paths, out, worker_processes=0)
            ctx.violate(f"files with incompatible headers ({kind}) were accepted", inp, "ValueError", "accepted")
        except ValueError:
            pass
        except Exception as e:  # noqa: BLE001
            ctx.violate(f"incompatible headers ({kind}) raised {type(e).__name__}: {str(e)[:100]}", inp, "ValueError", repr(e)[:100])
        if (out / ".zmetadata").exists():
            ctx.violate("incompatible headers: a finished store was left behind", inp, "no output", "store")
        shutil.rmtree(out, ignore_errors=True)


def name_clashes(ctx, work):
    from bio2zarr import vcf2zarr
    import extract  # noqa: F401  (the regenerated lists are what the model uses)
    rng = ctx.rng
    info_reserved = ["contig", "id", "id_mask", "position", "allele", "filter", "quality", "length"]
    fmt_reserved = ["genotype", "genotype_phased", "genotype_mask"]
    gen = (common.LEAN / "B2Z" / "Gen" / "Reserved.lean").read_text()

    def lst(name):
        import re
        m = re.search(rf"def {name} : List String := (\[.*?\])", gen)
        return json.loads(m.group(1))
    cl_i, cl_f, fixed = lst("clobberInfo"), lst("clobberFormat"), lst("generatedFixedArrays")
    cases = [("INFO", n) for n in info_reserved] + [("FORMAT", n) for n in fmt_reserved] + [("INFO", "harmless"), ("FORMAT", "harmless")]
    if not ctx.thorough:
        cases = rng.sample(cases[:-2], 5) + cases[-2:] + [("INFO", "length")]
    for cat, name in cases:
        spec = vcfgen.simple_file(rng, nrec=4, ncontig=1, samples=2, unused_contigs=False)
        if cat == "INFO":
            spec["infos"].append({"id": name, "number": "1", "type": "Integer"})
            for r in spec["records"]:
                r["info"][name] = [rng.randrange(9)]
        else:
            spec["formats"].append({"id": name, "number": "1", "type": "Integer"})
            for r in spec["records"]:
                r["format"] = r["format"] + [name]
                for s_ in r["samples"]:
                    s_[name] = [rng.randrange(9)]
        p = vcfgen.materialise(spec, pathlib.Path(work) / f"nc_{cat}_{name}", "vcf.gz+tbi")
        out = pathlib.Path(work) / f"nc_{cat}_{name}.zarr"
        shutil.rmtree(out, ignore_errors=True)
        must = name != "harmless"
        inp = {"category": cat, "key": name}
        ctx.case(("clash", cat, name), must)
        ctx.count("name_clash" if must else "name_ok")
        try:
            vcf2zarr.convert([p], out, worker_processes=0)
            err = None
        except Exception as e:  # noqa: BLE001
            err = e
        if ctx.driver_ok:
            infos = [f["id"] for f in spec["infos"]]
            fmts = [f["id"] for f in spec["formats"]]
            ok = ctx.driver.ask({"op": "checks.names", "clobber_info": cl_i, "clobber_format": cl_f, "fixed": fixed, "info": infos, "format": fmts})
            if ok != (err is None):
                ctx.disagree(f"{cat} key '{name}': real {'accepted' if err is None else type(err).__name__}, model namesOk={ok}", inp, ok, repr(err))
        if must and err is None:
            ctx.violate(f"{cat} key '{name}' collides with a reserved array but the conversion succeeded", inp, "error", "accepted")
        if not must and err is not None:
            ctx.violate(f"{cat} key '{name}' is harmless but was rejected: {err!r}", inp, "accepted", repr(err)[:100])
        if err is not None and (out / ".zmetadata").exists():
            ctx.violate(f"{cat} key '{name}': rejected but a finished store exists", inp, "no output", "store")
        shutil.rmtree(out, ignore_errors=True)
        if must and name != "length":      # (`length` is not on the clobber lists: it is caught when encode creates the array, C13_clobber_lists)
            # the same input through the distributed commands: it must be refused before an intermediate store presents as complete
            icf = pathlib.Path(work) / f"nc_{cat}_{name}.icf"
            shutil.rmtree(icf, ignore_errors=True)
            try:
                s_ = vcf2zarr.explode_init(icf, [p], target_num_partitions=2, worker_processes=0)
                for j in range(s_.num_partitions):
                    vcf2zarr.explode_partition(icf, j)
                vcf2zarr.explode_finalise(icf)
            except Exception:  # noqa: BLE001
                pass
            try:
                vcf2zarr.IntermediateColumnarFormat(icf)
                ctx.violate(f"{cat} key '{name}' collides with a reserved array, yet explode_init/partition/finalise produced an "
                            f"intermediate store that loads as finished", {**inp, "workflow": "distributed explode"}, "refused", "ICF loads")
            except Exception:  # noqa: BLE001
                pass
            ctx.count("name_clash_distributed")
            shutil.rmtree(icf, ignore_errors=True)


def undeclared_filter(ctx, work, k):
    """a filter that no header line declares, on the first record of the file, the first record of a later contig, the last
    record, or anywhere: the conversion must fail (htslib adds a dummy header line while it parses such a record, so the
    position of the record relative to what was read before the header was recorded matters)"""
    from bio2zarr import vcf2zarr
    rng = ctx.rng
    for where in ("first of file", "first of a later contig", "last", "random", "with a declared one"):
        while True:
            spec = vcfgen.simple_file(rng, nrec=rng.choice([6, 12]), ncontig=2, samples=0, unused_contigs=False)
            contigs = sorted({r["contig"] for r in spec["records"]})
            if len(contigs) == 2:
                break
        spec["filters"] = spec["filters"] + [["s50", "declared"]]
        recs = spec["records"]
        i = {"first of file": 0, "first of a later contig": next(j for j, r in enumerate(recs) if r["contig"] == contigs[1]),
             "last": len(recs) - 1}.get(where, rng.randrange(len(recs)))
        recs[i]["filter"] = ["s50", "NOTDECLARED"] if where == "with a declared one" else ["NOTDECLARED"]
        tag = f"uf{k}{where[:3].replace(' ', '')}{i}"
        for kind, parts in (("vcf.gz+tbi", None), ("vcf.gz+csi", 3)):
            p = vcfgen.materialise(spec, pathlib.Path(work) / tag, kind, block_size=200)
            out = pathlib.Path(work) / f"{tag}.zarr"
            icf = pathlib.Path(work) / f"{tag}.icf"
            shutil.rmtree(out, ignore_errors=True)
            inp = {"vcf_spec": spec, "undeclared_filter_on_record": i, "where": where, "kind": kind}
            ctx.case(("undeclared filter", k, where, kind), True)
            ctx.count("undeclared_filter")
            try:
                if parts is None:
                    vcf2zarr.convert([p], out, worker_processes=0)
                else:
                    convlib.explode(icf, [p], partitions=parts)
                    vcf2zarr.encode(icf, out, worker_processes=0)
                ctx.violate(f"a record ({where}) uses an undeclared filter but the conversion succeeded", inp, "error", "accepted")
            except Exception:  # noqa: BLE001
                pass
            if (out / ".zmetadata").exists():
                ctx.violate("undeclared filter: a finished store was left behind", inp, "no output", "store")
            shutil.rmtree(out, ignore_errors=True)
            shutil.rmtree(icf, ignore_errors=True)


def run(ctx):
    work = common.scratch_dir("c13-")
    try:
        for k in range(5 if ctx.thorough else 2):
            cut_classes(ctx, work, k)
            same_path(ctx, work, k)
            header_mismatch(ctx, work, k)
            undeclared_filter(ctx, work, k)
            for p in pathlib.Path(work).glob("*"):
                if p.is_file():
                    p.unlink()
        name_clashes(ctx, work)
        k2_witness(ctx, work)
    finally:
        shutil.rmtree(work, ignore_errors=True)


def replay(ctx, payload):
    v = payload.get("violation") or (payload.get("disagreements") or [{}])[0]
    print("replay: rerun `./check C13` with VERIF_SEED =", payload.get("seed"), "; class:", v.get("input", {}).get("class"))
