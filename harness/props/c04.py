"""C04 — index-derived region partitions cover every record exactly once."""
import os
import pathlib
import shutil
import struct

import common
import indexlib
import vcfgen

ID = "C04"
LEAN_MODULES = ["B2Z.Props.C04"]
THEOREMS = [
    "B2Z.Regions.select_strict", "B2Z.Regions.C04_tiling", "B2Z.Regions.C04_no_error",
    "B2Z.Regions.C04_tabix_key_mono", "B2Z.Regions.C04_csi_contig", "B2Z.Regions.C04_csi_tie_counterexample",
    "B2Z.Regions.C04_contig_order_counterexample", "B2Z.Regions.C04_cover", "B2Z.Regions.final_flatMap",
]
ASSUMPTIONS = [
    "htslib's region iterator returns exactly the records overlapping the region (the code then keeps POS >= start): modelled by `query`, validated by the direct oracle on every generated file",
    "OffsOK (offsets non-decreasing, larger offset => later locus, first entry not after the first record, contigs with records flagged) is a hypothesis about the index writer; evaluated as a decidable predicate on every real / synthesised index of the run",
    "numpy searchsorted/unique on non-decreasing arrays = searchLeft/uniqueSorted (validated by correspondence)",
    "full statement is FALSE when the index's contig order differs from the file's (known finding K1: every record exactly once but grouped by index contig order) — proved as C04_contig_order_counterexample",
]
RULE = ("generated files 1..400 records over 1..5 contigs (unused contigs, long records, duplicate positions) written with own "
        "BGZF writer (block 200 B..64 KiB); tabix and CSI by htslib, CSI synthesised from the true record offsets with "
        "min_shift 9..20, depth 3..8 and shuffled on-disk bin order; requests num_parts 1..(> granularity) and target sizes "
        "1 B..file size; non-trivial = more than one region emitted")
LEVEL_TEXT = ("Lean: for every index whose offsets satisfy OffsOK and every accepted request, the emitted regions read back every "
              "record exactly once in file order, none empty, ordered and non-overlapping (C04_tiling, from C04_cover + "
              "final_flatMap + select_strict); valid requests never raise (C04_no_error); every tabix index has monotone keys "
              "whatever its offsets (C04_tabix_key_mono); CSI under the htslib loffset invariant and the (loffset, first locus) "
              "sort key (C04_csi_contig); the F3 tie defect and the K1 contig-order deviation are proved counterexamples. The "
              "model is tied to the code by comparing offsets() and the region strings for the same index and request, the "
              "hypotheses are evaluated on every artefact, and the statement is checked directly by querying the real file.")
LEVEL_NOTE = "Trusted: Lean kernel + standard axioms; htslib's query and index writer are assumptions checked per artefact; K1 is a recorded known finding."
TECHNIQUE = "Lean 4 theorems (interval-chain argument over sorted records) + differential correspondence of offsets()/regions + direct query oracle"


def region_str(g, names):
    c, s, e = g
    out = names[c]
    if s is not None:
        out += f":{s}-"
    if e is not None:
        out += str(e)
    return out


def file_records(spec, names):
    """(index contig number, pos) of every record in file order"""
    idx = {n: i for i, n in enumerate(names)}
    return [[idx[spec["contigs"][r["contig"]][0]], r["pos"]] for r in spec["records"]]


def offs_ok(offs, recs, has):
    """the hypothesis OffsOK as a decidable predicate; returns the name of the failing clause or None"""
    M = 1 << 32
    if not offs:
        return "nonempty"
    for i in range(len(offs) - 1):
        if offs[i][0] > offs[i + 1][0]:
            return "offs_mono"
    for i in range(len(offs)):
        for j in range(i + 1, len(offs)):
            if offs[i][0] < offs[j][0] and not offs[i][1] * M + offs[i][2] < offs[j][1] * M + offs[j][2]:
                return "key_mono"
    if recs and min(c * M + p for c, p in recs) < offs[0][1] * M + offs[0][2]:
        return "first_le"
    for c, _ in recs:
        if not has[c]:
            return "counts"
    return None


def synth_csi(spec, names, voffs, end_voff, min_shift, depth, rng, shuffle=True, pseudo=True):
    """CSI content from the true record offsets, following htslib's writer (loffset = back-filled linear index)"""
    idx = {n: i for i, n in enumerate(names)}
    per = [dict() for _ in names]           # bin -> [beg, end]
    lin = [dict() for _ in names]           # window -> first voffset
    counts = [0] * len(names)
    for k, r in enumerate(spec["records"]):
        c = idx[spec["contigs"][r["contig"]][0]]
        beg = r["pos"] - 1
        end = beg + vcfgen.rlen_of(r)
        b = indexlib.reg2bin(beg, end, min_shift, depth)
        nxt = voffs[k + 1] if k + 1 < len(voffs) else end_voff
        if b in per[c]:
            per[c][b][1] = nxt
        else:
            per[c][b] = [voffs[k], nxt]
        for w in range(beg >> min_shift, ((end - 1) >> min_shift) + 1):
            lin[c].setdefault(w, voffs[k])
        counts[c] += 1
    bins = []
    span = min_shift + 3 * depth
    for c in range(len(names)):
        ref = []
        if per[c]:
            maxw = max(lin[c])
            L = {}
            nxt = None
            for w in range(maxw, -1, -1):
                if w in lin[c]:
                    nxt = lin[c][w]
                L[w] = nxt
            for b, (cb, ce) in per[c].items():
                # first window of the bin
                level, t = 0, 0
                while level < depth and b >= t + (1 << (3 * level)):
                    t += 1 << (3 * level)
                    level += 1
                first_locus0 = (b - t) << (span - 3 * level)
                w = first_locus0 >> min_shift
                ref.append([b, L[min(w, maxw)], [[cb, ce]]])
            if shuffle:
                rng.shuffle(ref)
            if pseudo:
                pb = ((1 << ((depth + 1) * 3)) - 1) // 7 + 1
                ref.insert(rng.randrange(len(ref) + 1), [pb, 0, [[min(v[2][0][0] for v in ref), max(v[2][0][1] for v in ref)], [counts[c], 0]]])
        bins.append(ref)
    nm = b"".join(n.encode() + b"\0" for n in names)
    aux = struct.pack("<7i", 2, 1, 2, 0, 35, 0, len(nm)) + nm
    return {"min_shift": min_shift, "depth": depth, "aux": aux.hex(), "bins": bins}


def check_file(ctx, spec, path, ik, label, block_size):
    """one indexed file: offsets(), regions for several requests, hypotheses, direct oracle"""
    from bio2zarr import vcf_utils
    inp0 = {"vcf_spec": spec, "index": label, "block_size": block_size}
    try:
        iv = vcf_utils.IndexedVcf(path, None if ik is None else ik)
        names = list(iv.sequence_names)
        fo, ci, ps = iv.index.offsets()
        real_offs = [[int(a), int(b), int(c)] for a, b, c in zip(fo, ci, ps)]
        rc = list(iv.index.record_counts)
    except Exception as e:  # noqa: BLE001
        ctx.violate(f"cannot open/inspect {label}: {type(e).__name__}: {e}", inp0, "offsets", repr(e))
        return
    has = [c > 0 for c in rc] + [False] * (len(names) - len(rc))
    try:
        recs = file_records(spec, names)
    except KeyError:
        ctx.violate(f"{label}: a contig with records is missing from the index's sequence names {names}", inp0, "names", names)
        return
    # model offsets from the parsed index
    if ctx.driver_ok:
        idata = indexlib.gunzip(iv.index_path)
        if str(iv.index_path).endswith(".tbi"):
            parsed = ctx.driver.ask({"op": "tbi.parse", "hex": idata.hex()})
            m_offs = ctx.driver.ask({"op": "regions.offsets_tbi", "linear": parsed["linear"]})
        else:
            parsed = ctx.driver.ask({"op": "csi.parse", "hex": idata.hex()})
            m_offs = ctx.driver.ask({"op": "regions.offsets_csi", "min_shift": parsed["min_shift"], "depth": parsed["depth"],
                                     "tie": True, "bins": [[[b[0], b[1]] for b in ref] for ref in parsed["bins"]]})
        if m_offs != real_offs:
            ctx.disagree(f"offsets() differs from the model ({label})", inp0, m_offs[:20], real_offs[:20])
    sorted_by_index_order = all(recs[i] <= recs[i + 1] for i in range(len(recs) - 1))
    hyp = offs_ok(real_offs, recs, has)
    ctx.count("OffsOK_holds" if hyp is None else f"OffsOK_fails_{hyp}")
    if hyp is not None and sorted_by_index_order:
        ctx.disagree(f"hypothesis OffsOK.{hyp} fails on a real index ({label})", inp0, "OffsOK", real_offs[:30])
    flen = os.stat(path).st_size
    reqs = [("num_parts", n) for n in (1, 2, 3, 5, 8, 13, 40, 200, 100000)] + \
           [("target_part_size", t) for t in (1, 7, 100, 1000, flen // 3 + 1, flen, flen * 5)]
    if not ctx.thorough:
        reqs = reqs[:2] + ctx.rng.sample(reqs[2:], 5)
    truth = [(spec["contigs"][r["contig"]][0], r["pos"]) for r in spec["records"]]
    for kind, val in reqs:
        inp = {**inp0, kind: val}
        try:
            regs = list(iv.partition_into_regions(**{kind: val}))
            real = [str(r) for r in regs]
        except Exception as e:  # noqa: BLE001
            regs, real = None, f"exception {type(e).__name__}: {e}"
        ctx.case((label, kind, val, repr(truth)[:2000]), nontrivial=isinstance(real, list) and len(real) > 1)
        ctx.count(f"regions_{min(len(real), 6) if isinstance(real, list) else 'exc'}")
        if ctx.driver_ok:
            q = {"op": "regions.partition", "recs": recs, "offs": real_offs, "file_len": flen, "n_contigs": len(names), "has_recs": has}
            q["num_parts" if kind == "num_parts" else "target_size"] = val
            m = ctx.driver.ask(q)
            m_str = "error" if m == "error" else [region_str(g, names) for g in m]
            r_cmp = "error" if isinstance(real, str) else real
            if m_str != r_cmp and sorted_by_index_order:
                ctx.disagree(f"region list differs from the model ({label}, {kind}={val})", inp, m_str, real)
        # the statement, directly on the real file
        if regs is None:
            ctx.violate(f"{label} {kind}={val}: partition_into_regions raised {real}", inp, "regions", real)
            continue
        got, empty, prev = [], None, {}
        for r in regs:
            vs = [(v.CHROM, v.POS) for v in iv.variants(r)]
            if not vs:
                empty = str(r)
            got.extend(vs)
            end = r.end if r.end is not None else float("inf")
            if r.contig in prev and not prev[r.contig] < r.start:
                ctx.violate(f"{label} {kind}={val}: regions overlap / out of order on {r.contig}: {real}", inp, "ordered", real)
            prev[r.contig] = end
        if empty:
            ctx.violate(f"{label} {kind}={val}: empty region {empty} emitted", inp, "no empty region", real)
        if got != truth:
            missing = len([t for t in truth if t not in got])
            once = sorted(got) == sorted(truth)
            ctx.violate(f"{label} {kind}={val}: reading regions {real[:6]} gives {len(got)} records, file has {len(truth)} "
                        f"({missing} missing; exactly-once={once})", inp, truth[:10], got[:10],
                        k1={"exactly_once": once, "index_order_sorted": sorted_by_index_order,
                            "grouped_by_index_contig": once and got == sorted(truth, key=lambda t: names.index(t[0])) or
                            (once and [g[0] for g in got] == sorted([g[0] for g in got], key=names.index))})
        if isinstance(real, list) and len(real) > 1:
            ctx.sample({"index": label, kind: val, "regions": real[:8], "records": len(truth)}, limit=4)
        ctx.traces += 1
    iv.vcf.close()


def classify(v):
    """K1: index contig order != file contig order; deviation: every record exactly once, grouped by index contig order"""
    k1 = v.get("k1")
    if k1 and k1["exactly_once"] and not k1["index_order_sorted"] and k1["grouped_by_index_contig"]:
        return "K1"
    return None


def gen_and_check(ctx, work, k):
    rng = ctx.rng
    nrec = rng.choice([1, 2, 9, 40, 120] + ([400] if ctx.thorough else []))
    ms0 = rng.choice([9, 12, 14, 16])
    align = rng.choice([None, 1 << ms0, 1 << 14])        # tabix windows are 2^14, CSI windows 2^min_shift
    spec = vcfgen.simple_file(rng, nrec=nrec, ncontig=rng.choice([1, 2, 3, 5]), long_refs=rng.random() < 0.6,
                              span=rng.choice([3000, 100_000, 3_000_000]), align=align)
    ctx.count("positions_on_window_starts" if align else "positions_free")
    block = rng.choice([200, 500, 3000, 0xFF00])
    text, uoffs, total = vcfgen.layout(spec)
    for kind in ("vcf.gz+tbi", "vcf.gz+csi", "bcf+csi"):
        ms = ms0 if rng.random() < 0.7 else rng.choice([9, 12, 14, 16])
        path = vcfgen.materialise(spec, pathlib.Path(work) / f"g{k}", kind, block_size=block, min_shift=ms)
        check_file(ctx, spec, path, None, f"htslib {kind} min_shift={ms} block={block}", block)
        if kind == "vcf.gz+tbi" and k % 3 == 0:
            # the index kept somewhere else and passed explicitly (no index beside the data file)
            sub = pathlib.Path(work) / f"e{k}"
            sub.mkdir(exist_ok=True)
            lone = sub / "lone.vcf.gz"
            shutil.copy(path, lone)
            check_file(ctx, spec, lone, pathlib.Path(str(path) + ".tbi"), f"htslib {kind} block={block}, index passed explicitly from another directory", block)
            ctx.count("explicit_index_elsewhere")
            shutil.rmtree(sub, ignore_errors=True)
    # synthesised CSI over the same vcf.gz (own BGZF layout known)
    if ctx.driver_ok:
        path = pathlib.Path(work) / f"s{k}.vcf.gz"
        blocks = vcfgen.bgzf_write(path, text, block)
        clen = os.stat(path).st_size - len(vcfgen.BGZF_EOF)
        voffs = vcfgen.virtual_offsets(blocks, uoffs, clen)
        names = []
        for r in spec["records"]:
            nm = spec["contigs"][r["contig"]][0]
            if nm not in names:
                names.append(nm)
        for rep in range(3 if ctx.thorough else 2):
            ms, depth = rng.choice([(9, 5), (10, 6), (12, 4), (14, 5), (14, 3), (20, 3)])
            maxend = max(r["pos"] + vcfgen.rlen_of(r) for r in spec["records"])
            while maxend >= 1 << (ms + 3 * depth):
                depth += 1
            d = synth_csi(spec, names, voffs, clen << 16, ms, depth, rng, shuffle=True, pseudo=rng.random() < 0.7)
            q = {"op": "csi.encode", **d, "tail": 0}
            data = bytes.fromhex(ctx.driver.ask(q))
            # cyvcf2 only honours an index named <file>.csi: give every synthesised index its own directory
            sub = pathlib.Path(work) / f"s{k}_{rep}"
            sub.mkdir()
            spath = sub / "s.vcf.gz"
            shutil.copy(path, spath)
            indexlib.write_gz(pathlib.Path(str(spath) + ".csi"), data, bgzf=True)
            check_file(ctx, spec, spath, None, f"synthesised CSI min_shift={ms} depth={depth} block={block} shuffled bins", block)
            shutil.rmtree(sub, ignore_errors=True)


def k1_witness(ctx, work):
    """header contig order c0,c1,c2 but records in order c0,c2,c1 in a BCF (tids follow the header)"""
    spec = {"contigs": [["c0", 1000], ["c1", 1000], ["c2", 1000]], "filters": [["PASS", "p"]], "infos": [], "formats": [],
            "samples": [], "records": [
                {"contig": 0, "pos": 10, "id": None, "ref": "A", "alt": ["T"], "qual": None, "filter": None, "info": {}},
                {"contig": 2, "pos": 10, "id": None, "ref": "A", "alt": ["T"], "qual": None, "filter": None, "info": {}},
                {"contig": 1, "pos": 10, "id": None, "ref": "A", "alt": ["T"], "qual": None, "filter": None, "info": {}}]}
    try:
        path = vcfgen.materialise(spec, pathlib.Path(work) / "k1", "bcf+csi")
    except Exception as e:  # noqa: BLE001
        ctx.notes["k1_witness"] = f"could not build: {e!r}"
        return
    check_file(ctx, spec, path, None, "K1 witness: BCF with records in contig order c0,c2,c1", 0xFF00)


def run(ctx):
    work = common.scratch_dir("c04-")
    try:
        k1_witness(ctx, work)
        n = 160 if ctx.thorough else 40
        if ctx.search_mode:
            n *= 2
        for k in range(n):
            gen_and_check(ctx, work, k)
            for p in pathlib.Path(work).glob(f"?{k}*"):
                p.unlink()
    finally:
        shutil.rmtree(work, ignore_errors=True)


def replay(ctx, payload):
    v = payload.get("violation") or (payload.get("disagreements") or [{}])[0]
    i = v["input"]
    work = common.scratch_dir("c04-")
    try:
        spec = i["vcf_spec"]
        label = i["index"]
        if label.startswith("htslib") or label.startswith("K1"):
            kind = "bcf+csi" if "bcf" in label or label.startswith("K1") else ("vcf.gz+tbi" if "tbi" in label else "vcf.gz+csi")
            ms = int(label.split("min_shift=")[1].split()[0]) if "min_shift=" in label else 14
            path = vcfgen.materialise(spec, pathlib.Path(work) / "r", kind, block_size=i.get("block_size", 0xFF00), min_shift=ms)
            check_file(ctx, spec, path, None, label, i.get("block_size", 0xFF00))
        else:
            print("synthesised-CSI replay: rerun with the same VERIF_SEED (bin order is drawn from the PRNG)")
    finally:
        shutil.rmtree(work, ignore_errors=True)
    print("replay:", f"{len(ctx.violations)} violation(s)" if ctx.violations else "statement holds")
