"""C08 — the intermediate columnar store is lossless, ordered and randomly addressable."""
import json
import math
import pathlib
import pickle
import shutil
import sys

import numpy as np

import common
import vcfgen

ID = "C08"
LEAN_MODULES = ["B2Z.Props.C08"]
THEOREMS = [
    "B2Z.C08_writer", "B2Z.C08_store_wf", "B2Z.C08_values", "B2Z.C08_num_records", "B2Z.C08_iter_values",
    "B2Z.C08_iterValues", "B2Z.C08_summary_bounds", "B2Z.C08_summary_attained", "B2Z.C08_summary_partition_independent",
    "B2Z.C08_merge_laws", "B2Z.C08_summary_order_independent", "B2Z.C08_iter_values_concat",
]
ASSUMPTIONS = [
    "np.searchsorted(side='right') on a cumulative-sum array = count of entries <= v (validated by correspondence)",
    "pickle/Blosc round-trip of a chunk returns the list that was written (codec correctness is outside the model)",
    "every partition holds at least one record (regions are filtered for emptiness, C04)",
]
RULE = ("real ICF stores exploded from generated rich VCFs with 1..8 partitions and column chunk sizes down to a few records per "
        "chunk; every range [a,b) of small stores, boundary-biased samples of larger ones; non-trivial = a range that crosses "
        "a chunk or partition boundary")
LEVEL_TEXT = ("Lean: for every partition list and flush schedule the writer stores exactly the appended values with no empty "
              "chunk (C08_writer, C08_store_wf), whole-column reads return them in order (C08_values, C08_num_records), and "
              "the transcribed range reader returns exactly the slice for every a < b <= n (C08_iter_values via C08_iterValues); "
              "summaries bound every stored value, are attained, and do not depend on the partitioning (C08_summary_*). Tied to "
              "the code by reading real stores: iter_values vs the model's index list vs the plain slice, chunk indexes vs the "
              "writer model, metadata.json summaries vs the summary model and vs a direct recomputation.")
LEVEL_NOTE = "Trusted: Lean kernel + standard axioms; numpy searchsorted and the codecs are modelled/assumed, validated by correspondence."
TECHNIQUE = "Lean 4 theorems over a transcription of the ICF writer/reader + differential correspondence on real stores"

MIN_INT = -(2**31) + 2


def canon(v):
    if v is None:
        return None
    a = np.asarray(v)
    if a.dtype.kind == "f":
        return ("f", a.shape, a.astype(np.float32).view(np.uint32).tolist())
    return (a.dtype.kind, a.shape, a.tolist())


def store_structure(icf, field):
    """chunk lengths per partition from the chunk_index files on disk"""
    parts = []
    for j in range(icf.num_partitions):
        # through the code's own accessor: the on-disk encoding of the index is the implementation's business
        parts.append([int(x) for x in np.diff(field.chunk_record_index(j))])
    return parts


def check_store(ctx, spec, vcfs, work, nparts, ccs, label):
    from bio2zarr import vcf2zarr
    out = pathlib.Path(work) / "icf"
    shutil.rmtree(out, ignore_errors=True)
    inp = {"vcf_spec": spec, "target_partitions": nparts, "column_chunk_size": ccs}
    try:
        vcf2zarr.explode_init(out, vcfs, target_num_partitions=nparts, column_chunk_size=ccs, worker_processes=0)
        from bio2zarr.vcf2zarr import icf as icf_mod
        w = icf_mod.IntermediateColumnarFormatWriter(out)
        w.load_metadata()
        for j in range(w.num_partitions):
            w.process_partition(j)
        w.finalise()
        icf = vcf2zarr.IntermediateColumnarFormat(out)
    except Exception as e:  # noqa: BLE001
        ctx.violate(f"explode failed ({label}): {type(e).__name__}: {e}", inp, "store", repr(e))
        return None
    n = len(spec["records"])
    if icf.num_records != n:
        ctx.violate(f"num_records {icf.num_records} != {n} records in the input ({label})", inp, n, icf.num_records)
    # the source records, in output order (header contig order, then file order), for the fixed columns
    src = sorted(spec["records"], key=lambda r: r["contig"])
    try:
        got_fixed = {"CHROM": [str(v[0]) for v in icf.fields["CHROM"].values], "POS": [int(v[0]) for v in icf.fields["POS"].values],
                     "REF": [str(v[0]) for v in icf.fields["REF"].values], "ALT": [[str(x) for x in v] for v in icf.fields["ALT"].values],
                     "rlen": [int(v[0]) for v in icf.fields["rlen"].values],
                     "ID": [None if v is None else [str(x) for x in v] for v in icf.fields["ID"].values],
                     "FILTERS": [sorted(str(x) for x in v) for v in icf.fields["FILTERS"].values]}
        want_fixed = {"CHROM": [spec["contigs"][r["contig"]][0] for r in src], "POS": [r["pos"] for r in src],
                      "REF": [r["ref"] for r in src], "ALT": [list(r.get("alt") or []) for r in src],
                      "rlen": [vcfgen.rlen_of(r) for r in src],                                   # END - POS + 1 when END is given
                      "ID": [None if r.get("id") is None else [r["id"]] for r in src],          # one value per record, never split
                      "FILTERS": [[] if r.get("filter") is None else (["PASS"] if len(r["filter"]) == 0 else sorted(r["filter"])) for r in src]}
        for name in want_fixed:
            if got_fixed[name] != want_fixed[name]:
                d = next((i for i, (a, b) in enumerate(zip(got_fixed[name], want_fixed[name])) if a != b), min(len(got_fixed[name]), len(want_fixed[name])))
                ctx.violate(f"{name} column differs from the source records at record {d} ({label}): "
                            f"{got_fixed[name][d:d+3]} vs {want_fixed[name][d:d+3]}", {**inp, "field": name}, want_fixed[name][d:d + 3], got_fixed[name][d:d + 3])
                break
    except Exception as e:  # noqa: BLE001
        ctx.violate(f"fixed columns unreadable ({label}): {type(e).__name__}: {e}", inp, "values", repr(e))
    rng = ctx.rng
    fields = list(icf.fields.values())
    chosen = [icf.fields["POS"]] + rng.sample(fields, min(len(fields), 3 if not ctx.thorough else 6))
    chosen += [f for f in fields if f.name.endswith("NEVER") and f not in chosen]      # declared but never used
    meta = json.loads((out / "metadata.json").read_text())
    summaries = {}
    for fld in chosen:
        name = fld.name
        try:
            vals = fld.values
        except Exception as e:  # noqa: BLE001
            ctx.violate(f"values of {name} failed: {type(e).__name__}: {e}", inp, "values", repr(e))
            continue
        cvals = [canon(v) for v in vals]
        struct = store_structure(icf, fld)
        flat = [c for p in struct for c in p]
        if sum(flat) != n or any(c == 0 for c in flat):
            ctx.disagree(f"chunk structure of {name} not well formed: {struct}", inp, "nonempty chunks summing to n", struct)
        # ranges
        if n <= 12:
            ranges = [(a, b) for a in range(n) for b in range(a + 1, n + 1)]
        else:
            bounds = sorted(set([0, n] + list(np.cumsum(flat)) + [x + d for x in np.cumsum(flat) for d in (-1, 1) if 0 <= x + d <= n]))
            ranges = set()
            for _ in range(60 if ctx.thorough else 25):
                a, b = sorted(rng.sample(bounds, 2)) if rng.random() < 0.7 else sorted(rng.sample(range(n + 1), 2))
                if a < b:
                    ranges.add((int(a), int(b)))
            ranges = sorted(ranges)
        reqs = [{"op": "icf.iter", "parts": struct, "a": a, "b": b} for a, b in ranges]
        model = ctx.driver.ask_many(reqs) if ctx.driver_ok and reqs else [None] * len(reqs)
        cum = set(np.cumsum(flat).tolist())
        for (a, b), m in zip(ranges, model):
            try:
                got = [canon(v) for v in fld.iter_values(a, b)]
            except Exception as e:  # noqa: BLE001
                got = f"exception {type(e).__name__}: {e}"
            crosses = any(a < c < b for c in cum)
            ctx.case((label, name, a, b, nparts, ccs), crosses)
            ctx.count("range_crossing" if crosses else "range_inside")
            if m is not None:
                exp_m = [cvals[i] for i in m] if all(i < n for i in m) else "model index out of range"
                if got != exp_m:
                    ctx.disagree(f"iter_values({a},{b}) of {name} differs from Model.iterValues", {**inp, "field": name, "range": [a, b], "structure": struct},
                                 m, "…")
            if got != cvals[a:b]:
                ctx.violate(f"iter_values({a},{b}) of {name} != values[{a}:{b}] ({label}; chunks {struct})",
                            {**inp, "field": name, "range": [a, b]}, f"{b-a} values", str(got)[:200])
        ctx.traces += len(ranges)
        # summary of this field
        fmeta = next(f for f in meta["fields"] if (f["name"] if f["category"] == "fixed" else f"{f['category']}/{f['name']}") == name)
        s = fmeta["summary"]
        summaries[name] = (s["max_number"], s["min_value"], s["max_value"])
        if fmeta["vcf_type"] == "Integer":
            ivals = []
            for v in vals:
                if v is None:
                    ivals.append(None)
                else:
                    a_ = np.asarray(v)
                    ivals.append([[int(x) for x in a_.reshape(-1)], int(a_.shape[-1])])
            if ctx.driver_ok:
                # partition-wise, as finalise merges them
                parts, k = [], 0
                for p in struct:
                    cnt = sum(p)
                    parts.append(ivals[k:k + cnt])
                    k += cnt
                m = ctx.driver.ask({"op": "icf.summary", "min_int": MIN_INT, "parts": parts})
                real = {"max_number": s["max_number"],
                        "min_value": None if isinstance(s["min_value"], float) and math.isinf(s["min_value"]) else s["min_value"],
                        "max_value": None if isinstance(s["max_value"], float) and math.isinf(s["max_value"]) else s["max_value"]}
                if m != real:
                    ctx.disagree(f"summary of {name} differs from Model.storeSummary", {**inp, "field": name}, m, real)
            # the statement, directly
            allv = [x for v in ivals if v is not None for x in v[0] if x >= MIN_INT]
            nums = [v[1] for v in ivals if v is not None]
            want = (max(nums + [0]), min(allv) if allv else math.inf, max(allv) if allv else -math.inf)
            have = (s["max_number"], s["min_value"], s["max_value"])
            if want != have:
                ctx.violate(f"summary of {name} {have} is not the attained bound {want} ({label})", {**inp, "field": name}, want, have)
        elif fmeta["vcf_type"] in ("String", "Character") and vals:
            nums = []
            for v in vals:
                if v is None:
                    continue
                a_ = np.asarray(v, dtype=object) if not isinstance(v, np.ndarray) else v
                nums.append(max(len(x) for x in v) if fmeta["category"] == "FORMAT" else a_.shape[-1])
            if max(nums + [0]) != s["max_number"]:
                ctx.violate(f"max_number of {name} {s['max_number']} != longest stored vector {max(nums + [0])}", {**inp, "field": name},
                            max(nums + [0]), s["max_number"])
        if all(v is None for v in vals) and s["max_number"] != 0:
            # a field no record uses: no value, so the maximum number of values per record is 0
            ctx.violate(f"summary of {name}: max_number {s['max_number']} although no record carries a value", {**inp, "field": name},
                        0, s["max_number"])
        # writer model: chunk structure from the sizes of the appended values
        if ctx.driver_ok and fld is chosen[0]:
            sizes, k = [], 0
            for p in struct:
                cnt = sum(p)
                sizes.append([sys.getsizeof(v) for v in vals[k:k + cnt]])
                k += cnt
            m = ctx.driver.ask({"op": "icf.write", "max_bytes": int(ccs * 2**20), "parts": sizes})
            real_ci = [[0] + np.cumsum(p).tolist() for p in struct]
            if m != real_ci:
                ctx.count("writer_structure_differs")   # getsizeof after unpickling may differ: informational only
            else:
                ctx.count("writer_structure_equal")
    ctx.sample({"label": label, "records": n, "partitions": icf.num_partitions, "column_chunk_size": ccs,
                "POS_chunks": store_structure(icf, icf.fields["POS"])}, limit=4)
    shutil.rmtree(out, ignore_errors=True)
    return summaries


def run(ctx):
    work = common.scratch_dir("c08-")
    rng = ctx.rng
    try:
        nfiles = 14 if ctx.thorough else 4
        if ctx.search_mode:
            nfiles *= 2
        for k in range(nfiles):
            # every other file: several samples and integer FORMAT vectors whose length differs between the samples of a
            # record (htslib pads the short ones with its end-of-vector marker, which must never reach a summary)
            ragged = k % 2 == 0
            spec = vcfgen.rich_file(rng, nrec=rng.choice([3, 9, 9, 30, 80]), ploidies=(2,),
                                    nsamples=rng.choice([2, 3, 6]) if ragged else None,
                                    must_formats=[("Integer", "."), ("Integer", rng.choice(["2", "R", "G"]))] if ragged else ())
            ctx.count("files_with_ragged_integer_format" if ragged else "files_free")
            spec["infos"].append({"id": "NEVER", "number": rng.choice(["1", ".", "A"]), "type": rng.choice(["Integer", "String", "Float"])})
            if not spec["records"]:
                continue
            path = vcfgen.materialise(spec, pathlib.Path(work) / f"f{k}", rng.choice(["vcf.gz+tbi", "vcf.gz+csi"]),
                                      block_size=rng.choice([300, 1000, 0xFF00]))
            sums = []
            for nparts, ccs in ((1, 16), (rng.choice([2, 3, 5, 8]), rng.choice([0.0002, 0.001, 0.01])), (8, 0.00005)):
                s = check_store(ctx, spec, [path], work, nparts, ccs, f"file {k} parts={nparts} ccs={ccs}")
                if s is not None:
                    sums.append(s)
            # the same records delivered as several files (names that do not encode the genomic order)
            recs = spec["records"]
            cuts = [i for i in range(1, len(recs)) if (recs[i - 1]["contig"], recs[i - 1]["pos"] + vcfgen.rlen_of(recs[i - 1])) < (recs[i]["contig"], recs[i]["pos"])]
            if cuts:
                chosen_cuts = sorted(rng.sample(cuts, min(len(cuts), rng.choice([1, 2, 3]))))
                names = rng.sample(["10", "9", "2", "b", "A", "07"], len(chosen_cuts) + 1)
                paths, a0 = [], 0
                for nm, c in zip(names, chosen_cuts + [len(recs)]):
                    paths.append(vcfgen.materialise(spec, pathlib.Path(work) / f"f{k}_piece{nm}", "vcf.gz+tbi", records=recs[a0:c]))
                    a0 = c
                rng.shuffle(paths)
                s = check_store(ctx, spec, paths, work, len(paths), 16, f"file {k} as {len(paths)} files")
                ctx.count("multi_file_inputs")
                if s is not None:
                    sums.append(s)
            # partition independence of the summaries (common fields only)
            for a in sums[1:]:
                for name in set(a) & set(sums[0]):
                    if a[name] != sums[0][name]:
                        ctx.violate(f"summary of {name} depends on the partitioning: {sums[0][name]} vs {a[name]}",
                                    {"vcf_spec": spec}, sums[0][name], a[name])
    finally:
        shutil.rmtree(work, ignore_errors=True)


def replay(ctx, payload):
    v = payload.get("violation") or (payload.get("disagreements") or [{}])[0]
    i = v["input"]
    work = common.scratch_dir("c08-")
    try:
        path = vcfgen.materialise(i["vcf_spec"], pathlib.Path(work) / "r", "vcf.gz+tbi", block_size=300)
        check_store(ctx, i["vcf_spec"], [path], work, i.get("target_partitions", 3), i.get("column_chunk_size", 0.001), "replay")
    finally:
        shutil.rmtree(work, ignore_errors=True)
    print("replay:", f"{len(ctx.violations)} violation(s)" if ctx.violations else "statement holds")
