"""C12 — the region index exactly summarises the stored variants."""
import pathlib
import shutil
import types

import numpy as np

import common

ID = "C12"
LEAN_MODULES = ["B2Z.Props.C12"]
THEOREMS = [
    "B2Z.RIdx.C12_cover", "B2Z.RIdx.C12_segment_uniform", "B2Z.RIdx.C12_segment_in_chunk",
    "B2Z.RIdx.C12_maximal", "B2Z.RIdx.C12_row_exact", "B2Z.RIdx.wrap_id",
    "B2Z.RIdx.C12_region_index_exact", "B2Z.RIdx.C12_narrow_dtype_counterexample",
    "B2Z.RIdx.C12_region_index_exact_wide", "B2Z.RIdx.C12_bridge_width", "B2Z.RIdx.C12_region_index_exact_src",
]
GEN_DEPENDS = ["RegionIndex."]
ASSUMPTIONS = [
    "numpy element semantics (int32 addition wraps; np.diff/np.nonzero/np.max) as transcribed in Model/RegionIndex.lean — validated by correspondence",
    "guard of the exactness theorem: pos + length - 1 < 2^31 (VCF's coordinate limit and the index's own int32 dtype)",
    "zarr block access (`.blocks[v]`) returns the v-th variant chunk",
]
RULE = ("random contig/position/length columns stored with the dtypes the schema generator would choose (i1/i2/i4), "
        "every chunk size regime (1, small, n, n+1); create_index run on a real zarr store and, through encode / "
        "dencode, on converted stores; non-trivial = more than one index row")
LEVEL_TEXT = ("Lean theorems over a transcription of create_index: the rows partition the records into consecutive "
              "segments (C12_cover), each non-empty, single-contig (C12_segment_uniform), inside the labelled chunk "
              "(C12_segment_in_chunk), maximal (C12_maximal), and each row carries chunk, contig, first/last start, exact "
              "max end and count (C12_row_exact / C12_region_index_exact) under pos+len-1 < 2^31; the int8 overflow of the "
              "unrepaired code is a proved counterexample. Tied to the code by running the real create_index on zarr "
              "stores and comparing rows with the model and with a direct recomputation; distributed encode is checked "
              "to write the index too.")
LEVEL_NOTE = ("Trusted: Lean kernel, standard axioms; numpy/zarr semantics are modelled, validated by the "
              "correspondence; the coordinate guard excludes int32 wrap-around which is modelled but not claimed exact.")
TECHNIQUE = "Lean 4 theorems (list induction) over a transcription of create_index whose evaluation width is regenerated from the source (Gen.RegionIndex) and bridged + differential correspondence on real zarr stores"


def min_int_dtype(lo, hi):
    for dt in ("i1", "i2", "i4", "i8"):
        info = np.iinfo(dt)
        if info.min <= lo and hi <= info.max:
            return dt
    raise OverflowError


def gen_columns(rng, big=False):
    n = rng.choice([1, 2, 3, 5, 8, 13, 30, 60] + ([200, 500] if big else []))
    ncontig = rng.choice([1, 1, 2, 3, 5])
    regime = rng.choice(["tiny", "tiny", "i2", "i4", "edge"])
    hi = {"tiny": 120, "i2": 30000, "i4": 10**8, "edge": 2**31 - 200}[regime]
    contigs = sorted(rng.randrange(ncontig) for _ in range(n))
    pos, lens = [], []
    last = {}
    for c in contigs:
        base = last.get(c, rng.randrange(1, max(2, hi // 2)))
        p = min(hi, base + rng.choice([0, 1, 1, 2, 5, rng.randrange(0, max(1, hi // (2 * n) + 1))]))
        last[c] = p
        pos.append(p)
        lens.append(rng.choice([1, 1, 1, 2, 7, rng.randrange(1, 100), rng.randrange(1, max(2, min(hi, 2**31 - 1 - p)))]))
    cs = rng.choice([1, 2, 3, max(1, n // 2), n, n + 1, 10_000])
    return contigs, pos, lens, cs


def real_index(contigs, pos, lens, cs, workdir):
    import zarr
    from bio2zarr.vcf2zarr import vcz
    path = pathlib.Path(workdir) / "s.zarr"
    if path.exists():
        shutil.rmtree(path)
    root = zarr.open_group(store=str(path), mode="w")
    n = len(pos)
    root.array("variant_contig", data=np.array(contigs, dtype=min_int_dtype(0, max(contigs) + 1)), chunks=(cs,))
    root.array("variant_position", data=np.array(pos, dtype=min_int_dtype(min(pos), max(pos))), chunks=(cs,))
    root.array("variant_length", data=np.array(lens, dtype=min_int_dtype(min(lens), max(lens))), chunks=(cs,))
    w = vcz.VcfZarrWriter(path)
    # (the writer's own bookkeeping, consistent with the arrays: a rewrite may legitimately consult it)
    w.metadata = types.SimpleNamespace(dimension_separator="/", schema=types.SimpleNamespace(variants_chunk_size=cs))
    w.create_index()
    out = zarr.open(str(path), mode="r")["region_index"][:]
    return [[int(x) for x in row] for row in out], str(out.dtype)


def spec_index(contigs, pos, lens, cs):
    """the statement, recomputed in Python ints"""
    rows = []
    n = len(pos)
    i = 0
    while i < n:
        j = i
        chunk = i // cs
        while j + 1 < n and (j + 1) // cs == chunk and contigs[j + 1] == contigs[i]:
            j += 1
        rows.append([chunk, contigs[i], pos[i], pos[j], max(pos[k] + lens[k] - 1 for k in range(i, j + 1)), j - i + 1])
        i = j + 1
    return rows


def one_case(ctx, contigs, pos, lens, cs, workdir, label="generated"):
    inp = {"contig": contigs, "position": pos, "length": lens, "variants_chunk_size": cs}
    guard = all(p + l - 1 < 2**31 for p, l in zip(pos, lens))
    try:
        got, dtype = real_index(contigs, pos, lens, cs, workdir)
    except Exception as e:  # noqa: BLE001
        got, dtype = f"exception {type(e).__name__}: {e}", None
    spec = spec_index(contigs, pos, lens, cs)
    ctx.case((tuple(contigs), tuple(pos), tuple(lens), cs), nontrivial=len(spec) > 1)
    ctx.count("guard_ok" if guard else "beyond_int32")
    ctx.count(f"rows_{min(len(spec), 4)}")
    if ctx.driver_ok:
        model = ctx.driver.ask({"op": "ridx.index", "bits": 32, "cs": cs,
                                "recs": [[c, p, l] for c, p, l in zip(contigs, pos, lens)]})
        if model != got:
            ctx.disagree("region_index differs from Model.RIdx.regionIndexI32", inp, model, got)
    if guard and got != spec:
        ctx.violate(f"region_index {got} != exact summary {spec} ({label})", inp, spec, got)
    if len(spec) > 1:
        ctx.sample({**inp, "region_index": got}, limit=3)
    ctx.traces += 1


def run(ctx):
    work = common.scratch_dir("c12-")
    try:
        # corpus: the F1 regression (int8 positions) first
        one_case(ctx, [0, 0, 0], [10, 100, 120], [1, 100, 1], 10, work, "F1 regression")
        one_case(ctx, [0, 0, 1, 1], [5, 9, 2, 7], [1, 4, 1, 2], 3, work, "two chunks")
        n = 1500 if ctx.thorough else 300
        if ctx.search_mode:
            n *= 3
        for _ in range(n):
            contigs, pos, lens, cs = gen_columns(ctx.rng, big=ctx.thorough)
            one_case(ctx, contigs, pos, lens, cs, work)
        pipeline_cases(ctx, work)
    finally:
        shutil.rmtree(work, ignore_errors=True)


def pipeline_cases(ctx, work):
    """the index as written by the conversion paths (one-shot and distributed) on generated VCFs"""
    try:
        import vcfgen
    except ImportError:
        return
    import zarr
    from bio2zarr import vcf2zarr
    for k in range(12 if ctx.thorough else 4):
        spec = vcfgen.simple_file(ctx.rng, nrec=ctx.rng.choice([5, 20, 60]), ncontig=ctx.rng.choice([1, 2, 3]),
                                  small_coords=ctx.rng.random() < 0.7, long_refs=True)
        vcf = vcfgen.materialise(spec, pathlib.Path(work) / f"f{k}", kind="vcf.gz+tbi")
        cs = ctx.rng.choice([1, 3, 7, 1000])
        for mode in ("oneshot", "distributed", "schema_file"):
            out = pathlib.Path(work) / f"out{k}_{mode}.zarr"
            icf = pathlib.Path(work) / f"icf{k}_{mode}"
            try:
                vcf2zarr.explode(icf, [vcf], worker_processes=0)
                if mode == "schema_file":
                    # the index follows the chunking of the position arrays themselves: here finer than the schema-wide size
                    import io
                    import json
                    buf = io.StringIO()
                    top = ctx.rng.choice([4, 6, 12])
                    fine = ctx.rng.choice([d for d in (1, 2, 3) if top % d == 0])
                    vcf2zarr.mkschema(icf, buf, variants_chunk_size=top)
                    sch = json.loads(buf.getvalue())
                    for f in sch["fields"]:
                        if f["name"] in ("variant_contig", "variant_position", "variant_length"):
                            f["chunks"][0] = fine
                    sp = pathlib.Path(work) / f"schema{k}.json"
                    sp.write_text(json.dumps(sch))
                    vcf2zarr.encode(icf, out, schema_path=sp, worker_processes=0)
                    cs = fine
                elif mode == "oneshot":
                    vcf2zarr.encode(icf, out, variants_chunk_size=cs, worker_processes=0)
                else:
                    s = vcf2zarr.encode_init(icf, out, target_num_partitions=3, variants_chunk_size=cs)
                    for j in range(s.num_partitions):
                        vcf2zarr.encode_partition(out, j)
                    vcf2zarr.encode_finalise(out)
                root = zarr.open(str(out), mode="r")
                contigs = [int(x) for x in root["variant_contig"][:]]
                pos = [int(x) for x in root["variant_position"][:]]
                lens = [int(x) for x in root["variant_length"][:]]
                if "region_index" not in root:
                    got = "region_index missing"
                else:
                    got = [[int(x) for x in row] for row in root["region_index"][:]]
            except Exception as e:  # noqa: BLE001
                got = f"exception {type(e).__name__}: {e}"
                contigs = pos = lens = []
            spec_rows = spec_index(contigs, pos, lens, cs) if pos else None
            ctx.case(("pipeline", k, mode, cs), True)
            ctx.count(f"pipeline_{mode}")
            if got != spec_rows:
                ctx.violate(f"{mode} encode of generated VCF: region_index {str(got)[:200]} != exact summary",
                            {"vcf_spec": spec, "variants_chunk_size": cs, "mode": mode}, spec_rows, got)
            shutil.rmtree(out, ignore_errors=True)
            shutil.rmtree(icf, ignore_errors=True)


def replay(ctx, payload):
    v = payload.get("violation") or (payload.get("disagreements") or [{}])[0]
    i = v["input"]
    work = common.scratch_dir("c12-")
    try:
        if "contig" in i:
            one_case(ctx, i["contig"], i["position"], i["length"], i["variants_chunk_size"], work, "replay")
        else:
            print("pipeline replay: regenerate with the same VERIF_SEED; input spec:", str(i)[:500])
    finally:
        shutil.rmtree(work, ignore_errors=True)
    print("replay:", "violation reproduced" if ctx.violations else "statement holds")
