"""C09 — tabix and CSI indexes are parsed faithfully."""
import pathlib
import shutil

import common
import indexlib
import vcfgen

ID = "C09"
LEAN_MODULES = ["B2Z.Props.C09"]
THEOREMS = [
    "B2Z.Idx.C09_csi_roundtrip", "B2Z.Idx.C09_tbi_roundtrip", "B2Z.Idx.C09_bad_magic_rejected",
    "B2Z.Idx.C09_cross_kind_rejected", "B2Z.Idx.C09_trailing_garbage_rejected", "B2Z.Idx.C09_counts",
    "B2Z.Idx.C09_names_roundtrip", "B2Z.Regions.firstBinInLevel_eq", "B2Z.Regions.C09_bin_limit",
    "B2Z.Regions.C09_tabix_pseudo_bin", "B2Z.Regions.C09_level_brackets", "B2Z.Regions.C09_first_locus_strict",
    "B2Z.Regions.C09_gen_level", "B2Z.Regions.C09_gen_first_locus", "B2Z.Regions.C09_file_offset",
    "B2Z.Regions.C09_interval", "B2Z.Regions.C09_formats", "B2Z.seven_firstBin",
]
GEN_DEPENDS = ["BinArith."]
ASSUMPTIONS = [
    "gzip decompression (Python gzip) is outside the model: the model starts at the decompressed index bytes",
    "htslib writes the index as the SAM/tabix specification says (checked per artefact by an independent spec decoder and against the file's true record counts)",
    "harness/extract.py translates the bin arithmetic faithfully (cross-checked on a grid every run)",
]
RULE = ("htslib-written TBI/CSI for generated files (small BGZF blocks, several contigs, min_shift 9..20) + indexes "
        "serialised by the Lean model with arbitrary field values (pseudo-bins present/absent, n_no_coor present/absent, "
        "empty contigs) + a malformed stream (every truncation of small indexes, trailing garbage, wrong magic, cross kind); "
        "non-trivial = index with >= 2 bins or a rejected malformed input")
LEVEL_TEXT = ("Lean: parse(encode x) = x for every well-formed CSI and tabix index, any contig layout, bin order, shift/depth, "
              "with/without pseudo-bins and trailing unplaced count (C09_csi_roundtrip, C09_tbi_roundtrip); counts are 0 iff "
              "no bins, the pseudo-bin's sum if present, unknown otherwise (C09_counts); wrong magic, cross-kind files and "
              "trailing garbage are rejected; bin arithmetic for all depths (level brackets, strict first locus, bin limit) "
              "proved over the model and bridged to definitions regenerated from vcf_utils.py on every run (C09_gen_*, "
              "C09_formats, C09_file_offset). The byte-level parser model is tied to read_csi/read_tabix by parsing the same "
              "bytes with both on every index the run produces, synthesises or damages.")
LEVEL_NOTE = "Trusted: Lean kernel + standard axioms; extractor; gzip layer and htslib's writer are outside the model (checked per artefact)."
TECHNIQUE = "Lean 4 round-trip theorems over a byte-level parser model + extractor-bridged arithmetic + differential parsing of real/synthetic/malformed indexes"


def model_parse(ctx, kind, data):
    return ctx.driver.ask({"op": f"{kind}.parse", "hex": data.hex()})


def compare(ctx, kind, data, path, label, expect=None, nontrivial=True):
    real = indexlib.real_csi(path) if kind == "csi" else indexlib.real_tbi(path)
    ctx.case((kind, label, hash(data)), nontrivial)
    ctx.count(f"{kind}_{'rejected' if 'error' in real else 'parsed'}")
    inp = {"kind": kind, "label": label, "index_hex": data.hex() if len(data) < 4000 else data[:4000].hex() + "...",
           "index_len": len(data)}
    if ctx.driver_ok:
        model = model_parse(ctx, kind, data)
        if model != real:
            diff = next((k for k in real if model.get(k) != real.get(k)), "error") if isinstance(model, dict) else "?"
            ctx.disagree(f"{kind} parse differs from Model.Idx at field '{diff}' ({label})", inp, _short(model), _short(real))
    if expect is not None and real != expect:
        diff = "error" if "error" in real or "error" in expect else next(k for k in expect if real.get(k) != expect[k])
        ctx.violate(f"{kind} index ({label}): parsed '{diff}' = {str(real.get(diff, real))[:150]} but the bytes say "
                    f"{str(expect.get(diff, expect))[:150]}", inp, _short(expect), _short(real))
    ctx.traces += 1
    return real


def _short(x):
    s = str(x)
    return x if len(s) < 1500 else s[:1500] + "…"


def true_counts(spec, names_hex):
    per = {}
    for r in spec["records"]:
        nm = spec["contigs"][r["contig"]][0]
        per[nm] = per.get(nm, 0) + 1
    return [per.get(bytes.fromhex(h).decode(), 0) for h in names_hex]


def htslib_cases(ctx, work):
    from bio2zarr import vcf_utils
    rng = ctx.rng
    n = 24 if ctx.thorough else 6
    for k in range(n):
        # k == 1: a header-only file (no record on any contig: empty name block, zero references)
        spec = vcfgen.simple_file(rng, nrec=0 if k == 1 else rng.choice([1, 5, 40, 150]), ncontig=rng.choice([1, 2, 4]),
                                  long_refs=rng.random() < 0.5)
        ctx.count("header_only_files" if not spec["records"] else "files_with_records")
        if k == 2 and spec["records"]:
            # one record far along a contig: the tabix linear index then has > 10^4 intervals and the (BGZF) index file
            # several compressed blocks
            last = spec["records"][-1]
            far = dict(last, pos=rng.choice([150_000_000, 260_000_000]) + rng.randrange(1000), info={})
            spec["contigs"][last["contig"]][1] = rng.choice([None, 2**31 - 1])
            spec["records"].append(far)
            ctx.count("files_with_multi_block_index")
        for kind in ("vcf.gz+tbi", "vcf.gz+csi", "bcf+csi"):
            ms = rng.choice([9, 12, 14, 14, 17, 20])
            path = vcfgen.materialise(spec, pathlib.Path(work) / f"h{k}", kind, block_size=rng.choice([300, 2000, 0xFF00]),
                                      min_shift=ms)
            ipath = str(path) + (".tbi" if kind.endswith("tbi") else ".csi")
            data = indexlib.gunzip(ipath)
            ik = "tbi" if kind.endswith("tbi") else "csi"
            expect = indexlib.spec_decode_tbi(data) if ik == "tbi" else indexlib.spec_decode_csi(data)
            real = compare(ctx, ik, data, ipath, f"htslib {kind} min_shift={ms}", expect,
                           nontrivial=sum(len(b) for b in expect["bins"]) >= 2)
            if "error" in real:
                continue
            # counts vs the records actually present; names; file type detection
            try:
                iv = vcf_utils.IndexedVcf(path)
                names = list(iv.sequence_names)
                counts = iv.contig_record_counts()
                ftype = iv.file_type.name
                iv.vcf.close()
            except Exception as e:  # noqa: BLE001
                ctx.violate(f"IndexedVcf failed on {kind}: {type(e).__name__}: {e}", {"vcf_spec": spec, "kind": kind}, "open", repr(e))
                continue
            per = {}
            for r in spec["records"]:
                nm = spec["contigs"][r["contig"]][0]
                per[nm] = per.get(nm, 0) + 1
            got = {k_: indexlib.canon_count(v) for k_, v in counts.items()}
            want = {nm: per.get(nm, 0) for nm in names} if kind != "bcf+csi" else {nm: c for nm, c in per.items()}
            if got != want:
                ctx.violate(f"{kind}: contig_record_counts {got} != records in the file {want}", {"vcf_spec": spec, "kind": kind}, want, got)
            if ftype != ("BCF" if kind.startswith("bcf") else "VCF"):
                ctx.violate(f"{kind}: detected file type {ftype}", {"vcf_spec": spec, "kind": kind}, kind, ftype)
            if kind != "bcf+csi" and [n for n in names] != _appearance(spec):
                ctx.violate(f"{kind}: sequence names {names} != contigs in order of appearance", {"vcf_spec": spec, "kind": kind}, _appearance(spec), names)
            ctx.sample({"kind": kind, "min_shift": ms, "records": len(spec["records"]), "names": names, "counts": got}, limit=3)
            # old-style index: same index re-serialised without pseudo-bins and without n_no_coor
            old_style(ctx, ik, expect, work, k)
            if (ik == "csi" and k < 3) or (ik == "tbi" and k < 2) or (ctx.thorough and k < 12):
                malformed(ctx, ik, data, work)


def _appearance(spec):
    seen = []
    for r in spec["records"]:
        nm = spec["contigs"][r["contig"]][0]
        if nm not in seen:
            seen.append(nm)
    return seen


def encode_with_model(ctx, ik, d, tail):
    if ik == "csi":
        q = {"op": "csi.encode", "min_shift": d["min_shift"], "depth": d["depth"], "aux": d["aux"], "bins": d["bins"]}
    else:
        q = {"op": "tbi.encode", "hdr6": d["header"][1:7], "names": "".join(n + "00" for n in d["names"]),
             "refs": [[b, l] for b, l in zip(d["bins"], d["linear"])]}
    if tail is not None:
        q["tail"] = tail
    return bytes.fromhex(ctx.driver.ask(q))


def old_style(ctx, ik, parsed, work, k):
    if not ctx.driver_ok:
        return
    d = dict(parsed)
    pseudo = 37450 if ik == "tbi" else ((1 << ((d["depth"] + 1) * 3)) - 1) // 7 + 1
    d["bins"] = [[b for b in ref if b[0] != pseudo] for ref in d["bins"]]
    data = encode_with_model(ctx, ik, d, None)
    p = indexlib.write_gz(pathlib.Path(work) / f"old{k}.{ik}", data)
    expect = dict(d)
    expect["record_counts"] = [0 if not ref else "unknown" for ref in d["bins"]]
    expect["n_no_coor"] = 0
    compare(ctx, ik, data, p, "re-serialised without pseudo-bins / n_no_coor", expect)


def synthetic_cases(ctx, work):
    if not ctx.driver_ok:
        return
    rng = ctx.rng
    U64 = 2**64
    for k in range(600 if ctx.thorough else 40):
        depth = rng.choice([0, 1, 3, 5, 8])
        pseudo = ((1 << ((depth + 1) * 3)) - 1) // 7 + 1
        nref = rng.choice([0, 1, 2, 5])
        refs = []
        for _ in range(nref):
            bins = []
            for _b in range(rng.choice([0, 0, 1, 3, 6])):
                bins.append([rng.randrange(0, pseudo), rng.randrange(U64),
                             [[rng.randrange(U64), rng.randrange(U64)] for _ in range(rng.choice([0, 1, 2, 3]))]])
            if bins and rng.random() < 0.6:
                bins.insert(rng.randrange(len(bins) + 1), [pseudo, rng.randrange(U64), [[rng.randrange(U64), rng.randrange(U64)],
                                                                                         [rng.randrange(2**40), rng.randrange(2**20)]]])
            refs.append(bins)
        tail = rng.choice([None, 0, rng.randrange(U64)])
        if k % 2 == 0:
            aux = rng.choice(["", (b"\0" * 28 + b"chr1\0chrX\0").hex()])
            d = {"min_shift": rng.choice([0, 9, 14, 30]), "depth": depth, "aux": aux, "bins": refs}
            data = encode_with_model(ctx, "csi", d, tail)
            expect = indexlib.spec_decode_csi(data)
            p = indexlib.write_gz(pathlib.Path(work) / f"syn{k}.csi", data)
            compare(ctx, "csi", data, p, "synthesised by the Lean serialiser", expect, nontrivial=nref > 0)
        else:
            trefs = [[[b[0] if b[0] != pseudo else 37450, b[2]] for b in ref] for ref in refs]
            lin = [[rng.randrange(U64) for _ in range(rng.choice([0, 1, 4]))] for _ in trefs]
            names = [f"c{i}".encode().hex() for i in range(max(1, nref))]
            d = {"header": [len(trefs)] + [rng.randrange(-5, 100) for _ in range(6)] + [0], "names": names, "bins": trefs, "linear": lin}
            data = encode_with_model(ctx, "tbi", d, tail)
            expect = indexlib.spec_decode_tbi(data)
            p = indexlib.write_gz(pathlib.Path(work) / f"syn{k}.tbi", data)
            compare(ctx, "tbi", data, p, "synthesised by the Lean serialiser", expect, nontrivial=nref > 0)


def malformed(ctx, ik, data, work):
    """truncations, trailing garbage, wrong magic, cross kind: model and code must reject alike;
    a non-index must raise ValueError"""
    rng = ctx.rng
    p = pathlib.Path(work) / f"bad.{ik}"
    cuts = list(range(0, min(len(data), 120))) + [rng.randrange(len(data)) for _ in range(40 if ctx.thorough else 15)]
    for c in cuts:
        d = data[:c]
        indexlib.write_gz(p, d)
        real = compare(ctx, ik, d, p, f"truncated to {c} bytes", nontrivial=c % 7 == 0)
        if c >= 4 and "error" not in real and c < len(data) - 8:
            # parsed a strict prefix as a complete index: only legitimate if the prefix is itself complete
            pass
    for extra in (b"\x00", b"garbage!!"):
        d = data + extra
        indexlib.write_gz(p, d)
        real = compare(ctx, ik, d, p, f"{len(extra)} trailing garbage bytes")
        if "error" not in real:
            ctx.violate(f"{ik}: trailing garbage after the index was ignored", {"kind": ik, "extra": extra.hex()}, "error", "parsed")
    other = b"TBI\x01" if ik == "csi" else b"CSI\x01"
    for label, d in (("wrong magic", b"XYZ\x01" + data[4:]), ("magic of the other kind", other + data[4:]),
                     ("a gzipped text file", b"##fileformat=VCFv4.3\n")):
        indexlib.write_gz(p, d)
        real = compare(ctx, ik, d, p, label)
        if real != {"error": "ValueError"}:
            ctx.violate(f"{ik}: {label} not rejected with ValueError but {real if 'error' in real else 'parsed'}",
                        {"kind": ik, "label": label}, "ValueError", str(real)[:100])


def arithmetic_grid(ctx):
    """extractor cross-check + model tie: the Python originals vs the Lean model on a grid"""
    from bio2zarr import vcf_utils
    import types
    reqs, exp = [], []
    for ms in (0, 9, 14, 20):
        for depth in (0, 1, 2, 5, 6):
            limit = vcf_utils.bin_limit(ms, depth)
            bins = sorted(set([0, 1, 8, 9, 72, 73, 584, 585, 4680, 4681, 37448, limit - 1] +
                              [ctx.rng.randrange(0, limit) for _ in range(12)]))
            csi = types.SimpleNamespace(min_shift=ms, depth=depth)
            for b in bins:
                if b >= limit or b < 0:
                    continue
                reqs.append({"op": "bin.arith", "min_shift": ms, "depth": depth, "bin": b})
                exp.append([limit, vcf_utils.get_level_for_bin(csi, b), vcf_utils.get_first_locus_in_bin(csi, b)])
    if ctx.driver_ok:
        got = ctx.driver.ask_many(reqs)
        for q, g, e in zip(reqs, got, exp):
            ctx.case(("arith", q["min_shift"], q["depth"], q["bin"]), True)
            if g != e:
                ctx.disagree("bin arithmetic differs from the model", q, g, e)
    # statement-level: bins of each level tile the coordinate space, first locus strictly increasing
    for ms, depth in ((14, 5), (9, 3), (12, 6)):
        csi = types.SimpleNamespace(min_shift=ms, depth=depth)
        for level in range(depth + 1):
            first = vcf_utils.get_first_bin_in_level(level)
            nb = min(vcf_utils.get_level_size(level), 50)
            loci = [vcf_utils.get_first_locus_in_bin(csi, first + i) for i in range(nb)]
            width = (1 << (ms + 3 * depth)) >> (3 * level)
            if loci != [i * width + 1 for i in range(nb)]:
                ctx.violate(f"first loci of level {level} (min_shift {ms}, depth {depth}) do not tile: {loci[:5]}",
                            {"min_shift": ms, "depth": depth, "level": level}, [i * width + 1 for i in range(nb)][:5], loci[:5])
            # reg2bin of a bin's own span returns the bin
            for i in (0, nb - 1):
                b = indexlib.reg2bin(loci[i] - 1, loci[i] - 1 + width, ms, depth)
                if b != first + i:
                    ctx.violate(f"reg2bin of bin {first+i}'s own span is {b}", {"min_shift": ms, "depth": depth}, first + i, b)
    for v in (0, 1, 65535, 65536, (123456789 << 16) | 77, (2**48 - 1) << 16 | 65535, 2**64 - 1):
        if vcf_utils.get_file_offset(v) != (v >> 16) % 2**48:
            ctx.violate(f"get_file_offset({v})", {"vfp": v}, (v >> 16) % 2**48, vcf_utils.get_file_offset(v))


def run(ctx):
    work = common.scratch_dir("c09-")
    try:
        arithmetic_grid(ctx)
        htslib_cases(ctx, work)
        synthetic_cases(ctx, work)
    finally:
        shutil.rmtree(work, ignore_errors=True)


def replay(ctx, payload):
    v = payload.get("violation") or (payload.get("disagreements") or [{}])[0]
    i = v["input"]
    work = common.scratch_dir("c09-")
    try:
        if "index_hex" in i and not i["index_hex"].endswith("..."):
            data = bytes.fromhex(i["index_hex"])
            p = indexlib.write_gz(pathlib.Path(work) / f"r.{i['kind']}", data)
            try:
                expect = indexlib.spec_decode_csi(data) if i["kind"] == "csi" else indexlib.spec_decode_tbi(data)
            except Exception:  # noqa: BLE001
                expect = None
            compare(ctx, i["kind"], data, p, "replay", expect)
        else:
            print("replay needs the generated file: rerun with the same VERIF_SEED;", str(i)[:300])
    finally:
        shutil.rmtree(work, ignore_errors=True)
    print("replay:", "violation reproduced" if ctx.violations else "no violation on this input")
