"""C16 — PLINK conversion reproduces the bed/bim/fam contents."""
import pathlib
import shutil

import numpy as np

import common

ID = "C16"
LEAN_MODULES = ["B2Z.Props.C16"]
THEOREMS = [
    "B2Z.Plink.C16_bed_roundtrip", "B2Z.Plink.C16_call_encoding", "B2Z.Plink.C16_mask_phased",
    "B2Z.Plink.buffer_run_spec", "B2Z.Plink.buffer_run_aligned", "B2Z.Plink.C16_convert_refines_spec",
    "B2Z.Plink.C16_call_injective", "B2Z.Plink.C16_rows_injective", "B2Z.Plink.C16_encodeRow_bytes",
]
GEN_DEPENDS = ["Partitions."]
ASSUMPTIONS = [
    "bed_reader decodes the .bed bit layout as modelled (count_A1=False: 0/1/2/-127) — validated on every run against an independent bit-level writer",
    "zarr writes of disjoint chunk-aligned row blocks do not disturb each other (atomic per chunk file)",
    "worker pool executes every submitted slice exactly once (C14)",
]
RULE = ("random filesets from an independent .bed/.bim/.fam writer: samples 1..13 (all residues mod 4), variants 1..40, "
        "random padding bits, chunk sizes 1..n+1, workers 0..; non-trivial = more than one slice or more than one byte per row")
LEVEL_TEXT = ("Lean: the .bed layout round-trips for every sample count and padding (C16_bed_roundtrip); the dosage→pair "
              "mapping is the documented one (C16_call_encoding, C16_mask_phased); the chunk-buffered writes of every slice, "
              "executed in ANY order, leave row i = encoding of variant i (C16_convert_refines_spec, using the C11 slice "
              "cover and the buffered-array lemmas). Tied to plink.convert by converting generated filesets with the real "
              "code (bed_reader inside) and comparing every array with the model and with a direct decoding.")
LEVEL_NOTE = "Trusted: Lean kernel + standard axioms; bed_reader/zarr behaviour is modelled and validated by correspondence only."
TECHNIQUE = "Lean 4 theorems (bit-layout round trip, buffered-write refinement) + differential correspondence on generated filesets"

CALLS = {0: [0, 0], 1: [-1, -1], 2: [1, 0], 3: [1, 1]}


def write_fileset(prefix, codes, rng, positions, alleles, samples):
    """codes[v][s] in 0..3; own bit-level writer, random padding bits"""
    m, n = len(codes), len(samples)
    data = bytearray([0x6C, 0x1B, 0x01])
    for row in codes:
        for b in range(0, n, 4):
            byte = 0
            grp = row[b:b + 4]
            for k, c in enumerate(grp):
                byte |= c << (2 * k)
            for k in range(len(grp), 4):
                byte |= rng.randrange(4) << (2 * k)
            data.append(byte)
    pathlib.Path(str(prefix) + ".bed").write_bytes(bytes(data))
    with open(str(prefix) + ".bim", "w") as f:
        chrom = 1
        for v in range(m):
            if v and positions[v] < positions[v - 1]:
                chrom += 1                      # coordinates start again: next chromosome
            f.write(f"{chrom}\tv{v}\t0\t{positions[v]}\t{alleles[v][0]}\t{alleles[v][1]}\n")
    with open(str(prefix) + ".fam", "w") as f:
        for s in samples:
            f.write(f"fam {s} 0 0 0 -9\n")


def gen_fileset(rng, big=False):
    n = rng.choice(list(range(1, 14)) + ([17, 33] if big else []))
    m = rng.choice([1, 2, 3, 5, 8, 13, 21, 40] + ([120] if big else []))
    weights = rng.choice([[1, 1, 1, 1], [6, 1, 2, 1], [1, 0, 0, 0], [0, 1, 0, 0], [1, 3, 3, 1]])
    codes = [[rng.choices([0, 1, 2, 3], weights)[0] for _ in range(n)] for _ in range(m)]
    # one to three chromosomes, each sorted; coordinate ranges differ (a late chromosome may be much shorter: chrM)
    cuts = sorted(rng.sample(range(1, m), min(m - 1, rng.choice([0, 0, 1, 2])))) if m > 1 else []
    pos, a = [], 0
    for b in cuts + [m]:
        hi = rng.choice([100, 30_000, 10**6, 2**31 - 2])
        pos += sorted(rng.randrange(1, hi) for _ in range(b - a))
        a = b
    alleles = [rng.sample(["A", "C", "G", "T", "AT", "GCC"], 2) for _ in range(m)]
    samples = [f"s{j}" for j in range(n)]
    return codes, pos, alleles, samples


def one_case(ctx, codes, pos, alleles, samples, vcs, scs, workers, work, rng, label="generated"):
    import zarr
    from bio2zarr import core, plink
    m, n = len(codes), len(samples)
    prefix = pathlib.Path(work) / "fs"
    write_fileset(prefix, codes, rng, pos, alleles, samples)
    out = pathlib.Path(work) / "out.zarr"
    shutil.rmtree(out, ignore_errors=True)
    inp = {"codes": codes, "positions": pos, "alleles": alleles, "samples": samples,
           "variants_chunk_size": vcs, "samples_chunk_size": scs, "worker_processes": workers}
    try:
        plink.convert(str(prefix) + ".bed", out, worker_processes=workers, variants_chunk_size=vcs,
                      samples_chunk_size=scs)
        root = zarr.open(str(out), mode="r")
        got = {
            "gt": root["call_genotype"][:].tolist(),
            "mask": root["call_genotype_mask"][:].tolist(),
            "phased": root["call_genotype_phased"][:].tolist(),
            "sample_id": [str(x) for x in root["sample_id"][:]],
            "position": [int(x) for x in root["variant_position"][:]],
            "allele": [[str(a) for a in row] for row in root["variant_allele"][:]],
            "consolidated": (out / ".zmetadata").exists(),
        }
    except Exception as e:  # noqa: BLE001
        got = f"exception {type(e).__name__}: {e}"
    spec = {
        "gt": [[CALLS[c] for c in row] for row in codes],
        "mask": [[[c == 1, c == 1] for c in row] for row in codes],
        "phased": [[False] * n for _ in codes],
        "sample_id": samples, "position": pos, "allele": [list(a) for a in alleles], "consolidated": True,
    }
    nslices = max(1, workers * 4)
    nontrivial = (m > (vcs or 10_000) or n > 4) and m > 1
    ctx.case((tuple(map(tuple, codes)), vcs, scs, workers), nontrivial)
    ctx.count(f"residue_{n % 4}")
    ctx.count(f"workers_{workers}")
    if ctx.driver_ok:
        cs = vcs or 10_000
        sl = ctx.driver.ask({"op": "part.slices", "n": m, "c": cs, "p": nslices})
        order = list(sl)
        rng.shuffle(order)
        model = ctx.driver.ask({"op": "plink.convert", "cs": cs, "rows": codes, "order": order})
        mgot = None
        if isinstance(got, dict):
            mgot = [{"gt": g, "mask": k, "phased": p} for g, k, p in zip(got["gt"], got["mask"], got["phased"])]
        if model != mgot:
            ctx.disagree("plink.convert genotype arrays differ from Model.Plink.convert", inp, model, mgot if mgot is not None else got)
        # the real slice list is the model's (C11 tie, repeated here because the proof uses it)
        z = common.zarr_like((m, max(1, n), 2), (cs, max(1, scs or n or 1), 2))
        real_sl = [[int(a), int(b)] for a, b in core.chunk_aligned_slices(z, nslices)]
        if real_sl != sl:
            ctx.disagree("chunk_aligned_slices differs from model", inp, sl, real_sl)
    if got != spec:
        where = "exception" if isinstance(got, str) else next(k for k in spec if got[k] != spec[k])
        ctx.violate(f"plink.convert({label}): '{where}' differs from the fileset contents", inp,
                    spec if isinstance(got, str) else spec[where], got if isinstance(got, str) else got[where])
    if nontrivial:
        ctx.sample({"samples": n, "variants": m, "variants_chunk_size": vcs, "workers": workers,
                    "first_row_codes": codes[0]}, limit=4)
    ctx.traces += 1
    shutil.rmtree(out, ignore_errors=True)


def run(ctx):
    work = common.scratch_dir("c16-")
    rng = ctx.rng
    try:
        n = 400 if ctx.thorough else 90
        if ctx.search_mode:
            n *= 2
        for k in range(n):
            codes, pos, alleles, samples = gen_fileset(rng, big=ctx.thorough)
            m = len(codes)
            vcs = rng.choice([None, 1, 2, 3, max(1, m // 2), m, m + 1])
            scs = rng.choice([None, 1, 2, len(samples), len(samples) + 1])
            # real worker processes are expensive (spawn): a few per run
            workers = 0
            if k % (10 if ctx.thorough else 30) == 0:
                workers = rng.choice([1, 2, 4])
            one_case(ctx, codes, pos, alleles, samples, vcs, scs, workers, work, rng)
    finally:
        shutil.rmtree(work, ignore_errors=True)


def replay(ctx, payload):
    v = payload.get("violation") or (payload.get("disagreements") or [{}])[0]
    i = v["input"]
    work = common.scratch_dir("c16-")
    try:
        one_case(ctx, i["codes"], i["positions"], [tuple(a) for a in i["alleles"]], i["samples"],
                 i["variants_chunk_size"], i["samples_chunk_size"], i["worker_processes"], work, ctx.rng, "replay")
    finally:
        shutil.rmtree(work, ignore_errors=True)
    print("replay:", "violation reproduced" if ctx.violations else "statement holds")
