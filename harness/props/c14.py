"""C14 — a failing or dying worker always surfaces as an error, never silent success."""
import concurrent.futures as cf
import concurrent.futures.process
import contextlib
import json
import os
import pathlib
import shutil
import signal
import subprocess
import sys
import time
import types

import common

ID = "C14"
LEAN_MODULES = ["B2Z.Props.C14"]
THEOREMS = [
    "B2Z.Sched.wait_error_of_bad", "B2Z.Sched.wait_ok_iff", "B2Z.Sched.wait_steps_bounded", "B2Z.Sched.wait_first_bad",
    "B2Z.Sched.pool_complete", "B2Z.Sched.pool_sound", "B2Z.Sched.pool_no_cancel",
    "B2Z.Sched.C14_failure_surfaces", "B2Z.Sched.C14_success_means_all_done", "B2Z.Sched.C14_error_kind",
    "B2Z.Sched.C14_runtime_error_means_death", "B2Z.Sched.C14_body_exception_propagates", "B2Z.Sched.C14_sync_executor",
    "B2Z.Sched.C14_exit_never_blocks_on_lost_lock", "B2Z.Sched.C14_death_reaches_exit_as_failure", "B2Z.Sched.C14_exit_success_path",
    "B2Z.Sched.C14_unrepaired_exit_hangs_counterexample", "B2Z.Sched.C14_worker_progress_update_bounded",
]
ASSUMPTIONS = [
    "concurrent.futures liveness/soundness: every submitted future appears exactly once in as_completed; ok only if the task returned; a dead worker breaks every unfinished future (hypotheses of the pool model, observed on real pools every run, not proved)",
    "'within bounded time' is proved only as a step bound of the decision logic; real hangs can only be observed (watchdog)",
    "PARTIAL: the OS / multiprocessing runtime is outside the model",
]
RULE = ("(a) every completion-event list over {ok, exc, broken, cancelled} up to length 5 (exhaustive) + random longer ones driven "
        "through the real wait_on_futures/__exit__ with real Future objects in a forced order; (b) real process pools with "
        "raise/die injected at every position for small n, workers 1..4; (c) explode/encode/plink with a failure injected "
        "inside the spawned worker. non-trivial = at least one non-ok event/outcome")
LEVEL_TEXT = ("Lean: for every task count, worker count, outcome assignment and completion schedule of the pool model, a raising "
              "or dying task makes the command end in an error (C14_failure_surfaces), success implies every task ran and "
              "returned (C14_success_means_all_done), the error is RuntimeError only after a death and a task's own exception "
              "otherwise, a body exception propagates, the synchronous executor likewise; wait_on_futures stops after at most n "
              "events; whenever a failure is being reported __exit__ performs no step that needs the lock of the shared progress "
              "counter, so a worker killed while holding it cannot make the command hang (C14_exit_never_blocks_on_lost_lock; "
              "F13 counterexample for the code before the repair). PARTIAL: liveness of concurrent.futures and absence of OS-level hangs are assumptions, exercised by "
              "real pools under a watchdog. The decision logic is tied exactly to core.wait_on_futures / __exit__ by driving "
              "them with real Future objects in forced orders.")
LEVEL_NOTE = "Trusted: Lean kernel + standard axioms; concurrent.futures semantics assumed (observed, not proved); time bound observed by watchdog only."
TECHNIQUE = "Lean 4 theorems over a scheduler/pool state machine (all schedules) + exact correspondence of wait_on_futures and fault-injected real pools"


@contextlib.contextmanager
def forced_order(order):
    orig = cf.as_completed

    def fake(fs, timeout=None):
        fs = set(fs)
        for f in order:
            assert f in fs
            yield f
    cf.as_completed = fake
    try:
        yield
    finally:
        cf.as_completed = orig


def make_future(kind):
    f = cf.Future()
    if kind == "ok":
        f.set_result(1)
    elif kind == "broken":
        f.set_exception(concurrent.futures.process.BrokenProcessPool("pool died"))
    elif kind == "cancelled":
        f.cancel()
        f.set_running_or_notify_cancel()
    elif kind == "pending":
        pass
    elif kind == "sysexit":       # a task (or a library it calls) ended in sys.exit(): a BaseException, not an Exception
        f.set_exception(SystemExit(BASE_CODES[kind]))
    elif kind == "kbint":
        f.set_exception(KeyboardInterrupt(BASE_CODES[kind]))
    else:
        f.set_exception(KeyError(kind))
    return f


BASE_CODES = {"sysexit": 101, "kbint": 102}      # identities of the BaseException failures in the model's event alphabet


def verdict_of(exc):
    if exc is None:
        return "ok"
    if isinstance(exc, SystemExit):
        return exc.code
    if isinstance(exc, KeyboardInterrupt) and exc.args:
        return exc.args[0]
    if isinstance(exc, KeyError):
        return exc.args[0]
    if isinstance(exc, cf.CancelledError):
        return "CancelledError"
    if isinstance(exc, RuntimeError):
        return "RuntimeError"
    return f"other:{type(exc).__name__}"


def unit_case(ctx, events, body):
    """events: list of 'ok' | int | 'broken' | 'cancelled'; body: None or int (exception raised in the with-body)"""
    if ctx.notes.get("unit_hangs", 0) >= 3:
        return          # three hangs are evidence enough; each costs a 10 s watchdog
    from bio2zarr import core
    futs = [make_future(e) for e in events]
    pending = [make_future("pending") for _ in range(2)]
    exc = None
    watchdog(10)
    try:
        with forced_order(futs):
            pwm = core.ParallelWorkManager(0)
            pwm.futures = set(futs) | set(pending)
            try:
                if body is None:
                    suppress = pwm.__exit__(None, None, None)
                else:
                    e = KeyError(body)
                    suppress = pwm.__exit__(KeyError, e, None)
                    if not suppress:
                        exc = e
            except BaseException as e:  # noqa: BLE001
                exc = e
            finally:
                # __exit__ may have raised before stopping the progress thread
                with pwm.completed_lock:
                    pwm.completed = True
    except Exception as e:  # noqa: BLE001
        exc = e
    finally:
        signal.alarm(0)
    got = verdict_of(exc)
    inp = {"events": events, "body_exception": body}
    if isinstance(exc, TimeoutError):
        ctx.notes["unit_hangs"] = ctx.notes.get("unit_hangs", 0) + 1
        ctx.case(("unit", tuple(events), body), True)
        ctx.violate(f"events {events} (two more futures still pending, as after a broken pool): the manager did not return within 10 s — it "
                    f"waits for futures that can no longer complete", inp, "error within bounded time", "hang")
        return
    nontrivial = body is not None or any(e != "ok" for e in events)
    ctx.case(("unit", tuple(events), body), nontrivial)
    if ctx.driver_ok:
        q = {"op": "sched.wait", "events": [BASE_CODES.get(e, e) for e in events]}
        if body is not None:
            q["body"] = body
        model = ctx.driver.ask(q)["verdict"]
        if model != got:
            ctx.disagree("ParallelWorkManager.__exit__ verdict differs from Model.Sched.managerExit", inp, model, got)
    # the statement: any failing event (met before success) must surface; success only if all ok
    bad = body is not None or any(e != "ok" for e in events)
    if bad and got == "ok":
        ctx.violate(f"events {events}, body exception {body}: command reported success", inp, "error", got)
    if not bad and got != "ok":
        ctx.violate(f"all futures ok but the manager raised {got}", inp, "ok", got)
    if got != "ok":
        # not part of the property (observed only): were the outstanding futures cancelled?
        ctx.count("pending_cancelled_after_error" if all(p.cancelled() for p in pending) else "pending_left_after_error")
    ctx.count(f"unit_{'bad' if bad else 'ok'}")


def watchdog(seconds):
    def handler(signum, frame):
        raise TimeoutError("watchdog: command did not finish in time")
    signal.signal(signal.SIGALRM, handler)
    signal.alarm(seconds)


def kill_descendants():
    """SIGKILL every process descended from this one that is a multiprocessing worker: a broken pool may leave workers behind
    (e.g. ones that ignore SIGTERM), and the interpreter would wait for them at exit"""
    me = os.getpid()
    kids = {}
    for d in os.listdir("/proc"):
        if d.isdigit():
            try:
                with open(f"/proc/{d}/stat") as f:
                    parts = f.read().rsplit(")", 1)[1].split()
                kids.setdefault(int(parts[1]), []).append(int(d))
            except Exception:  # noqa: BLE001
                pass
    todo, seen = [me], set()
    while todo:
        for c in kids.get(todo.pop(), []):
            if c not in seen:
                seen.add(c)
                todo.append(c)
    for pid in seen:
        try:
            with open(f"/proc/{pid}/cmdline", "rb") as f:
                cmd = f.read()
            if b"multiprocessing" in cmd and b"resource_tracker" not in cmd:
                os.kill(pid, signal.SIGKILL)
        except Exception:  # noqa: BLE001
            pass


def isolated_pool_case(ctx, outcomes, workers, work, consume_in_body, show=False):
    """a pool scenario in a fresh interpreter with its own process group: a fault that wedges process-wide state (a lock
    that a killed worker never releases — semaphores are shared across fork) must not take the rest of the check with it"""
    marker = pathlib.Path(work) / "markers_iso"
    shutil.rmtree(marker, ignore_errors=True)
    marker.mkdir()
    env = dict(os.environ)
    env["PYTHONPATH"] = f"{common.REPO}:{common.ROOT / 'harness'}"
    inp = {"outcomes": outcomes, "workers": workers, "results_consumed_in_body": consume_in_body, "progress_bar": show}
    bad = any(o != "ok" for o in outcomes)
    ctx.case(("pool-iso", tuple(outcomes), workers, consume_in_body, show), bad)
    ctx.count(f"pool_isolated_{'body' if consume_in_body else 'exit'}")
    proc = subprocess.Popen([sys.executable, str(common.ROOT / "harness" / "c14_poolcase.py"), json.dumps(outcomes), str(workers),
                             "1" if consume_in_body else "0", str(marker), "1" if show else "0"], env=env, stdout=subprocess.PIPE, stderr=subprocess.PIPE,
                            text=True, start_new_session=True)
    try:
        so, se = proc.communicate(timeout=60)
    except subprocess.TimeoutExpired:
        os.killpg(proc.pid, signal.SIGKILL)
        proc.communicate()
        ctx.violate(f"outcomes {outcomes} with {workers} workers, progress bar {'on' if show else 'off'}, results {'consumed in the body' if consume_in_body else 'awaited at exit'}: "
                    f"the command hung (> 60 s) instead of reporting the error", inp, "error within bounded time", "hang")
        return
    try:
        os.killpg(proc.pid, signal.SIGKILL)      # stray workers
    except Exception:  # noqa: BLE001
        pass
    line = next((l for l in so.splitlines() if l.startswith("RESULT ")), None)
    if line is None:
        raise common.Infra(f"pool case driver produced no result: {so[-200:]} {se[-400:]}")
    res = json.loads(line[7:])
    died = any(o in ("die", "dielock", "killidle") for o in outcomes)
    if bad and res["raised"] is None:
        missing = sorted(set(res.get("expected_done", [])) - set(res["done"]))
        ctx.violate(f"outcomes {outcomes} with {workers} workers: command reported success"
                    + (f" although tasks {missing} never ran" if missing else ""), inp, "error", res)
    elif died and res["raised"] not in ("RuntimeError", "BrokenProcessPool", "KeyError"):
        ctx.violate(f"outcomes {outcomes} with {workers} workers: a dead worker surfaced as {res['raised']}", inp, "RuntimeError", res)
    if not bad and (res["raised"] is not None or res["done"] != list(range(len(outcomes)))):
        ctx.violate(f"all tasks ok but the command raised {res['raised']} / ran {res['done']}", inp, "ok", res)


def exit_steps_case(ctx):
    """which shutdown steps __exit__ performs in the three situations, against Model.Sched.exitSteps"""
    from bio2zarr import core
    for body_raised, wait_raises in ((False, False), (True, False), (False, True)):
        pwm = core.ParallelWorkManager(0)
        with pwm.completed_lock:
            pwm.completed = True
        pwm.progress_thread.join()
        calls = []

        class Rec:
            def join(self, *a, **k):
                calls.append("join")
        pwm.progress_thread = Rec()
        pwm._update_progress = lambda: calls.append("read")
        pwm.progress_bar.close = lambda: calls.append("close")
        pwm.completed = False
        pwm.futures = {make_future(7)} if wait_raises else {make_future("ok")}
        try:
            if body_raised:
                pwm.__exit__(KeyError, KeyError(1), None)
            else:
                pwm.__exit__(None, None, None)
        except BaseException:  # noqa: BLE001
            pass
        real = {"joins_progress": "join" in calls, "reads_progress": "read" in calls, "closes_bar": "close" in calls,
                "sets_completed": bool(pwm.completed)}
        inp = {"body_raised": body_raised, "wait_raises": wait_raises}
        ctx.case(("exit_steps", body_raised, wait_raises), True)
        ctx.count("exit_steps")
        if ctx.driver_ok:
            m = ctx.driver.ask({"op": "sched.exit_steps", "body_raised": int(body_raised), "wait_raises": int(wait_raises)})
            if m != real:
                ctx.disagree("shutdown steps of ParallelWorkManager.__exit__ differ from Model.Sched.exitSteps", inp, m, real)


def pool_case(ctx, outcomes, workers, work, rng, delays=None, consume_in_body=False):
    """real ProcessPoolExecutor through ParallelWorkManager; `consume_in_body`: the with-body iterates
    results_as_completed (the scan pattern), so a failure is raised inside the body"""
    from bio2zarr import core
    import c14_tasks
    marker = pathlib.Path(work) / "markers"
    shutil.rmtree(marker, ignore_errors=True)
    marker.mkdir()
    exc = None
    t0 = time.time()
    watchdog(60)
    try:
        with core.ParallelWorkManager(workers) as pwm:
            for i, o in enumerate(outcomes):
                kind = o if o in ("ok", "die", "dielock", "sysexit", "kbint") else "raise"
                pwm.submit(c14_tasks.task, kind, o if kind == "raise" else i, str(marker),
                           delays[i] if delays else rng.choice([0, 0.01, 0.05]))
            if consume_in_body:
                list(pwm.results_as_completed())
    except BaseException as e:  # noqa: BLE001
        exc = e
    finally:
        signal.alarm(0)
    elapsed = time.time() - t0
    if any(o in ("die", "dielock") for o in outcomes):
        kill_descendants()
    got = verdict_of(exc)
    inp = {"outcomes": outcomes, "workers": workers, "results_consumed_in_body": consume_in_body}
    bad = any(o != "ok" for o in outcomes)
    ctx.case(("pool", tuple(outcomes), workers), bad)
    ctx.count(f"pool_w{workers}_{'bad' if bad else 'ok'}")
    if isinstance(exc, TimeoutError):
        ctx.violate(f"outcomes {outcomes} with {workers} workers (delays {delays}): command hung (> 60 s)", inp, "error within bounded time", "hang")
        try:   # best effort: do not leave the wedged pool's processes behind
            for pr in list(getattr(pwm.executor, "_processes", {}).values()):
                pr.kill()
        except Exception:  # noqa: BLE001
            pass
        return
    raised = {BASE_CODES.get(o, o) for o in outcomes if o not in ("ok", "die", "dielock")}
    died = "die" in outcomes or "dielock" in outcomes
    allowed = set(raised) | ({"RuntimeError", "other:BrokenProcessPool"} if died else set()) if bad else {"ok"}
    if died and not consume_in_body:
        allowed.discard("other:BrokenProcessPool")      # the exit path turns a dead worker into RuntimeError
    if workers == 0:
        # synchronous executor: first failing task in submission order (die would kill us: not generated)
        first = next((o for o in outcomes if o != "ok"), None)
        allowed = {first} if first is not None else {"ok"}
    if got not in allowed:
        ctx.violate(f"outcomes {outcomes} with {workers} workers: verdict {got}, allowed {sorted(map(str, allowed))}", inp,
                    sorted(map(str, allowed)), got)
    if got == "ok":
        done = {int(p.name.split("_")[1]) for p in marker.iterdir()}
        if done != set(range(len(outcomes))):
            ctx.violate(f"success reported but tasks {sorted(set(range(len(outcomes))) - done)} never ran", inp, "all ran", sorted(done))
    if ctx.driver_ok:
        # the model under a few schedules must allow the observed verdict kind
        seen = set()
        for _ in range(12):
            sched = [rng.randrange(8) for _ in outcomes]
            r = ctx.driver.ask({"op": "sched.command", "outcomes": [BASE_CODES.get(o, "die" if o == "dielock" else o) for o in outcomes],
                                "w": workers, "sched": sched})
            seen.add(r["verdict"])
        if bad and "ok" in seen:
            ctx.disagree("model reports ok for a failing outcome list", inp, sorted(map(str, seen)), got)
    ctx.notes.setdefault("max_pool_elapsed", 0)
    ctx.notes["max_pool_elapsed"] = max(ctx.notes["max_pool_elapsed"], round(elapsed, 2))
    if bad:
        ctx.sample({"outcomes": outcomes, "workers": workers, "verdict": got, "elapsed_s": round(elapsed, 2)}, limit=4)


def pipeline_cases(ctx, work, rng):
    import vcfgen
    from props import c16
    spec = vcfgen.simple_file(rng, nrec=24, ncontig=2, samples=2, unused_contigs=False)
    vcf = vcfgen.materialise(spec, pathlib.Path(work) / "pipe", "vcf.gz+tbi", block_size=200)
    from bio2zarr import vcf2zarr
    icf = pathlib.Path(work) / "pipe.icf"
    vcf2zarr.explode(icf, [vcf], worker_processes=0)
    codes, pos, alleles, samples = c16.gen_fileset(rng)
    while len(codes) < 8:
        codes, pos, alleles, samples = c16.gen_fileset(rng)
    c16.write_fileset(pathlib.Path(work) / "fs", codes, rng, pos, alleles, samples)
    jobs = []
    for what, src in (("explode", str(vcf)), ("scan", str(vcf)), ("encode", str(icf)), ("plink", str(pathlib.Path(work) / "fs.bed"))):
        for mode in ("raise", "die", "die_locked"):
            workers = rng.choice([1, 2])
            if what == "plink":
                from bio2zarr import core
                sl = core.chunk_aligned_slices(common.zarr_like((len(codes),), (2,)), max(1, workers * 4))
                idx = int(rng.choice(sl)[0])     # the start row identifies the slice
            else:
                idx = rng.randrange(0, 1000)      # resolved modulo the number of partitions in the worker
            jobs.append((what, src, mode, idx, workers))
            if not ctx.thorough:
                continue
            jobs.append((what, src, mode, 0 if what != "plink" else 0, 3))
    # the one-shot convert (temporary intermediate store): a task of its explode or encode phase fails, also with an OSError
    for inner in ("explode", "encode"):
        for mode in (("raise", "oserror", "die") if ctx.thorough else ("oserror", rng.choice(["raise", "die"]))):
            jobs.append((f"convert:{inner}", str(vcf), mode, rng.randrange(0, 1000), rng.choice([1, 2])))
    for what, src, mode, idx, workers in jobs:
        out = pathlib.Path(work) / f"out_{what}_{mode}"
        shutil.rmtree(out, ignore_errors=True)
        env = dict(os.environ)
        env["B2Z_VERIF_INJECT"] = json.dumps({"target": what.split(":")[-1], "index": idx, "mode": mode})
        env["B2Z_VERIF_SHOW_PROGRESS"] = "1" if (len(str(idx)) + workers + len(mode)) % 2 else "0"
        env["PYTHONPATH"] = f"{common.ROOT / 'harness' / 'inject'}:{common.REPO}:{common.ROOT / 'harness'}"
        inp = {"command": what, "failure": mode, "task": idx, "workers": workers}
        ctx.case(("pipeline", what, mode, idx, workers), True)
        ctx.count(f"pipeline_{what}_{mode}")
        try:
            proc = subprocess.Popen([sys.executable, "-X", "faulthandler", str(common.ROOT / "harness" / "c14_pipeline.py"),
                                     "explode" if what == "scan" else what.split(":")[0],
                                     str(workers), src, str(out)],
                                    env=env, stdout=subprocess.PIPE, stderr=subprocess.PIPE, text=True, start_new_session=True)
            try:
                so, se = proc.communicate(timeout=60)
            except subprocess.TimeoutExpired:
                os.kill(proc.pid, signal.SIGABRT)         # faulthandler: where is the driving process stuck?
                time.sleep(1)
                os.killpg(proc.pid, signal.SIGKILL)       # the command and every worker it spawned
                so, se = proc.communicate()
                hang_trace = " | ".join(l.strip() for l in se.splitlines() if l.strip().startswith("File"))[-900:]
                hang_out = so[-200:]
                raise
            p = types.SimpleNamespace(stdout=so, stderr=se, returncode=proc.returncode)
        except subprocess.TimeoutExpired:
            ctx.violate(f"{what} with a worker that {mode}s in task {idx}: command hung (> 60 s)", inp, "error",
                        {"hang": hang_trace, "stdout": hang_out})
            continue
        line = next((l for l in p.stdout.splitlines() if l.startswith("RESULT ")), None)
        if line is None:
            raise common.Infra(f"pipeline driver produced no result: {p.stdout[-300:]} {p.stderr[-500:]}")
        res = json.loads(line[7:])
        if res["raised"] is None:
            ctx.violate(f"{what}: task {idx} {mode}s inside the worker but the command reported success", inp, "error", res)
        elif res["finished_marker"]:
            ctx.violate(f"{what}: command raised {res['raised']} but left a finished-looking output", inp, "no completion marker", res)
        elif what.startswith("convert"):
            pass        # (the removal of the temporary intermediate store may replace the task's error by its own OSError)
        elif mode in ("die", "die_locked") and res["raised"] not in (("RuntimeError",) if what != "scan" else ("RuntimeError", "BrokenProcessPool")):
            ctx.violate(f"{what}: dead worker surfaced as {res['raised']}, not RuntimeError", inp, "RuntimeError", res)
        ctx.sample({**inp, **res}, limit=6)
        shutil.rmtree(out, ignore_errors=True)


def run(ctx):
    import itertools
    rng = ctx.rng
    work = common.scratch_dir("c14-")
    try:
        alphabet = ["ok", 7, "broken", "cancelled", "sysexit"]
        maxlen = 5 if ctx.thorough else 4
        for n in range(0, maxlen + 1):
            for ev in itertools.product(alphabet, repeat=n):
                unit_case(ctx, list(ev), None)
        for _ in range(300 if ctx.thorough else 100):
            n = rng.randrange(1, 12)
            ev = [rng.choice(["ok"] * 6 + [rng.randrange(1, 9), "broken", "cancelled", "sysexit", "kbint"]) for _ in range(n)]
            unit_case(ctx, ev, rng.choice([None, None, None, rng.randrange(1, 9)]))
        ctx.exhaustive_unit = True
        # real pools
        pools = []
        nmax = 6 if ctx.thorough else 4
        for n in range(1, nmax + 1):
            for pos in range(n):
                for kind in ("die", 5, "sysexit", "kbint"):
                    o = ["ok"] * n
                    o[pos] = kind
                    pools.append((o, rng.choice([1, 2, 3, 4])))
        pools.append((["ok"] * 5, 2))
        pools.append((["ok", 3, "ok", "die", 4, "ok"], 2))
        pools.append(([3, "ok", 4], 0))
        pools.append((["ok", "ok", 6], 0))
        if not ctx.thorough:
            rng.shuffle(pools)
            pools = pools[:14] + [(["ok"] * 4, 2), (["ok", "ok", 6], 0), (["ok", "sysexit", "ok"], 2), (["ok", "ok", "kbint"], 1)]
        for o, w in pools:
            pool_case(ctx, o, w, work, rng)
        # a task raises while many are still queued, and shortly afterwards another worker dies: cancelled futures of a
        # broken pool are never notified, so anything that waits for *all* futures hangs
        for w in ((1, 2, 3) if ctx.thorough else (2,)):
            n = 4 * w + 4
            o = [5] + ["die"] + ["ok"] * (n - 2)
            d = [0.0, 0.4] + [0.8] * (n - 2)
            pool_case(ctx, o, w, work, rng, delays=d)
            o2 = ["ok", "die", 6] + ["ok"] * (n - 3)
            pool_case(ctx, o2, w, work, rng, delays=[0.3, 0.1, 0.0] + [0.5] * (n - 3))
        # a worker killed while it holds the lock of the shared progress counter (inside update_progress): both through
        # the exit path and with the results consumed inside the body (scan pattern)
        for w in ((1, 2, 4) if ctx.thorough else (2,)):
            for body in (False, True):
                for pos in ((0, 2, 5) if ctx.thorough else (1,)):
                    o = ["ok"] * 6
                    o[pos] = "dielock"
                    for show in (False, True):
                        isolated_pool_case(ctx, o, w, work, body, show)
        # a plain worker death with other workers alive: the driving process must not only raise, it must terminate
        for w in ((2, 3, 4) if ctx.thorough else (3,)):
            o = ["ok"] * 6
            o[1] = "die"
            isolated_pool_case(ctx, o, w, work, False)
        # an idle worker is killed between two bursts of submissions (slow producer)
        for w in ((1, 2, 4) if ctx.thorough else (2,)):
            isolated_pool_case(ctx, ["ok"] * (2 * w) + ["killidle"] + ["ok"] * 4, w, work, False)
            isolated_pool_case(ctx, ["ok"] * w + ["killidle"] + ["ok"] * 3, w, work, True)
        pool_case(ctx, ["ok", 4, "ok", "ok"], 2, work, rng, consume_in_body=True)
        pool_case(ctx, ["ok"] * 5, 2, work, rng, consume_in_body=True)
        exit_steps_case(ctx)
        pipeline_cases(ctx, work, rng)
        ctx.traces = ctx.evaluations
        kill_descendants()
    finally:
        shutil.rmtree(work, ignore_errors=True)


def replay(ctx, payload):
    v = payload.get("violation") or (payload.get("disagreements") or [{}])[0]
    i = v["input"]
    work = common.scratch_dir("c14-")
    try:
        if "events" in i:
            unit_case(ctx, i["events"], i["body_exception"])
        elif "outcomes" in i:
            pool_case(ctx, i["outcomes"], i["workers"], work, ctx.rng)
        else:
            print("pipeline replay: rerun the check with the same VERIF_SEED;", i)
    finally:
        shutil.rmtree(work, ignore_errors=True)
    print("replay:", "violation reproduced" if ctx.violations else "statement holds")
