"""C07 — concurrent partition tasks cannot interfere with one another."""
import itertools
import os
import pathlib
import re
import shutil
import subprocess
import sys

import common
import convlib
import fstrace
import protolib
import vcfgen

ID = "C07"
LEAN_MODULES = ["B2Z.Props.C07"]
THEOREMS = [
    "B2Z.Conc.mut_commute", "B2Z.Conc.C07_any_interleaving_eq_sequential", "B2Z.Conc.C07_any_order",
    "B2Z.Conc.C07_explode_footprint", "B2Z.Conc.C07_explode_tasks_disjoint", "B2Z.Conc.C07_explode_program_stable",
    "B2Z.Conc.C07_encode_footprint", "B2Z.Conc.C07_encode_tasks_disjoint", "B2Z.Conc.C07_plink_slices_disjoint",
]
ASSUMPTIONS = [
    "PARTIAL: the theorem is about atomic mutations on disjoint objects; races inside one POSIX call or inside zarr's directory creation (makedirs(exist_ok)) are outside the model — exercised only by the real concurrent runs",
    "the protocol models' task programs are the real tasks' mutation sequences (trace correspondence of C05 / C06)",
    "PLINK slices write only Zarr chunks of their own rows (chunk-aligned slices, C11) into arrays created before the tasks start",
]
RULE = ("traced footprints (paths created/written/renamed/deleted and paths read) of every partition task of generated "
        "conversions — explode, encode and PLINK slices — checked pairwise for disjointness and privacy; real concurrent runs of "
        "all partition tasks as separate OS processes (up to 8 at once, thorough 16) compared bytewise with the sequential run; "
        "non-trivial = conversion with >= 2 tasks")
LEVEL_TEXT = ("Lean: mutations with disjoint footprints commute; every interleaving (Merge) of any number of tasks whose mutations "
              "touch pairwise disjoint objects ends in the state of running them sequentially, in any order "
              "(C07_any_interleaving_eq_sequential, C07_any_order); the explode task of partition j touches only wip/p<j>.json and "
              "its private objects, the encode task only wip_p<j>/p<j>/stale_p<j> (C07_*_footprint, *_tasks_disjoint), and a task's "
              "program does not depend on what other tasks did (C07_explode_program_stable); PLINK slices write disjoint chunk "
              "keys (C07_plink_slices_disjoint). PARTIAL: intra-syscall races are outside the model. Tied to the code by traced "
              "real footprints (writes and reads) checked pairwise, and by real concurrent OS processes compared bytewise with "
              "the sequential result.")
LEVEL_NOTE = "Trusted: Lean kernel + standard axioms; POSIX op atomicity; the OS scheduler is exercised, not modelled."
TECHNIQUE = "Lean 4 commutation/interleaving theorem over disjoint footprints + traced real footprints + real concurrent process runs"


def footprint(root, fn):
    fstrace.start(root, reads=True)
    exc = None
    try:
        fn()
    except BaseException as e:  # noqa: BLE001
        exc = e
    reads = fstrace.reads_seen()
    ev = fstrace.stop()
    writes = set()
    for e in ev:
        for p in e[1:]:
            writes.add(p)
    return writes, reads, exc


def private_explode(j, path):
    return path == f"wip/p{j}.json" or re.match(rf"^(?!wip/).*/p{j}(/[^/]+)?$", path) is not None


def private_encode(j, path):
    return re.match(rf"^wip/partitions/(wip_p|p|stale_p){j}(/.*)?$", path) is not None


def check_footprints(ctx, kind, tasks, private, inp):
    """tasks: {j: (writes, reads)}"""
    for j, (w, r) in tasks.items():
        foreign = sorted(p for p in w if not private(j, p))
        if foreign:
            ctx.violate(f"{kind} task {j} writes outside its private paths: {foreign[:4]}", {**inp, "task": j}, "private paths only", foreign[:6])
    for (i, (wi, ri)), (j, (wj, rj)) in itertools.combinations(tasks.items(), 2):
        both = sorted(wi & wj)
        if both:
            ctx.violate(f"{kind} tasks {i} and {j} both write {both[:4]}", {**inp, "tasks": [i, j]}, "disjoint", both[:6])
        for a, b, ra, wb in ((i, j, ri, wj), (j, i, rj, wi)):
            rw = sorted(p for p in ra if p in wb or any(p.endswith("/") and q.startswith(p) for q in wb))
            if rw:
                ctx.violate(f"{kind} task {a} reads {rw[:3]} which task {b} writes", {**inp, "tasks": [a, b]}, "no read/write sharing", rw[:6])
    ctx.count(f"{kind}_footprints", len(tasks))


def concurrent(ctx, kind, path, jobs, extra=()):
    env = dict(os.environ)
    env["PYTHONPATH"] = f"{common.REPO}:{common.ROOT / 'harness'}"
    procs = [subprocess.Popen([sys.executable, str(common.ROOT / "harness" / "c07_task.py"), kind, str(path), str(j), *map(str, extra_j)],
                              env=env, stdout=subprocess.DEVNULL, stderr=subprocess.PIPE)
             for j, extra_j in jobs]
    errs = []
    for p in procs:
        try:
            _, err = p.communicate(timeout=300)
        except subprocess.TimeoutExpired:
            p.kill()
            errs.append("timeout")
            continue
        if p.returncode != 0:
            errs.append(err.decode()[-300:])
    return errs


def rerun_tasks(ctx, kind, n, seq, con, task, private, inp):
    """tasks that already completed are run again (retries): same footprint discipline, and running all the retries at
    once as OS processes must leave what the sequential retries leave"""
    tasks = {}
    for j in range(n):
        w, r, exc = footprint(seq, lambda j=j: task(j))
        if exc is not None:
            ctx.violate(f"{kind} partition {j} failed when run a second time: {exc!r}", inp, "ok", repr(exc))
            return False
        tasks[j] = (w, r)
    ctx.case((kind, "rerun", n, repr(sorted(inp.get("vcf_spec", {}).get("records", []), key=repr))[:200]), n >= 2)
    check_footprints(ctx, f"{kind} (re-run)", tasks, private, inp)
    for rnd in range(3 if ctx.thorough else 2):
        errs = concurrent(ctx, kind, con, [(j, ()) for j in range(n)])
        ctx.count(f"{kind}_concurrent_reruns")
        if errs:
            ctx.violate(f"{n} concurrent re-runs of completed {kind} partitions failed: {errs[0][-200:]}", inp, "all succeed", errs[0][-200:])
            return False
        a, b = protolib.snapshot(seq), protolib.snapshot(con)
        if a != b:
            bad = sorted(p for p in set(a) | set(b) if a.get(p) != b.get(p))[:5]
            ctx.violate(f"{n} concurrent re-runs of {kind} partitions leave a tree differing from the sequential one in {bad}", inp, "identical", bad)
            return False
    return True


def one_conversion(ctx, work, k):
    from bio2zarr import vcf2zarr
    rng = ctx.rng
    for _attempt in range(6):
        spec = vcfgen.rich_file(rng, nrec=rng.choice([12, 30, 60]), nsamples=rng.choice([0, 2, 3]), ncontig=rng.choice([1, 2]), ploidies=(2,))
        if len(spec["records"]) < 4:
            continue
        path = vcfgen.materialise(spec, pathlib.Path(work) / f"v{k}", "vcf.gz+tbi", block_size=300)
        from bio2zarr import vcf_utils
        iv = vcf_utils.IndexedVcf(path)
        nreg = len(list(iv.partition_into_regions(num_parts=8)))
        iv.vcf.close()
        if nreg >= 2:
            break
    else:
        return
    inp = {"vcf_spec": spec}
    # ---- explode: traced footprints, then a real concurrent run vs the sequential one
    icf_seq, icf_con = pathlib.Path(work) / f"seq{k}.icf", pathlib.Path(work) / f"con{k}.icf"
    target = rng.choice([2, 4, 8, 16 if ctx.thorough else 6])
    ccs = rng.choice([0.0003, 0.01])
    for p in (icf_seq, icf_con):
        shutil.rmtree(p, ignore_errors=True)
    s = vcf2zarr.explode_init(icf_seq, [path], target_num_partitions=target, column_chunk_size=ccs, worker_processes=0)
    vcf2zarr.explode_init(icf_con, [path], target_num_partitions=target, column_chunk_size=ccs, worker_processes=0)
    n = s.num_partitions
    tasks = {}
    for j in range(n):
        w, r, exc = footprint(icf_seq, lambda j=j: vcf2zarr.explode_partition(icf_seq, j))
        if exc is not None:
            ctx.violate(f"explode partition {j} failed: {exc!r}", inp, "ok", repr(exc))
            return
        tasks[j] = (w, r)
    ctx.case(("explode", k, n), n >= 2)
    check_footprints(ctx, "explode", tasks, private_explode, {**inp, "partitions": n})
    errs = concurrent(ctx, "explode", icf_con, [(j, ()) for j in range(n)])
    if errs:
        ctx.violate(f"concurrent explode partitions failed: {errs[0][:200]}", inp, "all succeed", errs[0][:200])
        return
    # every task once more, now that its own output (and everybody else's) already exists: a scheduler retry
    if not rerun_tasks(ctx, "explode", n, icf_seq, icf_con, lambda j: vcf2zarr.explode_partition(icf_seq, j), private_explode,
                       {**inp, "partitions": n}):
        return
    vcf2zarr.explode_finalise(icf_seq)
    vcf2zarr.explode_finalise(icf_con)
    a, b = protolib.snapshot(icf_seq), protolib.snapshot(icf_con)
    ctx.count("explode_concurrent_runs")
    if a != b:
        bad = sorted(p for p in set(a) | set(b) if a.get(p) != b.get(p))[:5]
        ctx.violate(f"{n} concurrent explode partitions give a store differing from the sequential one in {bad}", inp, "identical", bad)
    # ---- encode
    z_seq, z_con = pathlib.Path(work) / f"seq{k}.zarr", pathlib.Path(work) / f"con{k}.zarr"
    for p in (z_seq, z_con):
        shutil.rmtree(p, ignore_errors=True)
    vcs = rng.choice([1, 2, 3, 5])
    tp = rng.choice([2, 4, 8])
    s = vcf2zarr.encode_init(icf_seq, z_seq, target_num_partitions=tp, variants_chunk_size=vcs, samples_chunk_size=rng.choice([1, 2, 1000]))
    vcf2zarr.encode_init(icf_seq, z_con, target_num_partitions=tp, variants_chunk_size=vcs, samples_chunk_size=1000)
    shutil.rmtree(z_con)
    shutil.copytree(z_seq, z_con)
    # the wip metadata records the icf path only, so the copy is an equivalent initialised store
    n = s.num_partitions
    tasks = {}
    for j in range(n):
        w, r, exc = footprint(z_seq, lambda j=j: vcf2zarr.encode_partition(z_seq, j))
        if exc is not None:
            ctx.violate(f"encode partition {j} failed: {exc!r}", inp, "ok", repr(exc))
            return
        tasks[j] = (w, r)
    ctx.case(("encode", k, n, vcs), n >= 2)
    check_footprints(ctx, "encode", tasks, private_encode, {**inp, "partitions": n, "variants_chunk_size": vcs})
    errs = concurrent(ctx, "encode", z_con, [(j, ()) for j in range(n)])
    if errs:
        ctx.violate(f"concurrent encode partitions failed: {errs[0][:200]}", inp, "all succeed", errs[0][:200])
        return
    if not rerun_tasks(ctx, "encode", n, z_seq, z_con, lambda j: vcf2zarr.encode_partition(z_seq, j), private_encode,
                       {**inp, "partitions": n, "variants_chunk_size": vcs}):
        return
    vcf2zarr.encode_finalise(z_seq)
    vcf2zarr.encode_finalise(z_con)
    a, b = protolib.snapshot(z_seq), protolib.snapshot(z_con)
    ctx.count("encode_concurrent_runs")
    if a != b:
        bad = sorted(p for p in set(a) | set(b) if a.get(p) != b.get(p))[:5]
        ctx.violate(f"{n} concurrent encode partitions give a store differing from the sequential one in {bad}", inp, "identical", bad)
    ctx.sample({"records": len(spec["records"]), "explode_partitions": len(tasks), "encode_partitions": n,
                "example_encode_footprint": sorted(tasks[0][0])[:4]}, limit=3)
    for p in (icf_seq, icf_con, z_seq, z_con):
        shutil.rmtree(p, ignore_errors=True)


def plink_case(ctx, work, k):
    import zarr
    from bio2zarr import core, plink
    from props import c16
    rng = ctx.rng
    codes, pos, alleles, samples = c16.gen_fileset(rng)
    while len(codes) < 6:
        codes, pos, alleles, samples = c16.gen_fileset(rng)
    prefix = pathlib.Path(work) / f"pl{k}"
    c16.write_fileset(prefix, codes, rng, pos, alleles, samples)
    vcs = rng.choice([1, 2, 3])
    seq, con = pathlib.Path(work) / f"pl{k}_seq.zarr", pathlib.Path(work) / f"pl{k}_con.zarr"
    for p in (seq, con):
        shutil.rmtree(p, ignore_errors=True)
    plink.convert(str(prefix) + ".bed", seq, worker_processes=0, variants_chunk_size=vcs, samples_chunk_size=2)
    # concurrent: same layout, then every slice as its own process
    shutil.copytree(seq, con)
    root = zarr.open(str(con), mode="a")
    for name in ("call_genotype", "call_genotype_mask", "call_genotype_phased"):
        root[name][:] = 0 if name == "call_genotype" else False
    slices = core.chunk_aligned_slices(root["call_genotype"], rng.choice([2, 4, 8]))
    inp = {"codes": codes, "variants_chunk_size": vcs, "slices": [list(map(int, s)) for s in slices]}
    ctx.case(("plink", k, len(slices), vcs), len(slices) >= 2)
    tasks = {}
    tr = pathlib.Path(work) / f"pl{k}_tr.zarr"
    shutil.rmtree(tr, ignore_errors=True)
    shutil.copytree(con, tr)
    for (a, b) in slices:
        w, r, exc = footprint(tr, lambda a=a, b=b: plink.encode_genotypes_slice(str(prefix) + ".bed", tr, int(a), int(b)))
        tasks[int(a)] = ({TMPRE.sub("", p) for p in w}, r)
    for (i, (wi, _)), (j, (wj, _)) in itertools.combinations(tasks.items(), 2):
        both = sorted(wi & wj)
        if both:
            ctx.violate(f"PLINK slices starting at {i} and {j} both write {both[:4]}", inp, "disjoint chunks", both[:6])
    ctx.count("plink_footprints", len(tasks))
    errs = concurrent(ctx, "plink", con, [(int(a), (str(prefix) + ".bed", int(b))) for a, b in slices])
    if errs:
        ctx.violate(f"concurrent PLINK slices failed: {errs[0][:200]}", inp, "all succeed", errs[0][:200])
        return
    for name in ("call_genotype", "call_genotype_mask", "call_genotype_phased"):
        x, y = zarr.open(str(seq))[name][:], zarr.open(str(con))[name][:]
        if not (x == y).all():
            ctx.violate(f"{len(slices)} concurrent PLINK slices: {name} differs from the sequential conversion", inp, "identical", name)
    ctx.count("plink_concurrent_runs")
    for p in (seq, con, tr):
        shutil.rmtree(p, ignore_errors=True)


TMPRE = re.compile(r"\.[0-9a-f]{32}\.partial$")


def run(ctx):
    work = common.scratch_dir("c07-")
    try:
        for k in range(6 if ctx.thorough else 2):
            one_conversion(ctx, work, k)
            plink_case(ctx, work, k)
            ctx.traces += 1
    finally:
        shutil.rmtree(work, ignore_errors=True)


def replay(ctx, payload):
    print("replay: rerun `./check C07` with VERIF_SEED =", payload.get("seed"), "(task footprints come from traced runs of the generated input)")
